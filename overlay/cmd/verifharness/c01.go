//go:build verif

package main

import (
	"context"
	"fmt"
	"os"
	"path/filepath"
	"sort"
	"strings"
	"sync"
	"time"

	"github.com/sheerbytes/sheerbytes/internal/verifhook"
	vk "github.com/sheerbytes/sheerbytes/internal/verifkit"
)

func init() {
	register("c01", runC01)
	register("c03", runC03)
}

// xferCase is one library-level transfer case (C01/C03 share it).
type xferCase struct {
	ID     string     `json:"id"`
	Cfg    vk.XferCfg `json:"cfg"`
	Shape  string     `json:"shape"`
	Names  string     `json:"names"`
	TSeed  uint64     `json:"tree_seed"`
	Jitter int        `json:"jitter_us"`
	History string    `json:"history,omitempty"` // C03 resume histories
}

var chunkSizes = []uint32{1, 7, 64, 1000, 4096, 65536, 1 << 20}

func maxBytesFor(cs uint32) int64 {
	switch {
	case cs <= 7:
		return 600
	case cs <= 64:
		return 4000
	case cs <= 4096:
		return 64 << 10
	default:
		return 6 << 20
	}
}

// installJitter installs seeded delays at the chunk hooks so that which worker
// takes which chunk and the cross-stream arrival order vary between runs.
// (Hooks are process-global; cases that run concurrently share them.)
func installJitter(seed uint64, maxUs int) {
	if maxUs <= 0 {
		verifhook.Set("send.chunk.beforeFrame", nil)
		verifhook.Set("recv.chunk.afterWrite", nil)
		return
	}
	fn := func(ev verifhook.Event) {
		r := vk.Mix(seed ^ ev.Seq ^ ev.A ^ (ev.B << 17))
		if r%3 == 0 {
			return
		}
		time.Sleep(time.Duration(r%uint64(maxUs)) * time.Microsecond)
	}
	verifhook.Set("send.chunk.beforeFrame", fn)
	verifhook.Set("recv.chunk.afterWrite", fn)
}

// arrivalRecorder collects the order of recv.chunk.afterMark events per file key.
type arrivalRecorder struct {
	mu    sync.Mutex
	byKey map[uint64][]uint32
}

func newArrivalRecorder() *arrivalRecorder {
	a := &arrivalRecorder{byKey: map[uint64][]uint32{}}
	verifhook.Set("recv.chunk.afterMark", func(ev verifhook.Event) {
		a.mu.Lock()
		if len(a.byKey[ev.A]) < 64 {
			a.byKey[ev.A] = append(a.byKey[ev.A], uint32(ev.B))
		}
		a.mu.Unlock()
	})
	return a
}

// orders returns the distinct arrival-order strings seen (files with >= 2 chunks).
func (a *arrivalRecorder) orders() map[string]int {
	a.mu.Lock()
	defer a.mu.Unlock()
	out := map[string]int{}
	for _, seq := range a.byKey {
		if len(seq) < 2 {
			continue
		}
		var sb strings.Builder
		for _, v := range seq {
			fmt.Fprintf(&sb, "%d,", v)
		}
		out[sb.String()]++
	}
	return out
}

func genXferCases(e *Env, n int, quicOnly bool) []xferCase {
	r := vk.NewRng(e.Seed ^ vk.HashStr(e.Prop+e.Tier))
	var cases []xferCase
	shapes := []string{"onefile", "manysmall", "nested", "fewchunks", "boundary", "zerolen", "dirsonly", "empty"}
	for i := 0; i < n; i++ {
		var c xferCase
		c.ID = fmt.Sprintf("%s-%05d", e.Prop, i)
		c.TSeed = r.U64()
		c.Shape = shapes[r.Intn(len(shapes))]
		c.Names = []string{"plain", "plain", "unicode", "dotdash", "backslash"}[r.Intn(5)]
		c.Cfg.ChunkSize = chunkSizes[r.Intn(len(chunkSizes))]
		c.Cfg.Streams = 1 + r.Intn(8)
		c.Cfg.Conns = 1
		tr := r.Intn(10)
		switch {
		case quicOnly || tr >= 3:
			c.Cfg.Transport = "quic"
			if r.Intn(3) == 0 {
				c.Cfg.Conns = 2 + r.Intn(3)
			}
		default:
			c.Cfg.Transport = "mock"
		}
		c.Cfg.Resume = r.Bool()
		c.Cfg.NoRootDir = r.Bool()
		c.Cfg.ScanPaths = r.Bool()
		if r.Intn(2) == 0 {
			c.Jitter = 50 + r.Intn(400)
		}
		cases = append(cases, c)
	}
	return cases
}

type xferOutcome struct {
	Case   xferCase
	Tree   vk.Tree
	Res    vk.XferResult
	Diff   []string
	Err    string
}

// runXferCase materialises the tree, runs the transfer and, on double success,
// compares digests.
func runXferCase(e *Env, lp *vk.ListenerPool, c xferCase, keep bool) xferOutcome {
	out := xferOutcome{Case: c}
	base := vk.TempDir(e.Work, "x-")
	if !keep {
		defer os.RemoveAll(base)
	}
	tree := vk.GenTree(c.TSeed, c.Shape, c.Names, int64(c.Cfg.ChunkSize), maxBytesFor(c.Cfg.ChunkSize))
	out.Tree = tree
	src := filepath.Join(base, "srcroot")
	if err := tree.Materialize(src); err != nil {
		out.Err = "materialize: " + err.Error()
		return out
	}
	outDir := filepath.Join(base, "out")
	if err := os.MkdirAll(outDir, 0755); err != nil {
		out.Err = err.Error()
		return out
	}
	cfg := c.Cfg
	cfg.SendDeco = &vk.Deco{}
	if inv := curInv; inv != nil && cfg.Resume {
		if m, _, _, prefix, err := vk.BuildManifest(cfg, src); err == nil {
			baseDir := outDir
			strip := ""
			if !cfg.NoRootDir {
				baseDir = filepath.Join(outDir, m.Root)
			}
			if cfg.ScanPaths {
				strip = filepath.Base(src) + "/"
			}
			_ = prefix
			inv.register(baseDir, tree, strip, m, c.ID)
			defer inv.unregister(baseDir)
		}
	}
	res := vk.RunTransfer(context.Background(), cfg, lp, src, outDir)
	out.Res = res
	if res.BothOK() {
		got, err := vk.Digest(outDir)
		if err != nil {
			out.Err = "digest: " + err.Error()
			return out
		}
		out.Diff = vk.DiffDigest(vk.ExpectedDigest(tree, res.Prefix), got)
	}
	return out
}

func caseSample(o xferOutcome) map[string]any {
	return map[string]any{"case": o.Case, "entries": len(o.Tree.Entries), "files": o.Tree.FileCount(),
		"max_chunks": o.Tree.MaxChunks(int64(o.Case.Cfg.ChunkSize)), "result": o.Res.Summary()}
}

func runC01(e *Env) {
	n := e.Pick(240, 4000)
	cases := genXferCases(e, n, false)
	lp, err := vk.NewListenerPool(16, 5*time.Second)
	if err != nil {
		e.R.Inconcl("listener pool: " + err.Error())
		e.R.Require(false, "no QUIC listeners")
		return
	}
	defer lp.Close()
	installJitter(e.Seed, 300)
	arr := newArrivalRecorder()
	defer verifhook.Reset()
	c05 := newSidecarInvariant(e)
	curInv = c05
	defer func() { curInv = nil }()

	e.R.Rule = "seeded cases over (transport mock|quic|multi-quic, tree shape, name class, chunk size, streams 1-8, conns 1-4, NoRootDir, Scan|ScanPaths+resolver, resume on/off) with jittered chunk hooks; a case is non-trivial when both endpoints returned nil and the tree has a file of >= 2 chunks; distinct by (transport, conns, shape, cs, streams, rootmode, scanmode, resume)"
	var mu sync.Mutex
	okByTransport := map[string]int{}
	vk.ParallelDo(len(cases), 16, func(i int) {
		c := cases[i]
		o := runXferCase(e, lp, c, false)
		e.R.Eval()
		if o.Err != "" || o.Res.SetupErr != nil {
			e.R.Inconcl(fmt.Sprintf("%s: %s %v", c.ID, o.Err, o.Res.SetupErr))
			return
		}
		if !o.Res.BothOK() {
			e.R.NoVerd()
			if o.Res.Hung {
				e.R.Count("no_verdict_hung")
			} else {
				e.R.Count("no_verdict_error")
			}
			return
		}
		mu.Lock()
		okByTransport[fmt.Sprintf("%s-c%d", c.Cfg.Transport, min(c.Cfg.Conns, 2))]++
		mu.Unlock()
		if o.Tree.MaxChunks(int64(c.Cfg.ChunkSize)) >= 2 {
			e.R.Distinct(c.Cfg.Key() + "/" + c.Shape)
		}
		e.R.Count("double_success")
		if len(o.Diff) > 0 {
			key := "digest-mismatch:" + c.Cfg.Transport + ":" + c.Shape
			e.R.Violate(key, fmt.Sprintf("both endpoints returned nil but the output tree differs from the source: %v", o.Diff), c, map[string]any{"diff": o.Diff, "tree": o.Tree})
		}
		e.R.Sample(caseSample(o))
	})
	orders := arr.orders()
	e.R.SetExtra("distinct_arrival_orders", len(orders))
	e.R.SetExtra("double_success_by_transport", okByTransport)
	e.R.SetExtra("hook_hits", verifhook.AllHits())
	c05.finish(e.R)
	for _, tr := range []string{"mock-c1", "quic-c1", "quic-c2"} {
		e.R.Require(okByTransport[tr] >= e.Pick(5, 50), fmt.Sprintf("too few double successes on %s: %d", tr, okByTransport[tr]))
	}
	e.R.Require(len(orders) >= 3, "fewer than 3 distinct chunk arrival orders observed")
}

// curInv is the in-process C05 monitor armed by the current command (if any).
var curInv *sidecarInvariant

func min(a, b int) int {
	if a < b {
		return a
	}
	return b
}

func sortedKeys(m map[string]int) []string {
	var k []string
	for s := range m {
		k = append(k, s)
	}
	sort.Strings(k)
	return k
}
