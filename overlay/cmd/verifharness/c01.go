//go:build verif

package main

import (
	"context"
	"fmt"
	"os"
	"path/filepath"
	"sort"
	"strings"
	"sync"
	"time"

	"github.com/sheerbytes/sheerbytes/internal/transfer"
	"github.com/sheerbytes/sheerbytes/internal/verifhook"
	vk "github.com/sheerbytes/sheerbytes/internal/verifkit"
)

func init() {
	register("c01", runC01)
	register("c03", runC03)
}

// xferCase is one library-level transfer case (C01/C03 share it).
type xferCase struct {
	ID     string     `json:"id"`
	Cfg    vk.XferCfg `json:"cfg"`
	Shape  string     `json:"shape"`
	Names  string     `json:"names"`
	TSeed  uint64     `json:"tree_seed"`
	Jitter int        `json:"jitter_us"`
	History string    `json:"history,omitempty"` // C03 resume histories
	// Preexist: the output directory already holds other content at some of the
	// manifest's file paths before the transfer: "" | longer | shorter | samelen
	// or the state of an interrupted earlier session (data file with exactly
	// the completed chunks + valid sidecar): leftover-samecs | leftover-samecount
	// | leftover-othercount (chunk size of that session vs this one)
	Preexist string `json:"preexist,omitempty"`
	// Selection: several hosted paths with the same base name (ScanPaths mode),
	// same relative paths and sizes but different bytes below each:
	// "" | dup2-unsorted | dup3-unsorted | dup2-sorted (argument order vs
	// lexical order of the absolute paths)
	Selection string `json:"selection,omitempty"`
}

var chunkSizes = []uint32{1, 7, 64, 1000, 4096, 65536, 1 << 20}

func maxBytesFor(cs uint32) int64 {
	switch {
	case cs <= 7:
		return 600
	case cs <= 64:
		return 4000
	case cs <= 4096:
		return 64 << 10
	default:
		return 6 << 20
	}
}

// installJitter installs seeded delays at the chunk hooks so that which worker
// takes which chunk and the cross-stream arrival order vary between runs.
// (Hooks are process-global; cases that run concurrently share them.)
func installJitter(seed uint64, maxUs int) {
	if maxUs <= 0 {
		verifhook.Set("send.chunk.beforeFrame", nil)
		verifhook.Set("recv.chunk.afterWrite", nil)
		return
	}
	fn := func(ev verifhook.Event) {
		r := vk.Mix(seed ^ ev.Seq ^ ev.A ^ (ev.B << 17))
		if r%3 == 0 {
			return
		}
		time.Sleep(time.Duration(r%uint64(maxUs)) * time.Microsecond)
	}
	verifhook.Set("send.chunk.beforeFrame", fn)
	verifhook.Set("recv.chunk.afterWrite", fn)
}

// arrivalRecorder collects the order of recv.chunk.afterMark events per file key.
type arrivalRecorder struct {
	mu    sync.Mutex
	byKey map[uint64][]uint32
}

func newArrivalRecorder() *arrivalRecorder {
	a := &arrivalRecorder{byKey: map[uint64][]uint32{}}
	verifhook.Set("recv.chunk.afterMark", func(ev verifhook.Event) {
		a.mu.Lock()
		if len(a.byKey[ev.A]) < 64 {
			a.byKey[ev.A] = append(a.byKey[ev.A], uint32(ev.B))
		}
		a.mu.Unlock()
	})
	return a
}

// orders returns the distinct arrival-order strings seen (files with >= 2 chunks).
func (a *arrivalRecorder) orders() map[string]int {
	a.mu.Lock()
	defer a.mu.Unlock()
	out := map[string]int{}
	for _, seq := range a.byKey {
		if len(seq) < 2 {
			continue
		}
		var sb strings.Builder
		for _, v := range seq {
			fmt.Fprintf(&sb, "%d,", v)
		}
		out[sb.String()]++
	}
	return out
}

func genXferCases(e *Env, n int, quicOnly bool) []xferCase {
	r := vk.NewRng(e.Seed ^ vk.HashStr(e.Prop+e.Tier))
	var cases []xferCase
	shapes := []string{"onefile", "manysmall", "nested", "fewchunks", "boundary", "zerolen", "dirsonly", "empty", "prefixnames", "linksiblings"}
	for i := 0; i < n; i++ {
		var c xferCase
		c.ID = fmt.Sprintf("%s-%05d", e.Prop, i)
		c.TSeed = r.U64()
		c.Shape = shapes[r.Intn(len(shapes))]
		c.Names = []string{"plain", "plain", "unicode", "dotdash", "backslash"}[r.Intn(5)]
		c.Cfg.ChunkSize = chunkSizes[r.Intn(len(chunkSizes))]
		c.Cfg.Streams = 1 + r.Intn(8)
		c.Cfg.Conns = 1
		tr := r.Intn(10)
		switch {
		case quicOnly || tr >= 3:
			c.Cfg.Transport = "quic"
			if r.Intn(3) == 0 {
				c.Cfg.Conns = 2 + r.Intn(3)
			}
		default:
			c.Cfg.Transport = "mock"
		}
		c.Cfg.Resume = r.Bool()
		c.Cfg.NoRootDir = r.Bool()
		c.Cfg.ScanPaths = r.Bool()
		if r.Intn(2) == 0 {
			c.Jitter = 50 + r.Intn(400)
		}
		if r.Intn(4) == 0 {
			c.Preexist = []string{"longer", "shorter", "samelen"}[r.Intn(3)]
		} else if r.Intn(6) == 0 {
			c.Preexist = []string{"leftover-samecs", "leftover-samecount", "leftover-samecount", "leftover-othercount"}[r.Intn(4)]
			c.Cfg.Resume = true
			if c.Cfg.ChunkSize < 7 {
				c.Cfg.ChunkSize = 7
			}
			if c.Shape == "dirsonly" || c.Shape == "empty" || c.Shape == "zerolen" {
				c.Shape = []string{"fewchunks", "boundary", "nested"}[r.Intn(3)]
			}
		}
		if r.Intn(12) == 0 && !strings.HasPrefix(c.Preexist, "leftover-") {
			c.Selection = []string{"dup2-unsorted", "dup3-unsorted", "dup2-sorted"}[r.Intn(3)]
			c.Cfg.ScanPaths = true
		}
		cases = append(cases, c)
	}
	return cases
}

type xferOutcome struct {
	Case   xferCase
	Tree   vk.Tree
	Res    vk.XferResult
	Diff   []string
	Err    string
	// leftover cases: files prepared / of those with a gap below a marked chunk
	LeftFiles, LeftGaps int
	// differences of the output directory when a transfer stopped without
	// double success (evidence for replays, not a verdict)
	StateAtStop []string
}

// runXferCase materialises the tree, runs the transfer and, on double success,
// compares digests.
func runXferCase(e *Env, lp *vk.ListenerPool, c xferCase, keep bool) xferOutcome {
	out := xferOutcome{Case: c}
	base := vk.TempDir(e.Work, "x-")
	if !keep {
		defer os.RemoveAll(base)
	}
	tree := vk.GenTree(c.TSeed, c.Shape, c.Names, int64(c.Cfg.ChunkSize), maxBytesFor(c.Cfg.ChunkSize))
	out.Tree = tree
	src := filepath.Join(base, "srcroot")
	if err := tree.Materialize(src); err != nil {
		out.Err = "materialize: " + err.Error()
		return out
	}
	outDir := filepath.Join(base, "out")
	if err := os.MkdirAll(outDir, 0755); err != nil {
		out.Err = err.Error()
		return out
	}
	cfg := c.Cfg
	cfg.SendDeco = &vk.Deco{}
	var expected map[string]vk.DigestEntry
	if c.Selection != "" {
		// the same relative paths and sizes below several roots named "x", with
		// different bytes; parents chosen so that the argument order differs
		// from (or equals) the lexical order of the absolute paths
		// "-distinct": the roots hold different trees (other names and sizes), not
		// the same paths with other bytes
		distinct := strings.HasSuffix(c.Selection, "-distinct")
		parents := map[string][]string{"dup2-unsorted": {"p2", "p1"}, "dup3-unsorted": {"p2", "p0", "p1"}, "dup2-sorted": {"p1", "p2"}}[strings.TrimSuffix(c.Selection, "-distinct")]
		rootPrefix := ""
		if !cfg.NoRootDir {
			rootPrefix = "selection/"
		}
		expected = map[string]vk.DigestEntry{}
		for k, par := range parents {
			tk := tree
			tk.Seed = tree.Seed ^ (uint64(k+1) * 0x9e3779b97f4a7c15)
			if distinct && k > 0 {
				tk = vk.GenTree(tk.Seed, c.Shape, c.Names, int64(c.Cfg.ChunkSize), maxBytesFor(c.Cfg.ChunkSize))
			}
			root := filepath.Join(base, par, "x")
			if err := tk.Materialize(root); err != nil {
				out.Err = "materialize: " + err.Error()
				return out
			}
			cfg.SrcList = append(cfg.SrcList, root)
			for p, d := range vk.ExpectedDigest(tk, fmt.Sprintf("%s%d_x/", rootPrefix, k+1)) {
				expected[p] = d
			}
		}
		src = cfg.SrcList[0]
	}
	if strings.HasPrefix(c.Preexist, "leftover-") {
		if c.Selection != "" {
			out.Err = "leftover and selection are not combined"
			return out
		}
		var lerr error
		out.LeftFiles, out.LeftGaps, lerr = synthLeftover(cfg, src, outDir, strings.TrimPrefix(c.Preexist, "leftover-"), c.TSeed)
		if lerr != nil {
			out.Err = "leftover: " + lerr.Error()
			return out
		}
	} else if c.Preexist != "" && c.Selection == "" {
		prepopulate(outDir, tree, cfg, src, c.Preexist, c.TSeed)
	}
	if inv := curInv; inv != nil && cfg.Resume && c.Selection == "" {
		if m, _, _, prefix, err := vk.BuildManifest(cfg, src); err == nil {
			baseDir := outDir
			strip := ""
			if !cfg.NoRootDir {
				baseDir = filepath.Join(outDir, m.Root)
			}
			if cfg.ScanPaths {
				strip = filepath.Base(src) + "/"
			}
			_ = prefix
			inv.register(baseDir, tree, strip, m, c.ID)
			defer inv.unregister(baseDir)
		}
	}
	res := vk.RunTransfer(context.Background(), cfg, lp, src, outDir)
	out.Res = res
	if res.BothOK() {
		got, err := vk.Digest(outDir)
		if err != nil {
			out.Err = "digest: " + err.Error()
			return out
		}
		if expected == nil {
			expected = vk.ExpectedDigest(tree, res.Prefix)
		}
		out.Diff = vk.DiffDigest(expected, got)
	}
	return out
}

// prepopulate writes foreign content (no resume metadata) at every second file
// path of the tree inside outDir, as left over from an earlier, different
// version of the tree.
func prepopulate(outDir string, tree vk.Tree, cfg vk.XferCfg, src, mode string, seed uint64) {
	_, _, _, prefix, err := vk.BuildManifest(cfg, src)
	if err != nil {
		return
	}
	rr := vk.NewRng(seed ^ 0xabc)
	k := 0
	for _, en := range tree.Entries {
		if en.Dir || en.Link != "" {
			continue
		}
		k++
		if k%2 == 0 {
			continue
		}
		p := filepath.Join(outDir, filepath.FromSlash(prefix+en.Rel))
		n := en.Size
		switch mode {
		case "longer":
			n = en.Size + 1 + int64(rr.Intn(300))
		case "shorter":
			n = en.Size / 2
		}
		_ = os.MkdirAll(filepath.Dir(p), 0755)
		_ = os.WriteFile(p, rr.Bytes(int(n)), 0644)
	}
}

func caseSample(o xferOutcome) map[string]any {
	return map[string]any{"case": o.Case, "entries": len(o.Tree.Entries), "files": o.Tree.FileCount(),
		"max_chunks": o.Tree.MaxChunks(int64(o.Case.Cfg.ChunkSize)), "result": o.Res.Summary()}
}

// bigFileCase transfers the tail of a sparse file just over 4 GiB (resumed
// state: every chunk below 4 GiB already marked and present) with the
// production chunk size, and compares the regions where an offset that wrapped
// at 32 bits would have read or written.
func bigFileCase(e *Env, lp *vk.ListenerPool, variant int) {
	const cs = 4 << 20
	size := int64(4)<<30 + 2*cs + 12345
	total := uint32((size + cs - 1) / cs)
	base := vk.TempDir(e.Work, "big-")
	defer os.RemoveAll(base)
	src := filepath.Join(base, "srcroot")
	_ = os.MkdirAll(src, 0755)
	srcFile := filepath.Join(src, "big.bin")
	mk := func(p string, withTail bool) error {
		f, err := os.Create(p)
		if err != nil {
			return err
		}
		defer f.Close()
		if err := f.Truncate(size); err != nil {
			return err
		}
		buf := make([]byte, cs)
		// distinctive first two chunks (a wrapped offset lands here) ...
		for i := int64(0); i < 2; i++ {
			vk.FillContent(77, "big.bin", i*cs, buf)
			if _, err := f.WriteAt(buf, i*cs); err != nil {
				return err
			}
		}
		if withTail {
			// ... and the three chunks at and beyond 4 GiB
			for i := int64(total) - 3; i < int64(total); i++ {
				n := int64(cs)
				if i*cs+n > size {
					n = size - i*cs
				}
				vk.FillContent(77, "big.bin", i*cs, buf[:n])
				if _, err := f.WriteAt(buf[:n], i*cs); err != nil {
					return err
				}
			}
		}
		return nil
	}
	if err := mk(srcFile, true); err != nil {
		e.R.Inconcl("bigfile: " + err.Error())
		return
	}
	cfg := vk.XferCfg{Transport: "quic", Conns: 1 + variant%2, Streams: 1 + variant%3, ChunkSize: cs, Resume: true, NoRootDir: true, ScanPaths: true, WatchdogMs: 60000}
	m, _, _, prefix, err := vk.BuildManifest(cfg, src)
	if err != nil || len(m.Items) < 2 {
		e.R.Inconcl("bigfile: scan failed")
		return
	}
	outDir := filepath.Join(base, "out")
	outFile := filepath.Join(outDir, filepath.FromSlash(prefix), "big.bin")
	_ = os.MkdirAll(filepath.Dir(outFile), 0755)
	if err := mk(outFile, false); err != nil {
		e.R.Inconcl("bigfile: " + err.Error())
		return
	}
	var item = m.Items[len(m.Items)-1]
	for _, it := range m.Items {
		if !it.IsDir {
			item = it
		}
	}
	sc, err := transfer.CreateSidecar(transfer.SidecarPath(outDir, "", transfer.VerifCoreSidecarID(item)), item.ID, size, cs)
	if err != nil {
		e.R.Inconcl("bigfile: sidecar: " + err.Error())
		return
	}
	for i := uint32(0); i < total-3; i++ {
		sc.MarkComplete(i)
	}
	if err := sc.Flush(); err != nil {
		e.R.Inconcl("bigfile: sidecar flush: " + err.Error())
		return
	}
	cfg.SendDeco = &vk.Deco{}
	res := vk.RunTransfer(context.Background(), cfg, lp, src, outDir)
	e.R.Eval()
	cs64 := int64(cs)
	caseSpec := map[string]any{"kind": "bigfile", "size": size, "cs": cs, "streams": cfg.Streams, "conns": cfg.Conns, "missing_chunks": []uint32{total - 3, total - 2, total - 1}}
	if !res.BothOK() {
		e.R.NoVerd()
		e.R.Count("bigfile_no_double_success")
		e.R.SetExtra("bigfile_last_result", res.Summary())
		return
	}
	e.R.Count("double_success")
	e.R.Count("bigfile_double_success")
	e.R.Distinct(fmt.Sprintf("bigfile/s%d/c%d", cfg.Streams, cfg.Conns))
	st, err := os.Stat(outFile)
	if err != nil || st.Size() != size {
		e.R.Violate("digest-mismatch:file-over-4GiB", fmt.Sprintf("both sides succeeded but the output size is %v (want %d)", st, size), caseSpec, nil)
		return
	}
	cmp := func(off, n int64) string {
		a := make([]byte, n)
		b := make([]byte, n)
		fa, _ := os.Open(srcFile)
		fb, _ := os.Open(outFile)
		defer fa.Close()
		defer fb.Close()
		_, _ = fa.ReadAt(a, off)
		_, _ = fb.ReadAt(b, off)
		for i := range a {
			if a[i] != b[i] {
				return fmt.Sprintf("first difference at byte offset %d", off+int64(i))
			}
		}
		return ""
	}
	for _, reg := range [][2]int64{{0, 3 * cs64}, {int64(total-4) * cs64, size - int64(total-4)*cs64}} {
		if d := cmp(reg[0], reg[1]); d != "" {
			e.R.Violate("digest-mismatch:file-over-4GiB", "both sides succeeded for a file of 4 GiB + 8 MiB + 12345 bytes but the output differs from the source: "+d, caseSpec, nil)
			return
		}
	}
	e.R.Sample(map[string]any{"case": caseSpec, "result": res.Summary()})
}

func runC01(e *Env) {
	n := e.Pick(1000, 6000)
	cases := genXferCases(e, n, false)
	lp, err := vk.NewListenerPool(16, 5*time.Second)
	if err != nil {
		e.R.Inconcl("listener pool: " + err.Error())
		e.R.Require(false, "no QUIC listeners")
		return
	}
	defer lp.Close()
	installJitter(e.Seed, 300)
	arr := newArrivalRecorder()
	defer verifhook.Reset()
	c05 := newSidecarInvariant(e)
	curInv = c05
	defer func() { curInv = nil }()

	e.R.Rule = "seeded cases over (transport mock|quic|multi-quic, tree shape, name class, chunk size, streams 1-8, conns 1-4, NoRootDir, Scan|ScanPaths+resolver, resume on/off) with jittered chunk hooks; a case is non-trivial when both endpoints returned nil and the tree has a file of >= 2 chunks; distinct by (transport, conns, shape, cs, streams, rootmode, scanmode, resume)"
	var mu sync.Mutex
	okByTransport := map[string]int{}
	vk.ParallelDo(len(cases), 16, func(i int) {
		c := cases[i]
		o := runXferCase(e, lp, c, false)
		e.R.Eval()
		if o.Err != "" || o.Res.SetupErr != nil {
			e.R.Inconcl(fmt.Sprintf("%s: %s %v", c.ID, o.Err, o.Res.SetupErr))
			return
		}
		if !o.Res.BothOK() {
			e.R.NoVerd()
			if o.Res.Hung {
				e.R.Count("no_verdict_hung")
			} else {
				e.R.Count("no_verdict_error")
			}
			return
		}
		mu.Lock()
		okByTransport[fmt.Sprintf("%s-c%d", c.Cfg.Transport, min(c.Cfg.Conns, 2))]++
		mu.Unlock()
		if o.Tree.MaxChunks(int64(c.Cfg.ChunkSize)) >= 2 {
			e.R.Distinct(c.Cfg.Key() + "/" + c.Shape + "/pre=" + c.Preexist + "/sel=" + c.Selection)
		}
		if c.Preexist != "" {
			e.R.Count("double_success_with_preexisting_output:" + c.Preexist)
		}
		if o.LeftGaps > 0 {
			e.R.Count("double_success_with_leftover_gap_bitmap:" + c.Preexist)
		}
		if c.Selection != "" && o.Tree.FileCount() > 0 {
			e.R.Count("double_success_with_selection:" + c.Selection)
		}
		e.R.Count("double_success")
		if len(o.Diff) > 0 {
			key := "digest-mismatch:" + c.Cfg.Transport + ":" + c.Shape
			if c.Preexist != "" {
				key = "digest-mismatch:preexisting-output-" + c.Preexist
			}
			if c.Selection != "" {
				key = "digest-mismatch:selection:" + c.Selection
			}
			e.R.Violate(key, fmt.Sprintf("both endpoints returned nil but the output tree differs from the source: %v", o.Diff), c, map[string]any{"diff": o.Diff, "tree": o.Tree})
		}
		e.R.Sample(caseSample(o))
	})
	for v := 0; v < e.Pick(2, 6); v++ {
		bigFileCase(e, lp, v)
	}
	orders := arr.orders()
	e.R.SetExtra("distinct_arrival_orders", len(orders))
	e.R.SetExtra("double_success_by_transport", okByTransport)
	e.R.SetExtra("hook_hits", verifhook.AllHits())
	c05.finish(e.R)
	runC01AfterInterruption(e)
	runNextToCancelled(e, lp, false)
	for _, tr := range []string{"mock-c1", "quic-c1", "quic-c2"} {
		e.R.Require(okByTransport[tr] >= e.Pick(5, 50), fmt.Sprintf("too few double successes on %s: %d", tr, okByTransport[tr]))
	}
	e.R.Require(len(orders) >= 3, "fewer than 3 distinct chunk arrival orders observed")
	for _, v := range []string{"leftover-samecs", "leftover-samecount", "leftover-othercount"} {
		e.R.Require(e.R.Counter("double_success_with_leftover_gap_bitmap:"+v) >= e.Pick(3, 20), "too few double successes over a leftover session state with a gap bitmap: "+v)
	}
	for _, v := range []string{"dup2-unsorted", "dup3-unsorted", "dup2-sorted"} {
		e.R.Require(e.R.Counter("double_success_with_selection:"+v) >= e.Pick(3, 20), "too few double successes with a selection of equal base names: "+v)
	}
}

// curInv is the in-process C05 monitor armed by the current command (if any).
var curInv *sidecarInvariant

func min(a, b int) int {
	if a < b {
		return a
	}
	return b
}

func sortedKeys(m map[string]int) []string {
	var k []string
	for s := range m {
		k = append(k, s)
	}
	sort.Strings(k)
	return k
}
