//go:build verif

package main

import (
	"fmt"
	"os"
	"path/filepath"
	"sync"

	vk "github.com/sheerbytes/sheerbytes/internal/verifkit"
)

// runC01AfterInterruption judges double successes whose output directory holds
// what a REAL interrupted run left behind (not a synthesized state): a receiver
// process is killed 1.2 s after it reached a point between receiving, writing
// and booking a chunk (the other readers go on and the 1 s flusher persists
// what is booked), then the same tree is fetched again with resume. Whether
// the second run succeeds is C04's subject; here only a run that both sides
// report as successful is judged, by the tree it leaves.
func runC01AfterInterruption(e *Env) {
	var wls []*killWorkload
	for _, w := range killWorkloads(e) {
		if w.Name == "k3files" || w.Name == "kgap" || (e.Thorough() && !w.GapOnly) {
			wls = append(wls, w)
		}
	}
	srcBase := vk.TempDir(e.Work, "c01hist-src-")
	defer os.RemoveAll(srcBase)
	type hcase struct {
		w    *killWorkload
		site string
		k    int
	}
	var cases []hcase
	for _, w := range wls {
		if err := w.Tree.Materialize(filepath.Join(srcBase, w.Name, "srcroot")); err != nil {
			e.R.Inconcl("c01 history: materialize: " + err.Error())
			return
		}
		ks := []int{1, 2, 3, 5, 8}
		if e.Thorough() {
			ks = []int{1, 2, 3, 4, 5, 6, 7, 8, 10, 12, 16, 20}
		}
		for _, site := range []string{"recv.chunk.afterWrite", "recv.chunk.afterMark"} {
			for _, k := range ks {
				cases = append(cases, hcase{w, site, k})
			}
		}
	}
	var mu sync.Mutex
	vk.ParallelDo(len(cases), 8, func(i int) {
		c := cases[i]
		src := filepath.Join(srcBase, c.w.Name, "srcroot")
		base := vk.TempDir(e.Work, "c01hist-")
		defer os.RemoveAll(base)
		outDir := filepath.Join(base, "out")
		spec := fmt.Sprintf("recv.chunk.afterMark=sleep(45);%s=delaykill(1200)@%d;x=log", c.site, c.k)
		cr, _ := runInterrupted(e, c.w, src, outDir, spec, 0)
		if cr.PortErr != "" {
			e.R.Inconcl("c01 history: " + cr.PortErr)
			return
		}
		if !(cr.Signaled && cr.Signal == "killed") {
			e.R.Count("history_kill_site_not_reached")
			return
		}
		cr2, sr2 := runInterrupted(e, c.w, src, outDir, "x=log", 0)
		if cr2.PortErr != "" {
			e.R.Inconcl("c01 history: " + cr2.PortErr)
			return
		}
		e.R.Eval()
		if cr2.ExitCode != 0 || sr2.Err != nil {
			e.R.NoVerd() // no double success: not this property's subject
			e.R.Count("resumed_run_after_interruption_did_not_succeed")
			return
		}
		got, err := vk.Digest(outDir)
		if err != nil {
			e.R.Inconcl("c01 history: digest: " + err.Error())
			return
		}
		e.R.Distinct(fmt.Sprintf("after-interrupted-run/%s/%s@%d", c.w.Name, c.site, c.k))
		diff := vk.DiffDigest(vk.ExpectedDigest(c.w.Tree, "srcroot/"), got)
		if len(diff) > 0 {
			mu.Lock()
			defer mu.Unlock()
			e.R.Violate("digest-mismatch:resumed-after-interrupted-run:"+c.site,
				fmt.Sprintf("both sides reported success for the run that resumed what a receiver killed at %s@%d had left, but the tree differs: %v", c.site, c.k, diff),
				map[string]any{"workload": c.w.Name, "site": c.site, "k": c.k, "hook_spec_of_killed_run": spec}, map[string]any{"diff": diff})
			return
		}
		e.R.Count("double_success_after_interrupted_run")
	})
	e.R.Require(e.R.Counter("double_success_after_interrupted_run") >= e.Pick(6, 20), fmt.Sprintf("only %d double successes over the leftovers of a really interrupted run", e.R.Counter("double_success_after_interrupted_run")))
}
