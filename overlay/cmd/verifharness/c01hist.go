//go:build verif

package main

import (
	"context"
	"fmt"
	"os"
	"path/filepath"
	"sync"
	"sync/atomic"
	"time"

	"github.com/sheerbytes/sheerbytes/internal/verifhook"
	vk "github.com/sheerbytes/sheerbytes/internal/verifkit"
)

// runC01AfterInterruption judges double successes whose output directory holds
// what a REAL interrupted run left behind (not a synthesized state): a receiver
// process is killed 1.2 s after it reached a point between receiving, writing
// and booking a chunk (the other readers go on and the 1 s flusher persists
// what is booked), then the same tree is fetched again with resume. Whether
// the second run succeeds is C04's subject; here only a run that both sides
// report as successful is judged, by the tree it leaves.
func runC01AfterInterruption(e *Env) {
	var wls []*killWorkload
	for _, w := range killWorkloads(e) {
		if w.Name == "k3files" || w.Name == "kgap" || (e.Thorough() && !w.GapOnly) {
			wls = append(wls, w)
		}
	}
	srcBase := vk.TempDir(e.Work, "c01hist-src-")
	defer os.RemoveAll(srcBase)
	type hcase struct {
		w    *killWorkload
		site string
		k    int
	}
	var cases []hcase
	for _, w := range wls {
		if err := w.Tree.Materialize(filepath.Join(srcBase, w.Name, "srcroot")); err != nil {
			e.R.Inconcl("c01 history: materialize: " + err.Error())
			return
		}
		ks := []int{1, 2, 3, 5, 8}
		if e.Thorough() {
			ks = []int{1, 2, 3, 4, 5, 6, 7, 8, 10, 12, 16, 20}
		}
		for _, site := range []string{"recv.chunk.afterWrite", "recv.chunk.afterMark"} {
			for _, k := range ks {
				cases = append(cases, hcase{w, site, k})
			}
		}
	}
	var mu sync.Mutex
	vk.ParallelDo(len(cases), 8, func(i int) {
		c := cases[i]
		src := filepath.Join(srcBase, c.w.Name, "srcroot")
		base := vk.TempDir(e.Work, "c01hist-")
		defer os.RemoveAll(base)
		outDir := filepath.Join(base, "out")
		spec := fmt.Sprintf("recv.chunk.afterMark=sleep(45);%s=delaykill(1200)@%d;x=log", c.site, c.k)
		cr, _ := runInterrupted(e, c.w, src, outDir, spec, 0)
		if cr.PortErr != "" {
			e.R.Inconcl("c01 history: " + cr.PortErr)
			return
		}
		if !(cr.Signaled && cr.Signal == "killed") {
			e.R.Count("history_kill_site_not_reached")
			return
		}
		cr2, sr2 := runInterrupted(e, c.w, src, outDir, "x=log", 0)
		if cr2.PortErr != "" {
			e.R.Inconcl("c01 history: " + cr2.PortErr)
			return
		}
		e.R.Eval()
		if cr2.ExitCode != 0 || sr2.Err != nil {
			e.R.NoVerd() // no double success: not this property's subject
			e.R.Count("resumed_run_after_interruption_did_not_succeed")
			return
		}
		got, err := vk.Digest(outDir)
		if err != nil {
			e.R.Inconcl("c01 history: digest: " + err.Error())
			return
		}
		e.R.Distinct(fmt.Sprintf("after-interrupted-run/%s/%s@%d", c.w.Name, c.site, c.k))
		diff := vk.DiffDigest(vk.ExpectedDigest(c.w.Tree, "srcroot/"), got)
		if len(diff) > 0 {
			mu.Lock()
			defer mu.Unlock()
			e.R.Violate("digest-mismatch:resumed-after-interrupted-run:"+c.site,
				fmt.Sprintf("both sides reported success for the run that resumed what a receiver killed at %s@%d had left, but the tree differs: %v", c.site, c.k, diff),
				map[string]any{"workload": c.w.Name, "site": c.site, "k": c.k, "hook_spec_of_killed_run": spec}, map[string]any{"diff": diff})
			return
		}
		e.R.Count("double_success_after_interrupted_run")
	})
	e.R.Require(e.R.Counter("double_success_after_interrupted_run") >= e.Pick(6, 20), fmt.Sprintf("only %d double successes over the leftovers of a really interrupted run", e.R.Counter("double_success_after_interrupted_run")))
}

// runNextToCancelled runs fault-free transfers in one process with transfers
// whose sender is cancelled while one of its reads is pending, all with the
// same chunk size (a host serves several receivers from one process; the chunk
// buffers and the read pool are process-wide).
//
// Steering: a cancelled sender's tree ends in a file of 1..8 bytes, so the read
// pool job of that chunk is recognisable by its length at
// send.readpool.beforeRead; the pool worker is held there for 60 ms and the
// sender's context is cancelled 5 ms into the hold - the read is abandoned
// while it is still pending and lands long after the sender has gone. Every
// sender of the family waits 3 ms per chunk - between the read and the checksum
// (send.chunk.afterRead, C01) or between the checksum and the frame
// (send.chunk.beforeFrame, C03) -, so whoever owns a chunk buffer at that
// moment most probably sits there.
//
// judgeFailures=false (C01): only double successes are judged, by their tree.
// judgeFailures=true (C03): a healthy transfer that fails is a violation too.
func runNextToCancelled(e *Env, lp *vk.ListenerPool, judgeFailures bool) {
	rounds := e.Pick(10, 60)
	r := vk.NewRng(vk.Mix(e.Seed ^ vk.HashStr("next-to-cancelled"+e.Tier)))
	var smu sync.Mutex
	slots := make([]*vk.Xfer, 8)
	var held, cancelled atomic.Int64
	verifhook.Set("send.readpool.beforeRead", func(ev verifhook.Event) {
		if ev.B < 1 || ev.B > 8 {
			return
		}
		smu.Lock()
		x := slots[ev.B-1]
		smu.Unlock()
		if x == nil || x.SendCancel == nil {
			return
		}
		held.Add(1)
		go func() {
			time.Sleep(5 * time.Millisecond)
			x.SendCancel()
			cancelled.Add(1)
		}()
		time.Sleep(60 * time.Millisecond)
	})
	// C03 holds the senders after the checksum (a stale read then shows as a
	// checksum mismatch at the receiver), C01 before it (the frame is then
	// consistent and only the tree tells)
	holdAt := "send.chunk.afterRead"
	if judgeFailures {
		holdAt = "send.chunk.beforeFrame"
	}
	verifhook.Set(holdAt, func(ev verifhook.Event) { time.Sleep(3 * time.Millisecond) })
	defer verifhook.Set("send.readpool.beforeRead", nil)
	defer verifhook.Set(holdAt, nil)

	type job struct {
		cancelSlot int // >= 0: a sender to cancel
		c          xferCase
	}
	var jobs []job
	for rd := 0; rd < rounds; rd++ {
		for k := 0; k < 3; k++ {
			jobs = append(jobs, job{cancelSlot: (rd*3 + k) % 8})
		}
		for v := 0; v < 10; v++ {
			c := xferCase{ID: fmt.Sprintf("pool-%02d-%02d", rd, v), Shape: "chunks:24:full", Names: "plain", TSeed: r.U64()}
			c.Cfg.Transport = []string{"quic", "mock"}[v%2]
			c.Cfg.Conns, c.Cfg.Streams, c.Cfg.Resume, c.Cfg.ChunkSize = 1, 1+r.Intn(4), true, 64
			c.Cfg.NoRootDir, c.Cfg.ScanPaths = true, true
			c.Cfg.WatchdogMs = 20000
			jobs = append(jobs, job{cancelSlot: -1, c: c})
		}
	}
	base := vk.TempDir(e.Work, "pool-")
	defer os.RemoveAll(base)
	vk.ParallelDo(len(jobs), 16, func(i int) {
		j := jobs[i]
		if j.cancelSlot >= 0 {
			// the sender that is going to be cancelled
			t := vk.Tree{Seed: vk.Mix(e.Seed + uint64(i)), Shape: "cancelled-sender", Names: "plain", Entries: []vk.Entry{
				{Rel: "f1.bin", Size: 64 * 40}, {Rel: "f2.bin", Size: int64(1 + j.cancelSlot)}}}
			d := filepath.Join(base, fmt.Sprintf("c%d", i))
			src := filepath.Join(d, "srcroot")
			if t.Materialize(src) != nil {
				return
			}
			cfg := vk.XferCfg{Transport: "mock", Conns: 1, Streams: 2, ChunkSize: 64, Resume: true, NoRootDir: true, ScanPaths: true, WatchdogMs: 8000}
			cfg.SendDeco = &vk.Deco{}
			k := j.cancelSlot
			cfg.OnConns = func(x *vk.Xfer) {
				smu.Lock()
				slots[k] = x
				smu.Unlock()
			}
			_ = vk.RunTransfer(context.Background(), cfg, lp, src, filepath.Join(d, "out"))
			smu.Lock()
			slots[k] = nil
			smu.Unlock()
			_ = os.RemoveAll(d)
			return
		}
		c := j.c
		o := runC03Case(e, lp, c)
		if o.Err != "" || o.Res.SetupErr != nil {
			e.R.Inconcl(fmt.Sprintf("%s: %s %v", c.ID, o.Err, o.Res.SetupErr))
			return
		}
		if !o.Res.BothOK() {
			if !judgeFailures {
				e.R.NoVerd() // not a double success: C03's subject
				return
			}
			e.R.Eval()
			if o.Res.Hung || o.Res.Inconclusive != "" {
				e.R.Inconcl(c.ID + ": a transfer next to cancelled ones stalled (" + o.Res.Inconclusive + ")")
				return
			}
			e.R.Violate("healthy-transfer-failed:error:next-to-cancelled-transfers-in-one-process",
				fmt.Sprintf("a fault-free transfer that ran next to senders cancelled with a read pending (same chunk size, one process) failed: send_err=%q recv_err=%q", errS(o.Res.SendErr), errS(o.Res.RecvErr)),
				c, map[string]any{"result": o.Res.Summary()})
			return
		}
		e.R.Eval()
		e.R.Distinct(fmt.Sprintf("next-to-cancelled/%s/s%d", c.Cfg.Transport, c.Cfg.Streams))
		if len(o.Diff) > 0 {
			key := "digest-mismatch:next-to-cancelled-transfers-in-one-process"
			if judgeFailures {
				key = "healthy-transfer-failed:unfaithful:next-to-cancelled-transfers-in-one-process"
			}
			e.R.Violate(key, fmt.Sprintf("both sides reported success for a fault-free transfer that ran next to senders cancelled with a read pending (same chunk size, one process), but the tree differs: %v", o.Diff),
				c, map[string]any{"diff": o.Diff})
			return
		}
		e.R.Count("double_success_next_to_cancelled_transfers")
	})
	e.R.SetExtra("read_pool_jobs_of_cancelled_senders_held", held.Load())
	e.R.SetExtra("senders_cancelled_with_a_read_pending", cancelled.Load())
	e.R.Require(cancelled.Load() >= int64(rounds), fmt.Sprintf("only %d senders were cancelled with a read pending", cancelled.Load()))
	e.R.Require(e.R.Counter("double_success_next_to_cancelled_transfers") >= rounds*5, fmt.Sprintf("only %d double successes next to cancelled transfers", e.R.Counter("double_success_next_to_cancelled_transfers")))
}
