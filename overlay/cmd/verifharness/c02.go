//go:build verif

package main

import (
	"bytes"
	"context"
	"fmt"
	"os"
	"path/filepath"
	"sort"
	"strings"
	"sync"
	"sync/atomic"
	"syscall"
	"time"

	"github.com/sheerbytes/sheerbytes/internal/transfer"
	"github.com/sheerbytes/sheerbytes/internal/verifhook"
	vk "github.com/sheerbytes/sheerbytes/internal/verifkit"
	"github.com/sheerbytes/sheerbytes/pkg/manifest"
)

func init() { register("c02", runC02) }

// c02Workload is one of the small recorded workloads whose byte positions are
// enumerated.
type c02Workload struct {
	Name  string
	Tree  vk.Tree
	Cfg   vk.XferCfg
	Stats []vk.StreamStat // max per-stream byte counts over the recording runs
	// OthersOnly (quick tier): only the non-positional fault family (source
	// changes, obstructed output paths) is generated for this workload
	OthersOnly bool
	// PairOnly: used only under the recvFinalizePair gate with late faults
	PairOnly bool
}

type c02Case struct {
	ID    string    `json:"id"`
	W     string    `json:"workload"`
	Fault *vk.Fault `json:"fault,omitempty"`
	Other string    `json:"other,omitempty"` // src-shrink@k | src-remove@k | obstruct-*
	Gate  string    `json:"gate"`
	Rep   int       `json:"rep"`
}

func c02Workloads() []*c02Workload {
	mk := func(name string, streams, conns int, entries ...vk.Entry) *c02Workload {
		t := vk.Tree{Seed: vk.HashStr(name), Shape: name, Names: "plain", Entries: entries}
		return &c02Workload{Name: name, Tree: t, Cfg: vk.XferCfg{Transport: "quic", Conns: conns, Streams: streams, ChunkSize: 16,
			Resume: true, NoRootDir: true, ScanPaths: true, WatchdogMs: 9000}}
	}
	return []*c02Workload{
		mk("w3files", 2, 1, vk.Entry{Rel: "a.bin", Size: 40}, vk.Entry{Rel: "b.bin", Size: 16}, vk.Entry{Rel: "c.bin", Size: 33}),
		mk("w1chunk", 1, 1, vk.Entry{Rel: "one.bin", Size: 10}),
		mk("wzero", 3, 1, vk.Entry{Rel: "x.bin", Size: 20}, vk.Entry{Rel: "z.bin", Size: 0}),
		mk("wmulti", 3, 2, vk.Entry{Rel: "m.bin", Size: 70}, vk.Entry{Rel: "n.bin", Size: 17}),
		// many one-chunk files and one larger file that is sent last: many
		// finalisations before the point at which the sender goes away
		mk("wmany", 3, 1, append(func() []vk.Entry {
			var es []vk.Entry
			for i := 0; i < 60; i++ {
				es = append(es, vk.Entry{Rel: fmt.Sprintf("s/%03d.bin", i), Size: 8})
			}
			return es
		}(), vk.Entry{Rel: "large.bin", Size: 16 * 40})...),
		// nothing but zero-length files: no chunk ever travels, every file is
		// acknowledged on the strength of its FileBegin/FileEnd alone
		mk("wzeros", 2, 1, vk.Entry{Rel: "e0.bin", Size: 0}, vk.Entry{Rel: "sub/e1.bin", Size: 0}),
		// directories of every kind: with a file below, empty, empty below an otherwise empty parent
		mk("wdirs", 2, 1, vk.Entry{Rel: "top.bin", Size: 20}, vk.Entry{Rel: "sub", Dir: true}, vk.Entry{Rel: "sub/f.bin", Size: 17},
			vk.Entry{Rel: "logs", Dir: true}, vk.Entry{Rel: "d1", Dir: true}, vk.Entry{Rel: "d1/d2", Dir: true}),
	}
}

var c02Kinds = []string{"close-sender", "abort-sender", "close-receiver", "abort-receiver", "cancel-sender", "cancel-receiver"}

func c02Action(kind string, x *vk.Xfer) {
	switch kind {
	case "close-sender":
		x.CloseSender()
	case "abort-sender":
		x.AbortSender()
	case "close-receiver":
		x.CloseReceiver()
	case "abort-receiver":
		x.AbortReceiver()
	case "cancel-sender":
		x.SendCancel()
	case "cancel-receiver":
		x.RecvCancel()
	case "silence-sender":
		x.SilenceSender()
	}
}

// decodeFileDones parses the receiver->sender control bytes seen by the sender.
func decodeFileDones(b []byte) (ok map[uint64]bool, n int) {
	ok = map[uint64]bool{}
	ms := vk.NewMemStream(b)
	for ms.Remaining() > 0 {
		typ, msg, err := transfer.VerifCoreReadControlMessage(ms)
		if err != nil {
			break
		}
		if typ == transfer.VerifTypeFileDone {
			fd := msg.(transfer.FileDone)
			ok[fd.StreamID] = fd.OK
			n++
		}
	}
	return ok, n
}

type c02Outcome struct {
	Case   c02Case
	Res    vk.XferResult
	Fired  bool
	Diff   []string
	Unconf []string // files without FileDone{ok} although the sender returned nil
	Setup  string
	RecvOK bool
	SendOK bool
	// HangState (hangs only): per file, what the sender put on the wire, what
	// the receiver acknowledged and what its sidecar records
	HangState []string
}

func runC02Case(e *Env, lp *vk.ListenerPool, w *c02Workload, c c02Case) c02Outcome {
	out := c02Outcome{Case: c}
	base := vk.TempDir(e.Work, "c02-")
	defer os.RemoveAll(base)
	src := filepath.Join(base, "srcroot")
	if err := w.Tree.Materialize(src); err != nil {
		out.Setup = err.Error()
		return out
	}
	outDir := filepath.Join(base, "out")
	_ = os.MkdirAll(outDir, 0755)
	cfg := w.Cfg
	var x *vk.Xfer
	deco := &vk.Deco{Record: true, RecordAll: true}
	if c.Fault != nil {
		f := *c.Fault
		deco.Fault = &f
		deco.Action = func(kind string) { c02Action(kind, x) }
	}
	cfg.SendDeco = deco
	var keyOf = map[string]uint64{}
	var idOf = map[string]string{}
	cfg.EditManifest = func(m *manifest.Manifest) {
		for _, it := range m.Items {
			if !it.IsDir {
				keyOf[it.RelPath] = transfer.VerifCoreFileKey(it)
				idOf[it.RelPath] = it.ID
			}
		}
	}
	otherFired := false
	cfg.OnConns = func(xx *vk.Xfer) {
		x = xx
		switch {
		case strings.HasPrefix(c.Other, "src-shrink@0"):
			shrinkFirstFile(src, w.Tree)
			otherFired = true
		case strings.HasPrefix(c.Other, "src-remove@0"):
			_ = os.Remove(filepath.Join(src, firstBigFile(w.Tree)))
			otherFired = true
		case c.Other == "obstruct-dir-for-file":
			_ = os.MkdirAll(filepath.Join(outDir, "srcroot", firstBigFile(w.Tree)), 0755)
			otherFired = true
		case c.Other == "obstruct-file-for-dir":
			_ = os.WriteFile(filepath.Join(outDir, "srcroot"), []byte("x"), 0644)
			otherFired = true
		}
	}
	// per-entry obstructions exist before the session starts (the receiver
	// creates the directories as soon as it has the manifest)
	switch {
	case strings.HasPrefix(c.Other, "obstruct-file-for-dir@"), strings.HasPrefix(c.Other, "obstruct-file-for-emptydir@"):
		// a regular file sits where a directory of the tree must be created
		rel := c.Other[strings.IndexByte(c.Other, '@')+1:]
		p := filepath.Join(outDir, "srcroot", filepath.FromSlash(rel))
		_ = os.MkdirAll(filepath.Dir(p), 0755)
		otherFired = os.WriteFile(p, []byte("x"), 0644) == nil
	case strings.HasPrefix(c.Other, "obstruct-devnull-link-for-file@"), strings.HasPrefix(c.Other, "obstruct-fifo-for-file@"):
		rel := c.Other[strings.IndexByte(c.Other, '@')+1:]
		p := filepath.Join(outDir, "srcroot", filepath.FromSlash(rel))
		_ = os.MkdirAll(filepath.Dir(p), 0755)
		if strings.HasPrefix(c.Other, "obstruct-fifo") {
			otherFired = syscall.Mkfifo(p, 0644) == nil
		} else {
			otherFired = os.Symlink("/dev/null", p) == nil
		}
	case strings.HasPrefix(c.Other, "obstruct-dir-for-file@"):
		rel := c.Other[strings.IndexByte(c.Other, '@')+1:]
		otherFired = os.MkdirAll(filepath.Join(outDir, "srcroot", filepath.FromSlash(rel)), 0755) == nil
	}
	res := vk.RunTransfer(context.Background(), cfg, lp, src, outDir)
	out.Res = res
	out.Fired = deco.Fired() || otherFired
	if res.SetupErr != nil {
		out.Setup = res.SetupErr.Error()
		return out
	}
	out.RecvOK = res.RecvReturned && res.RecvErr == nil
	out.SendOK = res.SendReturned && res.SendErr == nil
	if out.RecvOK || out.SendOK {
		got, err := vk.Digest(outDir)
		if err != nil {
			out.Setup = "digest: " + err.Error()
			return out
		}
		out.Diff = vk.DiffDigest(vk.ExpectedDigest(w.Tree, res.Prefix), got)
	}
	if res.Hung {
		frames := sentFrames(deco)
		dones, _ := decodeFileDones(deco.Recorded(0, "r"))
		ends := map[uint64]int{}
		begins := map[uint64]int{}
		ms := vk.NewMemStream(deco.Recorded(0, "w"))
		if _, err := transfer.VerifCoreReadControlHeader(ms); err == nil {
			for ms.Remaining() > 0 {
				typ, msg, err := transfer.VerifCoreReadControlMessage(ms)
				if err != nil {
					break
				}
				switch typ {
				case transfer.VerifTypeFileEnd:
					ends[msg.(transfer.FileEnd).StreamID]++
				case transfer.VerifTypeFileBegin:
					begins[msg.(transfer.FileBegin).StreamID]++
				}
			}
		}
		loaded, _, _ := snapshotSidecars(outDir)
		var rels []string
		for rel := range keyOf {
			rels = append(rels, rel)
		}
		sort.Strings(rels)
		for _, rel := range rels {
			k := keyOf[rel]
			ok, seen := dones[k]
			if seen && ok {
				continue // acknowledged
			}
			var sent []uint64
			for fk, n := range frames {
				if fk[0] == k {
					for j := 0; j < n; j++ {
						sent = append(sent, fk[1])
					}
				}
			}
			sort.Slice(sent, func(i, j int) bool { return sent[i] < sent[j] })
			st, _ := os.Stat(filepath.Join(outDir, filepath.FromSlash(rel)))
			sz := int64(-1)
			if st != nil {
				sz = st.Size()
			}
			line := fmt.Sprintf("%s key=%x: FileBegin sent %dx, frames sent for chunks %v, FileEnd sent %dx, FileDone seen=%v ok=%v, output size %d", rel, k, begins[k], sent, ends[k], seen, ok, sz)
			for _, sn := range loaded {
				if sn.FileID == idOf[rel] {
					line += fmt.Sprintf(", sidecar bits %v", sn.Bits)
				}
			}
			out.HangState = append(out.HangState, line)
		}
	}
	if dn, n := decodeFileDones(deco.Recorded(0, "r")); n > len(dn) {
		e.R.Count("receiver_acknowledged_one_file_twice")
	}
	if out.SendOK {
		dones, _ := decodeFileDones(deco.Recorded(0, "r"))
		for rel, k := range keyOf {
			if ok, seen := dones[k]; !seen || !ok {
				out.Unconf = append(out.Unconf, rel)
			}
		}
		sort.Strings(out.Unconf)
	}
	return out
}

func firstBigFile(t vk.Tree) string {
	for _, en := range t.Entries {
		if !en.Dir && en.Size > 16 {
			return en.Rel
		}
	}
	for _, en := range t.Entries {
		if !en.Dir {
			return en.Rel
		}
	}
	return ""
}

func shrinkFirstFile(src string, t vk.Tree) {
	_ = os.Truncate(filepath.Join(src, firstBigFile(t)), 5)
}

func c02FaultClass(c c02Case) string {
	if c.Fault != nil {
		return c.Fault.Kind
	}
	if i := strings.IndexByte(c.Other, '@'); i > 0 {
		return c.Other[:i]
	}
	return c.Other
}

// judgeC02 applies the three oracles.
func judgeC02(e *Env, o c02Outcome) {
	r := e.R
	c := o.Case
	cls := c02FaultClass(c)
	if o.Setup != "" {
		r.Inconcl(c.ID + ": " + o.Setup)
		return
	}
	if o.Res.Inconclusive != "" {
		r.Inconcl(fmt.Sprintf("%s (%s, %s, gate %s): %s", c.ID, c.W, cls, c.Gate, o.Res.Inconclusive))
		return
	}
	detail := map[string]any{"result": o.Res.Summary(), "fired": o.Fired, "diff": o.Diff, "unconfirmed": o.Unconf}
	if o.Res.Hung {
		if !canaryOK(e) {
			r.Inconcl(c.ID + ": watchdog fired but the canary failed too")
			return
		}
		detail["goroutines"] = o.Res.HangDump
		detail["unacknowledged_files_when_hung"] = o.HangState
		who := "both"
		if o.Res.SendStuck && !o.Res.RecvStuck {
			who = "sender"
		} else if o.Res.RecvStuck && !o.Res.SendStuck {
			who = "receiver"
		}
		r.Violate(cls+":hang:"+who, fmt.Sprintf("after fault %s the %s had not returned when the bounded-progress rule fired (no stream byte for half the %d ms window; canary ok)", cls, who, 9000), c, detail)
		return
	}
	if !o.Fired {
		r.Count("fault_not_reached")
	} else {
		r.Count("fault_fired")
		stream, dir := -1, ""
		if c.Fault != nil {
			stream, dir = c.Fault.Stream, c.Fault.Dir
			if stream > 1 {
				stream = 1
			}
		}
		fr, fld := 0, ""
		if c.Fault != nil {
			fr, fld = c.Fault.Frame, c.Fault.Field
		}
		r.Distinct(fmt.Sprintf("%s/%s/s%d%s/o%d/f%d%s/%s/gate=%s", c.W, cls, stream, dir, offOf(c), fr, fld, c.Other, c.Gate))
	}
	if o.RecvOK && len(o.Diff) > 0 {
		r.Violate(cls+":receiver-returns-nil-wrong-tree", fmt.Sprintf("receiver returned nil after fault %s but its tree is not the source tree: %v", cls, o.Diff), c, detail)
	}
	if o.SendOK && (len(o.Unconf) > 0 || len(o.Diff) > 0) {
		r.Violate(cls+":sender-returns-nil-unconfirmed", fmt.Sprintf("sender returned nil after fault %s although the receiver did not confirm %v (tree diff %v)", cls, o.Unconf, o.Diff), c, detail)
	}
	switch {
	case o.RecvOK && o.SendOK:
		r.Count("outcome_both_nil")
	case o.RecvOK:
		r.Count("outcome_recv_nil_send_err")
	case o.SendOK:
		r.Count("outcome_send_nil_recv_err")
	default:
		r.Count("outcome_both_err")
	}
}

func offOf(c c02Case) int64 {
	if c.Fault != nil {
		return c.Fault.Offset
	}
	return 0
}

func installGate(g string) {
	for _, n := range []string{"recv.main.done", "recv.main.control", "send.fileEnd.before", "recv.finalize.before", "recv.chunk.afterMark"} {
		verifhook.Set(n, nil)
	}
	switch g {
	case "recvDone250":
		verifhook.Set("recv.main.done", func(verifhook.Event) { time.Sleep(250 * time.Millisecond) })
	case "recvControl80":
		verifhook.Set("recv.main.control", func(verifhook.Event) { time.Sleep(80 * time.Millisecond) })
	case "sendFileEnd100":
		verifhook.Set("send.fileEnd.before", func(verifhook.Event) { time.Sleep(100 * time.Millisecond) })
	case "recvFinalize150":
		verifhook.Set("recv.finalize.before", func(verifhook.Event) { time.Sleep(150 * time.Millisecond) })
	case "recvAfterMark60":
		// one reader in three pauses right after it has booked a chunk while the
		// other streams go on (whatever the receiver has told the sender by then
		// must already be true on disk)
		verifhook.Set("recv.chunk.afterMark", func(ev verifhook.Event) {
			if vk.Mix(ev.Seq^ev.A)%2 == 0 {
				time.Sleep(80 * time.Millisecond)
			}
		})
	case "recvFinalizePair":
		// a spinning barrier per file: the first caller that wants to finalise a
		// file waits (running, up to 30 ms) for a second caller for the same
		// file - the reader that stored the last chunk and the main loop that
		// handles FileEnd - so that both enter the finalisation together
		// (control records are held for a moment so that FileEnd is handled
		// after the last chunk was stored, while its reader is at the barrier)
		verifhook.Set("recv.main.control", func(verifhook.Event) { time.Sleep(1 * time.Millisecond) })
		type rendezvous struct{ n atomic.Int32 }
		var mu sync.Mutex
		waiting := map[uint64]*rendezvous{}
		var salt atomic.Uint64
		verifhook.Set("recv.finalize.before", func(ev verifhook.Event) {
			mu.Lock()
			rv, second := waiting[ev.A]
			if second {
				delete(waiting, ev.A)
			} else {
				rv = &rendezvous{}
				waiting[ev.A] = rv
			}
			mu.Unlock()
			rv.n.Add(1)
			t0 := time.Now()
			for rv.n.Load() < 2 {
				if !second && time.Since(t0) > 12*time.Millisecond {
					mu.Lock()
					if waiting[ev.A] == rv {
						delete(waiting, ev.A)
					}
					mu.Unlock()
					return
				}
			}
			// both callers are running now; a few (0-63) more spins each sweep
			// their relative phase over the instructions that follow
			for k := vk.Mix(salt.Add(1)) % 64; k > 0; k-- {
				_ = rv.n.Load()
			}
		})
	}
}

func runC02(e *Env) {
	lp, err := vk.NewListenerPool(16, 3*time.Second)
	if err != nil {
		e.R.Inconcl("listener pool: " + err.Error())
		e.R.Require(false, "no QUIC listeners")
		return
	}
	defer lp.Close()
	defer verifhook.Reset()
	e.R.Rule = "recorded small workloads over real loopback QUIC (production options: resume, ScanPaths, NoRootDir); every enumerated byte position (stream, direction, offset) x fault kind {graceful close 0 / error close 1 by either side, context cancel of either side, silent loss sample, payload/CRC bit flips on data streams, source shrink/removal after the scan, obstructed output path}, repeated under hook gates that hold the receiver's main loop / the sender's FileEnd so that competing error paths race; a case counts when the decorator confirmed the fault fired and both sides returned (or the hang rule decided); distinct by (workload, kind, stream, direction, offset, gate)"

	step := int64(e.Pick(9, 1))
	wls := c02Workloads()
	if !e.Thorough() {
		all := wls
		wls = all[:3]
		for _, w := range all[3:] {
			if w.Name == "wdirs" {
				w.OthersOnly = true
				wls = append(wls, w)
			}
			if w.Name == "wzeros" {
				wls = append(wls, w)
			}
		}
	}
	for _, w := range c02Workloads() {
		if w.Name == "wmany" {
			found := false
			for _, x := range wls {
				if x.Name == w.Name {
					x.PairOnly = true
					found = true
				}
			}
			if !found {
				w.PairOnly = true
				wls = append(wls, w)
			}
		}
	}
	// The sender's root in ScanPaths mode is "."; a lookup that does not go
	// through the path resolver ends up below the working directory. Decoy
	// files with other bytes wait there under the names of the manifest, so
	// that a transfer that reads them instead of the hosted tree shows as
	// success with wrong content.
	if abs, err := filepath.Abs(e.Work); err == nil {
		for _, w := range wls {
			for _, en := range w.Tree.Entries {
				if en.Dir || en.Link != "" {
					continue
				}
				p := filepath.Join(abs, "srcroot", filepath.FromSlash(en.Rel))
				if st, err := os.Stat(p); err == nil && st.Size() >= en.Size+10 {
					continue
				}
				_ = os.MkdirAll(filepath.Dir(p), 0755)
				_ = os.WriteFile(p, bytes.Repeat([]byte{0xD5}, int(en.Size)+10), 0644)
			}
		}
		if old, err := os.Getwd(); err == nil && os.Chdir(abs) == nil {
			defer os.Chdir(old)
			e.R.SetExtra("decoy_tree_in_working_directory", filepath.Join(abs, "srcroot"))
		}
	}
	r := vk.NewRng(e.Seed ^ vk.HashStr("c02"+e.Tier))
	// recording runs
	for _, w := range wls {
		ok := 0
		for k := 0; k < 4; k++ {
			o := runC02Case(e, lp, w, c02Case{ID: fmt.Sprintf("rec-%s-%d", w.Name, k), W: w.Name, Gate: "none", Other: "no-fault"})
			if !o.RecvOK || !o.SendOK || len(o.Diff) > 0 {
				// a fault-free run that does not end in double success is C03's
				// subject, but a one-sided success is judged here like any other
				e.R.Eval()
				judgeC02(e, o)
				continue
			}
			ok++
			st := o.Res
			_ = st
		}
		// gather stats with a dedicated recording pass
		for k := 0; k < 4; k++ {
			stats := c02Record(e, lp, w)
			for i, s := range stats {
				if i >= len(w.Stats) {
					w.Stats = append(w.Stats, s)
					continue
				}
				if s.W > w.Stats[i].W {
					w.Stats[i].W = s.W
				}
				if s.R > w.Stats[i].R {
					w.Stats[i].R = s.R
				}
			}
		}
		if (ok == 0 || len(w.Stats) == 0) && len(e.R.Violations) > 0 {
			return // the fault-free runs were already judged (one-sided success)
		}
		if ok == 0 || len(w.Stats) == 0 {
			e.R.Inconcl("recording run of workload " + w.Name + " did not succeed")
			e.R.Require(false, "recording run failed for "+w.Name)
			return
		}
	}
	rec := map[string]any{}
	for _, w := range wls {
		rec[w.Name] = w.Stats
	}
	e.R.SetExtra("recorded_stream_bytes", rec)

	byName := map[string]*c02Workload{}
	var cases []c02Case
	add := func(c c02Case) {
		c.ID = fmt.Sprintf("C02-%06d", len(cases))
		cases = append(cases, c)
	}
	seed0 := int64(r.Intn(int(step)))
	for _, w := range wls {
		byName[w.Name] = w
		if w.PairOnly {
			// the sender goes away (gracefully / by cancellation) while the
			// last, larger file is in flight, after many files were finalised
			// by two callers at once
			for si := 1; si < len(w.Stats); si++ {
				n := w.Stats[si].W
				for rep := 0; rep < e.Pick(3, 10); rep++ {
					for _, kind := range []string{"close-sender", "cancel-sender"} {
						off := n - 1 - int64(r.Intn(int(n/6)+1))
						add(c02Case{W: w.Name, Gate: "recvFinalizePair", Fault: &vk.Fault{Stream: si, Dir: "w", Offset: off, Kind: kind}, Rep: rep})
					}
				}
			}
			continue
		}
		stats := w.Stats
		if w.OthersOnly {
			stats = nil
		}
		for si, st := range stats {
			for _, dir := range []string{"w", "r"} {
				n := st.W
				if dir == "r" {
					n = st.R
				}
				for off := seed0 % step; off < n; off += step {
					for _, kind := range c02Kinds {
						add(c02Case{W: w.Name, Gate: "none", Fault: &vk.Fault{Stream: si, Dir: dir, Offset: off, Kind: kind}})
					}
					if off%(step*5) == 0 && si <= 1 {
						add(c02Case{W: w.Name, Gate: "none", Fault: &vk.Fault{Stream: si, Dir: dir, Offset: off, Kind: "silence-sender"}})
					}
				}
			}
		}
		// single-bit flips in the payload and in the CRC field of data frames
		// (frame-aware: frame k of data stream si, field, byte)
		totalChunks := 0
		for _, en := range w.Tree.Entries {
			if !en.Dir {
				totalChunks += int((en.Size + 15) / 16)
			}
		}
		fstep := int64(e.Pick(3, 1))
		for si := 1; si < len(stats); si++ {
			for fr := 0; fr < totalChunks; fr++ {
				for off := int64(r.Intn(int(fstep))); off < 16; off += fstep {
					add(c02Case{W: w.Name, Gate: "none", Fault: &vk.Fault{Stream: si, Dir: "w", Kind: "frameflip", Frame: fr, Field: "payload", Offset: off, Bit: uint(r.Intn(8))}})
				}
				for off := int64(0); off < 4; off++ {
					add(c02Case{W: w.Name, Gate: "none", Fault: &vk.Fault{Stream: si, Dir: "w", Kind: "frameflip", Frame: fr, Field: "crc", Offset: off, Bit: uint(r.Intn(8))}})
				}
			}
		}
		others := []string{"src-shrink@0", "src-remove@0", "obstruct-dir-for-file", "obstruct-file-for-dir"}
		// every entry of the tree obstructed by the other kind of file-system object
		for _, en := range w.Tree.Entries {
			if !en.Dir {
				others = append(others, "obstruct-dir-for-file@"+en.Rel)
				// ... or by something that can be opened and written like a
				// file but keeps nothing (a link to the null device) or is
				// no file at all (a FIFO)
				others = append(others, "obstruct-devnull-link-for-file@"+en.Rel, "obstruct-fifo-for-file@"+en.Rel)
				continue
			}
			empty := true
			for _, o := range w.Tree.Entries {
				if !o.Dir && strings.HasPrefix(o.Rel, en.Rel+"/") {
					empty = false
				}
			}
			if empty {
				others = append(others, "obstruct-file-for-emptydir@"+en.Rel)
			} else {
				others = append(others, "obstruct-file-for-dir@"+en.Rel)
			}
		}
		for _, o := range others {
			for rep := 0; rep < e.Pick(2, 6); rep++ {
				add(c02Case{W: w.Name, Gate: "none", Other: o, Rep: rep})
			}
		}
	}
	// gated repetitions of the racing configurations
	base := len(cases)
	gates := []string{"recvDone250", "recvControl80", "sendFileEnd100", "recvFinalize150", "recvFinalizePair", "recvAfterMark60"}
	reps := e.Pick(2, 6)
	gstep := e.Pick(4, 1)
	for gi, g := range gates {
		if g == "recvAfterMark60" && !e.Thorough() {
			continue // quick: only the fault-free family below runs under this gate
		}
		k := 0
		for i := 0; i < base; i++ {
			c := cases[i]
			if c.Fault == nil || byName[c.W].PairOnly {
				continue
			}
			racing := c.Fault.Kind == "frameflip" || ((c.Fault.Kind == "close-sender" || c.Fault.Kind == "abort-sender" || c.Fault.Kind == "cancel-sender") && (c.Fault.Stream >= 1 || c.Fault.Offset > 200))
			if !racing {
				continue
			}
			k++
			nrep := reps
			if g == "recvFinalizePair" {
				// only a peer that goes away gracefully lets a receiver with a
				// wrong completed-files count return nil; the many-file family
				// below is the main workload of this gate, these are a sample
				if c.Fault.Kind != "close-sender" && c.Fault.Kind != "cancel-sender" {
					continue
				}
				if (k+gi)%(2*gstep+2) != 0 {
					continue
				}
				nrep = 2
			} else if (k+gi)%gstep != 0 {
				continue
			}
			for rep := 0; rep < nrep; rep++ {
				f := *c.Fault
				add(c02Case{W: c.W, Gate: g, Fault: &f, Rep: rep})
			}
		}
	}
	// fault-free transfers under the chunk-booking pause (several streams per file)
	markWls := append([]*c02Workload{}, wls...)
	for _, w := range c02Workloads() {
		if w.Name == "wmulti" && byName[w.Name] == nil {
			byName[w.Name] = w // quick: this family only (several chunks of one file over three streams and two connections)
			markWls = append(markWls, w)
		}
	}
	for _, w := range markWls {
		if w.PairOnly || w.OthersOnly || w.Cfg.Streams < 2 {
			continue
		}
		for rep := 0; rep < e.Pick(24, 60); rep++ {
			add(c02Case{W: w.Name, Gate: "recvAfterMark60", Other: "no-fault", Rep: rep})
		}
	}
	e.R.SetExtra("cases_generated", len(cases))

	// classes listed as known findings are only sampled once they have been seen
	var smu sync.Mutex
	hangsByClass := map[string]int{}
	runBatch := func(gate string) {
		installGate(gate)
		var idx []int
		for i, c := range cases {
			if c.Gate == gate {
				idx = append(idx, i)
			}
		}
		par := 16
		if gate == "recvFinalizePair" {
			par = 5 // the rendezvous spins: leave processors for the transfers
		}
		vk.ParallelDo(len(idx), par, func(j int) {
			c := cases[idx[j]]
			cls := c02FaultClass(c)
			smu.Lock()
			skip := hangsByClass[cls] >= 4
			smu.Unlock()
			if skip {
				e.R.Count("skipped_after_repeated_hangs:" + cls)
				return
			}
			o := runC02Case(e, lp, byName[c.W], c)
			e.R.Eval()
			if o.Res.Hung && o.Res.Inconclusive == "" && o.Setup == "" {
				// a stall that the fault causes shows again on a fresh pair of
				// connections; one caused by datagram loss and retransmission
				// back-off on the loaded machine does not
				if o2 := runC02Case(e, lp, byName[c.W], c); !o2.Res.Hung {
					e.R.Count("hang_not_reproduced")
					e.R.Inconcl(fmt.Sprintf("%s (%s, %s, gate %s): the bounded-progress rule fired once, and the same case run again on fresh connections did not stall", c.ID, c.W, cls, c.Gate))
					return
				}
			}
			if o.Res.Hung {
				smu.Lock()
				hangsByClass[cls]++
				smu.Unlock()
			}
			judgeC02(e, o)
			if o.Fired && (c.Fault == nil || c.Fault.Offset%50 == 0) {
				e.R.Sample(map[string]any{"case": c, "result": o.Res.Summary(), "fired": o.Fired})
			}
		})
	}
	for _, g := range append([]string{"none"}, gates...) {
		runBatch(g)
	}
	installGate("")
	e.R.SetExtra("hook_hits", verifhook.AllHits())
	e.R.SetExtra("hangs_by_class", hangsByClass)
	e.R.Require(e.R.Counter("fault_fired") >= e.Pick(300, 5000), fmt.Sprintf("only %d faults fired", e.R.Counter("fault_fired")))
}

// c02Record runs the workload once fault-free and returns the per-stream byte counts.
func c02Record(e *Env, lp *vk.ListenerPool, w *c02Workload) []vk.StreamStat {
	base := vk.TempDir(e.Work, "c02rec-")
	defer os.RemoveAll(base)
	src := filepath.Join(base, "srcroot")
	if err := w.Tree.Materialize(src); err != nil {
		return nil
	}
	outDir := filepath.Join(base, "out")
	_ = os.MkdirAll(outDir, 0755)
	cfg := w.Cfg
	deco := &vk.Deco{}
	cfg.SendDeco = deco
	res := vk.RunTransfer(context.Background(), cfg, lp, src, outDir)
	if !res.BothOK() {
		return nil
	}
	return deco.Stats()
}
