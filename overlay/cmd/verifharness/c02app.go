//go:build verif

package main

import (
	"bytes"
	"context"
	"fmt"
	"net"
	"os"
	"os/exec"
	"path/filepath"
	"strings"
	"sync"
	"time"

	"github.com/quic-go/quic-go"
	"github.com/sheerbytes/sheerbytes/internal/app"
	"github.com/sheerbytes/sheerbytes/internal/quictransport"
	"github.com/sheerbytes/sheerbytes/internal/transfer"
	"github.com/sheerbytes/sheerbytes/internal/transferquic"
	vk "github.com/sheerbytes/sheerbytes/internal/verifkit"
	"github.com/sheerbytes/sheerbytes/pkg/manifest"
	"github.com/sheerbytes/sheerbytes/pkg/protocol"
)

// The application layer of the receiver (progress bookkeeping, exit handling)
// sits between the transfer function and the process's exit status. This
// stage runs the real app.RunSnapshotReceiver in a child process (the child
// role of c08primary.go); the harness plays the signaling server and the
// sending peer (the repository's own SendManifestMultiStream, authenticated
// with the right join code) and injects one fault into what the sender puts
// on the wire. Oracle: the receiver PROCESS stops in bounded time and does
// not exit 0 - or, if it exits 0, its tree is identical.
type c02AppCase struct {
	ID    string `json:"id"`
	Fault string `json:"fault"` // none | flip-payload | flip-crc | abort-in-payload | close-in-payload | abort-between-chunks
	Frame int    `json:"frame"` // which chunk frame of the first data stream
}

func init() { register("c02app", runC02App) }

func runC02App(e *Env) {
	faults := []string{"none", "flip-payload", "flip-crc", "abort-in-payload", "close-in-payload", "abort-between-chunks"}
	var cases []c02AppCase
	for rep := 0; rep < e.Pick(1, 4); rep++ {
		for _, f := range faults {
			for _, fr := range []int{0, 3} {
				cases = append(cases, c02AppCase{ID: fmt.Sprintf("C02-app-%03d", len(cases)), Fault: f, Frame: fr})
			}
		}
	}
	vk.ParallelDo(len(cases), 6, func(i int) {
		c := cases[i]
		for try := 0; try < 2; try++ {
			if c02AppOne(e, c, try == 1) {
				return
			}
		}
	})
	e.R.Require(e.R.Counter("app_receiver_stopped_after_fault") >= len(faults)-1, fmt.Sprintf("only %d application receivers were judged after a fault", e.R.Counter("app_receiver_stopped_after_fault")))
	e.R.Require(e.R.Counter("app_receiver_served_without_fault") >= 1, "the fault-free control through the application receiver did not complete")
}

// c02AppOne runs one case; false = transport trouble, try again.
func c02AppOne(e *Env, c c02AppCase, last bool) bool {
	inconcl := func(why string) bool {
		if last {
			e.R.Inconcl(c.ID + " (" + c.Fault + "): " + why)
		}
		return false
	}
	dir := vk.TempDir(e.Work, "c02app-")
	defer os.RemoveAll(dir)
	tree := vk.Tree{Seed: vk.HashStr(c.ID), Shape: "c02app", Names: "plain", Entries: []vk.Entry{{Rel: "a.bin", Size: 64 * 9}, {Rel: "b.bin", Size: 200}}}
	srcDir := filepath.Join(dir, "src", "loot")
	outDir := filepath.Join(dir, "out")
	if err := tree.Materialize(srcDir); err != nil {
		return inconcl(err.Error())
	}
	_ = os.MkdirAll(outDir, 0755)
	m, err := manifest.Scan(srcDir)
	if err != nil {
		return inconcl("scan: " + err.Error())
	}
	ctx, cancel := context.WithTimeout(context.Background(), 75*time.Second)
	defer cancel()
	udp, err := net.ListenUDP("udp4", &net.UDPAddr{IP: net.IPv4(127, 0, 0, 1)})
	if err != nil {
		return inconcl(err.Error())
	}
	defer udp.Close()

	var pmu sync.Mutex
	connected, sendEnded := false, false
	var sendErr error
	var decoRef *vk.Deco
	play := func(raw *quic.Conn) {
		conn, err := transferquic.NewDialer(raw, vk.Quiet).Dial(ctx, "x")
		if err != nil {
			return
		}
		pmu.Lock()
		connected = true
		pmu.Unlock()
		actx, acancel := context.WithTimeout(ctx, 12*time.Second)
		aerr := app.VerifAuthenticateTransport(actx, conn, c08PrimCode, app.VerifAuthRoleSender)
		acancel()
		if aerr != nil {
			return
		}
		deco := &vk.Deco{Inner: conn}
		pmu.Lock()
		decoRef = deco
		pmu.Unlock()
		frameLen := int64(20 + 64)
		switch c.Fault {
		case "flip-payload":
			deco.Fault = &vk.Fault{Stream: 1, Dir: "w", Kind: "frameflip", Frame: c.Frame, Field: "payload", Offset: 5, Bit: 3}
		case "flip-crc":
			deco.Fault = &vk.Fault{Stream: 1, Dir: "w", Kind: "frameflip", Frame: c.Frame, Field: "crc", Offset: 1, Bit: 0}
		case "abort-in-payload":
			deco.Fault = &vk.Fault{Stream: 1, Dir: "w", Kind: "abort", Offset: int64(c.Frame)*frameLen + 40}
		case "close-in-payload":
			deco.Fault = &vk.Fault{Stream: 1, Dir: "w", Kind: "close", Offset: int64(c.Frame)*frameLen + 40}
		case "abort-between-chunks":
			deco.Fault = &vk.Fault{Stream: 1, Dir: "w", Kind: "abort", Offset: int64(c.Frame+1) * frameLen}
		}
		deco.Action = func(kind string) {
			switch kind {
			case "abort":
				_ = raw.CloseWithError(1, "abort")
			case "close":
				_ = raw.CloseWithError(0, "")
			}
		}
		err = transfer.SendManifestMultiStream(ctx, deco.Wrap(), srcDir, m, transfer.Options{ParallelFiles: 1, ChunkSize: 64, HashAlg: "crc32c"})
		pmu.Lock()
		sendErr, sendEnded = err, true
		pmu.Unlock()
	}
	var once sync.Once
	ourCands := func(theirs []string) []string {
		once.Do(func() {
			to := c08LoopbackOf(theirs)
			if to == nil {
				return
			}
			go func() {
				dctx, dcancel := context.WithTimeout(ctx, 10*time.Second)
				raw, err := quictransport.DialWithConfig(dctx, udp, to, vk.Quiet, vk.QUICConfig(false, 8*time.Second))
				dcancel()
				if err != nil {
					return
				}
				play(raw)
			}()
		})
		return []string{udp.LocalAddr().String()}
	}
	sig := newC08Signal("receiver", c08PrimCode, protocol.ManifestSummary{ManifestID: "m-c02", TotalBytes: m.TotalBytes, FileCount: m.FileCount, FolderCount: m.FolderCount, RootName: m.Root}, ourCands)
	defer sig.srv.Close()

	cmd := exec.CommandContext(ctx, os.Args[0], "c08-recv-child", sig.srv.URL, c08PrimCode, outDir)
	cmd.Stdin = strings.NewReader("y\n")
	var out bytes.Buffer
	cmd.Stdout, cmd.Stderr = &out, &out
	cmd.Dir = dir
	_ = cmd.Run()
	stillRunning := ctx.Err() != nil
	exit := -1
	if cmd.ProcessState != nil {
		exit = cmd.ProcessState.ExitCode()
	}
	pmu.Lock()
	conn, sEnded, sErr, dref := connected, sendEnded, sendErr, decoRef
	pmu.Unlock()
	_ = sEnded
	fr, idle := false, time.Duration(0)
	if dref != nil {
		fr, idle = dref.Fired(), dref.IdleFor()
	}
	cancel()
	if !conn {
		return inconcl("the peer never had a connection with the receiver: " + c08TailStr(out.Bytes(), 300))
	}
	e.R.Eval()
	detail := map[string]any{"receiver_exit": exit, "fault_fired": fr, "peer_send_err": c08ErrStr(sErr), "receiver_log_tail": c08TailStr(out.Bytes(), 2500)}
	got, _ := vk.Digest(outDir)
	var diff []string
	for _, prefix := range []string{"loot/", m.Root + "/", ""} {
		if d := vk.DiffDigest(vk.ExpectedDigest(tree, prefix), got); len(d) == 0 {
			diff = nil
			break
		} else if diff == nil || len(d) < len(diff) {
			diff = d
		}
	}
	if c.Fault == "none" {
		if stillRunning {
			return inconcl("the fault-free control was still running after the watchdog")
		}
		if exit == 0 && len(diff) == 0 {
			e.R.Count("app_receiver_served_without_fault")
			e.R.Distinct("app-receiver/none")
			return true
		}
		if !last {
			return false
		}
		// a fault-free session that does not complete is C03's subject; here it only means no control
		e.R.Inconcl(fmt.Sprintf("%s: the fault-free control through the application receiver did not complete (exit %d, diff %v)", c.ID, exit, diff))
		return true
	}
	if !fr {
		return inconcl("the fault was not reached")
	}
	e.R.Distinct(fmt.Sprintf("app-receiver/%s/frame%d", c.Fault, c.Frame))
	if stillRunning {
		// bounded progress: the fault fired long ago, the sender's connection is
		// gone or idle, and the receiver process neither exited nor failed
		if idle < 40*time.Second {
			return inconcl("watchdog fired while bytes had moved on the connection less than 40 s ago")
		}
		if !last {
			return false // must show twice
		}
		e.R.Violate("app-receiver:"+c.Fault+":process-does-not-stop", fmt.Sprintf("the real receiver application was still running after the fault %s in frame %d, %d s after the last byte moved on its connection (twice); the transfer function's failure never became the process's exit", c.Fault, c.Frame, int(idle.Seconds())), c, detail)
		return true
	}
	e.R.Count("app_receiver_stopped_after_fault")
	if exit == 0 && len(diff) > 0 {
		e.R.Violate("app-receiver:"+c.Fault+":exit-0-wrong-tree", fmt.Sprintf("the real receiver application exited 0 after the fault %s in frame %d but its tree differs: %v", c.Fault, c.Frame, diff), c, detail)
	}
	return true
}
