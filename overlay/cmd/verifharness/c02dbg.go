//go:build verif

package main

import (
	"fmt"
	"os"
	"time"

	"github.com/sheerbytes/sheerbytes/internal/verifhook"
	vk "github.com/sheerbytes/sheerbytes/internal/verifkit"
)

func init() { register("c02dbg", runC02Dbg) }

// c02dbg runs fault-free transfers of every C02 workload under the gate named
// in $VERIF_GATE and prints the hook hit counts (how often two finalisers met).
func runC02Dbg(e *Env) {
	lp, err := vk.NewListenerPool(4, 3*time.Second)
	if err != nil {
		fmt.Println(err)
		return
	}
	defer lp.Close()
	installGate(os.Getenv("VERIF_GATE"))
	for _, w := range c02Workloads() {
		if only := os.Getenv("VERIF_W"); only != "" && only != w.Name {
			continue
		}
		if os.Getenv("VERIF_W") != "" {
			n := 200
			bad := 0
			vk.ParallelDo(n, 5, func(i int) {
				o := runC02Case(e, lp, w, c02Case{ID: fmt.Sprintf("dbg%d", i), W: w.Name, Gate: "none", Other: "no-fault"})
				if !(o.RecvOK && o.SendOK) {
					bad++
					fmt.Printf("run %d: recvOK=%v sendOK=%v hung=%v recvErr=%v sendErr=%v\n%s\n", i, o.RecvOK, o.SendOK, o.Res.Hung, o.Res.RecvErr, o.Res.SendErr, o.Res.HangDump)
				}
			})
			fmt.Printf("%s: %d/%d runs without double success\n", w.Name, bad, n)
			continue
		}
		for k := 0; k < 5; k++ {
			verifhook.Record(true)
			o := runC02Case(e, lp, w, c02Case{ID: "dbg", W: w.Name, Gate: "none", Other: "no-fault"})
			fin := map[uint64]int{}
			for _, ev := range verifhook.Events() {
				if ev.Name == "recv.finalize.before" {
					fin[ev.A]++
				}
			}
			verifhook.Record(false)
			two := 0
			for _, n := range fin {
				if n >= 2 {
					two++
				}
			}
			fmt.Printf("%s run %d: recvOK=%v sendOK=%v files=%d with-two-finalize-calls=%d double-acks-so-far=%d\n", w.Name, k, o.RecvOK, o.SendOK, len(fin), two, e.R.Counter("receiver_acknowledged_one_file_twice"))
		}
	}
	fmt.Println("counters:", e.R.Counter("receiver_acknowledged_one_file_twice"))
}
