//go:build verif

package main

import (
	"context"
	"fmt"
	"os"
	"path/filepath"
	"strings"
	"sync"
	"time"

	"github.com/sheerbytes/sheerbytes/internal/transfer"
	"github.com/sheerbytes/sheerbytes/internal/verifhook"
	vk "github.com/sheerbytes/sheerbytes/internal/verifkit"
)

// canaryOK runs a small healthy transfer over the mock transport (which has no
// known liveness problem) to show the machine is not stalled.
func canaryOK(e *Env) bool {
	base := vk.TempDir(e.Work, "canary-")
	defer os.RemoveAll(base)
	tree := vk.GenTree(99, "onefile", "plain", 64, 1000)
	src := filepath.Join(base, "src")
	if tree.Materialize(src) != nil {
		return false
	}
	out := filepath.Join(base, "out")
	_ = os.MkdirAll(out, 0755)
	cfg := vk.XferCfg{Transport: "mock", Streams: 1, ChunkSize: 64, WatchdogMs: 8000}
	res := vk.RunTransfer(context.Background(), cfg, nil, src, out)
	return res.BothOK()
}

// c03Key derives the finding key from the failing case's input class.
func c03Key(c xferCase, o xferOutcome) string {
	if o.Tree.FileCount() == 0 && c.Cfg.Transport == "mock" {
		// the in-memory transport has no close racing ahead of the data, so the
		// known QUIC finding does not apply here
		return "empty-manifest:mock-transport:" + c.Shape
	}
	switch c.Names {
	case "dotdot":
		return "name-class:dotdot-substring"
	case "badutf8":
		return "name-class:invalid-utf8"
	}
	if o.Tree.FileCount() == 0 {
		return "empty-manifest:sender-closes-first"
	}
	mode := "error"
	if o.Res.Hung {
		mode = "hang"
	} else if o.Res.BothOK() {
		mode = "unfaithful"
	}
	h := c.History
	if h == "" {
		h = "none"
	}
	if c.Selection != "" {
		return fmt.Sprintf("healthy-transfer-failed:%s:%s:selection=%s", mode, c.Cfg.Transport, c.Selection)
	}
	return fmt.Sprintf("healthy-transfer-failed:%s:%s:%s:names=%s:history=%s", mode, c.Cfg.Transport, c.Shape, c.Names, h)
}

func genC03Cases(e *Env) []xferCase {
	r := vk.NewRng(e.Seed ^ vk.HashStr("c03"+e.Tier))
	var cases []xferCase
	add := func(c xferCase) {
		c.ID = fmt.Sprintf("C03-%05d", len(cases))
		if c.Cfg.Transport == "" {
			c.Cfg.Transport = "quic"
		}
		if c.Cfg.Conns == 0 {
			c.Cfg.Conns = 1
		}
		c.Cfg.WatchdogMs = 10000
		cases = append(cases, c)
	}
	// (a) the grid: files x chunks-per-file x streams x conns x resume
	filesSet := []int{0, 1, 2, 5}
	for _, files := range filesSet {
		for _, cpf := range []string{"0", "1", "2", "s-1", "s", "s+1"} {
			for s := 1; s <= 8; s++ {
				for _, conns := range []int{1, 2, 4} {
					for _, resume := range []bool{false, true} {
						if !e.Thorough() && r.Intn(100) >= 30 {
							continue
						}
						if e.Thorough() && r.Intn(100) >= 60 {
							continue
						}
						c := xferCase{Shape: "grid:" + fmt.Sprint(files) + ":" + cpf, Names: "plain", TSeed: r.U64()}
						c.Cfg.Streams, c.Cfg.Conns, c.Cfg.Resume = s, conns, resume
						c.Cfg.ChunkSize = []uint32{16, 64, 1000}[r.Intn(3)]
						c.Cfg.NoRootDir = true
						c.Cfg.ScanPaths = true
						add(c)
					}
				}
			}
		}
	}
	// (b) name classes and special shapes (production options)
	nameN := e.Pick(6, 12)
	for _, nc := range vk.NameClasses {
		if nc == "longpath" {
			continue
		}
		for k := 0; k < nameN; k++ {
			c := xferCase{Shape: []string{"onefile", "manysmall", "nested"}[k%3], Names: nc, TSeed: r.U64()}
			c.Cfg.Streams, c.Cfg.Resume = 1+r.Intn(4), true
			c.Cfg.ChunkSize = 64
			c.Cfg.NoRootDir, c.Cfg.ScanPaths = true, true
			add(c)
		}
	}
	for _, sh := range []string{"empty", "dirsonly", "zerolen", "longpath", "fewchunks", "boundary", "prefixnames", "linksiblings"} {
		for k := 0; k < e.Pick(8, 20); k++ {
			c := xferCase{Shape: sh, Names: "plain", TSeed: r.U64()}
			c.Cfg.Streams, c.Cfg.Resume = 1+r.Intn(8), r.Bool()
			c.Cfg.Conns = 1 + r.Intn(2)
			c.Cfg.ChunkSize = []uint32{16, 64, 4096}[r.Intn(3)]
			c.Cfg.NoRootDir, c.Cfg.ScanPaths = true, true
			add(c)
		}
	}
	// (b1) manifests above the 1 MiB stepping threshold of the control header
	for k := 0; k < e.Pick(2, 6); k++ {
		c := xferCase{Shape: "bigmanifest", Names: "plain", TSeed: r.U64()}
		c.Cfg.Transport = []string{"mock", "quic"}[k%2]
		c.Cfg.Streams, c.Cfg.Resume = 1+r.Intn(4), k%2 == 0
		c.Cfg.ChunkSize = 4096
		c.Cfg.NoRootDir, c.Cfg.ScanPaths = true, r.Bool()
		c.Cfg.WatchdogMs = 30000
		add(c)
	}
	// (b2) trees without files over the in-memory transport
	for _, sh := range []string{"empty", "dirsonly"} {
		for k := 0; k < e.Pick(6, 30); k++ {
			c := xferCase{Shape: sh, Names: "plain", TSeed: r.U64()}
			c.Cfg.Transport = "mock"
			// the sender's close racing ahead of End is the recorded finding
			// (seen on the in-memory transport too, rarely): here the connection
			// stays open until the receiver has returned
			c.Cfg.KeepSenderOpen = true
			c.Cfg.Streams, c.Cfg.Resume = 1+r.Intn(8), r.Bool()
			c.Cfg.ChunkSize = 64
			c.Cfg.NoRootDir, c.Cfg.ScanPaths = r.Bool(), r.Bool()
			add(c)
		}
	}
	// (c) resume histories
	for _, h := range []string{"partial", "complete", "late-report", "partial+late-report", "leftover-samecs", "leftover-samecount", "leftover-othercount"} {
		for k := 0; k < e.Pick(90, 160); k++ {
			c := xferCase{Shape: []string{"boundary", "manysmall", "nested", "onefile"}[r.Intn(4)], Names: "plain", TSeed: r.U64(), History: h}
			c.Cfg.Streams, c.Cfg.Resume = 1+r.Intn(4), true
			c.Cfg.Conns = 1 + r.Intn(2)
			c.Cfg.ChunkSize = []uint32{16, 64, 1000}[r.Intn(3)]
			c.Cfg.NoRootDir, c.Cfg.ScanPaths = true, true
			add(c)
		}
	}
	// (c1) the same histories over files whose chunk count sits at and around
	// the byte boundaries of the chunk bitmap
	for _, h := range []string{"partial", "complete", "partial+late-report", "leftover-samecs", "leftover-samecount", "leftover-othercount"} {
		for _, n := range []int{7, 8, 9, 16, 24, 64} {
			for k := 0; k < e.Pick(2, 5); k++ {
				c := xferCase{Shape: fmt.Sprintf("chunks:%d", n), Names: "plain", TSeed: r.U64(), History: h}
				c.Cfg.Streams, c.Cfg.Resume = 1+r.Intn(4), true
				c.Cfg.Conns = 1 + r.Intn(2)
				c.Cfg.ChunkSize = []uint32{16, 64, 1000}[r.Intn(3)]
				c.Cfg.NoRootDir, c.Cfg.ScanPaths = true, true
				add(c)
			}
		}
	}
	// (c2) selections of several hosted paths with equal base names, typed in
	// sorted and in unsorted order (scanner and path resolver must agree)
	for _, sel := range []string{"dup2-unsorted", "dup3-unsorted", "dup2-sorted", "dup2-unsorted-distinct", "dup3-unsorted-distinct"} {
		for k := 0; k < e.Pick(6, 20); k++ {
			c := xferCase{Shape: []string{"onefile", "nested", "manysmall"}[k%3], Names: "plain", TSeed: r.U64(), Selection: sel}
			c.Cfg.Streams, c.Cfg.Resume = 1+r.Intn(4), r.Bool()
			c.Cfg.Conns = 1 + r.Intn(2)
			c.Cfg.ChunkSize = []uint32{16, 64, 4096}[r.Intn(3)]
			c.Cfg.NoRootDir, c.Cfg.ScanPaths = r.Bool(), true
			add(c)
		}
	}
	// (d) random beyond the grid
	for k := 0; k < e.Pick(500, 1500); k++ {
		c := xferCase{Shape: []string{"onefile", "manysmall", "nested", "fewchunks", "boundary", "zerolen"}[r.Intn(6)], Names: []string{"plain", "unicode", "dotdash", "backslash", "control", "long255"}[r.Intn(6)], TSeed: r.U64()}
		c.Cfg.Streams, c.Cfg.Resume = 1+r.Intn(8), r.Bool()
		c.Cfg.Conns = 1 + r.Intn(4)
		c.Cfg.ChunkSize = chunkSizes[r.Intn(len(chunkSizes))]
		c.Cfg.NoRootDir, c.Cfg.ScanPaths = r.Bool(), r.Bool()
		if r.Bool() {
			c.Jitter = 200
		}
		add(c)
	}
	return cases
}

// gridTree builds the tree of a grid case "grid:<files>:<cpf>".
func gridTree(c xferCase) vk.Tree {
	var files int
	var cpf string
	fmt.Sscanf(c.Shape, "grid:%d:%s", &files, &cpf)
	s := c.Cfg.Streams
	chunks := map[string]int{"0": 0, "1": 1, "2": 2, "s-1": s - 1, "s": s, "s+1": s + 1}[cpf]
	if chunks < 0 {
		chunks = 0
	}
	t := vk.Tree{Seed: c.TSeed, Shape: c.Shape, Names: "plain"}
	cs := int64(c.Cfg.ChunkSize)
	for i := 0; i < files; i++ {
		size := int64(chunks) * cs
		if chunks > 0 && i%2 == 1 {
			size -= cs / 2 // last chunk partial
		}
		t.Entries = append(t.Entries, vk.Entry{Rel: fmt.Sprintf("g%d.bin", i), Size: size})
	}
	return t
}

func treeForCase(c xferCase) vk.Tree {
	if strings.HasPrefix(c.Shape, "chunks:") {
		// three files of exactly n chunks (one of them with a partial last chunk)
		var n int
		fmt.Sscanf(c.Shape, "chunks:%d", &n)
		t := vk.Tree{Seed: c.TSeed, Shape: c.Shape, Names: "plain"}
		cs := int64(c.Cfg.ChunkSize)
		for i := 0; i < 3; i++ {
			size := int64(n) * cs
			if i == 1 && !strings.HasSuffix(c.Shape, ":full") {
				size -= cs / 2
			}
			t.Entries = append(t.Entries, vk.Entry{Rel: fmt.Sprintf("n%d.bin", i), Size: size})
		}
		return t
	}
	if len(c.Shape) > 5 && c.Shape[:5] == "grid:" {
		return gridTree(c)
	}
	return vk.GenTree(c.TSeed, c.Shape, c.Names, int64(c.Cfg.ChunkSize), maxBytesFor(c.Cfg.ChunkSize))
}

// runC03Case runs one healthy transfer (with its history) and judges it.
func runC03Case(e *Env, lp *vk.ListenerPool, c xferCase) xferOutcome {
	if c.Selection != "" {
		// several hosted paths with the same base name: C01's runner builds the selection
		return runXferCase(e, lp, c, false)
	}
	out := xferOutcome{Case: c}
	base := vk.TempDir(e.Work, "c03-")
	defer os.RemoveAll(base)
	tree := treeForCase(c)
	out.Tree = tree
	src := filepath.Join(base, "srcroot")
	if err := tree.Materialize(src); err != nil {
		out.Err = "materialize: " + err.Error()
		return out
	}
	outDir := filepath.Join(base, "out")
	_ = os.MkdirAll(outDir, 0755)

	late := false
	switch c.History {
	case "partial", "partial+late-report":
		// first run: sender connection aborted after roughly half of the data of stream 1
		var total int64
		for _, en := range tree.Entries {
			total += en.Size
		}
		cfg1 := c.Cfg
		var x1 *vk.Xfer
		cfg1.OnConns = func(x *vk.Xfer) { x1 = x }
		cfg1.SendDeco = &vk.Deco{Fault: &vk.Fault{Stream: 1, Dir: "w", Offset: total/(2*int64(c.Cfg.Streams)) + 25, Kind: "abort"},
			Action: func(string) { x1.AbortSender() }}
		cfg1.WatchdogMs = 15000
		_ = vk.RunTransfer(context.Background(), cfg1, lp, src, outDir)
		transfer.VerifRetireSidecars(outDir)
		late = c.History == "partial+late-report"
	case "complete":
		cfg1 := c.Cfg
		cfg1.SendDeco = &vk.Deco{}
		r1 := vk.RunTransfer(context.Background(), cfg1, lp, src, outDir)
		if !r1.BothOK() {
			out.Res = r1
			out.Err = ""
			return out // the first run itself is a healthy transfer: judge it
		}
	case "late-report":
		late = true
	case "leftover-samecs", "leftover-samecount", "leftover-othercount":
		// the state an earlier, interrupted session with the same / another
		// chunk size left behind (scattered recorded chunks)
		cfgL := c.Cfg
		if cfgL.ChunkSize < 7 {
			cfgL.ChunkSize = 7
		}
		if _, _, err := synthLeftover(cfgL, src, outDir, strings.TrimPrefix(c.History, "leftover-"), c.TSeed); err != nil {
			out.Err = "leftover: " + err.Error()
			return out
		}
	}
	cfg := c.Cfg
	cfg.SendDeco = &vk.Deco{}
	if late {
		// delay the receiver's first control-stream write (the resume report)
		// past the sender's 300 ms grace period
		var once sync.Once
		cfg.RecvDeco = &vk.Deco{OnIO: func(ord int, dir string, n int) {
			if ord == 0 && dir == "w" {
				once.Do(func() { time.Sleep(450 * time.Millisecond) })
			}
		}}
	}
	res := vk.RunTransfer(context.Background(), cfg, lp, src, outDir)
	out.Res = res
	if res.BothOK() {
		got, err := vk.Digest(outDir)
		if err != nil {
			out.Err = "digest: " + err.Error()
			return out
		}
		out.Diff = vk.DiffDigest(vk.ExpectedDigest(tree, res.Prefix), got)
	} else if got, err := vk.Digest(outDir); err == nil {
		// what the output directory lacked when the transfer stopped (evidence only)
		out.StateAtStop = vk.DiffDigest(vk.ExpectedDigest(tree, res.Prefix), got)
		if len(out.StateAtStop) > 12 {
			out.StateAtStop = append(out.StateAtStop[:12], fmt.Sprintf("... %d more", len(out.StateAtStop)-12))
		}
	}
	return out
}

func runC03(e *Env) {
	cases := genC03Cases(e)
	// production-like QUIC settings (keep-alives on, default idle timeout): a stall stays a stall
	lp, err := vk.NewListenerPool(16, 0)
	if err != nil {
		e.R.Inconcl("listener pool: " + err.Error())
		e.R.Require(false, "no QUIC listeners")
		return
	}
	defer lp.Close()
	installJitter(e.Seed, 200)
	defer verifhook.Reset()
	e.R.Rule = "fault-free transfers over real loopback QUIC (1-4 connections): grid files{0,1,2,5} x chunks-per-file{0,1,2,s-1,s,s+1} x streams 1-8 x conns{1,2,4} x resume, all name classes, special shapes (empty, dirs only, zero-length, 1000-byte paths), resume histories (partial, complete, late resume report), random beyond the grid; verdict per case = both endpoints nil within the watchdog and identical tree; distinct by (shape/grid point, names, streams, conns, cs, resume, history)"

	// classes already listed as known findings are only sampled
	sampled := map[string]int{}
	var smu sync.Mutex
	knownClass := func(c xferCase) string {
		if c.Names == "dotdot" || c.Names == "badutf8" {
			return c.Names
		}
		if c.Cfg.Transport != "mock" && (c.Shape == "empty" || c.Shape == "dirsonly" || (len(c.Shape) > 7 && c.Shape[:7] == "grid:0:")) {
			return "emptymanifest"
		}
		return ""
	}
	hangs := 0
	var unrepro []xferCase // cases that stalled once and completed when run again
	vk.ParallelDo(len(cases), 16, func(i int) {
		c := cases[i]
		if k := knownClass(c); k != "" {
			smu.Lock()
			sampled[k]++
			n := sampled[k]
			smu.Unlock()
			if n > 3 {
				return
			}
		}
		o := runC03Case(e, lp, c)
		e.R.Eval()
		if o.Err != "" || o.Res.SetupErr != nil {
			e.R.Inconcl(fmt.Sprintf("%s: %s %v", c.ID, o.Err, o.Res.SetupErr))
			return
		}
		if o.Res.Inconclusive != "" {
			e.R.Inconcl(c.ID + ": " + o.Res.Inconclusive)
			return
		}
		e.R.Distinct(fmt.Sprintf("%s/%s/s%d/c%d/cs%d/res%v/%s%s", c.Shape, c.Names, c.Cfg.Streams, c.Cfg.Conns, c.Cfg.ChunkSize, c.Cfg.Resume, c.History, c.Selection))
		if o.Res.BothOK() && len(o.Diff) == 0 {
			e.R.Count("completed")
			e.R.Sample(caseSample(o))
			return
		}
		if o.Res.Hung {
			smu.Lock()
			hangs++
			smu.Unlock()
			if !canaryOK(e) {
				e.R.Inconcl(c.ID + ": watchdog fired but the canary transfer failed too (machine stalled)")
				return
			}
			// a stall that the case itself causes shows again on a fresh pair
			// of connections; one caused by datagram loss and retransmission
			// back-off on the loaded machine does not
			if o2 := runC03Case(e, lp, c); !o2.Res.Hung {
				e.R.Count("hang_not_reproduced")
				smu.Lock()
				unrepro = append(unrepro, c)
				smu.Unlock()
				e.R.Inconcl(fmt.Sprintf("%s: the bounded-progress rule fired once, and the same case run again on fresh connections did not stall (send_err=%q recv_err=%q)", c.ID, errS(o2.Res.SendErr), errS(o2.Res.RecvErr)))
				return
			}
		}
		what := fmt.Sprintf("fault-free transfer did not complete: send_err=%q recv_err=%q hung=%v diff=%v", errS(o.Res.SendErr), errS(o.Res.RecvErr), o.Res.Hung, o.Diff)
		e.R.Violate(c03Key(c, o), what, c, map[string]any{"tree": o.Tree, "result": o.Res.Summary(), "goroutines": o.Res.HangDump, "output_state_when_stopped": o.StateAtStop})
	})
	if len(unrepro) >= 3 {
		// one stall that does not show again is weather (datagram loss under
		// load); three different cases stalling in one run is a schedule-
		// dependent defect that no single re-run can be expected to hit again
		e.R.Violate("healthy-transfer-failed:hang:not-reproducible-but-repeated",
			fmt.Sprintf("%d different fault-free transfers of this run stalled under the bounded-progress rule (each completed when run again)", len(unrepro)),
			unrepro[0], map[string]any{"cases": unrepro})
	}
	runC03AfterAborts(e)
	runNextToCancelled(e, lp, true)
	e.R.SetExtra("hangs", hangs)
	e.R.SetExtra("hook_hits", verifhook.AllHits())
	e.R.Require(e.R.Counter("completed") >= e.Pick(700, 1500), fmt.Sprintf("only %d transfers completed", e.R.Counter("completed")))
}

func errS(e error) string {
	if e == nil {
		return ""
	}
	return e.Error()
}
