//go:build verif

package main

import (
	"encoding/json"
	"fmt"
	"os"
	"strconv"
	"sync"

	"github.com/sheerbytes/sheerbytes/internal/verifhook"
	vk "github.com/sheerbytes/sheerbytes/internal/verifkit"
)

func init() { register("c03dbg", runC03Dbg) }

// c03dbg repeats one C03 case (JSON in $VERIF_CASE, $VERIF_REPEAT times, 16 at
// a time, jitter as in the check) and prints every run that did not complete.
func runC03Dbg(e *Env) {
	var c xferCase
	if err := json.Unmarshal([]byte(os.Getenv("VERIF_CASE")), &c); err != nil {
		fmt.Println("bad VERIF_CASE:", err)
		return
	}
	n, _ := strconv.Atoi(os.Getenv("VERIF_REPEAT"))
	if n <= 0 {
		n = 200
	}
	lp, err := vk.NewListenerPool(16, 0)
	if err != nil {
		fmt.Println(err)
		return
	}
	defer lp.Close()
	installJitter(e.Seed, 200)
	defer verifhook.Reset()
	var mu sync.Mutex
	bad := 0
	classes := map[string]int{}
	vk.ParallelDo(n, 16, func(i int) {
		cc := c
		cc.ID = fmt.Sprintf("%s-r%d", c.ID, i)
		o := runC03Case(e, lp, cc)
		if o.Res.BothOK() && len(o.Diff) == 0 {
			return
		}
		mu.Lock()
		bad++
		cls := "error"
		if o.Res.Hung {
			cls = "hung"
		} else if o.Res.Inconclusive != "" {
			cls = "inconclusive:" + o.Res.Inconclusive
		}
		classes[cls]++
		if o.Res.Hung && classes[cls] <= 3 {
			missing := o.StateAtStop
			fmt.Printf("run %d: %v diff=%v\nmissing-or-different at the time of the hang: %v\n%s\n", i, o.Res.Summary(), o.Diff, missing, o.Res.HangDump)
		}
		mu.Unlock()
	})
	fmt.Printf("c03dbg: %d/%d runs did not complete: %v\n", bad, n, classes)
}
