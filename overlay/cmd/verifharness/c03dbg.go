//go:build verif

package main

import (
	"encoding/json"
	"fmt"
	"os"
	"strconv"
	"sync"

	"github.com/sheerbytes/sheerbytes/internal/verifhook"
	vk "github.com/sheerbytes/sheerbytes/internal/verifkit"
)

func init() { register("c03dbg", runC03Dbg) }

// c03dbg repeats one C03 case (JSON in $VERIF_CASE, $VERIF_REPEAT times, 16 at
// a time, jitter as in the check) and prints every run that did not complete.
func runC03Dbg(e *Env) {
	var c xferCase
	if err := json.Unmarshal([]byte(os.Getenv("VERIF_CASE")), &c); err != nil {
		fmt.Println("bad VERIF_CASE:", err)
		return
	}
	n, _ := strconv.Atoi(os.Getenv("VERIF_REPEAT"))
	if n <= 0 {
		n = 200
	}
	lp, err := vk.NewListenerPool(16, 0)
	if err != nil {
		fmt.Println(err)
		return
	}
	defer lp.Close()
	installJitter(e.Seed, 200)
	defer verifhook.Reset()
	var mu sync.Mutex
	bad := 0
	classes := map[string]int{}
	vk.ParallelDo(n, 16, func(i int) {
		cc := c
		cc.ID = fmt.Sprintf("%s-r%d", c.ID, i)
		o := runC03Case(e, lp, cc)
		if o.Res.BothOK() && len(o.Diff) == 0 {
			return
		}
		mu.Lock()
		bad++
		cls := "error"
		if o.Res.Hung {
			cls = "hung"
		} else if o.Res.Inconclusive != "" {
			cls = "inconclusive:" + o.Res.Inconclusive
		}
		classes[cls]++
		if o.Res.Hung && classes[cls] <= 3 {
			missing := o.StateAtStop
			fmt.Printf("run %d: %v diff=%v\nmissing-or-different at the time of the hang: %v\n%s\n", i, o.Res.Summary(), o.Diff, missing, o.Res.HangDump)
		}
		mu.Unlock()
	})
	fmt.Printf("c03dbg: %d/%d runs did not complete: %v\n", bad, n, classes)
}

func init() { register("poolmixdbg", runPoolMixDbg) }

// poolmixdbg runs fault-free transfers next to transfers whose sender is
// aborted mid-way, all with the same chunk size in one process, and prints
// every double success whose tree differs ($VERIF_REPEAT transfers).
func runPoolMixDbg(e *Env) {
	n, _ := strconv.Atoi(os.Getenv("VERIF_REPEAT"))
	if n <= 0 {
		n = 2000
	}
	lp, err := vk.NewListenerPool(16, 0)
	if err != nil {
		fmt.Println(err)
		return
	}
	defer lp.Close()
	r := vk.NewRng(e.Seed)
	cases := make([]xferCase, n)
	for i := range cases {
		c := xferCase{ID: fmt.Sprintf("mix-%d", i), Shape: "chunks:64", Names: "plain", TSeed: r.U64()}
		c.Cfg.Transport = os.Getenv("VERIF_TRANSPORT")
		if c.Cfg.Transport == "" {
			c.Cfg.Transport = "quic"
		}
		c.Cfg.Conns, c.Cfg.Streams, c.Cfg.Resume, c.Cfg.ChunkSize = 1, 1+r.Intn(4), true, 64
		c.Cfg.NoRootDir, c.Cfg.ScanPaths = true, true
		c.Cfg.WatchdogMs = 10000
		if i%2 == 1 {
			c.History = "partial"
		}
		cases[i] = c
	}
	var mu sync.Mutex
	bad, ok := 0, 0
	vk.ParallelDo(n, 16, func(i int) {
		o := runC03Case(e, lp, cases[i])
		mu.Lock()
		defer mu.Unlock()
		if o.Res.BothOK() && len(o.Diff) == 0 {
			ok++
			return
		}
		if o.Res.BothOK() {
			bad++
			fmt.Printf("UNFAITHFUL %s history=%q: %v\n", cases[i].ID, cases[i].History, o.Diff)
		}
	})
	fmt.Printf("poolmixdbg: %d transfers, %d identical double successes, %d double successes with a different tree\n", n, ok, bad)
}
