//go:build verif

package main

import (
	"context"
	"encoding/json"
	"fmt"
	"os"
	"os/exec"
	"path/filepath"
	"strconv"
	"time"

	vk "github.com/sheerbytes/sheerbytes/internal/verifkit"
)

func init() { childCommands["c03hist-child"] = c03HistChild }

type c03HistResult struct {
	Aborted   int    `json:"aborted_sessions"`
	Healthy   int    `json:"healthy_transfers_run"`
	Completed int    `json:"healthy_transfers_completed"`
	Hung      int    `json:"healthy_transfers_hung"`
	Note      string `json:"note,omitempty"`
	Dump      string `json:"goroutines,omitempty"`
}

// c03HistChild is one long-lived process (as `thru host` is): first `aborts`
// sessions of a large file are cancelled at the sender at seeded moments (a
// receiver went away, the user pressed q), then healthy transfers of small
// trees run. Prints one JSON line.
func c03HistChild(args []string) int {
	if len(args) < 3 {
		return 3
	}
	work := args[0]
	aborts, _ := strconv.Atoi(args[1])
	seed, _ := strconv.ParseUint(args[2], 10, 64)
	r := vk.NewRng(vk.Mix(seed ^ 0xab027))
	var res c03HistResult
	base := vk.TempDir(work, "c03hist-")
	defer os.RemoveAll(base)
	// the large source: sparse, 768 MiB, a few non-zero chunks
	big := filepath.Join(base, "bigsrc")
	_ = os.MkdirAll(big, 0755)
	if f, err := os.Create(filepath.Join(big, "large.bin")); err == nil {
		_ = f.Truncate(768 << 20)
		buf := make([]byte, 1<<20)
		vk.FillContent(seed, "large.bin", 0, buf)
		_, _ = f.WriteAt(buf, 0)
		_, _ = f.WriteAt(buf, 500<<20)
		f.Close()
	}
	for i := 0; i < aborts; i++ {
		out := filepath.Join(base, fmt.Sprintf("abort-out-%d", i))
		_ = os.MkdirAll(out, 0755)
		cfg := vk.XferCfg{Transport: "mock", Streams: 4, ChunkSize: 4 << 20, NoRootDir: true, WatchdogMs: 20000}
		delay := time.Duration(20+r.Intn(260)) * time.Millisecond
		cfg.OnConns = func(x *vk.Xfer) {
			go func() {
				time.Sleep(delay)
				x.SendCancel()
				time.Sleep(50 * time.Millisecond)
				x.AbortSender()
			}()
		}
		cfg.SendDeco = &vk.Deco{}
		rr := vk.RunTransfer(context.Background(), cfg, nil, big, out)
		if rr.SendErr != nil || rr.RecvErr != nil {
			res.Aborted++
		}
		os.RemoveAll(out)
	}
	for i := 0; i < 6; i++ {
		tree := vk.GenTree(seed+uint64(i), []string{"manysmall", "nested", "boundary"}[i%3], "plain", 4096, 64<<10)
		src := filepath.Join(base, fmt.Sprintf("src-%d", i))
		out := filepath.Join(base, fmt.Sprintf("out-%d", i))
		_ = tree.Materialize(src)
		_ = os.MkdirAll(out, 0755)
		cfg := vk.XferCfg{Transport: "mock", Streams: 1 + i%4, ChunkSize: 4096, Resume: i%2 == 0, NoRootDir: true, ScanPaths: true, WatchdogMs: 12000}
		cfg.SendDeco = &vk.Deco{}
		rr := vk.RunTransfer(context.Background(), cfg, nil, src, out)
		res.Healthy++
		switch {
		case rr.BothOK():
			res.Completed++
		case rr.Hung:
			res.Hung++
			if res.Dump == "" {
				res.Dump = rr.HangDump
			}
		default:
			res.Note = fmt.Sprintf("%v / %v / %s", rr.SendErr, rr.RecvErr, rr.Inconclusive)
		}
		if res.Hung >= 2 {
			break
		}
	}
	b, _ := json.Marshal(res)
	fmt.Println(string(b))
	return 0
}

// runC03AfterAborts: healthy peers in a process that has seen aborted sessions
// before. A second process without the aborted prefix runs the same healthy
// transfers at the same time: it is the canary (the hang rule's "the machine
// was not stalled") for a process whose own shared state may be what hangs.
func runC03AfterAborts(e *Env) {
	run := func(aborts int) (c03HistResult, error) {
		var res c03HistResult
		cmd := exec.Command(os.Args[0], "c03hist-child", e.Work, strconv.Itoa(aborts), strconv.FormatUint(e.Seed, 10))
		cmd.Env = append(os.Environ(), "VERIFHOOK=")
		out, err := cmd.Output()
		if err != nil {
			return res, fmt.Errorf("child: %v", err)
		}
		for _, ln := range splitLines(string(out)) {
			if len(ln) > 0 && ln[0] == '{' {
				if jerr := json.Unmarshal([]byte(ln), &res); jerr == nil {
					return res, nil
				}
			}
		}
		return res, fmt.Errorf("child printed no result")
	}
	type rr struct {
		r   c03HistResult
		err error
	}
	ch := make(chan rr, 2)
	go func() { r, err := run(e.Pick(24, 80)); ch <- rr{r, err} }()
	control, cerr := run(0)
	subject := <-ch
	e.R.Eval()
	if cerr != nil || subject.err != nil {
		e.R.Inconcl(fmt.Sprintf("after-aborted-sessions: %v / %v", cerr, subject.err))
		return
	}
	e.R.Distinct("history=after-aborted-sessions")
	e.R.SetExtra("after_aborted_sessions", map[string]any{"subject": subject.r, "control_process": control})
	if subject.r.Aborted < 8 {
		e.R.Inconcl(fmt.Sprintf("after-aborted-sessions: only %d sessions were really aborted", subject.r.Aborted))
		return
	}
	if subject.r.Hung > 0 {
		if control.Completed < control.Healthy {
			e.R.Inconcl("after-aborted-sessions: transfers hung but the control process did not complete its transfers either (machine stalled)")
			return
		}
		if subject.r.Hung < 2 {
			// one stall can be datagram loss and retransmission back-off on the loaded machine
			e.R.Inconcl("after-aborted-sessions: one transfer stalled and the next ones completed")
			return
		}
		e.R.Violate("healthy-transfer-failed:hang:history=after-aborted-sessions", fmt.Sprintf("after %d aborted sessions in the same process %d of %d transfers between healthy peers hung (a fresh process completed all %d at the same time)", subject.r.Aborted, subject.r.Hung, subject.r.Healthy, control.Completed),
			map[string]any{"history": "after-aborted-sessions", "aborted": subject.r.Aborted}, map[string]any{"goroutines": subject.r.Dump, "subject": subject.r, "control": control})
		return
	}
	if subject.r.Completed == subject.r.Healthy {
		e.R.Count("completed_after_aborted_sessions")
	} else {
		e.R.Inconcl("after-aborted-sessions: " + subject.r.Note)
	}
}

func splitLines(s string) []string {
	var out []string
	cur := ""
	for _, c := range s {
		if c == '\n' {
			out = append(out, cur)
			cur = ""
			continue
		}
		cur += string(c)
	}
	return append(out, cur)
}
