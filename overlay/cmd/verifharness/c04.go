//go:build verif

package main

import (
	"bufio"
	"context"
	"encoding/json"
	"fmt"
	"net"
	"os"
	"os/exec"
	"path/filepath"
	"sort"
	"strconv"
	"strings"
	"sync"
	"sync/atomic"
	"syscall"
	"time"

	"github.com/sheerbytes/sheerbytes/internal/app"
	"github.com/sheerbytes/sheerbytes/internal/quictransport"
	"github.com/sheerbytes/sheerbytes/internal/transfer"
	"github.com/sheerbytes/sheerbytes/internal/transferquic"
	"github.com/sheerbytes/sheerbytes/internal/verifhook"
	vk "github.com/sheerbytes/sheerbytes/internal/verifkit"
	"github.com/sheerbytes/sheerbytes/pkg/manifest"
)

// c04FinalRetries bounds the second tries of timed-out final resumes per run.
var c04FinalRetries int32

func init() {
	register("c04", func(e *Env) { runKillEngine(e, true, false) })
	register("c05", func(e *Env) { runKillEngine(e, false, true) })
	childCommands["recv-child"] = recvChild
}

// recvChild is the receiving process that gets killed: it listens on a
// loopback QUIC port, prints "PORT <n>", accepts one connection and runs the
// real RecvManifestMultiStream with the production options. VERIFHOOK in its
// environment decides where it dies.
func recvChild(args []string) int {
	if len(args) < 2 {
		fmt.Fprintln(os.Stderr, "recv-child <outDir> <streams>")
		return 3
	}
	outDir := args[0]
	streams, _ := strconv.Atoi(args[1])
	udp, err := net.ListenUDP("udp4", &net.UDPAddr{IP: net.IPv4(127, 0, 0, 1)})
	if err != nil {
		fmt.Fprintln(os.Stderr, "listen:", err)
		return 3
	}
	_, qtr, err := vk.ListenApp(udp, vk.QUICConfig(true, 4*time.Second))
	if err != nil {
		fmt.Fprintln(os.Stderr, "quic listen:", err)
		return 3
	}
	fmt.Printf("PORT %d\n", udp.LocalAddr().(*net.UDPAddr).Port)
	os.Stdout.Sync()
	ctx, cancel := context.WithTimeout(context.Background(), 60*time.Second)
	defer cancel()
	conn, err := qtr.Accept(ctx)
	if err != nil {
		fmt.Fprintln(os.Stderr, "accept:", err)
		return 3
	}
	opts := transfer.Options{Resume: os.Getenv("VERIF_RECV_NORESUME") == "", NoRootDir: true, HashAlg: "crc32c", ParallelFiles: streams}
	if ms, _ := strconv.Atoi(os.Getenv("VERIF_RECV_LATE_REPORT_MS")); ms > 0 {
		// the receiver's first control-stream write (the resume report) is held
		// past the sender's grace period: the sender starts without a plan; and
		// what arrives on the data streams is read with a lag, as over a link
		// whose data streams are behind its control stream
		lag, _ := strconv.Atoi(os.Getenv("VERIF_RECV_DATA_LAG_MS"))
		var once sync.Once
		d := &vk.Deco{Inner: conn, OnIO: func(ord int, dir string, n int) {
			if ord == 0 && dir == "w" {
				once.Do(func() { time.Sleep(time.Duration(ms) * time.Millisecond) })
			}
			if ord >= 1 && dir == "r" && lag > 0 {
				time.Sleep(time.Duration(lag) * time.Millisecond)
			}
		}}
		conn = d.Wrap()
	}
	_, err = transfer.RecvManifestMultiStream(ctx, conn, outDir, opts)
	_ = conn.Close()
	if err != nil {
		fmt.Fprintln(os.Stderr, "recv error:", err)
		return 1
	}
	fmt.Println("RECV-OK")
	return 0
}

type killWorkload struct {
	Name    string
	Tree    vk.Tree
	CS      uint32
	Streams int
	Hits    map[string]int // dry-run hit counts per site
	// GapOnly: used only by the "host restarted with another chunk size"
	// family (two many-chunk files, three streams, so that a stalled stream
	// leaves a gap in the persisted bitmap)
	GapOnly bool
}

func killWorkloads(e *Env) []*killWorkload {
	mk := func(name string, cs uint32, streams int, entries ...vk.Entry) *killWorkload {
		return &killWorkload{Name: name, CS: cs, Streams: streams,
			Tree: vk.Tree{Seed: vk.HashStr(name), Shape: name, Names: "plain", Entries: entries}}
	}
	w := []*killWorkload{
		mk("k3files", 64, 2, vk.Entry{Rel: "a.bin", Size: 640}, vk.Entry{Rel: "b.bin", Size: 200}, vk.Entry{Rel: "sub/c.bin", Size: 64*12 + 5}),
		mk("k5small", 64, 3, vk.Entry{Rel: "f0", Size: 64}, vk.Entry{Rel: "f1", Size: 130}, vk.Entry{Rel: "f2", Size: 0}, vk.Entry{Rel: "f3", Size: 500}, vk.Entry{Rel: "f4", Size: 65}),
	}
	g := mk("kgap", 64, 3, vk.Entry{Rel: "g0.bin", Size: 64*24 + 17}, vk.Entry{Rel: "g1.bin", Size: 64*24 + 60})
	g.GapOnly = true
	w = append(w, g)
	// one data stream: whatever trails a file on it is in front of the next file
	ser := mk("kserial", 64, 1, vk.Entry{Rel: "a.bin", Size: 64*3 + 5}, vk.Entry{Rel: "b.bin", Size: 64*7 + 2})
	ser.GapOnly = true
	w = append(w, ser)
	if e.Thorough() {
		w = append(w,
			mk("k1big", 4096, 1, vk.Entry{Rel: "big.bin", Size: 4096*30 + 100}),
			mk("k2wide", 1000, 4, vk.Entry{Rel: "w0.bin", Size: 1000 * 24}, vk.Entry{Rel: "d/w1.bin", Size: 1000*9 + 1}),
		)
	}
	return w
}

var killSites = []string{"recv.chunk.afterWrite", "recv.chunk.afterMark", "sidecar.flush.beforeRename", "sidecar.flush.afterRename"}

type killStep struct {
	Site   string `json:"site"`
	K      int    `json:"k"`
	Action string `json:"action"`  // kill | delaykill | sender-abort
	Slow   int    `json:"slow_ms"` // sleep per marked chunk so that the 1 s flusher produces intermediate sidecars
	// CS: chunk size the sender uses in this run (0 = the workload's). The
	// receiver takes the chunk size from FileBegin, so this models a host that
	// was restarted with another --chunk-size between the runs.
	CS uint32 `json:"cs,omitempty"`
	// StallAt > 0: the sender's first data stream stalls for 2.5 s just before
	// byte StallAt (the other streams go on), so that the bitmap persisted by
	// the 1 s flusher has a gap instead of being a plain prefix.
	StallAt int64 `json:"stall_at,omitempty"`
	// Pre: what happens to the output directory between the previous run and
	// this one: "" | "delete-data" | "shorten-data" (the data files that have a
	// sidecar are removed / cut to half; the resume metadata stays)
	Pre string `json:"pre,omitempty"`
	// NoResume: this run's receiver (and sender) have resume switched off (a
	// library user may do that; the CLI receiver cannot); the resume metadata
	// of earlier runs stays where it is
	NoResume bool `json:"no_resume,omitempty"`
}

type killCase struct {
	// FinalLate: in the final resume the receiver's resume report comes after
	// the sender's grace period (the sender starts without a plan and re-sends
	// what the receiver has) and the sender's data streams lag behind its
	// control stream
	FinalLate bool       `json:"final_late_report,omitempty"`
	ID        string     `json:"id"`
	W         string     `json:"workload"`
	Steps     []killStep `json:"steps"` // chain of interrupted runs, then a final clean resume
	// FinalCS: chunk size of the final clean resume (0 = the workload's)
	FinalCS uint32 `json:"final_cs,omitempty"`
}

// senderRun dials the child at port and runs the real sender; when the child
// dies the connection is closed so that the sender returns promptly.
type senderRun struct {
	Err      error
	CtrlRecv []byte // receiver->sender control bytes
}

func runSenderAgainst(ctx context.Context, port int, w *killWorkload, src string, childDead <-chan struct{}, abortAt, stallAt int64, noResume bool, slowDataMs int64) senderRun {
	var out senderRun
	udp, err := net.ListenUDP("udp4", &net.UDPAddr{IP: net.IPv4(127, 0, 0, 1)})
	if err != nil {
		out.Err = err
		return out
	}
	defer udp.Close()
	dctx, cancel := context.WithTimeout(ctx, 10*time.Second)
	raw, err := quictransport.DialWithConfig(dctx, udp, &net.UDPAddr{IP: net.IPv4(127, 0, 0, 1), Port: port}, vk.Quiet, vk.QUICConfig(false, 4*time.Second))
	cancel()
	if err != nil {
		out.Err = fmt.Errorf("dial child: %w", err)
		return out
	}
	conn, err := transferquic.NewDialer(raw, vk.Quiet).Dial(ctx, "peer")
	if err != nil {
		out.Err = err
		return out
	}
	m, err := manifest.ScanPaths([]string{src})
	if err != nil {
		out.Err = err
		return out
	}
	res, err := app.VerifBuildPathResolver([]string{src})
	if err != nil {
		out.Err = err
		return out
	}
	deco := &vk.Deco{Inner: conn, Record: true}
	if abortAt > 0 {
		deco.Fault = &vk.Fault{Stream: 1, Dir: "w", Offset: abortAt, Kind: "abort"}
		deco.Action = func(string) { _ = raw.CloseWithError(1, "abort") }
	} else if stallAt > 0 {
		deco.Fault = &vk.Fault{Stream: 1, Dir: "w", Offset: stallAt, Kind: "stall"}
		deco.Action = func(string) {
			select {
			case <-time.After(2500 * time.Millisecond):
			case <-childDead:
			}
		}
	}
	if slowDataMs > 0 {
		// the data streams lag behind the control stream
		deco.OnIO = func(ord int, dir string, n int) {
			if ord >= 1 && dir == "w" && n > 0 {
				time.Sleep(time.Duration(slowDataMs) * time.Millisecond)
			}
		}
	}
	sctx, scancel := context.WithCancel(ctx)
	defer scancel()
	go func() {
		select {
		case <-childDead:
			_ = raw.CloseWithError(1, "peer died")
			scancel()
		case <-sctx.Done():
		}
	}()
	cs, streams := w.CS, w.Streams
	opts := transfer.Options{ChunkSize: cs, ParallelFiles: streams, Resume: !noResume, HashAlg: "crc32c", ResolveFilePath: res,
		ParamSource: func() transfer.RuntimeParams { return transfer.RuntimeParams{ChunkSize: cs, ParallelFiles: streams} }}
	sconn := deco.Wrap()
	if slowDataMs < 0 {
		// a long link: 300 ms one way on the control stream (the resume report
		// of a file comes back after the sender's grace period), and data
		// streams that deliver their first frame at once and then fall far behind
		first := int64(20) + int64(cs)
		sconn = &vk.LagConn{Conn: sconn,
			Out: func(idx int, off int64) time.Duration {
				switch {
				case idx == 0:
					return 300 * time.Millisecond
				case off < first:
					return 30 * time.Millisecond
				}
				return time.Duration(-slowDataMs) * time.Millisecond
			},
			In: func(int) time.Duration { return 400 * time.Millisecond }}
	}
	out.Err = transfer.SendManifestMultiStream(sctx, sconn, ".", m, opts)
	_ = conn.Close()
	out.CtrlRecv = deco.Recorded(0, "r")
	return out
}

type childResult struct {
	ExitCode int
	Signaled bool
	Signal   string
	Stderr   string
	HookLog  []hookLine
	PortErr  string
}

type hookLine struct {
	Seq  uint64
	Name string
	A, B uint64
	S    string
}

func parseHookLog(path string) []hookLine {
	f, err := os.Open(path)
	if err != nil {
		return nil
	}
	defer f.Close()
	var out []hookLine
	sc := bufio.NewScanner(f)
	for sc.Scan() {
		var h hookLine
		ln := sc.Text()
		parts := strings.SplitN(ln, " ", 5)
		if len(parts) < 5 {
			continue
		}
		h.Seq, _ = strconv.ParseUint(parts[0], 10, 64)
		h.Name = parts[1]
		h.A, _ = strconv.ParseUint(parts[2], 10, 64)
		h.B, _ = strconv.ParseUint(parts[3], 10, 64)
		h.S, _ = strconv.Unquote(parts[4])
		out = append(out, h)
	}
	return out
}

// runInterrupted runs one receiver child (with the hook spec) against the sender.
func runInterrupted(e *Env, w *killWorkload, src, outDir, hookSpec string, abortAt int64, opt ...int64) (childResult, senderRun) {
	stallAt := int64(0)
	if len(opt) > 0 {
		stallAt = opt[0]
	}
	noResume := len(opt) > 1 && opt[1] != 0
	lateMs, slowDataMs := int64(0), int64(0)
	if len(opt) > 3 {
		lateMs, slowDataMs = opt[2], opt[3]
	}
	var cr childResult
	logPath := filepath.Join(filepath.Dir(outDir), fmt.Sprintf("hook-%d.log", time.Now().UnixNano()))
	cmd := exec.Command(os.Args[0], "recv-child", outDir, strconv.Itoa(w.Streams))
	cmd.Env = append(os.Environ(), "VERIFHOOK="+hookSpec, "VERIFHOOK_LOG="+logPath)
	if noResume {
		cmd.Env = append(cmd.Env, "VERIF_RECV_NORESUME=1")
	}
	if lateMs > 0 {
		cmd.Env = append(cmd.Env, fmt.Sprintf("VERIF_RECV_LATE_REPORT_MS=%d", lateMs), fmt.Sprintf("VERIF_RECV_DATA_LAG_MS=%d", slowDataMs))
		slowDataMs = 0 // the lag is on the receiving end
	}
	stdout, _ := cmd.StdoutPipe()
	var stderr strings.Builder
	cmd.Stderr = &stderr
	if err := cmd.Start(); err != nil {
		cr.PortErr = err.Error()
		return cr, senderRun{}
	}
	dead := make(chan struct{})
	portCh := make(chan int, 1)
	go func() {
		sc := bufio.NewScanner(stdout)
		for sc.Scan() {
			ln := sc.Text()
			if strings.HasPrefix(ln, "PORT ") {
				p, _ := strconv.Atoi(strings.TrimPrefix(ln, "PORT "))
				portCh <- p
			}
		}
	}()
	waitDone := make(chan error, 1)
	go func() { waitDone <- cmd.Wait(); close(dead) }()
	var sr senderRun
	select {
	case port := <-portCh:
		ctx, cancel := context.WithTimeout(context.Background(), 40*time.Second)
		sr = runSenderAgainst(ctx, port, w, src, dead, abortAt, stallAt, noResume, slowDataMs)
		cancel()
	case <-dead:
		cr.PortErr = "child exited before printing its port: " + stderr.String()
	case <-time.After(15 * time.Second):
		cr.PortErr = "child did not print a port"
		_ = cmd.Process.Kill()
	}
	select {
	case <-dead:
	case <-time.After(45 * time.Second):
		_ = cmd.Process.Kill()
		<-dead
		cr.PortErr += " child did not exit (killed by harness)"
	}
	<-waitDone
	if ps := cmd.ProcessState; ps != nil {
		cr.ExitCode = ps.ExitCode()
		if ws, ok := ps.Sys().(syscall.WaitStatus); ok && ws.Signaled() {
			cr.Signaled = true
			cr.Signal = ws.Signal().String()
		}
	}
	cr.Stderr = stderr.String()
	cr.HookLog = parseHookLog(logPath)
	_ = os.Remove(logPath)
	return cr, sr
}

// sidecarSnapshot is what LoadSidecar accepts on disk after an interruption.
type sidecarSnapshot struct {
	FileID string
	Total  uint32
	CS     uint32
	Bits   []bool
	Path   string
}

func snapshotSidecars(outDir string) (loaded []sidecarSnapshot, unloadable []string, tmpLeft []string) {
	dir := filepath.Join(outDir, vk.ResumeDirName)
	ents, _ := os.ReadDir(dir)
	for _, en := range ents {
		p := filepath.Join(dir, en.Name())
		if strings.HasSuffix(en.Name(), ".tmp") {
			tmpLeft = append(tmpLeft, en.Name())
			continue
		}
		if !strings.HasSuffix(en.Name(), ".sbxmap") {
			continue
		}
		sc, err := transfer.LoadSidecar(p)
		if err != nil {
			unloadable = append(unloadable, en.Name()+": "+err.Error())
			continue
		}
		s := sidecarSnapshot{FileID: sc.FileID, Total: sc.TotalChunks, CS: sc.ChunkSize, Path: p}
		for i := uint32(0); i < sc.TotalChunks; i++ {
			s.Bits = append(s.Bits, sc.IsComplete(i))
		}
		loaded = append(loaded, s)
	}
	return
}

// decodeResumeInfos parses FileResumeInfo records from receiver->sender bytes.
func decodeResumeInfos(b []byte) map[string][]transfer.FileResumeInfo {
	out := map[string][]transfer.FileResumeInfo{}
	ms := vk.NewMemStream(b)
	for ms.Remaining() > 0 {
		typ, msg, err := transfer.VerifCoreReadControlMessage(ms)
		if err != nil {
			break
		}
		if typ == transfer.VerifTypeFileResumeInfo {
			ri := msg.(transfer.FileResumeInfo)
			out[ri.FileID] = append(out[ri.FileID], ri)
		}
	}
	return out
}

func bitOf(bm []byte, i int) bool {
	if i/8 >= len(bm) {
		return false
	}
	return bm[i/8]&(1<<uint(i%8)) != 0
}

func runKillEngine(e *Env, c04, c05 bool) {
	r := vk.NewRng(vk.Mix(e.Seed ^ vk.HashStr("kill"+e.Tier)))
	wls := killWorkloads(e)
	byName := map[string]*killWorkload{}
	prop := "C04"
	if c05 && !c04 {
		prop = "C05"
	}
	e.R.Rule = "a receiver child process (real RecvManifestMultiStream, production options) is SIGKILLed by the verifhook env action at the K-th hit of each kill site {after chunk write, after bitmap mark, before / after the sidecar rename} (kill and delaykill(1200 ms), with a per-chunk delay so that the 1 s flusher persists intermediate bitmaps), or the sender aborts; after every interruption the on-disk state is inspected, then the same tree is fetched again with resume (chains of 2-3 interruptions sampled); a case counts when the child really died by SIGKILL at the site (or the sender abort fired) and a resume followed; distinct by (workload, site, K, action, chain)"

	// dry runs: hit counts per site
	srcBase := vk.TempDir(e.Work, "killsrc-")
	defer os.RemoveAll(srcBase)
	for _, w := range wls {
		byName[w.Name] = w
		src := filepath.Join(srcBase, w.Name, "srcroot")
		if err := w.Tree.Materialize(src); err != nil {
			e.R.Inconcl("materialize: " + err.Error())
			e.R.Require(false, "setup failed")
			return
		}
		out := vk.TempDir(e.Work, "dry-")
		cr, sr := runInterrupted(e, w, src, filepath.Join(out, "out"), "x=log", 0)
		w.Hits = map[string]int{}
		for _, h := range cr.HookLog {
			w.Hits[h.Name]++
		}
		os.RemoveAll(out)
		if cr.ExitCode != 0 || sr.Err != nil {
			e.R.Inconcl(fmt.Sprintf("dry run of %s failed: exit=%d sender=%v child=%s %s", w.Name, cr.ExitCode, sr.Err, cr.Stderr, cr.PortErr))
			e.R.Require(false, "dry run failed")
			return
		}
	}
	dry := map[string]any{}
	for _, w := range wls {
		dry[w.Name] = w.Hits
	}
	e.R.SetExtra("dry_run_hook_hits", dry)

	var cases []killCase
	add := func(w string, steps ...killStep) {
		cases = append(cases, killCase{ID: fmt.Sprintf("%s-%05d", prop, len(cases)), W: w, Steps: steps})
	}
	kstep := e.Pick(2, 1)
	for _, w := range wls {
		if w.GapOnly {
			continue
		}
		for _, site := range killSites {
			n := w.Hits[site]
			chunkSite := strings.HasPrefix(site, "recv.chunk")
			if !chunkSite {
				n += 6 // with the per-chunk delay the 1 s ticker adds flushes beyond the dry-run count
			}
			for k := 1 + r.Intn(kstep); k <= n; k += kstep {
				// fast variant: no intermediate flushes; slow variant: the 1 s ticker persists intermediate bitmaps
				if k <= w.Hits[site] {
					add(w.Name, killStep{Site: site, K: k, Action: "kill", Slow: 0})
				}
				add(w.Name, killStep{Site: site, K: k, Action: "kill", Slow: 45})
				if chunkSite && (k%3 == 0 || e.Thorough()) {
					add(w.Name, killStep{Site: site, K: k, Action: "delaykill", Slow: 0})
				}
			}
		}
		// sender aborts (the receiver process survives, sees the loss and exits by itself)
		for i := 0; i < e.Pick(3, 12); i++ {
			add(w.Name, killStep{Site: "sender", K: 100 + r.Intn(1500), Action: "sender-abort", Slow: 45})
		}
		// chains
		for i := 0; i < e.Pick(6, 50); i++ {
			var steps []killStep
			for j := 0; j < 2+r.Intn(2); j++ {
				site := killSites[r.Intn(2)]
				n := w.Hits[site]
				if n < 2 {
					n = 2
				}
				steps = append(steps, killStep{Site: site, K: 1 + r.Intn(n-1), Action: []string{"kill", "kill", "delaykill"}[r.Intn(3)], Slow: 45})
			}
			add(w.Name, steps...)
		}
		// a run without resume in between: the metadata of the earlier run stays
		for k := 2; k <= e.Pick(6, 10); k += 2 {
			add(w.Name, killStep{Site: "recv.chunk.afterMark", K: k, Action: "delaykill", Slow: 45},
				killStep{Site: "recv.chunk.afterWrite", K: 1 + k%3, Action: "kill", NoResume: true})
		}
		// the data file disappears or shrinks under a persisted sidecar between
		// the runs; the next run is killed right after its first chunk
		for _, pre := range []string{"delete-data", "shorten-data"} {
			for k := 2; k <= e.Pick(4, 8); k += 2 {
				add(w.Name, killStep{Site: "recv.chunk.afterMark", K: k, Action: "delaykill", Slow: 45},
					killStep{Site: "recv.chunk.afterWrite", K: 1, Action: "kill", Pre: pre})
			}
		}
	}
	if c04 {
		// final resumes whose report comes late while the data streams lag: the
		// sender re-sends what the receiver has, files complete under duplicates
		for _, w := range wls {
			ks := []int{5, 9, 14, 20}
			if w.Name == "kserial" {
				ks = []int{4, 5, 6, 8}
			}
			for _, k := range ks {
				if k > w.Hits["recv.chunk.afterMark"] {
					continue
				}
				cases = append(cases, killCase{ID: fmt.Sprintf("%s-%05d", prop, len(cases)), W: w.Name, FinalLate: true,
					Steps: []killStep{{Site: "recv.chunk.afterMark", K: k, Action: "delaykill", Slow: 45}}})
			}
		}
	}
	if c05 && !c04 {
		// the SOURCE changes between the runs: the biggest file of the tree (a
		// regular file, or a symbolic link to one that lives outside the tree)
		// is rewritten in place with other bytes of the same length and a new
		// modification time; whatever the next run finds marked must hold the
		// bytes of the source as it is now
		for _, w := range wls {
			if w.GapOnly {
				continue
			}
			for _, pre := range []string{"rewrite-link-target", "rewrite-source"} {
				for k := 2; k <= e.Pick(6, 12); k += 2 {
					add(w.Name, killStep{Site: "recv.chunk.afterMark", K: k + 2, Action: "delaykill", Slow: 45},
						killStep{Site: "recv.chunk.afterWrite", K: k, Action: "kill", Pre: pre})
				}
			}
		}
	}
	for _, w := range wls {
		if !w.GapOnly || w.Name == "kserial" {
			continue
		}
		// host restarted with another chunk size between the runs: the first run
		// is killed while one data stream is stalled (so the persisted bitmap has
		// a gap), the next run uses a chunk size that keeps the chunk count of
		// some files (smaller / larger) or changes it
		frame := int64(20 + w.CS)
		stalls := []int64{10, 2*frame + 10}
		if e.Thorough() {
			stalls = append(stalls, frame+10, 4*frame+10)
		}
		for _, alt := range altChunkSizes(w) {
			for _, st := range stalls {
				gap := killStep{Site: "recv.chunk.afterMark", K: 8, Action: "delaykill", Slow: 45, StallAt: st}
				cases = append(cases, killCase{ID: fmt.Sprintf("%s-%05d", prop, len(cases)), W: w.Name, Steps: []killStep{gap}, FinalCS: alt})
				cases = append(cases, killCase{ID: fmt.Sprintf("%s-%05d", prop, len(cases)), W: w.Name, FinalCS: alt,
					Steps: []killStep{gap, {Site: "recv.chunk.afterMark", K: 1, Action: "delaykill", CS: alt}}})
			}
		}
	}
	e.R.SetExtra("cases_generated", len(cases))

	var mu sync.Mutex
	killSitesHit := map[string]int{}
	marked, compared := 0, 0
	vk.ParallelDo(len(cases), 16, func(i int) {
		c := cases[i]
		w := byName[c.W]
		src := filepath.Join(srcBase, w.Name, "srcroot")
		base := vk.TempDir(e.Work, "kill-")
		defer os.RemoveAll(base)
		outDir := filepath.Join(base, "out")
		e.R.Eval()
		expected := vk.ExpectedDigest(w.Tree, "srcroot/")
		// chains that rewrite the source work on a private copy of it
		rwRel, rwFile := "", ""
		for _, st := range c.Steps {
			if !strings.HasPrefix(st.Pre, "rewrite-") {
				continue
			}
			src = filepath.Join(base, "src", "srcroot")
			if err := w.Tree.Materialize(src); err != nil {
				e.R.Inconcl(c.ID + ": materialize: " + err.Error())
				return
			}
			var big int64 = -1
			for _, en := range w.Tree.Entries {
				if !en.Dir && en.Link == "" && en.Size > big {
					big, rwRel = en.Size, en.Rel
				}
			}
			rwFile = filepath.Join(src, filepath.FromSlash(rwRel))
			if st.Pre == "rewrite-link-target" {
				tgt := filepath.Join(base, "linktargets", "t.bin")
				_ = os.MkdirAll(filepath.Dir(tgt), 0755)
				if os.Rename(rwFile, tgt) != nil || os.Symlink(tgt, rwFile) != nil {
					e.R.Inconcl(c.ID + ": cannot turn " + rwRel + " into a link")
					return
				}
				rwFile = tgt
			}
			break
		}
		var lastSnap []sidecarSnapshot
		lastSnapCS := w.CS
		died := 0
		for si, st := range c.Steps {
			spec := ""
			if st.Slow > 0 {
				spec = fmt.Sprintf("recv.chunk.afterMark=sleep(%d);", st.Slow)
			}
			abortAt := int64(0)
			switch st.Action {
			case "kill":
				spec += fmt.Sprintf("%s=kill@%d;x=log", st.Site, st.K)
			case "delaykill":
				spec += fmt.Sprintf("%s=delaykill(1200)@%d;x=log", st.Site, st.K)
			case "sender-abort":
				spec += "x=log"
				abortAt = int64(st.K)
			}
			ws := *w
			if st.CS > 0 {
				ws.CS = st.CS
			}
			if strings.HasPrefix(st.Pre, "rewrite-") {
				fi, err := os.Stat(rwFile)
				if err != nil {
					e.R.Inconcl(c.ID + ": " + err.Error())
					return
				}
				buf := make([]byte, fi.Size())
				vk.FillContent(w.Tree.Seed^0x5eed0fa11, "rewritten/"+rwRel, 0, buf)
				f, err := os.OpenFile(rwFile, os.O_WRONLY, 0)
				if err == nil {
					_, err = f.WriteAt(buf, 0)
					_ = f.Close()
				}
				if err != nil || os.Chtimes(rwFile, fi.ModTime().Add(7*time.Second), fi.ModTime().Add(7*time.Second)) != nil {
					e.R.Inconcl(c.ID + ": rewrite of the source failed")
					return
				}
				e.R.Count("source_rewritten_between_runs:" + st.Pre)
			} else if st.Pre != "" {
				mm, _ := manifest.ScanPaths([]string{src})
				n := 0
				for _, sn := range lastSnap {
					for _, it := range mm.Items {
						if it.ID != sn.FileID {
							continue
						}
						dp := filepath.Join(outDir, filepath.FromSlash(it.RelPath))
						if st.Pre == "delete-data" {
							if os.Remove(dp) == nil {
								n++
							}
						} else if os.Truncate(dp, it.Size/2) == nil {
							n++
						}
					}
				}
				if n == 0 {
					e.R.Count("pre_step_found_no_data_file_with_sidecar")
					return
				}
				e.R.Count("data_files_removed_or_cut_under_a_sidecar")
			}
			nr := int64(0)
			if st.NoResume {
				nr = 1
			}
			cr, _ := runInterrupted(e, &ws, src, outDir, spec, abortAt, st.StallAt, nr)
			if cr.PortErr != "" {
				e.R.Inconcl(c.ID + ": " + cr.PortErr)
				return
			}
			if st.Action != "sender-abort" {
				if !(cr.Signaled && cr.Signal == "killed") {
					// the site was not reached in this run (e.g. fewer chunks needed after a resume): no verdict for this step
					e.R.Count("kill_site_not_reached")
					if cr.ExitCode != 0 {
						e.R.Count("interrupted_run_failed_without_kill")
					}
					continue
				}
				died++
				mu.Lock()
				killSitesHit[st.Site+"/"+st.Action]++
				mu.Unlock()
			} else {
				if cr.ExitCode == 0 {
					e.R.Count("sender_abort_not_reached")
					continue
				}
				died++
				mu.Lock()
				killSitesHit["sender-abort"]++
				mu.Unlock()
			}
			// ---- C05: inspect the state found on disk
			loaded, unloadable, _ := snapshotSidecars(outDir)
			lastSnap = loaded
			lastSnapCS = ws.CS
			if st.StallAt > 0 {
				gap := false
				for _, sn := range loaded {
					seenZero := false
					for _, b := range sn.Bits {
						if !b {
							seenZero = true
						} else if seenZero {
							gap = true
						}
					}
				}
				if gap {
					e.R.Count("gap_bitmaps_persisted_by_stalled_runs")
				} else {
					e.R.Count("stalled_runs_without_gap_bitmap")
				}
			}
			if c05 {
				for _, u := range unloadable {
					// an unreadable sidecar is ignored by the tool; only a violation if a previous valid version must exist
					_ = u
					e.R.Count("unloadable_sidecars_seen")
				}
				// atomic replace: at beforeRename with an earlier completed rename of the same path, the previous version must load
				if st.Site == "sidecar.flush.beforeRename" || st.Site == "sidecar.flush.afterRename" {
					renamed := map[string]int{}
					var lastPath string
					for _, h := range cr.HookLog {
						if h.Name == "sidecar.flush.afterRename" {
							renamed[h.S]++
						}
						if h.Name == st.Site {
							lastPath = h.S
						}
					}
					need := renamed[lastPath] >= 1
					if st.Site == "sidecar.flush.beforeRename" && need || st.Site == "sidecar.flush.afterRename" {
						if _, err := transfer.LoadSidecar(lastPath); err != nil && lastPath != "" {
							e.R.Violate("atomic-replace:previous-version-lost", fmt.Sprintf("killed at %s (hit %d) of %s: the sidecar had been renamed into place %d time(s) before, yet no valid version is on disk: %v", st.Site, st.K, filepath.Base(lastPath), renamed[lastPath], err), c, nil)
						} else {
							e.R.Count("atomic_replace_checked")
						}
					}
				}
				m, _ := manifest.ScanPaths([]string{src})
				byID := map[string]manifest.FileItem{}
				for _, it := range m.Items {
					byID[it.ID] = it
				}
				begun := map[uint64]bool{}
				for _, h := range cr.HookLog {
					if h.Name == "recv.begin.handled" {
						begun[h.A] = true
					}
				}
				for _, sn := range loaded {
					it, ok := byID[sn.FileID]
					if !ok {
						continue
					}
					if st.Pre != "" && !begun[transfer.VerifCoreFileKey(it)] {
						// the harness removed the data under this sidecar and the
						// killed run had not reached the file yet: the stale pair
						// is the harness's doing, not a state the receiver wrote
						e.R.Count("stale_pairs_of_files_not_begun_skipped")
						continue
					}
					sc, err := transfer.LoadSidecar(sn.Path)
					if err != nil {
						continue
					}
					if st.Pre != "" {
						e.R.Count("sidecars_of_begun_files_compared_after_data_removal")
					}
					nm := 0
					for _, b := range sn.Bits {
						if b {
							nm++
						}
					}
					v := ""
					if strings.HasPrefix(st.Pre, "rewrite-") && it.RelPath == "srcroot/"+rwRel {
						// the source as it is now
						v = checkSidecarAgainstFile(sc, filepath.Join(outDir, filepath.FromSlash(it.RelPath)), rwFile, rwRel)
						e.R.Count("sidecars_compared_with_the_rewritten_source")
					} else {
						v = checkSidecarAgainstSource(sc, filepath.Join(outDir, filepath.FromSlash(it.RelPath)), w.Tree, strings.TrimPrefix(it.RelPath, "srcroot/"), nil)
					}
					mu.Lock()
					marked += nm
					compared++
					mu.Unlock()
					if v != "" {
						key := "marked-chunk-differs:after-kill:" + st.Site
						if st.CS > 0 {
							key += ":after-chunk-size-change"
						}
						if st.Pre != "" {
							key += ":after-" + st.Pre
						}
						if st.NoResume {
							key += ":in-a-run-without-resume"
						}
						e.R.Violate(key, fmt.Sprintf("after %s@%d (%s, chunk size %d): %s", st.Site, st.K, st.Action, ws.CS, v), c, map[string]any{"step": si})
					}
				}
			}
		}
		if died == 0 {
			e.R.NoVerd()
			return
		}
		// ---- final clean resume (in a child without kill action)
		wf := *w
		if c.FinalCS > 0 {
			wf.CS = c.FinalCS
		}
		var cr childResult
		var sr senderRun
		if c.FinalLate {
			cr, sr = runInterrupted(e, &wf, src, outDir, "x=log", 0, 0, 0, 0, -1500)
			e.R.Count("final_resumes_with_late_report_and_lagging_data_streams")
			writes := map[uint64]int{}
			dups := 0
			for _, h := range cr.HookLog {
				if h.Name == "recv.chunk.afterWrite" {
					writes[h.A<<20|h.B]++
					if writes[h.A<<20|h.B] > 1 {
						dups++
					}
				}
			}
			// chunks written although the receiver had them: what a sender without a plan re-sends
			var total int64
			for _, en := range wf.Tree.Entries {
				total += (en.Size + int64(wf.CS) - 1) / int64(wf.CS)
			}
			e.R.SetExtra("late_final:"+c.ID, map[string]any{"chunk_writes": len(cr.HookLog), "distinct_chunks_written": len(writes), "chunks_in_tree": total, "exit": cr.ExitCode})
		} else {
			cr, sr = runInterrupted(e, &wf, src, outDir, "x=log", 0)
		}
		if cr.PortErr != "" {
			e.R.Inconcl(c.ID + ": final run: " + cr.PortErr)
			return
		}
		key := chainKey(c)
		e.R.Distinct(c.W + "/" + key)
		if c04 {
			if cr.ExitCode != 0 || sr.Err != nil {
				// a run that ended in a deadline or in the transport's idle
				// timeout may be datagram loss on the loaded machine: resume
				// once more (which the property covers as well) and only
				// report a failure that shows again
				txt := lastLine(cr.Stderr) + " " + fmt.Sprint(sr.Err)
				if (strings.Contains(txt, "deadline exceeded") || strings.Contains(txt, "no recent network activity")) && atomic.AddInt32(&c04FinalRetries, 1) <= 3 {
					cr2, sr2 := runInterrupted(e, &wf, src, outDir, "x=log", 0)
					if cr2.PortErr == "" && cr2.ExitCode == 0 && sr2.Err == nil {
						e.R.Count("final_resume_timed_out_once")
						e.R.Inconcl(c.ID + ": the final resume ran into a deadline once (" + strings.TrimSpace(txt) + ") and succeeded when run again")
						return
					}
				}
				e.R.Violate("resume-fails:"+siteClass(c), fmt.Sprintf("resumed run after %s did not succeed: receiver exit=%d (%s) sender err=%v", key, cr.ExitCode, strings.TrimSpace(lastLine(cr.Stderr)), sr.Err), c, nil)
				return
			}
			got, err := vk.Digest(outDir)
			if err != nil {
				e.R.Inconcl(c.ID + ": digest: " + err.Error())
				return
			}
			if d := vk.DiffDigest(expected, got); len(d) > 0 {
				e.R.Violate("resume-wrong-tree:"+siteClass(c), fmt.Sprintf("resumed run after %s succeeded on both sides but the tree differs: %v", key, d), c, map[string]any{"diff": d})
				return
			}
			// advertised bitmap must contain every bit the on-disk sidecar had after the last kill
			infos := decodeResumeInfos(sr.CtrlRecv)
			if wf.CS != lastSnapCS || wf.CS != w.CS {
				e.R.Count("resumed_ok_after_chunk_size_change")
			}
			for _, st := range c.Steps {
				if st.Pre != "" {
					// data was removed under the sidecars by the harness: which
					// bits survive is C06's subject, not "finished work"
					lastSnap = nil
				}
			}
			for _, sn := range lastSnap {
				if sn.CS != wf.CS {
					// recorded for another chunk size: the bits describe other
					// byte ranges and are rightly not advertised
					e.R.Count("sidecars_of_other_chunk_size_not_compared")
					continue
				}
				ris := infos[sn.FileID]
				if len(ris) == 0 {
					// the file may have been complete already and not begun again? every file is begun on every run
					e.R.Violate("resume-info-missing:"+siteClass(c), fmt.Sprintf("no FileResumeInfo for file id %s although a valid sidecar was on disk", sn.FileID), c, nil)
					continue
				}
				ri := ris[0]
				// the sender uses recorded bits only up to the chunk the report
				// names as verified: a report that names a lower chunk than the
				// highest one recorded makes the sender send finished chunks again
				highest := -1
				for i, b := range sn.Bits {
					if b {
						highest = i
					}
				}
				if highest >= 0 && int64(ri.LastVerifiedChunk) < int64(highest) {
					e.R.Violate("finished-chunks-above-a-gap-not-usable:"+siteClass(c), fmt.Sprintf("on-disk sidecar of %s marks chunk %d complete but the resumed receiver's report lets the sender use its bits only up to chunk %d: the finished chunks above are requested again", sn.FileID, highest, ri.LastVerifiedChunk), c, map[string]any{"bitmap": fmt.Sprintf("%x", ri.Bitmap), "sidecar_bits": sn.Bits})
					continue
				}
				for i, b := range sn.Bits {
					if b && !bitOf(ri.Bitmap, i) {
						e.R.Violate("finished-chunk-not-advertised:"+siteClass(c), fmt.Sprintf("on-disk sidecar of %s marks chunk %d complete after the interruption but the resumed receiver's FileResumeInfo does not advertise it", sn.FileID, i), c, map[string]any{"bitmap": fmt.Sprintf("%x", ri.Bitmap)})
						break
					}
				}
				e.R.Count("resume_infos_compared")
			}
			e.R.Count("resumed_ok")
		}
		if i%37 == 0 {
			e.R.Sample(map[string]any{"case": c, "final_exit": cr.ExitCode, "sender_err": errS(sr.Err), "sidecars_after_last_kill": len(lastSnap)})
		}
	})
	e.R.SetExtra("kill_sites_hit", killSitesHit)
	e.R.SetExtra("sidecars_compared_after_kill", compared)
	e.R.SetExtra("marked_chunks_in_those_sidecars", marked)
	total := 0
	for _, v := range killSitesHit {
		total += v
	}
	e.R.Require(total >= e.Pick(60, 400), fmt.Sprintf("only %d kills landed", total))
	if c05 {
		// second monitor: in-process invariant under load (multi-stream and legacy receiver)
		runC05InProcess(e)
		runC05FlushTorture(e)
		e.R.Require(e.R.Counter("sidecars_of_begun_files_compared_after_data_removal") >= e.Pick(2, 6), fmt.Sprintf("only %d sidecars compared after the data file was removed under them", e.R.Counter("sidecars_of_begun_files_compared_after_data_removal")))
		e.R.Require(compared >= e.Pick(10, 100), fmt.Sprintf("only %d loadable sidecars compared after kills", compared))
		if !c04 {
			e.R.Require(e.R.Counter("sidecars_compared_with_the_rewritten_source") >= 1, "no sidecar of a file whose source was rewritten between the runs was compared")
		}
	}
	e.R.Require(e.R.Counter("gap_bitmaps_persisted_by_stalled_runs") >= e.Pick(6, 20), fmt.Sprintf("only %d stalled runs left a bitmap with a gap", e.R.Counter("gap_bitmaps_persisted_by_stalled_runs")))
	if c04 {
		e.R.Require(e.R.Counter("resumed_ok_after_chunk_size_change") >= e.Pick(6, 20), fmt.Sprintf("only %d resumes with a changed chunk size judged", e.R.Counter("resumed_ok_after_chunk_size_change")))
		e.R.Require(e.R.Counter("resumed_ok") >= e.Pick(60, 400), fmt.Sprintf("only %d resumed runs judged", e.R.Counter("resumed_ok")))
	}
}

func lastLine(s string) string {
	s = strings.TrimSpace(s)
	if i := strings.LastIndexByte(s, '\n'); i >= 0 {
		return s[i+1:]
	}
	return s
}

func chainKey(c killCase) string {
	if c.FinalLate {
		return "late-report+lagging-data:" + chainKeyPlain(c)
	}
	return chainKeyPlain(c)
}

func chainKeyPlain(c killCase) string {
	var parts []string
	for _, s := range c.Steps {
		p := fmt.Sprintf("%s@%d:%s", s.Site, s.K, s.Action)
		if s.StallAt > 0 {
			p += fmt.Sprintf(":stall%d", s.StallAt)
		}
		if s.CS > 0 {
			p += fmt.Sprintf(":cs%d", s.CS)
		}
		if s.Pre != "" {
			p = s.Pre + ">" + p
		}
		if s.NoResume {
			p += ":noresume"
		}
		parts = append(parts, p)
	}
	if c.FinalCS > 0 {
		parts = append(parts, fmt.Sprintf("final:cs%d", c.FinalCS))
	}
	return strings.Join(parts, "+")
}

// rechunked reports whether any run of the case uses another chunk size than
// the workload's first run.
func rechunked(c killCase) bool {
	for _, s := range c.Steps {
		if s.CS > 0 {
			return true
		}
	}
	return c.FinalCS > 0
}

// altChunkSizes returns chunk sizes other than the workload's for the later
// runs of a case: the nearest smaller and the nearest larger size that keep the
// chunk count of at least one file with three or more chunks (the sidecar
// identity check must tell them apart by size, not by count), and one that
// changes every count.
func altChunkSizes(w *killWorkload) []uint32 {
	count := func(size int64, cs uint32) int64 { return (size + int64(cs) - 1) / int64(cs) }
	keeps := func(cs uint32) int {
		n := 0
		for _, en := range w.Tree.Entries {
			if !en.Dir && count(en.Size, w.CS) >= 3 && count(en.Size, cs) == count(en.Size, w.CS) {
				n++
			}
		}
		return n
	}
	var out []uint32
	for c := w.CS - 1; c > w.CS/2 && c > 0; c-- {
		if keeps(c) > 0 {
			out = append(out, c)
			break
		}
	}
	for c := w.CS + 1; c < 2*w.CS; c++ {
		if keeps(c) > 0 {
			out = append(out, c)
			break
		}
	}
	return append(out, w.CS*2)
}

func siteClass(c killCase) string {
	set := map[string]bool{}
	for _, s := range c.Steps {
		set[s.Site+":"+s.Action] = true
	}
	var k []string
	for s := range set {
		k = append(k, s)
	}
	sort.Strings(k)
	pre := ""
	if rechunked(c) {
		pre = "rechunk:"
	}
	for _, s := range c.Steps {
		if s.Pre != "" {
			pre = s.Pre + ":" + pre
			break
		}
	}
	if len(c.Steps) > 1 {
		return pre + "chain:" + strings.Join(k, "+")
	}
	return pre + strings.Join(k, "+")
}

// runC05InProcess drives many in-process resumed transfers with jitter at the
// chunk hooks while the sidecar invariant callback compares every flushed
// sidecar with the source.
func runC05InProcess(e *Env) {
	lp, err := vk.NewListenerPool(16, 5*time.Second)
	if err != nil {
		e.R.Inconcl("listener pool: " + err.Error())
		return
	}
	defer lp.Close()
	inv := newSidecarInvariant(e)
	curInv = inv
	defer func() { curInv = nil; verifhook.Reset() }()
	// widen the write->mark and mark->flush windows
	jit := func(ev verifhook.Event) {
		v := vk.Mix(e.Seed ^ ev.Seq)
		if v%4 == 0 {
			time.Sleep(time.Duration(v%3000) * time.Microsecond)
		}
	}
	verifhook.Set("recv.chunk.afterWrite", jit)
	verifhook.Set("recv.chunk.afterMark", jit)
	// overlapping flushes of the same sidecar: a background flusher (what the
	// 1 s ticker and the signal handler's FlushAllFlushers do) runs against the
	// receivers' own flushes, with a small delay between temp-file write and
	// rename; every sidecar renamed into place must load (atomic replacement)
	verifhook.Set("sidecar.flush.beforeRename", func(ev verifhook.Event) {
		if v := vk.Mix(e.Seed ^ ev.Seq); v%2 == 0 {
			time.Sleep(time.Duration(v%1500) * time.Microsecond)
		}
	})
	stopFlusher := make(chan struct{})
	var flusherWG sync.WaitGroup
	for k := 0; k < 2; k++ {
		flusherWG.Add(1)
		go func() {
			defer flusherWG.Done()
			for {
				select {
				case <-stopFlusher:
					return
				default:
				}
				transfer.FlushAllFlushers()
				time.Sleep(150 * time.Microsecond)
			}
		}()
	}
	defer func() { close(stopFlusher); flusherWG.Wait() }()
	r := vk.NewRng(vk.Mix(e.Seed ^ vk.HashStr("c05inproc"+e.Tier)))
	n := e.Pick(150, 2500)
	var cases []xferCase
	for i := 0; i < n; i++ {
		c := xferCase{ID: fmt.Sprintf("C05-inproc-%05d", i), Shape: []string{"boundary", "manysmall", "nested", "onefile"}[r.Intn(4)], Names: "plain", TSeed: r.U64()}
		c.Cfg = vk.XferCfg{Transport: []string{"quic", "mock"}[r.Intn(2)], Conns: 1, Streams: 1 + r.Intn(4), ChunkSize: []uint32{7, 64, 1000}[r.Intn(3)], Resume: true, NoRootDir: r.Bool(), ScanPaths: r.Bool()}
		// every third transfer writes over what is already at the destination:
		// another version of the files, or the state of an earlier session
		if i%3 == 0 {
			c.Preexist = []string{"longer", "samelen", "samelen", "leftover-samecs", "leftover-samecount"}[r.Intn(5)]
		}
		cases = append(cases, c)
	}
	vk.ParallelDo(len(cases), 16, func(i int) {
		o := runXferCase(e, lp, cases[i], false)
		e.R.Eval()
		if o.Res.BothOK() {
			e.R.Count("inprocess_transfers_ok")
			if cases[i].Preexist != "" {
				e.R.Count("inprocess_transfers_ok_over_existing_content")
			}
		}
	})
	for v := 0; v < e.Pick(2, 6); v++ {
		runC05BigFile(e, lp, v)
	}
	e.R.Require(e.R.Counter("bigfile_marked_chunks_beyond_4GiB_compared") >= 1, "no sidecar of a file over 4 GiB was compared with the file")
	inv.finish(e.R)
	for _, v := range inv.violations() {
		e.R.Violate(v.Key, v.What, v.Case, nil)
	}
	e.R.Require(inv.checks.Load() >= int64(e.Pick(200, 3000)), fmt.Sprintf("in-process monitor saw only %d sidecar flushes", inv.checks.Load()))
	_ = json.Marshal
}

// runC05FlushTorture observes the disk at arbitrary instants while several
// goroutines mark chunks of one large sidecar and flush it concurrently (what
// the 1 s ticker, finalizeFile and the signal handler's FlushAllFlushers do to
// one sidecar): once the sidecar exists, every observation must find a version
// that LoadSidecar accepts - which is what a SIGKILL at that instant would
// leave behind (the page cache survives the process).
func runC05FlushTorture(e *Env) {
	dir := vk.TempDir(e.Work, "c05torture-")
	defer os.RemoveAll(dir)
	rounds := e.Pick(2, 8)
	observations, unloadable := 0, 0
	flushes := 0
	var firstErr string
	for round := 0; round < rounds; round++ {
		path := filepath.Join(dir, fmt.Sprintf("t%d", round), vk.ResumeDirName, "big.sbxmap")
		total := uint32(1) << 25 // 4 MiB bitmap: a flush takes long enough to overlap
		sc, err := transfer.CreateSidecar(path, "torture", int64(total), 1)
		if err != nil {
			e.R.Inconcl("flush torture: " + err.Error())
			return
		}
		stop := make(chan struct{})
		var wg sync.WaitGroup
		var mu sync.Mutex
		for g := 0; g < 3; g++ {
			wg.Add(1)
			go func(g int) {
				defer wg.Done()
				for i := 0; i < e.Pick(12, 30); i++ {
					sc.MarkComplete(uint32(g*100000 + i))
					_ = sc.Flush()
					mu.Lock()
					flushes++
					mu.Unlock()
				}
			}(g)
		}
		done := make(chan struct{})
		go func() { wg.Wait(); close(done) }()
		go func() {
			<-done
			close(stop)
		}()
	obs:
		for {
			select {
			case <-stop:
				break obs
			default:
			}
			_, err := transfer.LoadSidecar(path)
			observations++
			if err != nil {
				unloadable++
				if firstErr == "" {
					firstErr = err.Error()
				}
			}
		}
		e.R.Eval()
		e.R.Distinct(fmt.Sprintf("flush-torture/round%d", round))
	}
	e.R.SetExtra("c05_flush_torture", map[string]any{"rounds": rounds, "concurrent_flushes": flushes, "disk_observations": observations, "unloadable_observations": unloadable})
	if unloadable > 0 {
		e.R.Violate("atomic-replace:no-valid-version-during-concurrent-flushes",
			fmt.Sprintf("while 3 goroutines marked and flushed one sidecar concurrently, %d of %d observations of the sidecar path found no loadable version (%s): a kill at such an instant leaves neither the previous nor the new metadata", unloadable, observations, firstErr),
			map[string]any{"bitmap_bytes": 4 << 20, "writers": 3}, nil)
	}
	e.R.Require(observations >= 20, fmt.Sprintf("flush torture made only %d observations", observations))
}
