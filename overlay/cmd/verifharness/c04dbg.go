//go:build verif

package main

import (
	"encoding/json"
	"fmt"
	"os"
	"path/filepath"

	vk "github.com/sheerbytes/sheerbytes/internal/verifkit"
)

func init() { register("c04dbg", runC04Dbg) }

// c04dbg runs the interrupted steps of one kill case (JSON in $VERIF_CASE) and
// prints what is on disk after each step.
func runC04Dbg(e *Env) {
	var c killCase
	if err := json.Unmarshal([]byte(os.Getenv("VERIF_CASE")), &c); err != nil {
		fmt.Println("bad VERIF_CASE:", err)
		return
	}
	var w *killWorkload
	for _, x := range killWorkloads(e) {
		if x.Name == c.W {
			w = x
		}
	}
	base := vk.TempDir(e.Work, "c04dbg-")
	defer os.RemoveAll(base)
	src := filepath.Join(base, "srcroot")
	_ = w.Tree.Materialize(src)
	outDir := filepath.Join(base, "out")
	for i, st := range c.Steps {
		spec := ""
		if st.Slow > 0 {
			spec = fmt.Sprintf("recv.chunk.afterMark=sleep(%d);", st.Slow)
		}
		switch st.Action {
		case "kill":
			spec += fmt.Sprintf("%s=kill@%d;x=log", st.Site, st.K)
		case "delaykill":
			spec += fmt.Sprintf("%s=delaykill(1200)@%d;x=log", st.Site, st.K)
		}
		ws := *w
		if st.CS > 0 {
			ws.CS = st.CS
		}
		cr, sr := runInterrupted(e, &ws, src, outDir, spec, 0, st.StallAt)
		fmt.Printf("step %d: exit=%d signaled=%v sender=%v hooklog=%d\n", i, cr.ExitCode, cr.Signaled, sr.Err, len(cr.HookLog))
		for _, h := range cr.HookLog {
			fmt.Printf("   %s a=%x b=%d %s\n", h.Name, h.A, h.B, filepath.Base(h.S))
		}
		loaded, unl, _ := snapshotSidecars(outDir)
		for _, sn := range loaded {
			fmt.Printf("   sidecar %s cs=%d bits=%v\n", sn.FileID, sn.CS, sn.Bits)
		}
		fmt.Println("   unloadable:", unl)
	}
}
