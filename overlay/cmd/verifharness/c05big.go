//go:build verif

package main

import (
	"bytes"
	"context"
	"fmt"
	"os"
	"path/filepath"

	"github.com/sheerbytes/sheerbytes/internal/transfer"
	vk "github.com/sheerbytes/sheerbytes/internal/verifkit"
)

// runC05BigFile: chunk positions beyond 4 GiB. A sparse source of 4 GiB + 2
// chunks + 12345 bytes with content in its first two and last three chunks;
// the destination is the state of an interrupted attempt (everything but the
// last three chunks recorded). After the resumed transfer the sidecar found on
// disk is compared with the file: every chunk it marks must hold the source's
// bytes at the chunk's real offset.
func runC05BigFile(e *Env, lp *vk.ListenerPool, variant int) {
	const cs = 4 << 20
	size := int64(4)<<30 + 2*cs + 12345
	total := uint32((size + cs - 1) / cs)
	base := vk.TempDir(e.Work, "c05big-")
	defer os.RemoveAll(base)
	src := filepath.Join(base, "srcroot")
	_ = os.MkdirAll(src, 0755)
	srcFile := filepath.Join(src, "big.bin")
	mk := func(p string, withTail bool) error {
		f, err := os.Create(p)
		if err != nil {
			return err
		}
		defer f.Close()
		if err := f.Truncate(size); err != nil {
			return err
		}
		buf := make([]byte, cs)
		idx := []int64{0, 1}
		if withTail {
			idx = append(idx, int64(total)-3, int64(total)-2, int64(total)-1)
		}
		for _, i := range idx {
			n := int64(cs)
			if i*cs+n > size {
				n = size - i*cs
			}
			vk.FillContent(55, "big.bin", i*cs, buf[:n])
			if _, err := f.WriteAt(buf[:n], i*cs); err != nil {
				return err
			}
		}
		return nil
	}
	if err := mk(srcFile, true); err != nil {
		e.R.Inconcl("c05 bigfile: " + err.Error())
		return
	}
	cfg := vk.XferCfg{Transport: "quic", Conns: 1, Streams: 1 + variant%3, ChunkSize: cs, Resume: true, NoRootDir: true, ScanPaths: true, WatchdogMs: 60000}
	m, _, _, prefix, err := vk.BuildManifest(cfg, src)
	if err != nil {
		e.R.Inconcl("c05 bigfile: scan failed")
		return
	}
	outDir := filepath.Join(base, "out")
	outFile := filepath.Join(outDir, filepath.FromSlash(prefix), "big.bin")
	_ = os.MkdirAll(filepath.Dir(outFile), 0755)
	if err := mk(outFile, false); err != nil {
		e.R.Inconcl("c05 bigfile: " + err.Error())
		return
	}
	scPath := ""
	for _, it := range m.Items {
		if it.IsDir {
			continue
		}
		scPath = transfer.SidecarPath(outDir, "", transfer.VerifCoreSidecarID(it))
		sc, err := transfer.CreateSidecar(scPath, it.ID, size, cs)
		if err != nil {
			e.R.Inconcl("c05 bigfile: sidecar: " + err.Error())
			return
		}
		for i := uint32(0); i < total-3; i++ {
			sc.MarkComplete(i)
		}
		if err := sc.Flush(); err != nil {
			e.R.Inconcl("c05 bigfile: flush: " + err.Error())
			return
		}
	}
	cfg.SendDeco = &vk.Deco{}
	res := vk.RunTransfer(context.Background(), cfg, lp, src, outDir)
	transfer.VerifRetireSidecars(outDir)
	e.R.Eval()
	if res.Hung || res.Inconclusive != "" {
		e.R.Inconcl("c05 bigfile: watchdog")
		return
	}
	sc, err := transfer.LoadSidecar(scPath)
	if err != nil {
		// absent/unreadable metadata is ignored by the tool: nothing claimed
		e.R.Count("bigfile_sidecar_absent_after_run")
		return
	}
	e.R.Distinct(fmt.Sprintf("bigfile/marked-chunks-beyond-4GiB/s%d", cfg.Streams))
	fa, _ := os.Open(srcFile)
	fb, _ := os.Open(outFile)
	defer fa.Close()
	defer fb.Close()
	x := make([]byte, cs)
	y := make([]byte, cs)
	compared := 0
	for i := total - 3; i < total; i++ {
		if !sc.IsComplete(i) {
			continue
		}
		off := int64(i) * cs
		n := int64(cs)
		if off+n > size {
			n = size - off
		}
		_, _ = fa.ReadAt(x[:n], off)
		rn, _ := fb.ReadAt(y[:n], off)
		compared++
		if int64(rn) != n || !bytes.Equal(x[:n], y[:n]) {
			e.R.Violate("marked-chunk-differs:file-over-4GiB", fmt.Sprintf("after a resumed transfer of a %d-byte file the sidecar on disk marks chunk %d complete but the file bytes [%d,%d) differ from the source", size, i, off, off+n),
				map[string]any{"kind": "bigfile", "size": size, "cs": cs, "streams": cfg.Streams, "chunk": i}, map[string]any{"result": res.Summary()})
			return
		}
	}
	if compared > 0 {
		e.R.Count("bigfile_marked_chunks_beyond_4GiB_compared")
	}
}
