//go:build verif

package main

import (
	"bytes"
	"fmt"
	"os"
	"path/filepath"
	"strings"
	"sync"
	"sync/atomic"

	"github.com/sheerbytes/sheerbytes/internal/transfer"
	"github.com/sheerbytes/sheerbytes/internal/verifhook"
	vk "github.com/sheerbytes/sheerbytes/internal/verifkit"
	"github.com/sheerbytes/sheerbytes/pkg/manifest"
)

// sidecarInvariant is the in-process C05 monitor: a callback on
// sidecar.flush.afterRename runs inside Sidecar.Flush (the sidecar's own lock
// is held, so the shadowed bitmap cannot move), reloads the file just renamed
// with the repository's LoadSidecar and compares every marked chunk of the
// partially written output file with the source content.
type sidecarInvariant struct {
	mu     sync.Mutex
	byBase map[string]*invCase // baseDir -> case
	checks atomic.Int64
	chunks atomic.Int64
	viol   []vk.Violation
	keys   map[string]struct{}
}

type invCase struct {
	tree   vk.Tree
	strip  string // manifest rel prefix to strip to get the tree rel
	byID   map[string]manifest.FileItem
	caseID any
}

func newSidecarInvariant(e *Env) *sidecarInvariant {
	s := &sidecarInvariant{byBase: map[string]*invCase{}, keys: map[string]struct{}{}}
	verifhook.Set("sidecar.flush.afterRename", func(ev verifhook.Event) { s.check(ev.S) })
	return s
}

func (s *sidecarInvariant) register(baseDir string, tree vk.Tree, strip string, m manifest.Manifest, caseID any) {
	ic := &invCase{tree: tree, strip: strip, byID: map[string]manifest.FileItem{}, caseID: caseID}
	for _, it := range m.Items {
		if !it.IsDir {
			ic.byID[it.ID] = it
		}
	}
	s.mu.Lock()
	s.byBase[filepath.Clean(baseDir)] = ic
	s.mu.Unlock()
}

func (s *sidecarInvariant) unregister(baseDir string) {
	s.mu.Lock()
	delete(s.byBase, filepath.Clean(baseDir))
	s.mu.Unlock()
}

func (s *sidecarInvariant) check(path string) {
	baseDir := filepath.Dir(filepath.Dir(path))
	s.mu.Lock()
	ic := s.byBase[filepath.Clean(baseDir)]
	s.mu.Unlock()
	if ic == nil {
		return
	}
	sc, err := transfer.LoadSidecar(path)
	if err != nil {
		s.violate("sidecar-unloadable-after-rename", fmt.Sprintf("sidecar %s just renamed into place does not load: %v", filepath.Base(path), err), ic.caseID)
		return
	}
	it, ok := ic.byID[sc.FileID]
	if !ok {
		return
	}
	s.checks.Add(1)
	v := checkSidecarAgainstSource(sc, filepath.Join(baseDir, filepath.FromSlash(it.RelPath)), ic.tree, strings.TrimPrefix(it.RelPath, ic.strip), &s.chunks)
	if v != "" {
		s.violate("marked-chunk-differs:in-process", v, ic.caseID)
	}
}

// checkSidecarAgainstSource compares every chunk the sidecar marks complete
// with the source content. Returns "" when all marked chunks match.
func checkSidecarAgainstSource(sc *transfer.Sidecar, outFile string, tree vk.Tree, treeRel string, counter *atomic.Int64) string {
	f, err := os.Open(outFile)
	if err != nil {
		// a marked chunk with no data file at all
		for i := uint32(0); i < sc.TotalChunks; i++ {
			if sc.IsComplete(i) && sc.FileSize > 0 {
				return fmt.Sprintf("sidecar marks chunk %d of %s complete but the data file cannot be opened: %v", i, treeRel, err)
			}
		}
		return ""
	}
	defer f.Close()
	cs := int64(sc.ChunkSize)
	for i := uint32(0); i < sc.TotalChunks; i++ {
		if !sc.IsComplete(i) {
			continue
		}
		off := int64(i) * cs
		n := cs
		if off+n > sc.FileSize {
			n = sc.FileSize - off
		}
		if n <= 0 {
			continue
		}
		got := make([]byte, n)
		rn, _ := f.ReadAt(got, off)
		want := make([]byte, n)
		if en, ok := tree.EntryByRel(treeRel); ok {
			tree.Fill(en, off, want)
		} else {
			vk.FillContent(tree.Seed, treeRel, off, want)
		}
		if counter != nil {
			counter.Add(1)
		}
		if int64(rn) != n || !bytes.Equal(got, want) {
			return fmt.Sprintf("sidecar marks chunk %d of %s (cs=%d size=%d) complete but file bytes [%d,%d) differ from the source (read %d)", i, treeRel, cs, sc.FileSize, off, off+n, rn)
		}
	}
	return ""
}

func (s *sidecarInvariant) violate(key, what string, caseID any) {
	s.mu.Lock()
	defer s.mu.Unlock()
	if _, ok := s.keys[key]; ok && len(s.viol) >= 3 {
		return
	}
	s.keys[key] = struct{}{}
	s.viol = append(s.viol, vk.Violation{Key: key, What: what, Case: caseID})
}

// finish publishes counters (and, for the C05 check itself, violations).
func (s *sidecarInvariant) finish(r *vk.Report) {
	r.SetExtra("c05_inprocess_sidecar_checks", s.checks.Load())
	r.SetExtra("c05_inprocess_marked_chunks_compared", s.chunks.Load())
	s.mu.Lock()
	defer s.mu.Unlock()
	if len(s.viol) > 0 {
		// a C05 violation seen while running another property's workload is
		// reported as a diagnostic there; the C05 check reports it as violation.
		r.SetExtra("c05_diagnostics", s.viol)
	}
}

func (s *sidecarInvariant) violations() []vk.Violation {
	s.mu.Lock()
	defer s.mu.Unlock()
	return append([]vk.Violation(nil), s.viol...)
}

// checkSidecarAgainstFile is checkSidecarAgainstSource with the expected bytes
// read from the source file as it is on disk now.
func checkSidecarAgainstFile(sc *transfer.Sidecar, outFile, srcFile, rel string) string {
	src, err := os.Open(srcFile)
	if err != nil {
		return ""
	}
	defer src.Close()
	f, err := os.Open(outFile)
	if err != nil {
		for i := uint32(0); i < sc.TotalChunks; i++ {
			if sc.IsComplete(i) && sc.FileSize > 0 {
				return fmt.Sprintf("sidecar marks chunk %d of %s complete but the data file cannot be opened: %v", i, rel, err)
			}
		}
		return ""
	}
	defer f.Close()
	cs := int64(sc.ChunkSize)
	for i := uint32(0); i < sc.TotalChunks; i++ {
		if !sc.IsComplete(i) {
			continue
		}
		off := int64(i) * cs
		n := cs
		if off+n > sc.FileSize {
			n = sc.FileSize - off
		}
		if n <= 0 {
			continue
		}
		got, want := make([]byte, n), make([]byte, n)
		rn, _ := f.ReadAt(got, off)
		wn, _ := src.ReadAt(want, off)
		if int64(wn) != n {
			return ""
		}
		if int64(rn) != n || !bytes.Equal(got, want) {
			return fmt.Sprintf("sidecar marks chunk %d of %s (cs=%d size=%d) complete but file bytes [%d,%d) differ from the source as it is now (read %d)", i, rel, cs, sc.FileSize, off, off+n, rn)
		}
	}
	return ""
}
