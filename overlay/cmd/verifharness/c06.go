//go:build verif

package main

import (
	"encoding/hex"
	"crypto/sha256"
	"encoding/binary"
	"context"
	"fmt"
	"os"
	"path/filepath"
	"strings"
	"sync"
	"sync/atomic"
	"time"

	"github.com/sheerbytes/sheerbytes/internal/transfer"
	"github.com/sheerbytes/sheerbytes/internal/verifhook"
	vk "github.com/sheerbytes/sheerbytes/internal/verifkit"
)

func init() { register("c06", runC06) }

// makeSidecar creates a valid sidecar file with the given marked chunks and
// returns its bytes.
func makeSidecar(dir, id string, size int64, cs uint32, marks []uint32) ([]byte, string, error) {
	p := filepath.Join(dir, "sc.sbxmap")
	_ = os.Remove(p)
	sc, err := transfer.CreateSidecar(p, id, size, cs)
	if err != nil {
		return nil, p, err
	}
	for _, m := range marks {
		sc.MarkComplete(m)
	}
	if err := sc.Flush(); err != nil {
		return nil, p, err
	}
	b, err := os.ReadFile(p)
	return b, p, err
}

func loadNoPanic(p string) (sc *transfer.Sidecar, err error, panicked any) {
	defer func() {
		if r := recover(); r != nil {
			panicked = r
		}
	}()
	sc, err = transfer.LoadSidecar(p)
	return
}

// c06Parser: every single-bit flip and every truncation of valid sidecars, and
// seeded garbage, must be rejected by LoadSidecar without a panic.
func c06Parser(e *Env) {
	r := vk.NewRng(vk.Mix(e.Seed ^ vk.HashStr("c06parser"+e.Tier)))
	type spec struct {
		bits int
		id   string
	}
	specs := []spec{{1, "ab12"}, {9, "0123456789abcdef"}}
	if e.Thorough() {
		specs = append(specs, spec{8, ""}, spec{64, strings.Repeat("i", 300)}, spec{1000, "feedfacecafebeef"})
	}
	var flips, truncs, garb atomic.Int64
	for _, sp := range specs {
		dir := vk.TempDir(e.Work, "c06p-")
		var marks []uint32
		for i := 0; i < sp.bits; i++ {
			if r.Intn(3) != 0 {
				marks = append(marks, uint32(i))
			}
		}
		valid, _, err := makeSidecar(dir, sp.id, int64(sp.bits)*16-3, 16, marks)
		if err != nil {
			e.R.Inconcl("makeSidecar: " + err.Error())
			continue
		}
		if sc, err, pv := loadNoPanic(filepath.Join(dir, "sc.sbxmap")); err != nil || pv != nil || sc == nil {
			e.R.Violate("parser:valid-sidecar-rejected", fmt.Sprintf("a sidecar just written by Flush does not load: %v %v", err, pv), map[string]any{"bits": sp.bits, "idlen": len(sp.id)}, nil)
			continue
		}
		nbits := len(valid) * 8
		vk.ParallelDo(nbits, 4, func(i int) {
			b := append([]byte(nil), valid...)
			b[i/8] ^= 1 << uint(i%8)
			p := filepath.Join(dir, fmt.Sprintf("f%d.sbxmap", i))
			_ = os.WriteFile(p, b, 0644)
			sc, err, pv := loadNoPanic(p)
			_ = os.Remove(p)
			e.R.Eval()
			flips.Add(1)
			e.R.Distinct(fmt.Sprintf("flip/%d/%d/%d", sp.bits, len(sp.id), i))
			if pv != nil {
				e.R.Violate("parser:panic", fmt.Sprintf("LoadSidecar panicked on a sidecar with bit %d flipped: %v", i, pv), map[string]any{"bits": sp.bits, "idlen": len(sp.id), "bit": i}, nil)
			} else if err == nil && sc != nil {
				e.R.Violate("parser:bitflip-accepted", fmt.Sprintf("LoadSidecar accepted a sidecar with bit %d (byte %d) flipped", i, i/8), map[string]any{"bits": sp.bits, "idlen": len(sp.id), "bit": i}, nil)
			}
		})
		vk.ParallelDo(len(valid), 16, func(n int) {
			p := filepath.Join(dir, fmt.Sprintf("t%d.sbxmap", n))
			_ = os.WriteFile(p, valid[:n], 0644)
			sc, err, pv := loadNoPanic(p)
			_ = os.Remove(p)
			e.R.Eval()
			truncs.Add(1)
			e.R.Distinct(fmt.Sprintf("trunc/%d/%d/%d", sp.bits, len(sp.id), n))
			if pv != nil {
				e.R.Violate("parser:panic", fmt.Sprintf("LoadSidecar panicked on a sidecar truncated to %d bytes: %v", n, pv), map[string]any{"bits": sp.bits, "len": n}, nil)
			} else if err == nil && sc != nil {
				e.R.Violate("parser:truncation-accepted", fmt.Sprintf("LoadSidecar accepted a sidecar truncated to %d of %d bytes", n, len(valid)), map[string]any{"bits": sp.bits, "len": n}, nil)
			}
		})
		os.RemoveAll(dir)
	}
	// seeded garbage (with and without the right magic / version prefix)
	dir := vk.TempDir(e.Work, "c06g-")
	ng := e.Pick(2000, 60000)
	seeds := make([]uint64, ng)
	for i := range seeds {
		seeds[i] = r.U64()
	}
	vk.ParallelDo(ng, 4, func(i int) {
		rr := vk.NewRng(seeds[i])
		b := rr.Bytes(rr.Intn(120))
		if i%2 == 0 && len(b) >= 6 {
			copy(b, "SBM2\x00\x01")
		}
		if i%4 == 0 && len(b) >= 24 {
			// small length fields so that parsing gets further
			b[6], b[7], b[8] = 0, 0, 0
			b[18], b[19], b[20], b[21] = 0, 0, 0, byte(rr.Intn(4))
			b[22], b[23] = 0, byte(rr.Intn(8))
		}
		// LoadSidecar allocates whatever the 32-bit bitmap length says (that is
		// C15's subject); keep that field small except for a few samples so
		// that this run does not spend its time zeroing gigabytes
		if i > 8 {
			for j := 0; j+4 <= len(b) && j < 64; j++ {
				if b[j] >= 0x10 && j >= 22 {
					b[j] &= 0x0f
				}
			}
		}
		p := filepath.Join(dir, fmt.Sprintf("g%d.sbxmap", i))
		_ = os.WriteFile(p, b, 0644)
		sc, err, pv := loadNoPanic(p)
		_ = os.Remove(p)
		e.R.Eval()
		garb.Add(1)
		if pv != nil {
			e.R.Violate("parser:panic", fmt.Sprintf("LoadSidecar panicked on garbage %x: %v", b, pv), map[string]any{"bytes": fmt.Sprintf("%x", b)}, nil)
		} else if err == nil && sc != nil {
			e.R.Violate("parser:garbage-accepted", fmt.Sprintf("LoadSidecar accepted random bytes %x", b), map[string]any{"bytes": fmt.Sprintf("%x", b)}, nil)
		}
	})
	os.RemoveAll(dir)
	e.R.SetExtra("parser_bitflips", flips.Load())
	e.R.SetExtra("parser_truncations", truncs.Load())
	e.R.SetExtra("parser_garbage", garb.Load())
}

// c06Identity: a valid sidecar left over from a different file (other id,
// size or chunk size) must not be handed back with its bits.
func c06Identity(e *Env) {
	dir := vk.TempDir(e.Work, "c06i-")
	defer os.RemoveAll(dir)
	type ident struct {
		id   string
		size int64
		cs   uint32
	}
	base := ident{"aaaaaaaaaaaaaaaa", 1000, 64}
	others := []ident{{"bbbbbbbbbbbbbbbb", 1000, 64}, {"aaaaaaaaaaaaaaaa", 1001, 64}, {"aaaaaaaaaaaaaaaa", 999, 64}, {"aaaaaaaaaaaaaaaa", 1000, 32},
		{"aaaaaaaaaaaaaaaa", 1000, 128}, {"", 1000, 64}, {"aaaaaaaaaaaaaaaa", 1024, 64}, {"aaaaaaaaaaaaaaaa", 2000, 128},
		// other chunk size, same number of chunks (16): the old bitmap would be applied on the wrong grid
		{"aaaaaaaaaaaaaaaa", 1000, 63}, {"aaaaaaaaaaaaaaaa", 1000, 65}, {"aaaaaaaaaaaaaaaa", 1000, 66}}
	for _, where := range []string{"primary", "fallback"} {
		for i, o := range others {
			_, p, err := makeSidecar(dir, base.id, base.size, base.cs, []uint32{0, 1, 2, 5})
			if err != nil {
				e.R.Inconcl(err.Error())
				return
			}
			primary, fallback := p, filepath.Join(dir, "none.sbxmap")
			if where == "fallback" {
				primary, fallback = filepath.Join(dir, "prim", "x.sbxmap"), p
				_ = os.RemoveAll(filepath.Join(dir, "prim"))
			}
			sc, err := transfer.LoadOrCreateSidecarWithFallback(primary, fallback, o.id, o.size, o.cs)
			e.R.Eval()
			e.R.Distinct(fmt.Sprintf("identity/%s/%d", where, i))
			if err != nil {
				continue // refusing is loud
			}
			set := 0
			for c := uint32(0); c < sc.TotalChunks; c++ {
				if sc.IsComplete(c) {
					set++
				}
			}
			if set > 0 || sc.FileID != o.id || sc.FileSize != o.size || sc.ChunkSize != o.cs {
				e.R.Violate("identity:foreign-sidecar-trusted", fmt.Sprintf("sidecar of (id=%q size=%d cs=%d) handed back for (id=%q size=%d cs=%d) via %s with %d bits set", base.id, base.size, base.cs, o.id, o.size, o.cs, where, set), map[string]any{"where": where, "other": i}, nil)
			}
		}
	}
}

// c06Case is one end-to-end tampering case.
type c06Case struct {
	ID      string `json:"id"`
	First   string `json:"first"`   // "complete" | "partial"
	Sidecar string `json:"sidecar"` // kept | bitflip | truncated | garbage | foreign | deleted
	Data    string `json:"data"`    // kept | deleted | shortened | lastchunk
	DmgOff  int    `json:"dmg_off"` // byte within the last complete chunk
	// Leftover "tmp": a copy of the valid sidecar also lies next to it under
	// the name the flusher writes before its rename (what a kill between the
	// two leaves behind)
	Leftover string `json:"leftover,omitempty"`
	// Rooted: before the first session a valid sidecar of big.bin with every
	// chunk marked lies at the OTHER sidecar location (below <out>/<root>/,
	// where a transfer with a root directory keeps it) and no data file at the
	// flat location - the leftover of a differently laid-out earlier transfer
	Rooted bool `json:"stale_sidecar_at_rooted_location,omitempty"`
	Hold    bool   `json:"hold"`    // hold the sender's verification until the rest was sent (repair race)
	// Marks: shape of the recorded set of a "partial" first run: "" = prefix
	// (+ maybe one scattered later chunk) | "nozero" = chunk 0 missing, a run of
	// later chunks recorded | "scattered" = random subset
	Marks string `json:"marks,omitempty"`
	// Source: what happened to the SOURCE between the two sessions: "" |
	// "rewritten" (big.bin rewritten in place, same size, later mtime) |
	// "link-target-rewritten" (the tree holds a symlink to a regular file
	// outside it; that file is rewritten in place, same size, later mtime)
	Source string `json:"source,omitempty"`
	// HoldEnd: the sender's FileEnd of the damaged file is held for 250 ms, so
	// that it cannot overtake a re-sent chunk (the recorded race is excluded:
	// a repair that is still lost was dropped, not late)
	HoldEnd bool `json:"hold_end,omitempty"`
	// HoldChunks: the regular chunk frames of the damaged file are held until the
	// sender's verification of the recorded chunk has started and 60 ms have
	// passed (its verdict is in), and many chunks are still missing: a repair
	// that is still lost was not late, it was queued behind the rest
	HoldChunks bool `json:"hold_chunks,omitempty"`
	// ResumeTimeoutMs: the sender's Options.ResumeTimeout (0 in the CLI, 10 s by
	// default in internal/config)
	ResumeTimeoutMs int `json:"resume_timeout_ms,omitempty"`
	Streams int    `json:"streams"`
	CS      uint32 `json:"cs"`
	TSeed   uint64 `json:"tseed"`
}

func c06Key(c c06Case, o c06Out) string {
	if c.Data == "lastchunk" && !o.resent {
		// the sender never put the damaged chunk on the wire: the damage was
		// not detected at all (the recorded findings are about a repair that
		// was sent and then lost)
		st := "partial"
		if o.allMarked {
			st = "all-chunks-marked"
		}
		if c.Marks != "" {
			st += ":" + c.Marks
		}
		return "lastchunk-damage-not-detected:" + st
	}
	if c.Data == "lastchunk" && c.HoldChunks && o.resent {
		return "lastchunk-repair-queued-behind-the-rest:partial:many-chunks-missing"
	}
	if c.Data == "lastchunk" && c.HoldEnd {
		st := "partial"
		if o.allMarked {
			st = "all-chunks-marked"
		}
		return "lastchunk-repair-dropped-before-fileend:" + st
	}
	if c.Data == "lastchunk" {
		// the class is decided by the state the resumed run started from
		switch {
		case o.allMarked:
			return "lastchunk-repair-lost:all-chunks-marked"
		case c.Hold:
			return "lastchunk-repair-lost:verification-after-remaining-chunks"
		default:
			return "lastchunk-repair-lost:partial:natural-timing"
		}
	}
	if c.Source != "" {
		return "source-" + c.Source + ":stale-chunks-kept"
	}
	if c.Sidecar == "foreign-samecount" {
		return "sidecar-foreign-chunk-size-same-count:data-file-" + c.Data
	}
	if (c.Sidecar == "kept" || c.Sidecar == "foreign") && c.Leftover == "" {
		if c.Data == "deleted" || c.Data == "shortened" {
			return "sidecar-" + c.Sidecar + ":data-file-" + c.Data
		}
	}
	if c.Leftover != "" {
		return fmt.Sprintf("tamper:sidecar-%s+flush-temp-file:data-%s:first-%s", c.Sidecar, c.Data, c.First)
	}
	if c.Rooted {
		return fmt.Sprintf("tamper:sidecar-%s+stale-sidecar-at-the-rooted-location:data-%s:first-%s", c.Sidecar, c.Data, c.First)
	}
	return fmt.Sprintf("tamper:sidecar-%s:data-%s:first-%s", c.Sidecar, c.Data, c.First)
}

func runC06(e *Env) {
	e.R.Rule = "(a) LoadSidecar on every single-bit flip and every truncation of valid sidecars plus seeded garbage; (b) identity mismatches through LoadOrCreateSidecarWithFallback; (c) end-to-end over loopback QUIC: a first (complete or interrupted) transfer, then tampering of sidecar {kept, bit-flipped, truncated, garbage, foreign identity, deleted} x data file {kept, deleted, shortened, last complete chunk damaged at each sampled position}, then a resumed transfer; (d) the same with the sender's verification held at send.verify.beforeHash until the remaining chunks were sent; a case counts when the tampered state was consumed; distinct by tamper spec"
	c06Parser(e)
	c06Identity(e)

	lp, err := vk.NewListenerPool(16, 3*time.Second)
	if err != nil {
		e.R.Inconcl("listener pool: " + err.Error())
		e.R.Require(false, "no QUIC listeners")
		return
	}
	defer lp.Close()
	defer verifhook.Reset()
	r := vk.NewRng(vk.Mix(e.Seed ^ vk.HashStr("c06e2e"+e.Tier)))
	var cases []c06Case
	add := func(c c06Case) {
		c.ID = fmt.Sprintf("C06-%05d", len(cases))
		c.TSeed = r.U64()
		if c.Streams == 0 {
			c.Streams = 1 + r.Intn(3)
		}
		if c.CS == 0 {
			c.CS = []uint32{16, 64, 1000}[r.Intn(3)]
		}
		cases = append(cases, c)
	}
	reps := e.Pick(1, 6)
	for rep := 0; rep < reps; rep++ {
		for _, first := range []string{"complete", "partial"} {
			for _, sc := range []string{"kept", "bitflip", "truncated", "garbage", "foreign", "foreign-samecount", "deleted"} {
				for _, data := range []string{"kept", "deleted", "shortened"} {
					add(c06Case{First: first, Sidecar: sc, Data: data})
				}
			}
			// a stale sidecar at the other (rooted) location from before the first session
			for _, sc := range []string{"kept", "truncated", "garbage", "deleted", "bitflip"} {
				add(c06Case{First: first, Sidecar: sc, Data: "kept", Rooted: true})
			}
			// the flusher's temp file of an interrupted flush lies next to the sidecar
			for _, sc := range []string{"kept", "truncated", "garbage", "deleted"} {
				for _, data := range []string{"kept", "deleted", "shortened"} {
					add(c06Case{First: first, Sidecar: sc, Data: data, Leftover: "tmp"})
				}
			}
			// last complete chunk damaged at sampled positions, natural timing and held verification
			for k := 0; k < e.Pick(6, 24); k++ {
				add(c06Case{First: first, Sidecar: "kept", Data: "lastchunk", DmgOff: r.Intn(1000)})
			}
			// the source itself changed between the sessions (same size, later mtime)
			for _, srcv := range []string{"rewritten", "link-target-rewritten"} {
				for k := 0; k < e.Pick(2, 8); k++ {
					add(c06Case{First: first, Sidecar: "kept", Data: "kept", Source: srcv})
				}
			}
			if first == "partial" {
				// recorded sets that are not a prefix
				for _, mk := range []string{"nozero", "scattered"} {
					for k := 0; k < e.Pick(4, 16); k++ {
						add(c06Case{First: first, Sidecar: "kept", Data: "lastchunk", DmgOff: r.Intn(1000), Marks: mk})
					}
					add(c06Case{First: first, Sidecar: "kept", Data: "kept", Marks: mk})
					add(c06Case{First: first, Sidecar: "foreign-samecount", Data: "kept", Marks: mk})
				}
			}
		}
	}
	var held []c06Case
	// FileEnd held behind the repair, every chunk recorded (with chunks still
	// missing the receiver finalises on its own counter, not on FileEnd, and the
	// recorded race remains possible)
	for k := 0; k < e.Pick(6, 30); k++ {
		held = append(held, c06Case{First: "complete", Sidecar: "kept", Data: "lastchunk", DmgOff: r.Intn(1000), HoldEnd: true, Streams: 1 + r.Intn(3)})
	}
	// the sender's resume timeout switched on (verification must still happen)
	for k := 0; k < e.Pick(4, 16); k++ {
		held = append(held, c06Case{First: "complete", Sidecar: "kept", Data: "lastchunk", DmgOff: r.Intn(1000), HoldEnd: true, Streams: 1 + r.Intn(3), ResumeTimeoutMs: []int{10000, 2000}[k%2]})
	}
	// many chunks still missing, regular frames held until the verdict is in
	for k := 0; k < e.Pick(4, 16); k++ {
		held = append(held, c06Case{First: "partial", Sidecar: "kept", Data: "lastchunk", DmgOff: r.Intn(1000), HoldChunks: true, Streams: 1, CS: 16})
	}
	for k := 0; k < e.Pick(4, 40); k++ {
		held = append(held, c06Case{First: "partial", Sidecar: "kept", Data: "lastchunk", DmgOff: r.Intn(1000), Hold: true, Streams: 1 + r.Intn(2)})
	}

	var mu sync.Mutex
	outcomes := map[string]int{}
	judge := func(c c06Case, o c06Out) {
		e.R.Eval()
		if o.setup != "" {
			e.R.Inconcl(c.ID + ": " + o.setup)
			return
		}
		if !o.consumed {
			e.R.NoVerd()
			e.R.Count("tamper_not_applicable")
			return
		}
		e.R.Distinct(fmt.Sprintf("%s%s/%s/%s/src=%s/off%d/hold%v/cs%d/s%d", c.First, c.Marks, c.Sidecar+c.Leftover+fmt.Sprint(c.Rooted), c.Data, c.Source, c.DmgOff%int(c.CS), c.Hold || c.HoldEnd || c.HoldChunks, c.CS+uint32(c.ResumeTimeoutMs), c.Streams))
		res := o.res
		mu.Lock()
		switch {
		case res.Hung:
			outcomes[c.Sidecar+"/"+c.Data+":hang"]++
		case res.BothOK() && len(o.diff) == 0:
			outcomes[c.Sidecar+"/"+c.Data+":identical"]++
		case res.BothOK():
			outcomes[c.Sidecar+"/"+c.Data+":WRONG"]++
		default:
			outcomes[c.Sidecar+"/"+c.Data+":loud-failure"]++
		}
		mu.Unlock()
		if res.Hung {
			if !canaryOK(e) {
				e.R.Inconcl(c.ID + ": watchdog fired, canary failed")
				return
			}
			if o2 := runC06Case(e, lp, c); !o2.res.Hung {
				e.R.Count("hang_not_reproduced")
				e.R.Inconcl(c.ID + ": the bounded-progress rule fired once, and the same case run again on fresh connections did not stall")
				return
			}
			e.R.Violate(c06Key(c, o)+":hang", "resumed transfer from tampered state neither succeeded nor failed within the bounded-progress window", c, map[string]any{"result": res.Summary(), "goroutines": res.HangDump})
			return
		}
		if res.BothOK() && len(o.diff) > 0 {
			e.R.Violate(c06Key(c, o), fmt.Sprintf("resumed transfer reported success on both sides but data was skipped on the strength of untrustworthy resume state: %v", o.diff), c, map[string]any{"diff": o.diff, "tamper": o.note})
		}
		if c.Data == "lastchunk" && res.BothOK() && len(o.diff) == 0 {
			e.R.Count("lastchunk_repaired")
		}
	}
	vk.ParallelDo(len(cases), 16, func(i int) {
		o := runC06Case(e, lp, cases[i])
		judge(cases[i], o)
		if i%29 == 0 {
			e.R.Sample(map[string]any{"case": cases[i], "result": o.res.Summary(), "diff": o.diff, "tamper": o.note})
		}
	})
	// (d) held verification: serial, because the hold callback is process-global
	for i, c := range held {
		c.ID = fmt.Sprintf("C06-held-%03d", i)
		c.TSeed = r.U64()
		if c.CS == 0 {
			c.CS = []uint32{16, 64}[r.Intn(2)]
		}
		o := runC06Case(e, lp, c)
		judge(c, o)
		if i < 2 {
			e.R.Sample(map[string]any{"case": c, "result": o.res.Summary(), "diff": o.diff, "tamper": o.note})
		}
	}
	for v := 0; v < e.Pick(2, 6); v++ {
		c06BigFile(e, lp, v)
	}
	e.R.Require(e.R.Counter("bigfile_double_success")+e.R.Counter("bigfile_loud_failure") >= 1, "no resumed transfer of a file over 4 GiB reached a verdict")
	e.R.SetExtra("e2e_outcomes", outcomes)
	e.R.SetExtra("hook_hits", verifhook.AllHits())
	e.R.Require(e.R.DistinctCount() >= e.Pick(300, 3000), fmt.Sprintf("only %d distinct cases", e.R.DistinctCount()))
}

type c06Out struct {
	res      vk.XferResult
	diff     []string
	consumed bool
	setup    string
	note     string
	allMarked bool
	// lastchunk cases: the sender put a frame of the damaged chunk on the wire
	// during the resumed run (it detected the damage and tried to repair it)
	resent bool
}

func runC06Case(e *Env, lp *vk.ListenerPool, c c06Case) c06Out {
	var out c06Out
	base := vk.TempDir(e.Work, "c06-")
	defer os.RemoveAll(base)
	cs := int64(c.CS)
	bigChunks := int64(9)
	if c.HoldChunks {
		bigChunks = 300
	}
	tree := vk.Tree{Seed: c.TSeed, Shape: "c06", Names: "plain", Entries: []vk.Entry{
		{Rel: "big.bin", Size: cs*bigChunks + cs/3}, {Rel: "mid.bin", Size: cs * 3}, {Rel: "tiny.bin", Size: 5}}}
	src := filepath.Join(base, "srcroot")
	if err := tree.Materialize(src); err != nil {
		out.setup = err.Error()
		return out
	}
	outDir := filepath.Join(base, "out")
	_ = os.MkdirAll(outDir, 0755)
	cfg := vk.XferCfg{Transport: "quic", Conns: 1, Streams: c.Streams, ChunkSize: c.CS, Resume: true, NoRootDir: true, ScanPaths: true, WatchdogMs: 9000, ResumeTimeoutMs: c.ResumeTimeoutMs}
	// a file of the tree that is a symlink to a regular file outside it
	linkTarget := filepath.Join(base, "target-of-link.bin")
	linkSize := cs*6 + cs/2
	var linkContent []byte
	if c.Source == "link-target-rewritten" {
		linkContent = vk.NewRng(c.TSeed ^ 0x11).Bytes(int(linkSize))
		_ = os.WriteFile(linkTarget, linkContent, 0644)
		old := time.Now().Add(-time.Hour)
		_ = os.Chtimes(linkTarget, old, old)
		if err := os.Symlink(linkTarget, filepath.Join(src, "link.bin")); err != nil {
			out.setup = err.Error()
			return out
		}
	}

	rootedDir := ""
	if c.Rooted {
		if m0, _, _, _, err := vk.BuildManifest(cfg, src); err == nil {
			if r := strings.Trim(m0.Root, "/"); r != "" && r != "." {
				rootedDir = filepath.Join(outDir, r)
			}
			for _, it := range m0.Items {
				if !strings.HasSuffix(it.RelPath, "big.bin") {
					continue
				}
				fp := transfer.SidecarPath(outDir, m0.Root, transfer.VerifCoreSidecarID(it))
				_ = os.MkdirAll(filepath.Dir(fp), 0755)
				if fsc, err := transfer.CreateSidecar(fp, it.ID, it.Size, c.CS); err == nil {
					for i := uint32(0); i < fsc.TotalChunks; i++ {
						fsc.MarkComplete(i)
					}
					_ = fsc.Flush()
					out.note = "stale all-marked sidecar planted at " + strings.TrimPrefix(fp, outDir)
				}
				transfer.VerifRetireSidecars(filepath.Dir(fp))
			}
		}
	}
	// ---- first transfer (always run to completion; a partial state is
	// synthesised below so that the marked set is controlled exactly)
	cfg1 := cfg
	cfg1.SendDeco = &vk.Deco{}
	r1 := vk.RunTransfer(context.Background(), cfg1, lp, src, outDir)
	transfer.VerifRetireSidecars(outDir)
	if !r1.BothOK() {
		out.setup = fmt.Sprintf("first transfer failed: %v / %v", r1.SendErr, r1.RecvErr)
		return out
	}

	// ---- tamper
	scDir := filepath.Join(outDir, vk.ResumeDirName)
	m, _, _, _, err := vk.BuildManifest(cfg, src)
	if err != nil {
		out.setup = err.Error()
		return out
	}
	var bigID string
	var bigKey uint64
	for _, it := range m.Items {
		if strings.HasSuffix(it.RelPath, "big.bin") {
			bigID = transfer.VerifCoreSidecarID(it)
			bigKey = transfer.VerifCoreFileKey(it)
		}
	}
	scPath := filepath.Join(scDir, bigID+".sbxmap")
	dataPath := filepath.Join(outDir, "srcroot", "big.bin")
	if c.First == "partial" {
		// what an interrupted receiver leaves behind: a pre-sized file holding
		// exactly the marked chunks, and a valid sidecar marking them
		full, err := transfer.LoadSidecar(scPath)
		if err != nil {
			out.setup = "first-run sidecar does not load: " + err.Error()
			return out
		}
		rr := vk.NewRng(c.TSeed ^ 0x77)
		keep := map[uint32]bool{}
		switch c.Marks {
		case "nozero":
			// what several streams completing out of order leave: the first
			// chunk still missing, a run of later chunks recorded
			a := 1 + uint32(rr.Intn(int(full.TotalChunks)-2))
			b := a + uint32(rr.Intn(int(full.TotalChunks-a)))
			for i := a; i <= b && i < full.TotalChunks; i++ {
				keep[i] = true
			}
		case "scattered":
			for i := uint32(0); i < full.TotalChunks; i++ {
				if rr.Intn(2) == 0 {
					keep[i] = true
				}
			}
			keep[uint32(rr.Intn(int(full.TotalChunks)))] = true
			delete(keep, uint32(rr.Intn(int(full.TotalChunks))))
			if len(keep) == 0 {
				keep[full.TotalChunks-1] = true
			}
		default:
			prefix := uint32(1 + rr.Intn(int(full.TotalChunks)-1))
			if c.HoldChunks {
				prefix = uint32(2 + rr.Intn(8))
			}
			for i := uint32(0); i < prefix; i++ {
				keep[i] = true
			}
			if rr.Bool() && prefix+2 < full.TotalChunks {
				keep[prefix+1+uint32(rr.Intn(int(full.TotalChunks-prefix-1)))] = true // a scattered later chunk
			}
		}
		_ = os.Remove(scPath)
		nsc, err := transfer.CreateSidecar(scPath, full.FileID, full.FileSize, full.ChunkSize)
		if err != nil {
			out.setup = err.Error()
			return out
		}
		f, err := os.OpenFile(dataPath, os.O_RDWR, 0644)
		if err != nil {
			out.setup = err.Error()
			return out
		}
		zero := make([]byte, cs)
		for i := uint32(0); i < full.TotalChunks; i++ {
			if keep[i] {
				nsc.MarkComplete(i)
				continue
			}
			off := int64(i) * cs
			n := cs
			if off+n > full.FileSize {
				n = full.FileSize - off
			}
			_, _ = f.WriteAt(zero[:n], off)
		}
		f.Close()
		if err := nsc.Flush(); err != nil {
			out.setup = err.Error()
			return out
		}
	}
	scBytes, scErr := os.ReadFile(scPath)
	loaded, loadErr := transfer.LoadSidecar(scPath)
	highest := -1
	nset := 0
	if loadErr == nil {
		for i := uint32(0); i < loaded.TotalChunks; i++ {
			if loaded.IsComplete(i) {
				highest = int(i)
				nset++
			}
		}
	}
	if scErr != nil || loadErr != nil || nset == 0 {
		// nothing to mistrust: the first run left no marked state for big.bin
		out.consumed = false
		return out
	}
	out.consumed = true
	out.allMarked = nset == int(loaded.TotalChunks)
	out.note = fmt.Sprintf("sidecar of big.bin had %d/%d chunks marked (highest %d)", nset, loaded.TotalChunks, highest)
	switch c.Sidecar {
	case "kept":
	case "bitflip":
		b := append([]byte(nil), scBytes...)
		pos := int(c.TSeed % uint64(len(b)*8))
		b[pos/8] ^= 1 << uint(pos%8)
		_ = os.WriteFile(scPath, b, 0644)
	case "truncated":
		_ = os.WriteFile(scPath, scBytes[:len(scBytes)-1-int(c.TSeed%uint64(len(scBytes)-1))], 0644)
	case "garbage":
		_ = os.WriteFile(scPath, vk.NewRng(c.TSeed).Bytes(len(scBytes)), 0644)
	case "foreign", "foreign-samecount":
		// a valid sidecar with all bits set but for another chunk size (left over from a different transfer);
		// "samecount": another chunk size that happens to give the same number of chunks
		_ = os.Remove(scPath)
		fcs := loaded.ChunkSize * 2
		if c.Sidecar == "foreign-samecount" {
			for d := uint32(1); d < loaded.ChunkSize; d++ {
				cand := loaded.ChunkSize - d
				if cand > 0 && (loaded.FileSize+int64(cand)-1)/int64(cand) == int64(loaded.TotalChunks) {
					fcs = cand
					break
				}
			}
		}
		fsc, err := transfer.CreateSidecar(scPath, loaded.FileID, loaded.FileSize, fcs)
		if err == nil {
			for i := uint32(0); i < fsc.TotalChunks; i++ {
				fsc.MarkComplete(i)
			}
			_ = fsc.Flush()
		}
	case "deleted":
		_ = os.Remove(scPath)
	}
	if c.Leftover == "tmp" {
		_ = os.WriteFile(scPath+".tmp", scBytes, 0644)
	}
	switch c.Data {
	case "kept":
	case "deleted":
		_ = os.Remove(dataPath)
	case "shortened":
		_ = os.Truncate(dataPath, cs*2+1)
	case "lastchunk":
		// damage one byte of the last chunk recorded as complete
		f, err := os.OpenFile(dataPath, os.O_RDWR, 0644)
		if err != nil {
			out.setup = err.Error()
			return out
		}
		off := int64(highest) * cs
		n := cs
		if off+n > loaded.FileSize {
			n = loaded.FileSize - off
		}
		pos := off + int64(c.DmgOff)%n
		var b [1]byte
		_, _ = f.ReadAt(b[:], pos)
		b[0] ^= 0x5a
		_, _ = f.WriteAt(b[:], pos)
		f.Close()
		out.note += fmt.Sprintf("; damaged byte %d (chunk %d)", pos, highest)
	}

	// ---- the source changes between the sessions
	changed := map[string][]byte{} // path inside the tree -> new content
	switch c.Source {
	case "rewritten":
		nb := vk.NewRng(c.TSeed ^ 0x22).Bytes(int(cs*bigChunks + cs/3))
		p := filepath.Join(src, "big.bin")
		_ = os.WriteFile(p, nb, 0644)
		later := time.Now().Add(10 * time.Second)
		_ = os.Chtimes(p, later, later)
		changed["big.bin"] = nb
	case "link-target-rewritten":
		nb := vk.NewRng(c.TSeed ^ 0x33).Bytes(int(linkSize))
		_ = os.WriteFile(linkTarget, nb, 0644)
		later := time.Now().Add(10 * time.Second)
		_ = os.Chtimes(linkTarget, later, later)
		changed["link.bin"] = nb
	}
	// ---- resumed transfer
	cfg2 := cfg
	cfg2.SendDeco = &vk.Deco{RecordAll: c.Data == "lastchunk"}
	if c.Hold {
		// hold the sender's verification until every other chunk frame of the file has gone out
		var sent atomic.Int64
		release := make(chan struct{})
		var once sync.Once
		need := int64(loaded.TotalChunks) - int64(nset)
		if need == 0 {
			once.Do(func() { close(release) })
		}
		verifhook.Set("send.chunk.afterFrame", func(ev verifhook.Event) {
			if ev.A != bigKey {
				return
			}
			if sent.Add(1) >= need {
				go func() {
					time.Sleep(300 * time.Millisecond) // let the receiver finalise
					once.Do(func() { close(release) })
				}()
			}
		})
		verifhook.Set("send.verify.beforeHash", func(ev verifhook.Event) {
			if ev.A != bigKey {
				return
			}
			select {
			case <-release:
			case <-time.After(4 * time.Second):
			}
		})
		defer verifhook.Set("send.chunk.afterFrame", nil)
		defer verifhook.Set("send.verify.beforeHash", nil)
	}
	if c.HoldChunks {
		verifyStarted := make(chan struct{})
		var vonce sync.Once
		verifhook.Set("send.verify.beforeHash", func(ev verifhook.Event) {
			if ev.A == bigKey {
				vonce.Do(func() { close(verifyStarted) })
			}
		})
		var released atomic.Bool
		verifhook.Set("send.chunk.beforeFrame", func(ev verifhook.Event) {
			if ev.A != bigKey || released.Load() {
				return
			}
			select {
			case <-verifyStarted:
				time.Sleep(60 * time.Millisecond)
			case <-time.After(3 * time.Second):
			}
			released.Store(true)
		})
		defer verifhook.Set("send.verify.beforeHash", nil)
		defer verifhook.Set("send.chunk.beforeFrame", nil)
	}
	if c.HoldEnd {
		verifhook.Set("send.fileEnd.before", func(ev verifhook.Event) {
			if ev.A == bigKey {
				time.Sleep(250 * time.Millisecond)
			}
		})
		defer verifhook.Set("send.fileEnd.before", nil)
	}
	res := vk.RunTransfer(context.Background(), cfg2, lp, src, outDir)
	out.res = res
	if c.Data == "lastchunk" && highest >= 0 {
		out.resent = sentFrames(cfg2.SendDeco)[[2]uint64{bigKey, uint64(highest)}] > 0
	}
	if res.BothOK() {
		if c.Rooted && rootedDir != "" {
			// the planted directory holds nothing but resume metadata
			_ = os.RemoveAll(rootedDir)
		}
		got, err := vk.Digest(outDir)
		if err != nil {
			out.setup = err.Error()
			return out
		}
		want := vk.ExpectedDigest(tree, res.Prefix)
		if c.Source == "link-target-rewritten" && len(changed) == 0 {
			changed["link.bin"] = linkContent
		}
		for rel, b := range changed {
			sum := sha256.Sum256(b)
			want[res.Prefix+rel] = vk.DigestEntry{Kind: "file", Size: int64(len(b)), Sum: hex.EncodeToString(sum[:12])}
		}
		out.diff = vk.DiffDigest(want, got)
	}
	return out
}

// sentFrames parses the data-stream bytes a recording decorator saw the sender
// write and counts the frames per (file key, chunk index).
func sentFrames(d *vk.Deco) map[[2]uint64]int {
	out := map[[2]uint64]int{}
	for _, st := range d.Stats() {
		if st.Ordinal == 0 {
			continue
		}
		b := d.Recorded(st.Ordinal, "w")
		for len(b) >= 20 {
			key := binary.BigEndian.Uint64(b[0:8])
			idx := binary.BigEndian.Uint32(b[8:12])
			n := int(binary.BigEndian.Uint32(b[12:16]))
			out[[2]uint64{key, uint64(idx)}]++
			if 20+n > len(b) {
				break
			}
			b = b[20+n:]
		}
	}
	return out
}
