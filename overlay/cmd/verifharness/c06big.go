//go:build verif

package main

import (
	"context"
	"fmt"
	"os"
	"path/filepath"

	"github.com/sheerbytes/sheerbytes/internal/transfer"
	vk "github.com/sheerbytes/sheerbytes/internal/verifkit"
)

// c06BigFile: the position of the damaged chunk beyond 4 GiB. A sparse file of
// 4 GiB + 3 chunks + 777 bytes; the receiver's state records every chunk up to
// the second-to-last one (which lies beyond the 4 GiB boundary) and that chunk
// is damaged on disk. The resumed transfer must end identical or fail loudly.
func c06BigFile(e *Env, lp *vk.ListenerPool, variant int) {
	const cs = 4 << 20
	size := int64(4)<<30 + 3*cs + 777
	total := uint32((size + cs - 1) / cs)
	dmgChunk := total - 2 - uint32(variant%2) // beyond 4 GiB in both variants
	base := vk.TempDir(e.Work, "c06big-")
	defer os.RemoveAll(base)
	src := filepath.Join(base, "srcroot")
	_ = os.MkdirAll(src, 0755)
	srcFile := filepath.Join(src, "big.bin")
	mk := func(p string) error {
		f, err := os.Create(p)
		if err != nil {
			return err
		}
		defer f.Close()
		if err := f.Truncate(size); err != nil {
			return err
		}
		buf := make([]byte, cs)
		chunks := []int64{0, 1}
		for i := int64(total) - 4; i < int64(total); i++ {
			chunks = append(chunks, i)
		}
		for _, i := range chunks {
			n := int64(cs)
			if i*cs+n > size {
				n = size - i*cs
			}
			vk.FillContent(99, "big.bin", i*cs, buf[:n])
			if _, err := f.WriteAt(buf[:n], i*cs); err != nil {
				return err
			}
		}
		return nil
	}
	if err := mk(srcFile); err != nil {
		e.R.Inconcl("c06 bigfile: " + err.Error())
		return
	}
	cfg := vk.XferCfg{Transport: "quic", Conns: 1, Streams: 1 + variant%3, ChunkSize: cs, Resume: true, NoRootDir: true, ScanPaths: true, WatchdogMs: 60000}
	m, _, _, prefix, err := vk.BuildManifest(cfg, src)
	if err != nil {
		e.R.Inconcl("c06 bigfile: scan failed")
		return
	}
	outDir := filepath.Join(base, "out")
	outFile := filepath.Join(outDir, filepath.FromSlash(prefix), "big.bin")
	_ = os.MkdirAll(filepath.Dir(outFile), 0755)
	if err := mk(outFile); err != nil {
		e.R.Inconcl("c06 bigfile: " + err.Error())
		return
	}
	var key uint64
	var scPath string
	for _, it := range m.Items {
		if it.IsDir {
			continue
		}
		key = transfer.VerifCoreFileKey(it)
		scPath = transfer.SidecarPath(outDir, "", transfer.VerifCoreSidecarID(it))
		sc, err := transfer.CreateSidecar(scPath, it.ID, size, cs)
		if err != nil {
			e.R.Inconcl("c06 bigfile: sidecar: " + err.Error())
			return
		}
		for i := uint32(0); i <= dmgChunk; i++ {
			sc.MarkComplete(i)
		}
		if err := sc.Flush(); err != nil {
			e.R.Inconcl("c06 bigfile: flush: " + err.Error())
			return
		}
	}
	// the later chunks are missing on the receiver, the highest recorded one is torn
	f, err := os.OpenFile(outFile, os.O_RDWR, 0644)
	if err != nil {
		e.R.Inconcl("c06 bigfile: " + err.Error())
		return
	}
	zero := make([]byte, cs)
	for i := int64(dmgChunk) + 1; i < int64(total); i++ {
		n := int64(cs)
		if i*cs+n > size {
			n = size - i*cs
		}
		_, _ = f.WriteAt(zero[:n], i*cs)
	}
	pos := int64(dmgChunk)*cs + 4321
	var b [1]byte
	_, _ = f.ReadAt(b[:], pos)
	b[0] ^= 0x5a
	_, _ = f.WriteAt(b[:], pos)
	f.Close()

	cfg.SendDeco = &vk.Deco{RecordAll: true}
	res := vk.RunTransfer(context.Background(), cfg, lp, src, outDir)
	e.R.Eval()
	caseSpec := map[string]any{"kind": "bigfile", "size": size, "cs": cs, "streams": cfg.Streams, "recorded_chunks": fmt.Sprintf("0..%d", dmgChunk), "damaged_chunk": dmgChunk, "damaged_byte": pos}
	resent := sentFrames(cfg.SendDeco)[[2]uint64{key, uint64(dmgChunk)}] > 0
	if res.Hung {
		e.R.Inconcl("c06 bigfile: watchdog")
		return
	}
	e.R.Distinct(fmt.Sprintf("bigfile/damaged-chunk-beyond-4GiB/s%d/chunk%d", cfg.Streams, dmgChunk))
	if !res.BothOK() {
		e.R.Count("bigfile_loud_failure")
		return
	}
	e.R.Count("bigfile_double_success")
	// compare the damaged chunk and its neighbours with the source
	diff := ""
	fa, _ := os.Open(srcFile)
	fb, _ := os.Open(outFile)
	defer fa.Close()
	defer fb.Close()
	x := make([]byte, cs)
	y := make([]byte, cs)
	for i := int64(total) - 4; i < int64(total) && diff == ""; i++ {
		n := int64(cs)
		if i*cs+n > size {
			n = size - i*cs
		}
		_, _ = fa.ReadAt(x[:n], i*cs)
		_, _ = fb.ReadAt(y[:n], i*cs)
		for k := int64(0); k < n; k++ {
			if x[k] != y[k] {
				diff = fmt.Sprintf("first difference at byte offset %d (chunk %d)", i*cs+k, i)
				break
			}
		}
	}
	if diff == "" {
		e.R.Count("bigfile_repaired")
		e.R.Sample(map[string]any{"case": caseSpec, "result": res.Summary(), "damaged_chunk_resent": resent})
		return
	}
	key2 := "lastchunk-repair-lost:partial:natural-timing"
	if !resent {
		key2 = "lastchunk-damage-not-detected:file-over-4GiB"
	}
	e.R.Violate(key2, "resumed transfer of a file over 4 GiB reported success on both sides but the damaged recorded chunk was not repaired: "+diff, caseSpec, map[string]any{"damaged_chunk_resent": resent, "result": res.Summary()})
}
