//go:build verif

package main

import (
	"encoding/json"
	"fmt"
	"os"
	"time"

	"github.com/sheerbytes/sheerbytes/internal/verifhook"
	vk "github.com/sheerbytes/sheerbytes/internal/verifkit"
)

func init() { register("c06dbg", runC06Dbg) }

// c06dbg replays one C06 case (JSON in $VERIF_CASE) and prints the hook log.
func runC06Dbg(e *Env) {
	var c c06Case
	if err := json.Unmarshal([]byte(os.Getenv("VERIF_CASE")), &c); err != nil {
		fmt.Println("bad VERIF_CASE:", err)
		return
	}
	lp, err := vk.NewListenerPool(1, 3*time.Second)
	if err != nil {
		fmt.Println(err)
		return
	}
	defer lp.Close()
	verifhook.Record(true)
	o := runC06Case(e, lp, c)
	fmt.Printf("result=%v diff=%v note=%s consumed=%v setup=%s\n", o.res.Summary(), o.diff, o.note, o.consumed, o.setup)
	for _, ev := range verifhook.Events() {
		fmt.Printf("  %d %s a=%x b=%d s=%s\n", ev.Seq, ev.Name, ev.A, ev.B, ev.S)
	}
}
