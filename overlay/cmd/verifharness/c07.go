//go:build verif

package main

import (
	"context"
	"crypto/sha256"
	"encoding/binary"
	"encoding/hex"
	"fmt"
	"io"
	"os"
	"path/filepath"
	"sort"
	"strings"
	"sync"
	"time"

	"github.com/sheerbytes/sheerbytes/internal/app"
	"github.com/sheerbytes/sheerbytes/internal/transfer"
	vk "github.com/sheerbytes/sheerbytes/internal/verifkit"
	"github.com/sheerbytes/sheerbytes/pkg/manifest"
)

func init() { register("c07", runC07) }

type c07Case struct {
	ID      string `json:"id"`
	Target  string `json:"target"` // multistream | legacy-manifest | legacy-file | app-clear | app-has
	Field   string `json:"field"`  // manifest.root | item.rel_path(file) | item.rel_path(dir) | item.id | filebegin.rel_path | filename | root
	Str     string `json:"str"`
	StrName string `json:"str_name"`
	NoRoot  bool   `json:"norootdir"`
	Resume  bool   `json:"resume"`
	// Pad > 0: the manifest carries Pad harmless file entries in front of the
	// hostile ones (manifest size and position of the entry as a dimension:
	// a receiver that checks large manifests in blocks / in parallel)
	Pad int `json:"pad,omitempty"`
	// Pre != "": state of the output directory before the transfer (something an
	// earlier accepted transfer can leave behind) that makes one of the receiver's
	// own file-system operations fail; see c07Prestate
	Pre string `json:"pre,omitempty"`
	// Rel != "": the entry that carries the string has a harmless twin entry in
	// the same manifest (same rel_path, same path in another spelling, same item
	// id); BeginKey: which entry's file key the FileBegin names; see c07_rel.go
	Rel      string `json:"entry_relation,omitempty"`
	BeginKey string `json:"filebegin_key,omitempty"`
}

// jailSnapshot records (kind, size, mtime, sha256) of everything under jail
// except the subtree skip.
func jailSnapshot(jail, skip string) map[string]string {
	out := map[string]string{}
	_ = filepath.Walk(jail, func(p string, info os.FileInfo, err error) error {
		if err != nil {
			return nil
		}
		if p == skip {
			out[p] = "outdir"
			return filepath.SkipDir
		}
		switch {
		case info.IsDir():
			out[p] = "dir"
		case info.Mode().IsRegular():
			b, _ := os.ReadFile(p)
			h := sha256.Sum256(b)
			out[p] = fmt.Sprintf("file %d %d %s", info.Size(), info.ModTime().UnixNano(), hex.EncodeToString(h[:8]))
		default:
			out[p] = "other " + info.Mode().String()
		}
		return nil
	})
	return out
}

func diffSnap(a, b map[string]string) []string {
	var d []string
	for k, v := range a {
		if w, ok := b[k]; !ok {
			d = append(d, "removed:"+k)
		} else if w != v {
			d = append(d, "changed:"+k)
		}
	}
	for k := range b {
		if _, ok := a[k]; !ok {
			d = append(d, "created:"+k)
		}
	}
	sort.Strings(d)
	return d
}

// buildJail creates <base>/jail with canaries and returns (jail, outDir).
func buildJail(base string) (string, string) {
	jail := filepath.Join(base, "jail")
	out := filepath.Join(jail, "a", "out")
	_ = os.MkdirAll(out, 0755)
	_ = os.WriteFile(filepath.Join(jail, "canary.txt"), []byte("canary-top"), 0644)
	_ = os.WriteFile(filepath.Join(jail, "a", "sibling.txt"), []byte("canary-sibling"), 0644)
	_ = os.MkdirAll(filepath.Join(jail, "a", "dircanary"), 0755)
	_ = os.WriteFile(filepath.Join(jail, "a", "dircanary", "f"), []byte("x"), 0644)
	vdir := filepath.Join(jail, "a", "victim", vk.ResumeDirName)
	_ = os.MkdirAll(vdir, 0755)
	if sc, err := transfer.CreateSidecar(filepath.Join(vdir, "x.sbxmap"), "x", 100, 10); err == nil {
		sc.MarkComplete(1)
		_ = sc.Flush()
	}
	// sidecars named like the hostile manifest's own item ids (the receiver's
	// fallback location is <out>/<root>/.thruflux_resumedata/<id>.sbxmap): one
	// that matches the offered file's identity and one that does not
	if sc, err := transfer.CreateSidecar(filepath.Join(vdir, "00112233aabbccdd.sbxmap"), "00112233aabbccdd", 24, 16); err == nil {
		sc.MarkComplete(0)
		_ = sc.Flush()
	}
	if sc, err := transfer.CreateSidecar(filepath.Join(vdir, "eeee0000eeee0000.sbxmap"), "other", 999, 7); err == nil {
		_ = sc.Flush()
	}
	// siblings whose NAME starts with the output directory's name (a containment
	// test on path strings instead of path components takes them for inside),
	// each with resume data and an ordinary file
	for _, sib := range []string{"out-archive", "out2", "outer/inner", "out.bak"} {
		sdir := filepath.Join(jail, "a", filepath.FromSlash(sib), vk.ResumeDirName)
		_ = os.MkdirAll(sdir, 0755)
		if sc, err := transfer.CreateSidecar(filepath.Join(sdir, "00112233aabbccdd.sbxmap"), "00112233aabbccdd", 24, 16); err == nil {
			sc.MarkComplete(0)
			_ = sc.Flush()
		}
		_ = os.WriteFile(filepath.Join(jail, "a", filepath.FromSlash(sib), "keep.txt"), []byte("canary-"+sib), 0644)
	}
	return jail, out
}

func rawFileBegin(rel string, size uint64, cs uint32, key uint64) []byte {
	b := []byte{transfer.VerifTypeFileBegin}
	b = binary.BigEndian.AppendUint16(b, uint16(len(rel)))
	b = append(b, rel...)
	b = binary.BigEndian.AppendUint64(b, size)
	b = binary.BigEndian.AppendUint32(b, cs)
	b = binary.BigEndian.AppendUint64(b, key)
	b = append(b, 1) // crc32c
	b = append(b, 0, 0, 0, 0, 0, 0, 0, 0, 0, 0, 0, 0)
	return b
}

func chunkFrame(key uint64, idx uint32, payload []byte) []byte {
	b := binary.BigEndian.AppendUint64(nil, key)
	b = binary.BigEndian.AppendUint32(b, idx)
	b = binary.BigEndian.AppendUint32(b, uint32(len(payload)))
	b = binary.BigEndian.AppendUint32(b, transfer.VerifCoreCRC32C(payload))
	return append(b, payload...)
}

// hostileMultistream plays a sender whose manifest / FileBegin carry the
// attacker string in one field.
func hostileMultistream(ctx context.Context, conn transfer.Conn, c c07Case, jail string) {
	payload := []byte("ATTACKER-DATA-0123456789")
	it := manifest.FileItem{RelPath: "ok/file.bin", Size: int64(len(payload)), ModTime: 1, ID: "00112233aabbccdd"}
	dir := manifest.FileItem{RelPath: "ok", IsDir: true, ModTime: 1, ID: "ddccbbaa33221100"}
	empty := manifest.FileItem{RelPath: "ok/zero.bin", Size: 0, ModTime: 1, ID: "eeee0000eeee0000"}
	m := manifest.Manifest{Root: "root", FileCount: 1, FolderCount: 1, TotalBytes: it.Size}
	beginPath := it.RelPath
	switch c.Field {
	case "manifest.root":
		m.Root = c.Str
	case "item.rel_path(file)":
		it.RelPath = c.Str
		beginPath = c.Str
	case "item.rel_path(dir)":
		dir.RelPath = c.Str
	case "item.id":
		it.ID = c.Str
	case "item.id(empty-file)":
		empty.ID = c.Str
	case "filebegin.rel_path":
		beginPath = c.Str // manifest stays clean: FileBegin alone carries the string
	}
	m.Items = nil
	for i := 0; i < c.Pad; i++ {
		m.Items = append(m.Items, manifest.FileItem{RelPath: fmt.Sprintf("ok/pad/f%05d.bin", i), Size: 1, ModTime: 1, ID: fmt.Sprintf("%016x", 0xabc0000000000000+uint64(i))})
	}
	m.Items = append(m.Items, dir, it, empty)
	m.FileCount = 2 + c.Pad
	m.TotalBytes += int64(c.Pad)
	key := transfer.VerifCoreFileKey(it)
	emptyKey := transfer.VerifCoreFileKey(empty)
	beginKey, resumeID, emptyPath := key, it.ID, empty.RelPath
	if c.Rel != "" {
		sh := c07RelationShape(c, len(payload))
		m.Items, beginPath, beginKey, key, resumeID, emptyPath, emptyKey = sh.items, sh.beginPath, sh.beginKey, sh.chunkKey, sh.resumeID, sh.emptyPath, sh.emptyKey
		m.FileCount, m.FolderCount, m.TotalBytes = 0, 0, 0
		for _, x := range m.Items {
			if x.IsDir {
				m.FolderCount++
			} else {
				m.FileCount++
				m.TotalBytes += x.Size
			}
		}
	}

	ctrl, err := conn.OpenStream(ctx)
	if err != nil {
		return
	}
	defer ctrl.Close()
	if err := transfer.VerifCoreWriteControlHeader(ctrl, m); err != nil {
		return
	}
	data, err := conn.OpenStream(ctx)
	if err != nil {
		return
	}
	defer data.Close()
	_ = transfer.VerifCoreWriteDataStreams(ctrl, transfer.DataStreams{Count: 1})
	if _, err := ctrl.Write(rawFileBegin(beginPath, uint64(len(payload)), 16, beginKey)); err != nil {
		return
	}
	_ = transfer.VerifCoreWriteResumeRequest(ctrl, transfer.ResumeRequest{FileID: resumeID, StreamID: key})
	if _, err := data.Write(chunkFrame(key, 0, payload[:16])); err != nil {
		return
	}
	_, _ = data.Write(chunkFrame(key, 1, payload[16:]))
	_ = transfer.VerifCoreWriteFileEnd(ctrl, transfer.FileEnd{StreamID: key})
	// the zero-length file: FileBegin (chunk size set, as real senders do) and FileEnd
	_, _ = ctrl.Write(rawFileBegin(emptyPath, 0, 16, emptyKey))
	_ = transfer.VerifCoreWriteFileEnd(ctrl, transfer.FileEnd{StreamID: emptyKey})
	// wait for FileDone (or an error / close)
	done := make(chan struct{})
	go func() {
		defer close(done)
		for {
			typ, _, err := transfer.VerifCoreReadControlMessage(ctrl)
			if err != nil || typ == transfer.VerifTypeFileDone {
				return
			}
		}
	}()
	select {
	case <-done:
	case <-time.After(1500 * time.Millisecond):
	case <-ctx.Done():
	}
	_ = transfer.VerifCoreWriteControlEnd(ctrl)
	time.Sleep(20 * time.Millisecond)
}

// hostileLegacyManifest speaks the legacy single-stream manifest protocol.
func hostileLegacyManifest(s transfer.Stream, c c07Case) {
	payload := []byte("ATTACKER-DATA-0123456789")
	it := manifest.FileItem{RelPath: "ok/file.bin", Size: int64(len(payload)), ModTime: 1, ID: "00112233aabbccdd"}
	dir := manifest.FileItem{RelPath: "ok", IsDir: true, ModTime: 1}
	m := manifest.Manifest{Root: "root", FileCount: 1, FolderCount: 1}
	switch c.Field {
	case "manifest.root":
		m.Root = c.Str
	case "item.rel_path(file)":
		it.RelPath = c.Str
	case "item.rel_path(dir)":
		dir.RelPath = c.Str
	}
	m.Items = []manifest.FileItem{dir, it}
	js := transfer.VerifManifestJSON(m)
	b := []byte("SBM1")
	b = binary.BigEndian.AppendUint32(b, uint32(len(js)))
	b = append(b, js...)
	// dir record
	b = append(b, 0x01)
	b = binary.BigEndian.AppendUint16(b, uint16(len(dir.RelPath)))
	b = append(b, dir.RelPath...)
	// file record
	b = append(b, 0x02)
	b = binary.BigEndian.AppendUint16(b, uint16(len(it.RelPath)))
	b = append(b, it.RelPath...)
	b = binary.BigEndian.AppendUint64(b, uint64(len(payload)))
	b = binary.BigEndian.AppendUint32(b, 16)
	for i, off := 0, 0; off < len(payload); i, off = i+1, off+16 {
		end := off + 16
		if end > len(payload) {
			end = len(payload)
		}
		b = binary.BigEndian.AppendUint32(b, uint32(i))
		b = binary.BigEndian.AppendUint32(b, uint32(end-off))
		b = binary.BigEndian.AppendUint32(b, transfer.VerifCoreCRC32C(payload[off:end]))
		b = append(b, payload[off:end]...)
	}
	b = append(b, "EOF1"...)
	b = append(b, 0xFF)
	_, _ = s.Write(b)
}

func hostileLegacyFile(s transfer.Stream, c c07Case) {
	payload := []byte("ATTACKER-DATA")
	b := []byte("SBX1")
	b = binary.BigEndian.AppendUint16(b, uint16(len(c.Str)))
	b = append(b, c.Str...)
	b = binary.BigEndian.AppendUint64(b, uint64(len(payload)))
	b = append(b, payload...)
	b = binary.BigEndian.AppendUint32(b, transfer.VerifCRC32IEEE(payload))
	_, _ = s.Write(b)
}

func attackStrings(jail string, r *vk.Rng, extra int) [][2]string {
	abs := filepath.Join(jail, "abs_evil")
	out := [][2]string{
		{"dotdot-1", "../evil"}, {"dotdot-2", "../../evil"}, {"dotdot-3", "../../../evil"}, {"mid-dotdot", "a/../../evil"}, {"mid-dotdot-deep", "a/b/../../../evil"},
		{"bare-dotdot", ".."}, {"dot", "."}, {"empty", ""}, {"absolute", abs}, {"absolute-nested", abs + "/x/y"},
		{"double-slash", "a//b"}, {"trailing-slash", "evil_dir/"}, {"backslash-dotdot", "..\\evil"}, {"backslash-mid", "a\\..\\..\\evil"},
		{"nul", "a\x00../evil"}, {"long", strings.Repeat("L", 1100)}, {"long-dotdot", "../" + strings.Repeat("M", 1030)},
		{"dot-slash-dotdot", "./../evil"}, {"triple-dot", ".../evil"}, {"dotdot-suffix", "evil/.."}, {"dotdot-suffix2", "a/b/../.."},
		{"sibling-sidecar", "../victim/" + vk.ResumeDirName + "/x"}, {"sibling-victim-dir", "../victim"}, {"sibling-victim-dir-deep", "a/../../victim"}, {"sibling-dir", "../dircanary/f"}, {"sibling-file", "../sibling.txt"},
		{"percent", "%2e%2e/evil"}, {"tilde", "~/evil"}, {"unicode-dots", "．．/evil"}, {"leading-slash-rel", "/evil"},
		{"resume-dir-name", vk.ResumeDirName}, {"dotdot-resume", "../" + vk.ResumeDirName},
		// segments that turn into ".." when a later stage drops or folds characters
		// (control characters, DEL, C1 controls, zero-width and BOM characters, fullwidth dots)
		{"ctl-dotdot-1", ".\x01./evil"}, {"ctl-dotdot-2", ".\x01./.\x02./evil"}, {"ctl-dotdot-tab", ".\t./evil"}, {"ctl-dotdot-nl", ".\n./evil"}, {"del-dotdot", ".\x7f./evil"},
		{"c1-dotdot", ".\u0085./evil"}, {"zw-dotdot", ".\u200b./evil"}, {"bom-dotdot", ".\ufeff./evil"}, {"ctl-dotdot-deep", "a/.\x01./.\x01./.\x01./evil"}, {"ctl-dotdot-victim", ".\x01./victim/" + vk.ResumeDirName + "/x"},
		{"ctl-dotdot-sidecar-id", ".\x01./.\x01./evil"}, {"space-dotdot", ". ./evil"}, {"dotdot-trailing-space", ".. /evil"}, {"dotdot-trailing-ctl", "..\x01/evil"},
		{"sibling-name-prefix-1", "../out-archive"}, {"sibling-name-prefix-2", "../out2"}, {"sibling-name-prefix-3", "../outer/inner"}, {"sibling-name-prefix-4", "../out.bak"},
		{"sibling-name-prefix-file", "../out-archive/keep.txt"}, {"sibling-name-prefix-slash", "../out2/"}, {"sibling-name-prefix-mid", "x/../../out-archive"},
	}
	segs := []string{"..", ".", "a", "", "evil", "\\", "..\\", "../", "/", "x..y", "victim", "out2", "out-archive", vk.ResumeDirName}
	for i := 0; i < extra; i++ {
		n := 1 + r.Intn(5)
		var parts []string
		for j := 0; j < n; j++ {
			parts = append(parts, segs[r.Intn(len(segs))])
		}
		out = append(out, [2]string{fmt.Sprintf("mix-%d", i), strings.Join(parts, "/")})
	}
	return out
}

func runC07(e *Env) {
	e.R.Rule = "a hostile sender script feeds the real RecvManifestMultiStream (both root-dir modes, resume on/off) over loopback QUIC, the legacy RecvManifest and RecvFile, and the app's hasResumeData/clearResumeData, with one attacker string in one field (manifest.root, item.rel_path of file and directory items, item.id, FileBegin.rel_path, file name, offered root name): escaping strings, and well-formed names on which the receiver's own mkdir/create/rename fails (NAME_MAX boundary, names of its resume directory, sidecars and temp files, names of other items); plus harmless manifests received into an output directory where an earlier transfer left an entry of the wrong kind; plus manifests in which the entry with the attacker string has a harmless twin entry (same rel_path in front of / behind / around it or as a directory entry, the same path in another spelling, the same item id) and the FileBegin names the file key of either entry or none; the output directory is <jail>/a/out surrounded by canary files, directories and a foreign sidecar, the process's working directory is <cwdjail>/a/out with the same surroundings; monitor: snapshot (kind, size, mtime, sha256) of the jail minus out before vs after, and of the whole cwdjail after every case (cases during which it changed are run again alone in a fresh working directory and judged there); a case counts when the string reached the receiver; distinct by (target, field, string, mode, prior content, entry relation, FileBegin key)"
	lp, err := vk.NewListenerPool(16, 3*time.Second)
	if err != nil {
		e.R.Inconcl("listener pool: " + err.Error())
		e.R.Require(false, "no QUIC listeners")
		return
	}
	defer lp.Close()
	if abs, err := filepath.Abs(e.Work); err == nil {
		e.Work = abs
	}
	watch, err := newC07CwdWatch(e.Work)
	if err != nil {
		e.R.Inconcl("working-directory jail: " + err.Error())
		e.R.Require(false, "no working-directory jail")
		return
	}
	defer watch.restore()
	r := vk.NewRng(vk.Mix(e.Seed ^ vk.HashStr("c07"+e.Tier)))
	probe := vk.TempDir(e.Work, "c07probe-")
	strs := attackStrings(filepath.Join(probe, "jail"), r, e.Pick(40, 1500))
	nHostile := len(strs)
	strs = append(strs, c07FailStrings()...)
	os.RemoveAll(probe)
	var cases []c07Case
	add := func(c c07Case) {
		c.ID = fmt.Sprintf("C07-%05d", len(cases))
		cases = append(cases, c)
	}
	for _, s := range strs {
		for _, f := range []string{"manifest.root", "item.rel_path(file)", "item.rel_path(dir)", "item.id", "item.id(empty-file)", "filebegin.rel_path"} {
			for _, nr := range []bool{true, false} {
				for _, res := range []bool{true, false} {
					add(c07Case{Target: "multistream", Field: f, Str: s[1], StrName: s[0], NoRoot: nr, Resume: res})
				}
			}
		}
		for _, f := range []string{"manifest.root", "item.rel_path(file)", "item.rel_path(dir)"} {
			add(c07Case{Target: "legacy-manifest", Field: f, Str: s[1], StrName: s[0]})
		}
		// the same entries at the very end of a manifest of several thousand
		// entries (sizes around 4096 with every remainder modulo 4)
		if strings.HasPrefix(s[0], "dotdot-") || s[0] == "absolute" || s[0] == "sibling-victim-dir" || s[0] == "mid-dotdot" || (e.Thorough() && !strings.HasPrefix(s[0], "mix-") && !strings.HasPrefix(s[0], "fsfail-")) {
			for k, f := range []string{"item.rel_path(file)", "item.rel_path(dir)", "item.id", "item.id(empty-file)"} {
				for _, pad := range []int{4093, 4094, 4095, 4096, 8190} {
					add(c07Case{Target: "multistream", Field: f, Str: s[1], StrName: s[0], NoRoot: (k+pad)%2 == 0, Resume: true, Pad: pad})
				}
			}
		}
		add(c07Case{Target: "legacy-file", Field: "filename", Str: s[1], StrName: s[0]})
		add(c07Case{Target: "app-clear", Field: "root", Str: s[1], StrName: s[0]})
		add(c07Case{Target: "app-has", Field: "root", Str: s[1], StrName: s[0]})
	}
	for _, c := range c07PrestateCases() {
		add(c)
	}
	for _, c := range c07RelationCases(strs[:nHostile], e.Thorough()) {
		add(c)
	}
	e.R.SetExtra("attack_strings", nHostile)
	e.R.SetExtra("fs_failure_strings", len(strs)-nHostile)
	var mu sync.Mutex
	byField := map[string]int{}
	byRel := map[string]int{}
	byRelAccepted := map[string]int{}
	var relReached sync.Map
	escapes := map[string]int{}
	// exec runs one case against a fresh jail and returns what changed outside
	// the output directory inside that jail
	exec := func(c c07Case) (d []string, note string, ok bool) {
		base := vk.TempDir(e.Work, "c07-")
		defer os.RemoveAll(base)
		jail, outDir := buildJail(base)
		// the absolute attack strings were built for the probe jail: rebase them
		c.Str = strings.ReplaceAll(c.Str, filepath.Join(probe, "jail"), jail)
		c07Prestate(outDir, c)
		before := jailSnapshot(jail, outDir)
		switch c.Target {
		case "multistream":
			l := lp.Get()
			p, err := l.NewPair(context.Background())
			lp.Put(l)
			if err != nil {
				e.R.Inconcl(c.ID + ": pair: " + err.Error())
				return nil, "", false
			}
			ctx, cancel := context.WithTimeout(context.Background(), 6*time.Second)
			rdone := make(chan error, 1)
			go func() {
				_, err := transfer.RecvManifestMultiStream(ctx, p.Accept, outDir, transfer.Options{Resume: c.Resume, NoRootDir: c.NoRoot, HashAlg: "crc32c", ParallelFiles: 1})
				rdone <- err
			}()
			hostileMultistream(ctx, p.Dial, c, jail)
			_ = p.Dial.Close()
			select {
			case err := <-rdone:
				note = c07ErrS(err)
			case <-time.After(8 * time.Second):
				note = "receiver did not return"
			}
			cancel()
			p.Close()
			transfer.FlushAllFlushers()
		case "legacy-manifest", "legacy-file":
			ms := vk.NewMemStream(nil)
			if c.Target == "legacy-manifest" {
				hostileLegacyManifest(ms, c)
			} else {
				hostileLegacyFile(ms, c)
			}
			in := vk.NewMemStream(ms.Out.Bytes())
			ctx, cancel := context.WithTimeout(context.Background(), 5*time.Second)
			var err error
			if c.Target == "legacy-manifest" {
				_, err = transfer.RecvManifest(ctx, in, outDir, nil)
			} else {
				_, err = transfer.RecvFile(ctx, in, outDir)
			}
			cancel()
			note = c07ErrS(err)
		case "app-clear":
			note = c07ErrS(app.VerifClearResumeData(outDir, c.Str))
		case "app-has":
			note = fmt.Sprint(app.VerifHasResumeData(outDir, c.Str))
		}
		after := jailSnapshot(jail, outDir)
		d = diffSnap(before, after)
		if c.Rel != "" && c07RelationReached(outDir, c) {
			relReached.Store(c.ID, true)
		}
		for k := range d {
			d[k] = strings.Replace(d[k], jail, "<jail>", 1)
		}
		return d, note, true
	}
	violKey := func(c c07Case) string {
		mode := "rooted"
		if c.NoRoot {
			mode = "norootdir"
		}
		key := fmt.Sprintf("escape:%s:%s", c.Target, c.Field)
		if c.Target == "multistream" {
			key += ":" + mode
		}
		if c.Pad > 0 {
			key += ":at-the-end-of-a-large-manifest"
		}
		if c.Pre != "" {
			key += ":output-directory-with-" + c.Pre
		}
		if c.Rel != "" {
			key += ":" + c.Rel
		}
		return key
	}
	vk.ParallelDo(len(cases), 16, func(i int) {
		c := cases[i]
		watch.begin(i)
		d, note, ok := exec(c)
		watch.end(i)
		if !ok {
			return
		}
		e.R.Eval()
		e.R.Distinct(fmt.Sprintf("%s/%s/%s/nr%v/res%v/pad%d/pre:%s/rel:%s/key:%s", c.Target, c.Field, c.StrName, c.NoRoot, c.Resume, c.Pad, c.Pre, c.Rel, c.BeginKey))
		if c.Pad > 0 {
			e.R.Count("large_manifest_cases")
		}
		if c.Pre != "" {
			e.R.Count("prestate_cases")
		}
		if strings.HasPrefix(c.StrName, "fsfail-") {
			e.R.Count("fs_failure_string_cases")
		}
		if c.Rel != "" {
			e.R.Count("entry_relation_cases")
			if note == "" {
				e.R.Count("entry_relation_cases_accepted_by_the_receiver")
			}
		}
		mu.Lock()
		if c.Rel != "" {
			byRel[c.Field+":"+c.Rel+":filebegin-key="+c.BeginKey]++
			if _, ok := relReached.Load(c.ID); ok {
				byRelAccepted[c.Field+":"+c.Rel]++
			}
		}
		byField[c.Target+":"+c.Field]++
		mu.Unlock()
		if len(d) > 0 {
			key := violKey(c)
			mu.Lock()
			escapes[key]++
			mu.Unlock()
			e.R.Violate(key, fmt.Sprintf("attacker string %q (%s) in %s made the receiver touch entries outside its output directory: %v (receiver: %s)", c.Str, c.StrName, c.Field, d, note), c, map[string]any{"diff": d})
		} else if i%211 == 0 {
			e.R.Sample(map[string]any{"case": c, "receiver": note, "outside_changes": 0})
		}
	})
	// Monitor for the process's working directory (shared by the parallel cases):
	// every case during or shortly after which the working-directory jail changed
	// is run again alone, in a fresh working directory, and judged there
	transfer.FlushAllFlushers()
	watch.finish()
	cand := watch.candidates()
	e.R.SetExtra("cwd_monitor_snapshots", watch.snapshots)
	e.R.SetExtra("cwd_changes_seen_in_parallel_phase", watch.dirtyList())
	e.R.SetExtra("cwd_candidates_rerun_alone", len(cand))
	confirmed := 0
	for _, i := range cand {
		c := cases[i]
		transfer.FlushAllFlushers()
		if err := watch.fresh(); err != nil {
			e.R.Inconcl(c.ID + ": fresh working directory: " + err.Error())
			continue
		}
		before := jailSnapshot(watch.jail, "")
		d, note, ok := exec(c)
		transfer.FlushAllFlushers()
		after := jailSnapshot(watch.jail, "")
		if !ok {
			continue
		}
		e.R.Count("cwd_reruns")
		wd := diffSnap(before, after)
		if len(wd) == 0 {
			continue
		}
		confirmed++
		for k := range wd {
			wd[k] = strings.Replace(wd[k], watch.jail, "<cwdjail>", 1)
		}
		key := violKey(c)
		mu.Lock()
		escapes[key]++
		mu.Unlock()
		e.R.Violate(key, fmt.Sprintf("attacker string %q (%s) in %s, output directory %s: the receiver touched entries in or around the process's working directory <cwdjail>/a/out (not the output directory): %v (receiver: %s)", c.Str, c.StrName, c.Field, c07PreText(c.Pre), wd, note), c, map[string]any{"diff_around_working_directory": wd, "diff_around_output_directory": d})
	}
	if dl := watch.dirtyList(); len(dl) > 0 && confirmed == 0 {
		e.R.Violate("escape:unattributed:process-working-directory", fmt.Sprintf("during the parallel phase entries in or around the process's working directory (never the output directory of any case) were touched: %v; none of the %d cases that ran at that time reproduced it alone", dl, len(cand)), map[string]any{"candidates": len(cand)}, map[string]any{"diff_around_working_directory": dl})
	}
	e.R.SetExtra("cases_by_target_field", byField)
	e.R.SetExtra("escapes_by_key", escapes)
	e.R.SetExtra("cases_by_entry_relation_and_filebegin_key", byRel)
	e.R.SetExtra("manifests_with_twin_entries_acted_on_by_entry_relation", byRelAccepted)
	e.R.Require(len(byRel) == c07RelationCombos(), fmt.Sprintf("only %d of the %d combinations (entry relation, FileBegin key) ran", len(byRel), c07RelationCombos()))
	e.R.Require(e.R.Counter("entry_relation_cases") >= e.Pick(1500, 15000), "too few cases in which the hostile entry has a harmless twin entry (same path, same path in another spelling, same id)")
	e.R.Require(len(byRelAccepted) == len(c07Relations), fmt.Sprintf("only for %d of the %d entry relations did the receiver act on a manifest with twin entries (harmless string in the field): in the others the manifests may be turned down for a reason other than the attacker string", len(byRelAccepted), len(c07Relations)))
	e.R.Require(e.R.Counter("large_manifest_cases") >= e.Pick(60, 400), "too few cases with the hostile entry at the end of a large manifest")
	e.R.Require(e.R.Counter("prestate_cases") >= 60, "too few cases with an output directory whose earlier content makes the receiver's own file operations fail")
	e.R.Require(e.R.Counter("fs_failure_string_cases") >= 200, "too few cases with well-formed names that make the receiver's own file operations fail")
	e.R.Require(watch.snapshots >= len(cases), "the working-directory monitor did not run after every case")
	e.R.Require(e.R.DistinctCount() >= e.Pick(1000, 20000), fmt.Sprintf("only %d distinct cases", e.R.DistinctCount()))
	_ = io.EOF
}
