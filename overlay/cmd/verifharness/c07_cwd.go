//go:build verif

package main

import (
	"fmt"
	"os"
	"path/filepath"
	"sort"
	"strings"
	"sync"

	vk "github.com/sheerbytes/sheerbytes/internal/verifkit"
)

// This file holds the two extensions of the C07 check that look at what the
// receiver does when its OWN file-system operations fail on names that pass
// every path check:
//
//   - the monitor for the process's working directory: a path that the receiver
//     derives from an empty or relative string lands there, not next to the
//     output directory, so the jail around the output directory never shows it;
//   - the input and history classes that make those operations fail: names at the
//     NAME_MAX boundary, names that collide with the receiver's own bookkeeping
//     entries or with other items of the same manifest, and an output directory
//     in which an earlier transfer left an entry of the wrong kind.

// c07CwdWatch puts the harness process into <work>/c07cwd-*/jail/a/out (the
// same canary surroundings as the jail of a case; no case ever uses this
// directory as its output directory) and watches the whole jail.
type c07CwdWatch struct {
	mu        sync.Mutex
	work      string
	orig      string
	base      string
	jail      string
	known     map[string]string
	inflight  map[int]bool
	recent    []int
	cand      map[int]bool
	dirty     map[string]bool
	snapshots int
}

func newC07CwdWatch(work string) (*c07CwdWatch, error) {
	orig, err := os.Getwd()
	if err != nil {
		return nil, err
	}
	w := &c07CwdWatch{work: work, orig: orig, inflight: map[int]bool{}, cand: map[int]bool{}, dirty: map[string]bool{}}
	if err := w.fresh(); err != nil {
		_ = os.Chdir(orig)
		return nil, err
	}
	return w, nil
}

// fresh moves the process into a new, untouched working-directory jail.
func (w *c07CwdWatch) fresh() error {
	w.mu.Lock()
	defer w.mu.Unlock()
	old := w.base
	base, err := os.MkdirTemp(w.work, "c07cwd-")
	if err != nil {
		return err
	}
	jail, cwd := buildJail(base)
	if err := os.Chdir(cwd); err != nil {
		return err
	}
	if got, err := os.Getwd(); err != nil || got != cwd {
		// (the scratch directory is not reached through a symlink; if it ever is,
		// the comparison of absolute names would be off)
		if real, err2 := filepath.EvalSymlinks(cwd); err2 != nil || real != got {
			return fmt.Errorf("working directory is %q, wanted %q", got, cwd)
		}
	}
	w.base, w.jail = base, jail
	w.known = jailSnapshot(jail, "")
	if old != "" {
		_ = os.RemoveAll(old)
	}
	return nil
}

func (w *c07CwdWatch) restore() {
	_ = os.Chdir(w.orig)
	if w.base != "" {
		_ = os.RemoveAll(w.base)
	}
}

func (w *c07CwdWatch) begin(i int) {
	w.mu.Lock()
	w.inflight[i] = true
	w.mu.Unlock()
}

// end is called when case i has returned (its flushers flushed). A change of
// the working-directory jail that shows up now was made by this case, by one
// that is still running, or by a straggler of one that ended a moment ago: all
// of them become candidates that are run again alone.
func (w *c07CwdWatch) end(i int) {
	w.mu.Lock()
	defer w.mu.Unlock()
	delete(w.inflight, i)
	w.recent = append(w.recent, i)
	if len(w.recent) > 16 {
		w.recent = w.recent[len(w.recent)-16:]
	}
	w.look()
}

func (w *c07CwdWatch) finish() {
	w.mu.Lock()
	defer w.mu.Unlock()
	w.look()
}

func (w *c07CwdWatch) look() {
	snap := jailSnapshot(w.jail, "")
	w.snapshots++
	d := diffSnap(w.known, snap)
	if len(d) == 0 {
		return
	}
	for _, x := range d {
		w.dirty[strings.Replace(x, w.jail, "<cwdjail>", 1)] = true
	}
	for j := range w.inflight {
		w.cand[j] = true
	}
	for _, j := range w.recent {
		w.cand[j] = true
	}
	w.known = snap
}

func (w *c07CwdWatch) candidates() []int {
	w.mu.Lock()
	defer w.mu.Unlock()
	var out []int
	for j := range w.cand {
		out = append(out, j)
	}
	sort.Ints(out)
	return out
}

func (w *c07CwdWatch) dirtyList() []string {
	w.mu.Lock()
	defer w.mu.Unlock()
	out := []string{}
	for k := range w.dirty {
		out = append(out, k)
	}
	sort.Strings(out)
	return out
}

// c07FailStrings are well-formed relative names (no parent reference, not
// absolute, no smuggled separator): the path checks have no reason to reject
// them, but the receiver's own MkdirAll / create / rename fails on them, which
// takes it into its error paths (fallback locations, clean-up).
func c07FailStrings() [][2]string {
	const id = "00112233aabbccdd" // id of the file item of the hostile manifest
	out := [][2]string{
		{"fsfail-resume-dir-child", vk.ResumeDirName + "/x"},
		{"fsfail-resume-dir-trailing-slash", vk.ResumeDirName + "/"},
		{"fsfail-own-sidecar", vk.ResumeDirName + "/" + id + ".sbxmap"},
		{"fsfail-own-sidecar-tmp", vk.ResumeDirName + "/" + id + ".sbxmap.tmp"},
		{"fsfail-root-resume-dir", "root/" + vk.ResumeDirName},
		{"fsfail-root-name", "root"},
		{"fsfail-dir-item-name", "ok"},
		{"fsfail-file-item-name", "ok/file.bin"},
		{"fsfail-below-file-item", "ok/file.bin/x"},
		{"fsfail-zero-file-name", "ok/zero.bin"},
		{"fsfail-tmp-suffix", ".tmp"},
		{"fsfail-sidecar-suffix", ".sbxmap"},
		{"fsfail-sidecar-tmp-suffix", ".sbxmap.tmp"},
		{"fsfail-nested-name-len-256", "d/" + strings.Repeat("n", 256)},
		{"fsfail-dir-name-len-256", strings.Repeat("n", 256) + "/f"},
	}
	// plain names around NAME_MAX (255): as they are, and with the suffixes the
	// receiver appends (".sbxmap" 7, ".sbxmap.tmp" 11, ".tmp" 4 bytes)
	for _, n := range []int{244, 245, 248, 249, 251, 252, 255, 256, 300} {
		out = append(out, [2]string{fmt.Sprintf("fsfail-name-len-%d", n), strings.Repeat("n", n)})
	}
	return out
}

var c07Prestates = []struct{ name, text string }{
	{"file-at-resume-dir", "holds a regular file where the resume directory goes"},
	{"file-at-root-dir", "holds a regular file named like the manifest root"},
	{"file-at-root-resume-dir", "holds a regular file where the resume directory below the root directory goes"},
	{"file-at-dir-item", "holds a regular file where a directory item goes"},
	{"dir-at-file-item", "holds a non-empty directory where a file item goes"},
	{"dir-at-sidecar", "holds a non-empty directory where the file's sidecar goes"},
	{"dir-at-sidecar-tmp", "holds a non-empty directory where the sidecar's temporary file goes"},
	{"damaged-sidecar", "holds a damaged sidecar for the file"},
}

func c07PreText(pre string) string {
	for _, p := range c07Prestates {
		if p.name == pre {
			return p.text
		}
	}
	return "is empty"
}

// c07PrestateCases: a manifest whose strings are all harmless except for the
// root name (a plain name, empty, "."), received into an output directory in
// which an earlier transfer left an entry of the wrong kind.
func c07PrestateCases() []c07Case {
	var out []c07Case
	roots := [][2]string{{"plain-root", "root"}, {"empty", ""}, {"dot", "."}}
	for _, p := range c07Prestates {
		for _, root := range roots {
			if strings.Contains(p.name, "root") && root[1] != "root" {
				continue
			}
			for _, nr := range []bool{true, false} {
				for _, res := range []bool{true, false} {
					out = append(out, c07Case{Target: "multistream", Field: "manifest.root", Str: root[1], StrName: root[0], NoRoot: nr, Resume: res, Pre: p.name})
				}
			}
			out = append(out, c07Case{Target: "legacy-manifest", Field: "manifest.root", Str: root[1], StrName: root[0], Pre: p.name})
		}
	}
	return out
}

// c07Prestate builds the prior content of the output directory (only entries
// inside it, all of a kind that an earlier accepted transfer creates: regular
// files, directories, sidecars).
func c07Prestate(outDir string, c c07Case) {
	if c.Pre == "" {
		return
	}
	root := "root"
	if c.Field == "manifest.root" {
		root = c.Str
	}
	rooted := filepath.Join(outDir, root)
	if rel, err := filepath.Rel(outDir, rooted); err != nil || rel == ".." || strings.HasPrefix(rel, "../") {
		return
	}
	bd := rooted
	if c.Target == "multistream" && c.NoRoot {
		bd = outDir
	}
	const id = "00112233aabbccdd"
	file := func(p string) {
		_ = os.MkdirAll(filepath.Dir(p), 0755)
		_ = os.WriteFile(p, []byte("left by an earlier transfer"), 0644)
	}
	dir := func(p string) {
		_ = os.MkdirAll(p, 0755)
		_ = os.WriteFile(filepath.Join(p, "child"), []byte("left by an earlier transfer"), 0644)
	}
	switch c.Pre {
	case "file-at-resume-dir":
		file(filepath.Join(bd, vk.ResumeDirName))
	case "file-at-root-dir":
		file(filepath.Join(outDir, "root"))
	case "file-at-root-resume-dir":
		file(filepath.Join(outDir, "root", vk.ResumeDirName))
	case "file-at-dir-item":
		file(filepath.Join(bd, "ok"))
	case "dir-at-file-item":
		dir(filepath.Join(bd, "ok", "file.bin"))
	case "dir-at-sidecar":
		dir(filepath.Join(bd, vk.ResumeDirName, id+".sbxmap"))
	case "dir-at-sidecar-tmp":
		dir(filepath.Join(bd, vk.ResumeDirName, id+".sbxmap.tmp"))
	case "damaged-sidecar":
		p := filepath.Join(bd, vk.ResumeDirName, id+".sbxmap")
		_ = os.MkdirAll(filepath.Dir(p), 0755)
		_ = os.WriteFile(p, []byte("SBM2\x00\x01 not a sidecar"), 0644)
	}
}

func c07ErrS(err error) string {
	if err == nil {
		return ""
	}
	return err.Error()
}
