//go:build verif

package main

import (
	"os"
	"path/filepath"
	"strings"

	"github.com/sheerbytes/sheerbytes/internal/transfer"
	"github.com/sheerbytes/sheerbytes/pkg/manifest"
)

// This file holds the third extension of the C07 check: manifests in which the
// entry that carries the attacker string is not alone. Every other class of
// the check places one hostile string into an otherwise ordinary manifest whose
// entries have nothing to do with each other. A receiver that vets "each
// entry" and later works with "the entry for this path / this id" handles two
// different things as soon as two entries share the thing it looks entries up
// by; whichever of them was vetted, the other one is used. The classes below
// give the hostile entry a harmless twin that shares
//
//   - its rel_path (the hostile string is the twin's item id), in front of it,
//     behind it, on both sides, or as a directory entry of that path;
//   - its path up to spelling ("ok/./file.bin" next to "ok/file.bin");
//   - its item id (the hostile string is the rel_path of a file or of a
//     directory entry);
//
// and the FileBegin for the file names the file key of either entry, or none
// (0, which the receiver accepts for any entry).

type c07Relation struct {
	Field string   // which field of the hostile entry carries the string
	Rel   string   // what the harmless twin shares with it, and their order
	Keys  []string // file keys a FileBegin can carry in this class
}

var c07KeysAll = []string{"zero", "hostile-entry", "harmless-entry"}

var c07Relations = []c07Relation{
	{"item.id", "twin-entry-same-path:hostile-last", c07KeysAll},
	{"item.id", "twin-entry-same-path:hostile-first", c07KeysAll},
	{"item.id", "twin-entry-same-path:hostile-between", c07KeysAll},
	{"item.id", "twin-entry-same-path:after-directory-entry", c07KeysAll},
	{"item.id", "twin-entry-equivalent-path:hostile-last", c07KeysAll},
	{"item.id", "twin-entry-equivalent-path:hostile-first", c07KeysAll},
	{"item.id(empty-file)", "twin-entry-same-path:hostile-last", c07KeysAll},
	{"item.id(empty-file)", "twin-entry-same-path:hostile-first", c07KeysAll},
	{"item.rel_path(file)", "twin-entry-same-id:hostile-last", []string{"zero", "hostile-entry"}},
	{"item.rel_path(file)", "twin-entry-same-id:hostile-first", []string{"zero", "hostile-entry"}},
	{"item.rel_path(dir)", "twin-entry-same-id:hostile-last", []string{"hostile-entry"}},
	{"item.rel_path(dir)", "twin-entry-same-id:hostile-first", []string{"hostile-entry"}},
	{"item.rel_path(dir)", "twin-entry-same-id-as-file-entry:hostile-last", []string{"hostile-entry"}},
}

func c07RelationCombos() int {
	n := 0
	for _, r := range c07Relations {
		n += len(r.Keys)
	}
	return n
}

func c07CoreString(name string) bool {
	return strings.HasPrefix(name, "dotdot-") || name == "absolute" || name == "sibling-victim-dir" || name == "mid-dotdot"
}

// c07RelationCases: the core escaping strings (and, in the thorough tier, all
// named ones) get the full grid relation x FileBegin key x root mode with
// resume on, plus resume off once per relation and root mode; every other
// string gets every relation in both root modes (seeded mixes: one root mode)
// with the FileBegin key rotating, so that all combinations occur many times.
func c07RelationCases(strs [][2]string, thorough bool) []c07Case {
	var out []c07Case
	for i, s := range strs {
		mix := strings.HasPrefix(s[0], "mix-")
		full := c07CoreString(s[0]) || (thorough && !mix)
		for j, rel := range c07Relations {
			base := c07Case{Target: "multistream", Field: rel.Field, Str: s[1], StrName: s[0], Rel: rel.Rel}
			if full {
				for _, nr := range []bool{true, false} {
					for _, k := range rel.Keys {
						c := base
						c.NoRoot, c.Resume, c.BeginKey = nr, true, k
						out = append(out, c)
					}
					c := base
					c.NoRoot, c.Resume, c.BeginKey = nr, false, rel.Keys[0]
					out = append(out, c)
				}
				continue
			}
			for k, nr := range []bool{true, false} {
				if mix && (i+j+k)%2 != 0 {
					continue
				}
				c := base
				c.NoRoot = nr
				c.BeginKey = rel.Keys[(i+j+k)%len(rel.Keys)]
				// item ids are only used with resume on; paths in both modes
				c.Resume = strings.HasPrefix(rel.Field, "item.id") || (i+k)%2 == 0
				out = append(out, c)
			}
		}
	}
	return out
}

// c07Shape is what the hostile sender transmits in a relation case.
type c07Shape struct {
	items     []manifest.FileItem
	beginPath string // FileBegin.rel_path of the non-empty file
	beginKey  uint64 // file key in that FileBegin
	chunkKey  uint64 // file key on its chunk frames, resume request, FileEnd
	resumeID  string
	emptyPath string
	emptyKey  uint64 // file key in the FileBegin/FileEnd of the empty file
}

func c07RelationShape(c c07Case, payloadLen int) c07Shape {
	key := transfer.VerifCoreFileKey
	it := manifest.FileItem{RelPath: "ok/file.bin", Size: int64(payloadLen), ModTime: 1, ID: "00112233aabbccdd"}
	dir := manifest.FileItem{RelPath: "ok", IsDir: true, ModTime: 1, ID: "ddccbbaa33221100"}
	empty := manifest.FileItem{RelPath: "ok/zero.bin", Size: 0, ModTime: 1, ID: "eeee0000eeee0000"}
	sh := c07Shape{beginPath: it.RelPath, beginKey: key(it), chunkKey: key(it), resumeID: it.ID, emptyPath: empty.RelPath, emptyKey: key(empty)}
	// pick: FileBegin key and the key on the frames that follow, for a hostile
	// entry h, its twin t, and the entry that comes last of the two
	pick := func(h, t, last manifest.FileItem) (uint64, uint64) {
		switch c.BeginKey {
		case "zero":
			return 0, key(last)
		case "harmless-entry":
			return key(t), key(t)
		}
		return key(h), key(h)
	}
	order := func(h, t manifest.FileItem) ([]manifest.FileItem, manifest.FileItem) {
		switch {
		case strings.HasSuffix(c.Rel, ":hostile-first"):
			return []manifest.FileItem{h, t}, t
		case strings.HasSuffix(c.Rel, ":hostile-between"):
			t2 := t
			t2.ID = "00112233aabbccde"
			return []manifest.FileItem{t, h, t2}, t2
		}
		return []manifest.FileItem{t, h}, h
	}
	kind := c.Rel[:strings.LastIndex(c.Rel, ":")]
	switch c.Field {
	case "item.id":
		h, t := it, it
		h.ID = c.Str
		switch {
		case kind == "twin-entry-equivalent-path":
			h.RelPath = "ok/./file.bin"
		case strings.HasSuffix(c.Rel, ":after-directory-entry"):
			t = manifest.FileItem{RelPath: it.RelPath, IsDir: true, ModTime: 1, ID: "ddccbbaa33221101"}
		}
		pair, last := order(h, t)
		sh.items = append(append([]manifest.FileItem{dir}, pair...), empty)
		sh.beginPath = h.RelPath
		sh.beginKey, sh.chunkKey = pick(h, t, last)
		sh.resumeID = h.ID
	case "item.id(empty-file)":
		h, t := empty, empty
		h.ID = c.Str
		pair, last := order(h, t)
		sh.items = append([]manifest.FileItem{dir, it}, pair...)
		sh.emptyKey, _ = pick(h, t, last)
	case "item.rel_path(file)":
		h, t := it, it
		h.RelPath = c.Str
		pair, last := order(h, t)
		sh.items = append(append([]manifest.FileItem{dir}, pair...), empty)
		sh.beginPath = h.RelPath
		sh.beginKey, sh.chunkKey = pick(h, t, last)
	case "item.rel_path(dir)":
		h, t := dir, dir
		h.RelPath = c.Str
		if kind == "twin-entry-same-id-as-file-entry" {
			h.ID = it.ID
			sh.items = []manifest.FileItem{dir, it, h, empty}
		} else {
			pair, _ := order(h, t)
			sh.items = append(pair, it, empty)
		}
	}
	return sh
}

// c07RelationReached: did the receiver get as far as acting on the entry that
// carries the string (its data file / directory exists below the output
// directory)? Only harmless strings can get there on a correct receiver; the
// check uses it to show that manifests with twin entries are not turned down
// as such.
func c07RelationReached(outDir string, c c07Case) bool {
	bd := outDir
	if !c.NoRoot {
		bd = filepath.Join(outDir, "root")
	}
	sh := c07RelationShape(c, 24)
	p := sh.beginPath
	switch c.Field {
	case "item.id(empty-file)":
		p = sh.emptyPath
	case "item.rel_path(dir)":
		p = c.Str
	}
	if p == "" || strings.ContainsRune(p, 0) {
		return false
	}
	_, err := os.Lstat(filepath.Join(bd, filepath.FromSlash(p)))
	return err == nil
}
