//go:build verif

package main

import (
	"strings"
	"context"
	"crypto/rand"
	"fmt"
	"io"
	"net"
	"sync"
	"time"

	"github.com/quic-go/quic-go"
	"github.com/sheerbytes/sheerbytes/internal/app"
	"github.com/sheerbytes/sheerbytes/internal/quictransport"
	"github.com/sheerbytes/sheerbytes/internal/transfer"
	"github.com/sheerbytes/sheerbytes/internal/transferquic"
	vk "github.com/sheerbytes/sheerbytes/internal/verifkit"
)

func init() { register("c08", runC08) }

const authTimeout = 4 * time.Second

type authOutcome struct {
	SendErr, RecvErr error
}

func authBoth(p *vk.Pair, codeS, codeR string, wrapS, wrapR func(transfer.Conn) transfer.Conn) authOutcome {
	var out authOutcome
	var wg sync.WaitGroup
	sc, rc := p.Dial, p.Accept
	if wrapS != nil {
		sc = wrapS(sc)
	}
	if wrapR != nil {
		rc = wrapR(rc)
	}
	wg.Add(2)
	go func() {
		defer wg.Done()
		ctx, cancel := context.WithTimeout(context.Background(), authTimeout)
		defer cancel()
		out.SendErr = app.VerifAuthenticateTransport(ctx, sc, codeS, app.VerifAuthRoleSender)
		if out.SendErr != nil {
			_ = p.Dial.Close() // the application gives up on the connection
		}
	}()
	go func() {
		defer wg.Done()
		ctx, cancel := context.WithTimeout(context.Background(), authTimeout)
		defer cancel()
		out.RecvErr = app.VerifAuthenticateTransport(ctx, rc, codeR, app.VerifAuthRoleReceive)
		if out.RecvErr != nil {
			_ = p.Accept.Close()
		}
	}()
	wg.Wait()
	return out
}

// recordAuth runs a genuine handshake with code and returns the two 50-byte
// messages seen on the wire (sender's, receiver's).
func recordAuth(lp *vk.ListenerPool, code string) (m1, m2 []byte, err error) {
	l := lp.Get()
	defer lp.Put(l)
	p, err := l.NewPair(context.Background())
	if err != nil {
		return nil, nil, err
	}
	defer p.Close()
	d := &vk.Deco{Inner: p.Dial, RecordAll: true}
	o := authBoth(p, code, code, func(transfer.Conn) transfer.Conn { return d.Wrap() }, nil)
	if o.SendErr != nil || o.RecvErr != nil {
		return nil, nil, fmt.Errorf("control handshake failed: %v / %v", o.SendErr, o.RecvErr)
	}
	return d.Recorded(0, "w"), d.Recorded(0, "r"), nil
}

func randBytes(n int) []byte {
	b := make([]byte, n)
	_, _ = rand.Read(b)
	return b
}

func runC08(e *Env) {
	e.R.Rule = "the real authenticateTransport over real loopback QUIC (TLS exporter in play) at the honest end(s) against scripted attackers: same code (control), different codes, rogue dialer / rogue listener sending random bytes, a replay of a proof recorded in another TLS session, reflection, role swap; a relay terminating one TLS session with each honest end and piping the auth stream verbatim; every single-bit flip and every truncation of either 50-byte message applied by the decorator; plus the real acceptExtraConns / dialExtraConns against attackers, recording every stream and byte the honest side opens before authentication; plus the PRIMARY connection through the real run functions in child processes (RunSnapshotReceiver/runTransfer, RunSnapshotSender/runICEQUICTransfer) against a fake signaling server and a peer without the join code on every producer of the primary connection (receiver: the connection it accepts and the connection it dials itself; sender: the connection it dials), strategies skip-auth / wrong code / garbage proof / payload sent while authenticating, with a same-code control on each path that must be served; a case counts when a handshake ran to a verdict at an honest end; distinct by strategy instance"
	lp, err := vk.NewListenerPool(16, 5*time.Second)
	if err != nil {
		e.R.Inconcl("listener pool: " + err.Error())
		e.R.Require(false, "no QUIC listeners")
		return
	}
	defer lp.Close()
	r := vk.NewRng(vk.Mix(e.Seed ^ vk.HashStr("c08"+e.Tier)))
	pair := func() *vk.Pair {
		l := lp.Get()
		defer lp.Put(l)
		p, err := l.NewPair(context.Background())
		if err != nil {
			return nil
		}
		return p
	}
	codes := []string{"ABCDEFGH", "ABCDEFGJ", "abcdefgh", "", "ABCDEFG", "ABCDEFGHH", "ZZZZ2345"}
	var mu sync.Mutex
	counts := map[string]int{}
	note := func(k string) { mu.Lock(); counts[k]++; mu.Unlock() }

	// 1. control and 2. different codes
	type cc struct{ a, b string }
	var pairs []cc
	for _, a := range codes {
		for _, b := range codes {
			pairs = append(pairs, cc{a, b})
		}
	}
	// codes of every length class, differing at one position only (first, middle,
	// last byte) or by one byte of length: nothing may depend on a prefix
	for _, L := range []int{16, 31, 32, 33, 40, 63, 64, 65, 128, 200, 1000} {
		b := []byte(strings.Repeat("K7QX2M9ZPA4WDE6R", L/16+1)[:L])
		base := string(b)
		var vars []string
		for _, pos := range []int{0, L / 2, L - 2, L - 1} {
			v := append([]byte(nil), b...)
			v[pos] ^= 0x01
			vars = append(vars, string(v))
		}
		vars = append(vars, base+"A", base[:L-1])
		pairs = append(pairs, cc{base, base})
		for _, v := range vars {
			pairs = append(pairs, cc{base, v}, cc{v, base})
		}
	}
	vk.ParallelDo(len(pairs)*e.Pick(2, 10), 16, func(i int) {
		c := pairs[i%len(pairs)]
		p := pair()
		if p == nil {
			e.R.Inconcl("pair failed")
			return
		}
		defer p.Close()
		o := authBoth(p, c.a, c.b, nil, nil)
		e.R.Eval()
		e.R.Distinct(fmt.Sprintf("codes/%d:%08x/%d:%08x", len(c.a), vk.HashStr(c.a)&0xffffffff, len(c.b), vk.HashStr(c.b)&0xffffffff))
		if i < 3 {
			e.R.Sample(map[string]any{"scenario": "codes", "sender_code": c.a, "receiver_code": c.b, "sender_err": c08ErrStr(o.SendErr), "receiver_err": c08ErrStr(o.RecvErr)})
		}
		if c.a == c.b {
			note("control")
			if o.SendErr != nil || o.RecvErr != nil {
				// retry once on transport errors: only an auth-level rejection counts
				p2 := pair()
				if p2 != nil {
					o2 := authBoth(p2, c.a, c.b, nil, nil)
					p2.Close()
					if o2.SendErr == nil && o2.RecvErr == nil {
						note("control_retry_ok")
						return
					}
					o = o2
				}
				e.R.Violate("control:same-code-rejected", fmt.Sprintf("both ends hold code %q on one TLS session but authentication failed: sender=%v receiver=%v", c.a, o.SendErr, o.RecvErr), map[string]any{"code": c.a}, nil)
			}
			return
		}
		note("different_codes")
		if o.SendErr == nil || o.RecvErr == nil {
			key := "different-codes:accepted"
			cp := 0
			for cp < len(c.a) && cp < len(c.b) && c.a[cp] == c.b[cp] {
				cp++
			}
			if cp >= 16 {
				key = "different-codes:accepted:long-codes-with-a-common-prefix"
			}
			e.R.Violate(key, fmt.Sprintf("codes of %d and %d bytes with a common prefix of %d bytes: sender err=%v receiver err=%v (an honest end accepted)", len(c.a), len(c.b), cp, o.SendErr, o.RecvErr), map[string]any{"sender_code": c.a, "receiver_code": c.b}, nil)
		}
	})

	// recorded genuine messages from another session (for replays)
	code := "ABCDEFGH"
	m1, m2, err := recordAuth(lp, code)
	if err != nil || len(m1) != app.VerifAuthMsgSize || len(m2) != app.VerifAuthMsgSize {
		e.R.Inconcl(fmt.Sprintf("could not record a genuine handshake: %v (%d,%d)", err, len(m1), len(m2)))
		e.R.Require(false, "recording failed")
		return
	}

	// 3. rogue dialer against the honest receiver
	type strat struct {
		name string
		msg  func() []byte
	}
	dialerStrats := []strat{
		{"random", func() []byte { b := randBytes(50); b[0], b[1] = 1, 1; return b }},
		{"random-raw", func() []byte { return randBytes(50) }},
		{"replay-sender-proof", func() []byte { return m1 }},
		{"replay-receiver-proof-roleswapped", func() []byte { b := append([]byte(nil), m2...); b[1] = 1; return b }},
		{"replay-receiver-proof", func() []byte { return m2 }},
		{"zeros", func() []byte { b := make([]byte, 50); b[0], b[1] = 1, 1; return b }},
		{"short", func() []byte { return m1[:49] }},
		{"empty", func() []byte { return nil }},
	}
	vk.ParallelDo(len(dialerStrats)*e.Pick(3, 20), 16, func(i int) {
		s := dialerStrats[i%len(dialerStrats)]
		p := pair()
		if p == nil {
			e.R.Inconcl("pair failed")
			return
		}
		defer p.Close()
		go func() {
			st, err := p.Dial.OpenStream(context.Background())
			if err != nil {
				return
			}
			_, _ = st.Write(s.msg())
			if len(s.msg()) < 50 {
				time.Sleep(200 * time.Millisecond)
				_ = st.Close()
			}
			buf := make([]byte, 64)
			_, _ = io.ReadFull(st, buf[:50])
		}()
		ctx, cancel := context.WithTimeout(context.Background(), authTimeout)
		err := app.VerifAuthenticateTransport(ctx, p.Accept, code, app.VerifAuthRoleReceive)
		cancel()
		e.R.Eval()
		e.R.Distinct("rogue-dialer/" + s.name)
		note("rogue_dialer")
		if i < 2 {
			e.R.Sample(map[string]any{"scenario": "rogue-dialer", "strategy": s.name, "honest_receiver_err": c08ErrStr(err)})
		}
		if err == nil {
			e.R.Violate("rogue-dialer:"+s.name+":accepted", "the honest receiver accepted a dialer that does not hold the join code (strategy "+s.name+")", map[string]any{"strategy": s.name}, nil)
		}
	})

	// 4. rogue listener against the honest sender
	listenerStrats := []struct {
		name string
		resp func(own []byte) []byte
	}{
		{"random", func([]byte) []byte { b := randBytes(50); b[0], b[1] = 1, 2; return b }},
		{"reflection", func(own []byte) []byte { return own }},
		{"reflection-roleswapped", func(own []byte) []byte { b := append([]byte(nil), own...); b[1] = 2; return b }},
		{"replay-receiver-proof", func([]byte) []byte { return m2 }},
		{"replay-sender-proof-roleswapped", func([]byte) []byte { b := append([]byte(nil), m1...); b[1] = 2; return b }},
		{"zeros", func([]byte) []byte { b := make([]byte, 50); b[0], b[1] = 1, 2; return b }},
		{"short", func([]byte) []byte { return m2[:30] }},
		{"silence-then-close", func([]byte) []byte { return nil }},
	}
	vk.ParallelDo(len(listenerStrats)*e.Pick(3, 20), 16, func(i int) {
		s := listenerStrats[i%len(listenerStrats)]
		p := pair()
		if p == nil {
			e.R.Inconcl("pair failed")
			return
		}
		defer p.Close()
		go func() {
			st, err := p.Accept.AcceptStream(context.Background())
			if err != nil {
				return
			}
			own := make([]byte, 50)
			if _, err := io.ReadFull(st, own); err != nil {
				return
			}
			resp := s.resp(own)
			_, _ = st.Write(resp)
			if len(resp) < 50 {
				time.Sleep(200 * time.Millisecond)
				_ = st.Close()
			}
		}()
		ctx, cancel := context.WithTimeout(context.Background(), authTimeout)
		err := app.VerifAuthenticateTransport(ctx, p.Dial, code, app.VerifAuthRoleSender)
		cancel()
		e.R.Eval()
		e.R.Distinct("rogue-listener/" + s.name)
		note("rogue_listener")
		if err == nil {
			e.R.Violate("rogue-listener:"+s.name+":accepted", "the honest sender accepted a listener that does not hold the join code (strategy "+s.name+")", map[string]any{"strategy": s.name}, nil)
		}
	})

	// 5. relay between two TLS sessions
	vk.ParallelDo(e.Pick(6, 60), 8, func(i int) {
		pa, pb := pair(), pair() // honest sender <-> M (pa), M <-> honest receiver (pb)
		if pa == nil || pb == nil {
			e.R.Inconcl("pair failed")
			return
		}
		defer pa.Close()
		defer pb.Close()
		go func() { // the man in the middle pipes the auth stream verbatim
			in, err := pa.Accept.AcceptStream(context.Background())
			if err != nil {
				return
			}
			out, err := pb.Dial.OpenStream(context.Background())
			if err != nil {
				return
			}
			go func() { _, _ = io.Copy(out, in); _ = out.Close() }()
			_, _ = io.Copy(in, out)
			_ = in.Close()
		}()
		var wg sync.WaitGroup
		var es, er error
		wg.Add(2)
		go func() {
			defer wg.Done()
			ctx, cancel := context.WithTimeout(context.Background(), authTimeout)
			defer cancel()
			es = app.VerifAuthenticateTransport(ctx, pa.Dial, code, app.VerifAuthRoleSender)
		}()
		go func() {
			defer wg.Done()
			ctx, cancel := context.WithTimeout(context.Background(), authTimeout)
			defer cancel()
			er = app.VerifAuthenticateTransport(ctx, pb.Accept, code, app.VerifAuthRoleReceive)
			if er != nil {
				_ = pb.Accept.Close()
			}
		}()
		wg.Wait()
		e.R.Eval()
		e.R.Distinct(fmt.Sprintf("relay/%d", i%4))
		note("relay")
		if i < 1 {
			e.R.Sample(map[string]any{"scenario": "relay between two TLS sessions", "sender_err": c08ErrStr(es), "receiver_err": c08ErrStr(er)})
		}
		if es == nil || er == nil {
			e.R.Violate("relay:accepted", fmt.Sprintf("a relay between two TLS sessions piping the auth stream verbatim was accepted: sender err=%v receiver err=%v", es, er), nil, nil)
		}
	})

	// 6. every single-bit flip / truncation of either message
	type alt struct {
		side string // whose outgoing message is altered: "m1" (sender's) or "m2" (receiver's)
		bit  int    // -1 = truncation at byte cut
		cut  int
	}
	var alts []alt
	step := e.Pick(8, 1)
	off := r.Intn(step)
	for _, side := range []string{"m1", "m2"} {
		// every bit of the two header bytes (version, role) in both tiers; the
		// nonce and MAC bits are sampled in quick and complete in thorough
		for b := 0; b < 16; b++ {
			alts = append(alts, alt{side: side, bit: b})
		}
		for b := 16 + off; b < 400; b += step {
			alts = append(alts, alt{side: side, bit: b})
		}
		for c := 0; c < 50; c += e.Pick(5, 1) {
			alts = append(alts, alt{side: side, bit: -1, cut: c})
		}
	}
	vk.ParallelDo(len(alts), 16, func(i int) {
		a := alts[i]
		p := pair()
		if p == nil {
			e.R.Inconcl("pair failed")
			return
		}
		defer p.Close()
		// the decorator sits at the honest end that SENDS the altered message (w direction)
		mk := func(inner transfer.Conn) transfer.Conn {
			d := &vk.Deco{Inner: inner}
			if a.bit >= 0 {
				d.Fault = &vk.Fault{Stream: 0, Dir: "w", Offset: int64(a.bit / 8), Kind: "flip", Bit: uint(a.bit % 8)}
			} else {
				d.Fault = &vk.Fault{Stream: 0, Dir: "w", Offset: int64(a.cut), Kind: "cut"}
				d.Action = func(string) { _ = inner.Close() }
			}
			return d.Wrap()
		}
		var o authOutcome
		if a.side == "m1" {
			o = authBoth(p, code, code, mk, nil)
		} else {
			o = authBoth(p, code, code, nil, mk)
		}
		e.R.Eval()
		e.R.Distinct(fmt.Sprintf("alter/%s/%d/%d", a.side, a.bit, a.cut))
		note("alterations")
		if i%97 == 0 {
			e.R.Sample(map[string]any{"scenario": "alteration", "message": a.side, "bit": a.bit, "cut": a.cut, "sender_err": c08ErrStr(o.SendErr), "receiver_err": c08ErrStr(o.RecvErr)})
		}
		// the honest end that RECEIVES the altered message must reject
		if a.side == "m1" && o.RecvErr == nil {
			e.R.Violate("alteration:sender-message:accepted", fmt.Sprintf("receiver accepted the sender's message with bit %d flipped / cut at %d", a.bit, a.cut), a, nil)
		}
		if a.side == "m2" && o.SendErr == nil {
			e.R.Violate("alteration:receiver-message:accepted", fmt.Sprintf("sender accepted the receiver's message with bit %d flipped / cut at %d", a.bit, a.cut), a, nil)
		}
	})

	// 7. extra connections: nothing but the auth stream before authentication
	c08Extra(e, lp, code, note)
	c08Sequences(e, code, note)
	// 8. the primary connection through the real run functions of receiver and sender
	c08Primary(e, note)

	e.R.SetExtra("handshakes_by_strategy", counts)
	e.R.Require(counts["control"] >= 7 && counts["alterations"] >= e.Pick(90, 800) && counts["relay"] >= 4, "too few handshakes ran")
}

// c08Extra drives the real acceptExtraConns / dialExtraConns against attackers.
func c08Extra(e *Env, lp *vk.ListenerPool, code string, note func(string)) {
	// (a) the receiver's acceptExtraConns: an unauthenticated dialer
	for _, strat := range []string{"garbage", "silence", "wrong-code", "right-code"} {
		for rep := 0; rep < e.Pick(2, 8); rep++ {
			udp, err := net.ListenUDP("udp4", &net.UDPAddr{IP: net.IPv4(127, 0, 0, 1)})
			if err != nil {
				e.R.Inconcl(err.Error())
				return
			}
			_, tr, err := vk.ListenApp(udp, vk.QUICConfig(true, 5*time.Second))
			if err != nil {
				udp.Close()
				e.R.Inconcl(err.Error())
				return
			}
			type res struct {
				n   int
				err error
			}
			rch := make(chan res, 1)
			go func() {
				ctx, cancel := context.WithTimeout(context.Background(), 6*time.Second)
				defer cancel()
				conns, err := app.VerifAcceptExtraConns(ctx, tr, code, 1)
				for _, c := range conns {
					c.Close()
				}
				rch <- res{len(conns), err}
			}()
			// the attacker dials and watches what the receiver does on the connection
			dudp, _ := net.ListenUDP("udp4", &net.UDPAddr{IP: net.IPv4(127, 0, 0, 1)})
			dctx, dcancel := context.WithTimeout(context.Background(), 5*time.Second)
			raw, err := quictransport.DialWithConfig(dctx, dudp, udp.LocalAddr(), vk.Quiet, vk.QUICConfig(false, 5*time.Second))
			dcancel()
			if err != nil {
				e.R.Inconcl("attacker dial: " + err.Error())
				tr.Close()
				udp.Close()
				dudp.Close()
				continue
			}
			opened := make(chan struct{}, 4) // streams opened BY the receiver towards the attacker
			go func() {
				for {
					st, err := raw.AcceptStream(context.Background())
					if err != nil {
						return
					}
					_ = st
					opened <- struct{}{}
				}
			}()
			var got []byte
			switch strat {
			case "garbage":
				st, _ := raw.OpenStreamSync(context.Background())
				if st != nil {
					b := randBytes(50)
					b[0], b[1] = 1, 1
					_, _ = st.Write(b)
					buf := make([]byte, 256)
					_ = st.SetReadDeadline(time.Now().Add(1500 * time.Millisecond))
					n, _ := io.ReadFull(st, buf)
					got = buf[:n]
				}
			case "silence":
				time.Sleep(1200 * time.Millisecond)
			case "wrong-code", "right-code":
				c := code
				if strat == "wrong-code" {
					c = "WRONGCOD"
				}
				tc, _ := transferquic.NewDialer(raw, vk.Quiet).Dial(context.Background(), "x")
				actx, acancel := context.WithTimeout(context.Background(), 3*time.Second)
				_ = app.VerifAuthenticateTransport(actx, tc, c, app.VerifAuthRoleSender)
				acancel()
			}
			_ = raw.CloseWithError(0, "")
			var rr res
			select {
			case rr = <-rch:
			case <-time.After(12 * time.Second):
				e.R.Inconcl("acceptExtraConns did not return")
			}
			nOpened := len(opened)
			tr.Close()
			udp.Close()
			dudp.Close()
			e.R.Eval()
			e.R.Distinct("extra-accept/" + strat)
			note("extra_accept")
			if strat == "right-code" {
				if rr.n != 1 {
					e.R.Violate("extra-conn:receiver:right-code-rejected", fmt.Sprintf("acceptExtraConns rejected an authenticated extra connection: %v", rr.err), map[string]any{"strategy": strat}, nil)
				}
				continue
			}
			if rr.n != 0 {
				e.R.Violate("extra-conn:receiver:unauthenticated-accepted", "acceptExtraConns kept an extra connection whose dialer did not authenticate ("+strat+")", map[string]any{"strategy": strat}, nil)
			}
			if nOpened > 0 || len(got) > 50 {
				e.R.Violate("extra-conn:receiver:bytes-before-auth", fmt.Sprintf("before authentication the receiver opened %d stream(s) / sent %d bytes to the unauthenticated dialer", nOpened, len(got)), map[string]any{"strategy": strat}, nil)
			}
		}
	}
	// (b) the sender's dialExtraConns against a rogue listener
	for _, strat := range []string{"garbage", "silence", "honest"} {
		for rep := 0; rep < e.Pick(2, 8); rep++ {
			udp, err := net.ListenUDP("udp4", &net.UDPAddr{IP: net.IPv4(127, 0, 0, 1)})
			if err != nil {
				e.R.Inconcl(err.Error())
				return
			}
			ql, _, err := vk.ListenApp(udp, vk.QUICConfig(true, 5*time.Second))
			if err != nil {
				udp.Close()
				e.R.Inconcl(err.Error())
				return
			}
			var mu sync.Mutex
			streams, bytesSeen := 0, 0
			sawMagic := false
			go func() {
				raw, err := ql.Accept(context.Background())
				if err != nil {
					return
				}
				if strat == "honest" {
					tc, _ := transferquic.NewDialer(raw, vk.Quiet).Dial(context.Background(), "x")
					actx, acancel := context.WithTimeout(context.Background(), 3*time.Second)
					_ = app.VerifAuthenticateTransport(actx, tc, code, app.VerifAuthRoleReceive)
					acancel()
					return
				}
				for {
					st, err := raw.AcceptStream(context.Background())
					if err != nil {
						return
					}
					mu.Lock()
					streams++
					first := streams == 1
					mu.Unlock()
					go func(st *quic.Stream, first bool) {
						buf := make([]byte, 4096)
						if first && strat == "garbage" {
							n, _ := io.ReadFull(st, buf[:50])
							mu.Lock()
							bytesSeen += n
							mu.Unlock()
							b := randBytes(50)
							b[0], b[1] = 1, 2
							_, _ = st.Write(b)
						}
						for {
							n, err := st.Read(buf)
							mu.Lock()
							bytesSeen += n
							if n >= 4 && string(buf[:4]) == transfer.VerifControlMagic {
								sawMagic = true
							}
							mu.Unlock()
							if err != nil {
								return
							}
						}
					}(st, first)
				}
			}()
			ctx, cancel := context.WithTimeout(context.Background(), 5*time.Second)
			n, _ := app.VerifDialExtraConns(ctx, udp.LocalAddr().(*net.UDPAddr), code, quictransport.ClientConfig(), vk.QUICConfig(false, 5*time.Second), 1)
			cancel()
			time.Sleep(100 * time.Millisecond)
			ql.Close()
			udp.Close()
			e.R.Eval()
			e.R.Distinct("extra-dial/" + strat)
			note("extra_dial")
			mu.Lock()
			s, b, mg := streams, bytesSeen, sawMagic
			mu.Unlock()
			if strat == "honest" {
				if n != 1 {
					e.R.Violate("extra-conn:sender:honest-rejected", "dialExtraConns did not keep an extra connection to an authenticated listener", map[string]any{"strategy": strat}, nil)
				}
				continue
			}
			if n != 0 {
				e.R.Violate("extra-conn:sender:unauthenticated-accepted", "dialExtraConns kept an extra connection whose listener did not authenticate ("+strat+")", map[string]any{"strategy": strat}, nil)
			}
			if s > 1 || b > 50 || mg {
				e.R.Violate("extra-conn:sender:bytes-before-auth", fmt.Sprintf("before authentication the sender opened %d streams and sent %d bytes (control magic seen: %v) to an unauthenticated listener", s, b, mg), map[string]any{"strategy": strat}, nil)
			}
		}
	}
}
