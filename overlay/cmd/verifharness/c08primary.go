//go:build verif

package main

// The PRIMARY transfer connection, driven through the real run functions of
// the applications (receiver: RunSnapshotReceiver -> runTransfer, sender:
// RunSnapshotSender -> runICEQUICTransfer) in child processes, because both
// end in os.Exit / never return. The harness plays the signaling server (the
// WebSocket and, for the sender, POST /session) and the peer on the QUIC
// side. The peer is an attacker that does not hold the join code, placed on
// every producer of the primary connection:
//
//	receiver, accept path : the attacker dials the candidate the receiver announced
//	receiver, dial path   : the attacker listens on the address announced to the
//	                        receiver as the sender's candidate (the receiver dials it)
//	sender,   dial path   : the attacker listens on the address announced to the
//	                        sender as the receiver's candidate
//
// and a control peer holding the code on each of them (must be served).
// Oracle, attack cases: the honest receiver must not create anything in its
// output directory and must not exit 0; the honest sender must not open any
// stream besides the auth stream, not write more than one auth message, and
// never the control magic. Control cases: the transfer must happen.

import (
	"bytes"
	"context"
	"encoding/json"
	"fmt"
	"io"
	"log/slog"
	"net"
	"net/http"
	"net/http/httptest"
	"os"
	"os/exec"
	"path/filepath"
	"sort"
	"strings"
	"sync"
	"time"

	"github.com/gorilla/websocket"
	"github.com/quic-go/quic-go"
	"github.com/sheerbytes/sheerbytes/internal/app"
	"github.com/sheerbytes/sheerbytes/internal/quictransport"
	"github.com/sheerbytes/sheerbytes/internal/transfer"
	"github.com/sheerbytes/sheerbytes/internal/transferquic"
	vk "github.com/sheerbytes/sheerbytes/internal/verifkit"
	"github.com/sheerbytes/sheerbytes/pkg/manifest"
	"github.com/sheerbytes/sheerbytes/pkg/protocol"
)

func init() {
	childCommands["c08-recv-child"] = c08RecvChild
	childCommands["c08-send-child"] = c08SendChild
	register("c08prim", func(e *Env) { // the primary-connection stage alone (debugging)
		var mu sync.Mutex
		counts := map[string]int{}
		c08Primary(e, func(k string) { mu.Lock(); counts[k]++; mu.Unlock() })
		e.R.SetExtra("handshakes_by_strategy", counts)
	})
}

const (
	c08PrimCode    = "K7QX-2M9Z-PA4W" // the honest join code of the receiver cases
	c08PrimOther   = "K7QX-2M9Z-PA4V" // what the attacker tries instead
	c08PrimMarker  = "written-by-the-peer-of-the-primary-connection\n"
	c08PrimFile    = "PAYLOAD.txt"
	c08ChildWatch  = 60 * time.Second // a child that is still running then is killed: inconclusive
	c08SenderWatch = 25 * time.Second
)

// c08RecvChild: args = serverURL joinCode outDir. The real receiver.
func c08RecvChild(args []string) int {
	if len(args) < 3 {
		return 3
	}
	logger := slog.New(slog.NewTextHandler(os.Stderr, &slog.HandlerOptions{Level: slog.LevelInfo}))
	err := app.RunSnapshotReceiver(context.Background(), logger, app.SnapshotReceiverConfig{
		ServerURL:           args[0],
		JoinCode:            args[1],
		OutDir:              args[2],
		ParallelConnections: 1,
		StunServers:         []string{"127.0.0.1:9"},
		Verbose:             true,
	})
	fmt.Fprintf(os.Stderr, "receiver returned: %v\n", err)
	return 3
}

// c08SendChild: args = serverURL path. The real sender (host).
func c08SendChild(args []string) int {
	if len(args) < 2 {
		return 3
	}
	logger := slog.New(slog.NewTextHandler(os.Stderr, &slog.HandlerOptions{Level: slog.LevelInfo}))
	err := app.RunSnapshotSender(context.Background(), logger, app.SnapshotSenderConfig{
		ServerURL:           args[0],
		Paths:               []string{args[1]},
		MaxReceivers:        1,
		ParallelConnections: 1,
		StunServers:         []string{"127.0.0.1:9"},
		Verbose:             true,
	})
	fmt.Fprintf(os.Stderr, "sender returned: %v\n", err)
	return 3
}

type c08PrimCase struct {
	Side  string `json:"honest_side"` // "receiver" | "sender"
	Path  string `json:"path"`        // producer of the primary connection at the honest side: "accept" | "dial"
	Strat string `json:"strategy"`
	Rep   int    `json:"rep"`
}

func (c c08PrimCase) class() string { return c.Side + "/" + c.Path + "-path/" + c.Strat }

var c08RecvStrats = []string{"right-code", "skip-auth", "wrong-code-then-send", "send-while-wrong-code", "garbage-proof-then-send"}
var c08SendStrats = []string{"right-code", "garbage-proof", "wrong-code", "short-proof-then-close"}

func c08Primary(e *Env, note func(string)) {
	var cases []c08PrimCase
	for rep := 0; rep < e.Pick(1, 4); rep++ {
		for _, path := range []string{"accept", "dial"} {
			for _, s := range c08RecvStrats {
				cases = append(cases, c08PrimCase{"receiver", path, s, rep})
			}
		}
		for _, s := range c08SendStrats {
			cases = append(cases, c08PrimCase{"sender", "dial", s, rep})
		}
	}
	var mu sync.Mutex
	verdicts := map[string]int{} // class -> cases that reached a verdict
	vk.ParallelDo(len(cases), 7, func(i int) {
		c := cases[i]
		dir := filepath.Join(e.Work, fmt.Sprintf("prim-%02d", i))
		_ = os.MkdirAll(dir, 0755)
		var ok bool
		for attempt := 0; attempt < 2 && !ok; attempt++ { // one retry of a case the environment spoiled
			if c.Side == "receiver" {
				ok = c08PrimReceiver(e, c, filepath.Join(dir, fmt.Sprintf("a%d", attempt)), attempt == 1)
			} else {
				ok = c08PrimSender(e, c, filepath.Join(dir, fmt.Sprintf("a%d", attempt)), attempt == 1)
			}
		}
		if !ok {
			return
		}
		e.R.Eval()
		e.R.Distinct("primary/" + c.class())
		note("primary_" + c.Side + "_" + c.Path)
		mu.Lock()
		verdicts[c.class()]++
		mu.Unlock()
		_ = os.RemoveAll(dir)
	})
	e.R.SetExtra("primary_connection_cases_with_verdict", verdicts)
	var missing []string
	for _, c := range cases {
		if verdicts[c.class()] == 0 {
			missing = append(missing, c.class())
		}
	}
	sort.Strings(missing)
	e.R.Require(len(missing) == 0, fmt.Sprintf("primary connection through the real run functions: no verdict for %v", c08UniqStr(missing)))
}

func c08UniqStr(in []string) []string {
	var out []string
	for i, s := range in {
		if i == 0 || s != in[i-1] {
			out = append(out, s)
		}
	}
	return out
}

// c08Signal is the fake signaling server of one case.
type c08Signal struct {
	srv     *httptest.Server
	mu      sync.Mutex
	peerCh  chan []string // candidates announced by the honest application
	started bool
}

// newC08Signal: role is what the honest application is ("receiver"/"sender");
// ourCands is asked (once the application's candidates are known) for the
// candidates announced to it.
func newC08Signal(role string, joinCode string, sum protocol.ManifestSummary, ourCands func(theirs []string) []string) *c08Signal {
	s := &c08Signal{peerCh: make(chan []string, 4)}
	upgrader := websocket.Upgrader{CheckOrigin: func(*http.Request) bool { return true }}
	s.srv = httptest.NewServer(http.HandlerFunc(func(w http.ResponseWriter, req *http.Request) {
		if req.URL.Path == "/session" {
			w.Header().Set("Content-Type", "application/json")
			_ = json.NewEncoder(w).Encode(map[string]string{"session_id": "sess-c08", "join_code": joinCode, "expires_at": time.Now().Add(time.Hour).UTC().Format(time.RFC3339)})
			return
		}
		if req.URL.Path != "/ws" {
			http.NotFound(w, req)
			return
		}
		peerID := req.URL.Query().Get("peer_id")
		ws, err := upgrader.Upgrade(w, req, nil)
		if err != nil {
			return
		}
		defer ws.Close()
		var wmu sync.Mutex
		const us = "peer-of-the-harness"
		send := func(msgType string, payload any) {
			env, _ := protocol.NewEnvelope(msgType, protocol.NewMsgID(), payload)
			env.SessionID = "sess-c08"
			env.From = us
			env.To = peerID
			wmu.Lock()
			_ = ws.WriteJSON(env)
			wmu.Unlock()
		}
		if role == "receiver" {
			send(protocol.TypeManifestOffer, protocol.ManifestOffer{Summary: sum})
		} else {
			send(protocol.TypePeerJoined, protocol.PeerJoined{Peer: protocol.PeerInfo{PeerID: us, Role: "receiver"}})
		}
		for {
			var env protocol.Envelope
			if err := ws.ReadJSON(&env); err != nil {
				return
			}
			switch env.Type {
			case protocol.TypeManifestOffer: // from the honest sender
				var offer protocol.ManifestOffer
				_ = env.DecodePayload(&offer)
				s.mu.Lock()
				first := !s.started
				s.started = true
				s.mu.Unlock()
				if first {
					send(protocol.TypeManifestAccept, protocol.ManifestAccept{ManifestID: offer.Summary.ManifestID, Mode: "all", ParallelConnections: 1})
				}
			case protocol.TypeManifestAccept: // from the honest receiver
				s.mu.Lock()
				first := !s.started
				s.started = true
				s.mu.Unlock()
				if first {
					send(protocol.TypeTransferStart, protocol.TransferStart{ManifestID: sum.ManifestID, SenderPeerID: us, ReceiverPeerID: peerID, TransferID: "t-c08", ParallelConnections: 1})
				}
			case protocol.TypeIceCandidates:
				var cands protocol.IceCandidates
				_ = env.DecodePayload(&cands)
				select {
				case s.peerCh <- cands.Candidates:
				default:
				}
				send(protocol.TypeIceCandidates, protocol.IceCandidates{Candidates: ourCands(cands.Candidates)})
			}
		}
	}))
	return s
}

// loopbackOf picks the UDP port out of the candidates an application announced.
func c08LoopbackOf(cands []string) *net.UDPAddr {
	for _, c := range cands {
		_, p, err := net.SplitHostPort(c)
		if err != nil {
			continue
		}
		a, err := net.ResolveUDPAddr("udp4", "127.0.0.1:"+p)
		if err == nil && a.Port != 0 {
			return a
		}
	}
	return nil
}

func c08ListDir(root string) []string {
	var out []string
	_ = filepath.Walk(root, func(p string, info os.FileInfo, err error) error {
		if err == nil && p != root {
			out = append(out, strings.TrimPrefix(p, root))
		}
		return nil
	})
	return out
}

func c08TailStr(b []byte, n int) string {
	if len(b) > n {
		b = b[len(b)-n:]
	}
	return string(b)
}

// c08PrimReceiver runs one case against the real receiver. Returns false when
// the case reached no verdict (reported as inconclusive on the last attempt).
func c08PrimReceiver(e *Env, c c08PrimCase, dir string, last bool) bool {
	inconcl := func(why string) bool {
		if last {
			e.R.Inconcl("primary " + c.class() + ": " + why)
		}
		return false
	}
	srcDir := filepath.Join(dir, "src", "loot")
	outDir := filepath.Join(dir, "out")
	_ = os.MkdirAll(srcDir, 0755)
	_ = os.MkdirAll(outDir, 0755)
	if err := os.WriteFile(filepath.Join(srcDir, c08PrimFile), []byte(c08PrimMarker), 0644); err != nil {
		return inconcl(err.Error())
	}
	m, err := manifest.Scan(srcDir)
	if err != nil {
		return inconcl("manifest scan: " + err.Error())
	}
	ctx, cancel := context.WithTimeout(context.Background(), c08ChildWatch)
	defer cancel()

	// the peer's socket: it listens on it (dial path) or dials from it (accept path)
	udp, err := net.ListenUDP("udp4", &net.UDPAddr{IP: net.IPv4(127, 0, 0, 1)})
	if err != nil {
		return inconcl(err.Error())
	}
	defer udp.Close()

	var pmu sync.Mutex
	connected, sendEnded := false, false
	var sendErr, authErr error
	var replyLen int
	// what the peer does once it has a connection with the receiver
	play := func(raw *quic.Conn) {
		conn, err := transferquic.NewDialer(raw, vk.Quiet).Dial(ctx, "x")
		if err != nil {
			return
		}
		pmu.Lock()
		connected = true
		pmu.Unlock()
		send := func() {
			err := transfer.SendManifestMultiStream(ctx, conn, srcDir, m, transfer.Options{ParallelFiles: 1, HashAlg: "crc32c"})
			pmu.Lock()
			sendErr, sendEnded = err, true
			pmu.Unlock()
		}
		auth := func(code string) {
			actx, acancel := context.WithTimeout(ctx, 12*time.Second)
			defer acancel()
			err := app.VerifAuthenticateTransport(actx, conn, code, app.VerifAuthRoleSender)
			pmu.Lock()
			authErr = err
			pmu.Unlock()
		}
		switch c.Strat {
		case "right-code":
			auth(c08PrimCode)
			send()
		case "skip-auth":
			send()
		case "wrong-code-then-send":
			auth(c08PrimOther)
			send()
		case "send-while-wrong-code":
			go send()
			auth(c08PrimOther)
		case "garbage-proof-then-send":
			if st, err := raw.OpenStreamSync(ctx); err == nil {
				b := randBytes(50)
				b[0], b[1] = 1, 1
				_, _ = st.Write(b)
				buf := make([]byte, 256)
				_ = st.SetReadDeadline(time.Now().Add(1500 * time.Millisecond))
				n, _ := io.ReadFull(st, buf)
				pmu.Lock()
				replyLen = n
				pmu.Unlock()
			}
			send()
		}
	}

	var ourCands func(theirs []string) []string
	if c.Path == "dial" {
		ql, _, err := vk.ListenApp(udp, vk.QUICConfig(true, 8*time.Second))
		if err != nil {
			return inconcl("listen: " + err.Error())
		}
		defer ql.Close()
		go func() {
			raw, err := ql.Accept(ctx)
			if err != nil {
				return
			}
			play(raw)
		}()
		ourCands = func([]string) []string { return []string{udp.LocalAddr().String()} }
	} else {
		var once sync.Once
		ourCands = func(theirs []string) []string {
			// like the honest sender: announce the socket we dial from (nothing answers a dial there)
			once.Do(func() {
				to := c08LoopbackOf(theirs)
				if to == nil {
					return
				}
				go func() {
					dctx, dcancel := context.WithTimeout(ctx, 10*time.Second)
					raw, err := quictransport.DialWithConfig(dctx, udp, to, vk.Quiet, vk.QUICConfig(false, 8*time.Second))
					dcancel()
					if err != nil {
						return
					}
					play(raw)
				}()
			})
			return []string{udp.LocalAddr().String()}
		}
	}
	sig := newC08Signal("receiver", c08PrimCode, protocol.ManifestSummary{ManifestID: "m-c08", TotalBytes: m.TotalBytes, FileCount: m.FileCount, FolderCount: m.FolderCount, RootName: m.Root}, ourCands)
	defer sig.srv.Close()

	cmd := exec.CommandContext(ctx, os.Args[0], "c08-recv-child", sig.srv.URL, c08PrimCode, outDir)
	cmd.Stdin = strings.NewReader("y\n")
	var out bytes.Buffer
	cmd.Stdout, cmd.Stderr = &out, &out
	cmd.Dir = dir
	_ = cmd.Run()
	timedOut := ctx.Err() != nil
	exit := -1
	if cmd.ProcessState != nil {
		exit = cmd.ProcessState.ExitCode()
	}
	// the peer's send goroutine records its result shortly after the receiver is gone
	for i := 0; i < 40; i++ {
		pmu.Lock()
		done := sendEnded || !connected
		pmu.Unlock()
		if done {
			break
		}
		time.Sleep(50 * time.Millisecond)
	}
	cancel()
	pmu.Lock()
	conn, sEnded, sErr, aErr, rl := connected, sendEnded, sendErr, authErr, replyLen
	pmu.Unlock()
	entries := c08ListDir(outDir)
	detail := map[string]any{"receiver_exit": exit, "output_dir_entries": entries, "peer_send_ended": sEnded, "peer_send_err": c08ErrStr(sErr), "peer_auth_err": c08ErrStr(aErr), "receiver_log_tail": c08TailStr(out.Bytes(), 3000)}
	if c.Rep == 0 {
		e.R.Sample(map[string]any{"scenario": "primary connection, real receiver run function", "case": c, "receiver_exit": exit, "output_dir_entries": len(entries), "peer_send_err": c08ErrStr(sErr)})
	}
	if timedOut {
		return inconcl("the receiver process was still running after the watchdog")
	}
	if !conn {
		return inconcl(fmt.Sprintf("the peer never had a QUIC connection with the receiver (exit %d): %s", exit, c08TailStr(out.Bytes(), 400)))
	}
	if c.Strat == "right-code" {
		var got []byte
		for _, ent := range entries { // wherever below the output directory the receiver puts the root
			if filepath.Base(ent) == c08PrimFile {
				got, _ = os.ReadFile(filepath.Join(outDir, ent))
			}
		}
		if exit == 0 && string(got) == c08PrimMarker {
			return true
		}
		if !last {
			return false // transport trouble is retried once; only a repeated refusal counts
		}
		e.R.Violate("primary:receiver:"+c.Path+"-path:right-code-not-served", fmt.Sprintf("a peer holding the receiver's join code on the %s path of the primary connection was not served (twice): receiver exit %d, file delivered: %v", c.Path, exit, string(got) == c08PrimMarker), c, detail)
		return true
	}
	if len(entries) > 0 || exit == 0 || rl > 50 {
		e.R.Violate("primary:receiver:"+c.Path+"-path:"+c.Strat+":accepted", fmt.Sprintf("the real receiver used a primary connection from its %s path whose peer does not hold the join code (%s): exit code %d, entries created in the output directory %v, bytes answered on the auth stream %d", c.Path, c.Strat, exit, entries, rl), c, detail)
	}
	return true
}

func c08ErrStr(e error) string {
	if e == nil {
		return ""
	}
	return e.Error()
}

// c08PrimSender runs one case against the real sender: the peer listens where
// the sender dials and records every stream the sender opens and every byte.
func c08PrimSender(e *Env, c c08PrimCase, dir string, last bool) bool {
	inconcl := func(why string) bool {
		if last {
			e.R.Inconcl("primary " + c.class() + ": " + why)
		}
		return false
	}
	srcDir := filepath.Join(dir, "share")
	_ = os.MkdirAll(srcDir, 0755)
	if err := os.WriteFile(filepath.Join(srcDir, c08PrimFile), []byte(c08PrimMarker), 0644); err != nil {
		return inconcl(err.Error())
	}
	ctx, cancel := context.WithTimeout(context.Background(), c08ChildWatch)
	defer cancel()
	udp, err := net.ListenUDP("udp4", &net.UDPAddr{IP: net.IPv4(127, 0, 0, 1)})
	if err != nil {
		return inconcl(err.Error())
	}
	defer udp.Close()
	ql, _, err := vk.ListenApp(udp, vk.QUICConfig(true, 8*time.Second))
	if err != nil {
		return inconcl("listen: " + err.Error())
	}
	defer ql.Close()

	var mu sync.Mutex
	connected := false
	streams, bytesSeen := 0, 0 // besides what the auth handshake of the peer consumed itself
	sawMagic := false
	var authErr error
	closed := make(chan struct{}) // the sender gave the connection up (or the control saw the transfer begin)
	var closeOnce sync.Once
	go func() {
		raw, err := ql.Accept(ctx)
		if err != nil {
			return
		}
		mu.Lock()
		connected = true
		mu.Unlock()
		authStreams := 0
		if c.Strat == "right-code" || c.Strat == "wrong-code" {
			code := c08PrimCode
			if c.Strat == "wrong-code" {
				code = c08PrimOther
			}
			tc, _ := transferquic.NewDialer(raw, vk.Quiet).Dial(ctx, "x")
			actx, acancel := context.WithTimeout(ctx, 12*time.Second)
			err := app.VerifAuthenticateTransport(actx, tc, code, app.VerifAuthRoleReceive)
			acancel()
			mu.Lock()
			authErr = err
			mu.Unlock()
			authStreams = 1
		}
		for {
			st, err := raw.AcceptStream(ctx)
			if err != nil {
				closeOnce.Do(func() { close(closed) })
				return
			}
			mu.Lock()
			streams++
			first := streams == 1 && authStreams == 0
			mu.Unlock()
			go func(st *quic.Stream, first bool) {
				buf := make([]byte, 4096)
				if first {
					n, _ := io.ReadFull(st, buf[:50])
					mu.Lock()
					bytesSeen += n
					mu.Unlock()
					switch c.Strat {
					case "garbage-proof":
						b := randBytes(50)
						b[0], b[1] = 1, 2
						_, _ = st.Write(b)
					case "short-proof-then-close":
						b := randBytes(30)
						b[0], b[1] = 1, 2
						_, _ = st.Write(b)
						_ = st.Close()
					}
				}
				for {
					n, err := st.Read(buf)
					mu.Lock()
					bytesSeen += n
					if n >= 4 && string(buf[:4]) == transfer.VerifControlMagic {
						sawMagic = true
						if c.Strat == "right-code" {
							closeOnce.Do(func() { close(closed) })
						}
					}
					mu.Unlock()
					if err != nil {
						return
					}
				}
			}(st, first)
		}
	}()

	sig := newC08Signal("sender", c08PrimCode, protocol.ManifestSummary{}, func([]string) []string { return []string{udp.LocalAddr().String()} })
	defer sig.srv.Close()
	cmd := exec.CommandContext(ctx, os.Args[0], "c08-send-child", sig.srv.URL, srcDir)
	var out bytes.Buffer
	cmd.Stdout, cmd.Stderr = &out, &out
	cmd.Dir = dir
	if err := cmd.Start(); err != nil {
		return inconcl("start: " + err.Error())
	}
	exited := make(chan struct{})
	go func() { _ = cmd.Wait(); close(exited) }()
	gaveUp := false
	select {
	case <-closed:
		gaveUp = true
	case <-exited:
	case <-time.After(c08SenderWatch):
	}
	time.Sleep(150 * time.Millisecond) // bytes already on their way to the peer's reader goroutines
	mu.Lock()
	conn, s, b, mg, aErr := connected, streams, bytesSeen, sawMagic, authErr
	mu.Unlock()
	if cmd.Process != nil {
		_ = cmd.Process.Kill()
	}
	<-exited
	cancel()
	detail := map[string]any{"streams_besides_peer_auth": s, "bytes_seen": b, "control_magic_seen": mg, "peer_auth_err": c08ErrStr(aErr), "sender_log_tail": c08TailStr(out.Bytes(), 3000)}
	if c.Rep == 0 {
		e.R.Sample(map[string]any{"scenario": "primary connection, real sender run function", "case": c, "streams": s, "bytes": b, "control_magic_seen": mg, "peer_auth_err": c08ErrStr(aErr)})
	}
	if !conn {
		return inconcl("the sender never completed a QUIC handshake with the peer's listener: " + c08TailStr(out.Bytes(), 400))
	}
	if c.Strat == "right-code" {
		if aErr == nil && mg {
			return true
		}
		if !last {
			return false
		}
		if !gaveUp {
			return inconcl("control: the sender neither began the transfer nor gave the connection up before the watchdog")
		}
		e.R.Violate("primary:sender:dial-path:right-code-not-served", fmt.Sprintf("a listener holding the sender's join code was not served on the primary connection (twice): auth at the peer: %v, control stream seen: %v", aErr, mg), c, detail)
		return true
	}
	// attack: streams counts the auth stream itself for the strategies that answer it by hand
	limitStreams := 1
	if c.Strat == "wrong-code" {
		limitStreams = 0
	}
	if s > limitStreams || b > 50 || mg {
		e.R.Violate("primary:sender:dial-path:"+c.Strat+":bytes-before-auth", fmt.Sprintf("the real sender went on with a primary connection whose listener does not hold the join code (%s): %d stream(s) besides the auth stream, %d bytes besides the peer's own handshake, control magic seen: %v", c.Strat, s-limitStreams, b, mg), c, detail)
		return true
	}
	if !gaveUp {
		return inconcl("the sender neither gave the connection up nor sent anything before the watchdog")
	}
	return true
}
