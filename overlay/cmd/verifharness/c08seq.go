//go:build verif

package main

import (
	"context"
	"fmt"
	"io"
	"net"
	"sync"
	"time"

	"github.com/quic-go/quic-go"
	"github.com/sheerbytes/sheerbytes/internal/app"
	"github.com/sheerbytes/sheerbytes/internal/quictransport"
	"github.com/sheerbytes/sheerbytes/internal/transfer"
	"github.com/sheerbytes/sheerbytes/internal/transferquic"
	vk "github.com/sheerbytes/sheerbytes/internal/verifkit"
)

// udpSplitter forwards UDP datagrams; the k-th distinct client address (in
// order of first appearance) is routed to route(k). It models an on-path
// attacker who lets some connections of a transfer through untouched and
// terminates others.
type udpSplitter struct {
	conn  *net.UDPConn
	mu    sync.Mutex
	up    map[string]*net.UDPConn
	order []string
}

func newUDPSplitter(route func(k int) *net.UDPAddr) (*udpSplitter, error) {
	c, err := net.ListenUDP("udp4", &net.UDPAddr{IP: net.IPv4(127, 0, 0, 1)})
	if err != nil {
		return nil, err
	}
	s := &udpSplitter{conn: c, up: map[string]*net.UDPConn{}}
	go func() {
		buf := make([]byte, 65536)
		for {
			n, from, err := c.ReadFromUDP(buf)
			if err != nil {
				return
			}
			s.mu.Lock()
			u := s.up[from.String()]
			if u == nil {
				k := len(s.order)
				s.order = append(s.order, from.String())
				u, err = net.DialUDP("udp4", nil, route(k))
				if err != nil {
					s.mu.Unlock()
					continue
				}
				s.up[from.String()] = u
				go func(u *net.UDPConn, back *net.UDPAddr) {
					b := make([]byte, 65536)
					for {
						m, err := u.Read(b)
						if err != nil {
							return
						}
						_, _ = c.WriteToUDP(b[:m], back)
					}
				}(u, from)
			}
			s.mu.Unlock()
			_, _ = u.Write(buf[:n])
		}
	}()
	return s, nil
}

func (s *udpSplitter) addr() *net.UDPAddr { return s.conn.LocalAddr().(*net.UDPAddr) }
func (s *udpSplitter) close() {
	_ = s.conn.Close()
	s.mu.Lock()
	for _, u := range s.up {
		_ = u.Close()
	}
	s.mu.Unlock()
}

// tlsRelay terminates the sender's TLS session with its own certificate,
// opens its own session to the receiver and pipes the first stream (the
// authentication exchange) verbatim in both directions.
type tlsRelay struct {
	udp      *net.UDPConn
	ql       vk.Acceptor
	dialUDP  *net.UDPConn
	mu       sync.Mutex
	fromSend int // bytes the sender wrote to the attacker on any stream
	streams  int
}

func newTLSRelay(receiver *net.UDPAddr) (*tlsRelay, error) {
	udp, err := net.ListenUDP("udp4", &net.UDPAddr{IP: net.IPv4(127, 0, 0, 1)})
	if err != nil {
		return nil, err
	}
	ql, _, err := vk.ListenApp(udp, vk.QUICConfig(true, 5*time.Second))
	if err != nil {
		udp.Close()
		return nil, err
	}
	dudp, err := net.ListenUDP("udp4", &net.UDPAddr{IP: net.IPv4(127, 0, 0, 1)})
	if err != nil {
		ql.Close()
		udp.Close()
		return nil, err
	}
	r := &tlsRelay{udp: udp, ql: ql, dialUDP: dudp}
	go func() {
		in, err := ql.Accept(context.Background())
		if err != nil {
			return
		}
		dctx, cancel := context.WithTimeout(context.Background(), 5*time.Second)
		out, err := quictransport.DialWithConfig(dctx, dudp, receiver, vk.Quiet, vk.QUICConfig(false, 5*time.Second))
		cancel()
		if err != nil {
			return
		}
		for {
			sin, err := in.AcceptStream(context.Background())
			if err != nil {
				return
			}
			r.mu.Lock()
			r.streams++
			r.mu.Unlock()
			sout, err := out.OpenStreamSync(context.Background())
			if err != nil {
				return
			}
			go func() { _, _ = io.Copy(sin, sout); _ = sin.Close() }()
			go func() {
				buf := make([]byte, 4096)
				for {
					n, err := sin.Read(buf)
					if n > 0 {
						r.mu.Lock()
						r.fromSend += n
						r.mu.Unlock()
						_, _ = sout.Write(buf[:n])
					}
					if err != nil {
						_ = sout.Close()
						return
					}
				}
			}()
		}
	}()
	return r, nil
}

func (r *tlsRelay) close() {
	_ = r.ql.Close()
	_ = r.udp.Close()
	_ = r.dialUDP.Close()
}

// c08Sequences: transfers of several connections between the real
// dialExtraConns and the real acceptExtraConns (one sender object, one
// receiver object per transfer, as in the application) with an attacker on
// ONE of the connections: (a) an on-path relay that terminates TLS on the
// p-th connection and pipes the authentication messages verbatim, (b) a rogue
// dialer without the code that reaches the receiver's listener before an
// honest extra connection, stalls, and answers with a wrong proof later.
func c08Sequences(e *Env, code string, note func(string)) {
	type seq struct {
		kind string
		n, p int
	}
	var seqs []seq
	for rep := 0; rep < e.Pick(1, 4); rep++ {
		for _, n := range []int{2, 3} {
			for p := 0; p < n; p++ {
				seqs = append(seqs, seq{"relay", n, p})
			}
		}
		seqs = append(seqs, seq{"rogue-first-late-wrong-proof", 2, 0}, seq{"rogue-first-late-garbage", 2, 0}, seq{"honest-only", 3, -1})
	}
	vk.ParallelDo(len(seqs), 8, func(i int) {
		s := seqs[i]
		udp, err := net.ListenUDP("udp4", &net.UDPAddr{IP: net.IPv4(127, 0, 0, 1)})
		if err != nil {
			e.R.Inconcl(err.Error())
			return
		}
		defer udp.Close()
		_, tr, err := vk.ListenApp(udp, vk.QUICConfig(true, 5*time.Second))
		if err != nil {
			e.R.Inconcl(err.Error())
			return
		}
		defer tr.Close()
		recvAddr := udp.LocalAddr().(*net.UDPAddr)
		type ares struct {
			conns []transfer.Conn
			err   error
		}
		ach := make(chan ares, 1)
		go func() {
			ctx, cancel := context.WithTimeout(context.Background(), 9*time.Second)
			defer cancel()
			conns, err := app.VerifAcceptExtraConns(ctx, tr, code, s.n)
			ach <- ares{conns, err}
		}()
		attacker := map[string]bool{} // addresses the receiver sees for attacker-controlled connections
		target := recvAddr
		var relay *tlsRelay
		var split *udpSplitter
		sent := 0
		switch s.kind {
		case "relay":
			relay, err = newTLSRelay(recvAddr)
			if err != nil {
				e.R.Inconcl(err.Error())
				return
			}
			defer relay.close()
			attacker[relay.dialUDP.LocalAddr().String()] = true
			relayAddr := relay.udp.LocalAddr().(*net.UDPAddr)
			split, err = newUDPSplitter(func(k int) *net.UDPAddr {
				if k == s.p {
					return relayAddr
				}
				return recvAddr
			})
			if err != nil {
				e.R.Inconcl(err.Error())
				return
			}
			defer split.close()
			target = split.addr()
		case "rogue-first-late-wrong-proof", "rogue-first-late-garbage":
			dudp, err := net.ListenUDP("udp4", &net.UDPAddr{IP: net.IPv4(127, 0, 0, 1)})
			if err != nil {
				e.R.Inconcl(err.Error())
				return
			}
			defer dudp.Close()
			attacker[dudp.LocalAddr().String()] = true
			dctx, dcancel := context.WithTimeout(context.Background(), 5*time.Second)
			raw, err := quictransport.DialWithConfig(dctx, dudp, recvAddr, vk.Quiet, vk.QUICConfig(false, 6*time.Second))
			dcancel()
			if err != nil {
				e.R.Inconcl("rogue dial: " + err.Error())
				return
			}
			defer raw.CloseWithError(0, "")
			go func(kind string) {
				time.Sleep(1500 * time.Millisecond) // well after an honest connection would have authenticated
				if kind == "rogue-first-late-garbage" {
					if st, err := raw.OpenStreamSync(context.Background()); err == nil {
						b := randBytes(50)
						b[0], b[1] = 1, 1
						_, _ = st.Write(b)
						// then behave like a sender and offer a manifest
						if st2, err := raw.OpenStreamSync(context.Background()); err == nil {
							_, _ = st2.Write([]byte(transfer.VerifControlMagic + "rogue manifest"))
						}
					}
					return
				}
				tc, err := transferquic.NewDialer(raw, vk.Quiet).Dial(context.Background(), "x")
				if err != nil {
					return
				}
				actx, acancel := context.WithTimeout(context.Background(), 3*time.Second)
				_ = app.VerifAuthenticateTransport(actx, tc, "WRONGCOD", app.VerifAuthRoleSender)
				acancel()
			}(s.kind)
			time.Sleep(150 * time.Millisecond) // the rogue's handshake is in the accept queue first
			sent = 1
		}
		nDial := s.n
		if sent > 0 {
			nDial = s.n - sent
		}
		dctx, dcancel := context.WithTimeout(context.Background(), 7*time.Second)
		nSender, _ := app.VerifDialExtraConns(dctx, target, code, quictransport.ClientConfig(), vk.QUICConfig(false, 5*time.Second), nDial)
		dcancel()
		var ar ares
		select {
		case ar = <-ach:
		case <-time.After(15 * time.Second):
			e.R.Inconcl("acceptExtraConns did not return")
			return
		}
		e.R.Eval()
		e.R.Distinct(fmt.Sprintf("extra-seq/%s/n%d/p%d", s.kind, s.n, s.p))
		note("extra_seq")
		e.R.Count("extra_seq:" + s.kind)
		attackerKept := 0
		for _, c := range ar.conns {
			if attacker[c.RemoteAddr().String()] {
				attackerKept++
			}
			c.Close()
		}
		detail := map[string]any{"sequence": s, "receiver_kept": len(ar.conns), "receiver_kept_from_attacker": attackerKept, "receiver_err": c08ErrStr(ar.err), "sender_kept": nSender}
		if relay != nil {
			relay.mu.Lock()
			detail["sender_bytes_seen_by_relay"] = relay.fromSend
			detail["sender_streams_seen_by_relay"] = relay.streams
			relay.mu.Unlock()
		}
		if i < 3 {
			e.R.Sample(detail)
		}
		switch s.kind {
		case "honest-only":
			if len(ar.conns) != s.n || nSender != s.n {
				e.R.Violate("extra-seq:honest-rejected", fmt.Sprintf("a transfer of %d honest extra connections ended with %d kept by the receiver and %d by the sender", s.n, len(ar.conns), nSender), detail, nil)
			}
		case "relay":
			if attackerKept > 0 {
				e.R.Violate("extra-seq:relay:accepted-by-receiver", fmt.Sprintf("the receiver kept a connection whose other end is a relay that terminated TLS (connection %d of %d)", s.p+1, s.n), detail, nil)
			}
			if nSender > s.n-1 {
				e.R.Violate("extra-seq:relay:accepted-by-sender", fmt.Sprintf("the sender kept %d of %d connections although connection %d ended at a relay that terminated TLS", nSender, s.n, s.p+1), detail, nil)
			}
			if relay.streams > 1 || relay.fromSend > app.VerifAuthMsgSize {
				e.R.Violate("extra-seq:relay:bytes-before-auth", fmt.Sprintf("the sender opened %d streams and wrote %d bytes on a connection that never authenticated", relay.streams, relay.fromSend), detail, nil)
			}
		default:
			if attackerKept > 0 {
				e.R.Violate("extra-seq:rogue:credited-as-authenticated", "the receiver returned the connection of a dialer that never presented a valid proof as one of its authenticated extra connections", detail, nil)
			}
		}
	})
	for _, k := range []string{"relay", "rogue-first-late-wrong-proof", "rogue-first-late-garbage", "honest-only"} {
		e.R.Require(e.R.Counter("extra_seq:"+k) >= 1, "no extra-connection sequence of kind "+k+" reached a verdict")
	}
}

var _ = quic.Config{}
