//go:build verif

package main

import (
	"context"
	"fmt"
	"io"
	"net"
	"sort"
	"strings"
	"sync"
	"sync/atomic"
	"time"

	"github.com/quic-go/quic-go"
	"github.com/sheerbytes/sheerbytes/internal/ice"
	"github.com/sheerbytes/sheerbytes/internal/quictransport"
	"github.com/sheerbytes/sheerbytes/internal/verifhook"
	vk "github.com/sheerbytes/sheerbytes/internal/verifkit"
)

func init() { register("c09", runC09) }

// localAddrs returns the usable local IP addresses (as host strings, link-local with zone).
func localAddrs() []string {
	var out []string
	ifs, _ := net.Interfaces()
	for _, ifc := range ifs {
		if ifc.Flags&net.FlagUp == 0 {
			continue
		}
		addrs, _ := ifc.Addrs()
		for _, a := range addrs {
			ipn, ok := a.(*net.IPNet)
			if !ok || ipn.IP.IsMulticast() || ipn.IP.IsUnspecified() {
				continue
			}
			h := ipn.IP.String()
			if ipn.IP.IsLinkLocalUnicast() {
				h = (&net.IPAddr{IP: ipn.IP, Zone: ifc.Name}).String()
			}
			out = append(out, h)
		}
	}
	sort.Strings(out)
	return out
}

type c09Server struct {
	udp   *net.UDPConn
	ql    vk.Acceptor
	mu    sync.Mutex
	conns []*quic.Conn
	token map[*quic.Conn]string
}

func newC09Server() (*c09Server, error) {
	udp, err := net.ListenUDP("udp", &net.UDPAddr{}) // wildcard, dual stack
	if err != nil {
		return nil, err
	}
	ql, _, err := vk.ListenApp(udp, vk.QUICConfig(true, 10*time.Second))
	if err != nil {
		udp.Close()
		return nil, err
	}
	s := &c09Server{udp: udp, ql: ql, token: map[*quic.Conn]string{}}
	go func() {
		for {
			c, err := ql.Accept(context.Background())
			if err != nil {
				return
			}
			s.mu.Lock()
			s.conns = append(s.conns, c)
			s.mu.Unlock()
			go func(c *quic.Conn) {
				st, err := c.AcceptStream(context.Background())
				if err != nil {
					return
				}
				b, _ := io.ReadAll(io.LimitReader(st, 64))
				s.mu.Lock()
				s.token[c] = string(b)
				s.mu.Unlock()
			}(c)
		}
	}()
	return s, nil
}

func (s *c09Server) port() int { return s.udp.LocalAddr().(*net.UDPAddr).Port }
func (s *c09Server) close() {
	s.mu.Lock()
	for _, c := range s.conns {
		_ = c.CloseWithError(0, "")
	}
	s.mu.Unlock()
	_ = s.ql.Close()
	_ = s.udp.Close()
}

// delayProxy forwards UDP datagrams between clients and target, holding each
// datagram for d in both directions (a slow direct path).
type delayProxy struct {
	conn   *net.UDPConn
	target *net.UDPAddr
	d      time.Duration
	mu     sync.Mutex
	up     map[string]*net.UDPConn
	closed atomic.Bool
}

func newDelayProxy(target *net.UDPAddr, d time.Duration) (*delayProxy, error) {
	c, err := net.ListenUDP("udp4", &net.UDPAddr{IP: net.IPv4(127, 0, 0, 1)})
	if err != nil {
		return nil, err
	}
	p := &delayProxy{conn: c, target: target, d: d, up: map[string]*net.UDPConn{}}
	go func() {
		buf := make([]byte, 65536)
		for {
			n, from, err := c.ReadFromUDP(buf)
			if err != nil {
				return
			}
			pkt := append([]byte(nil), buf[:n]...)
			p.mu.Lock()
			u := p.up[from.String()]
			if u == nil {
				u, err = net.DialUDP("udp4", nil, target)
				if err != nil {
					p.mu.Unlock()
					continue
				}
				p.up[from.String()] = u
				go func(u *net.UDPConn, back *net.UDPAddr) {
					b := make([]byte, 65536)
					for {
						m, err := u.Read(b)
						if err != nil {
							return
						}
						resp := append([]byte(nil), b[:m]...)
						time.AfterFunc(d, func() {
							if !p.closed.Load() {
								_, _ = c.WriteToUDP(resp, back)
							}
						})
					}
				}(u, from)
			}
			p.mu.Unlock()
			time.AfterFunc(d, func() {
				if !p.closed.Load() {
					_, _ = u.Write(pkt)
				}
			})
		}
	}()
	return p, nil
}

func (p *delayProxy) addr() string { return p.conn.LocalAddr().String() }
func (p *delayProxy) close() {
	p.closed.Store(true)
	_ = p.conn.Close()
	p.mu.Lock()
	for _, u := range p.up {
		_ = u.Close()
	}
	p.mu.Unlock()
}

type c09Case struct {
	ID    string   `json:"id"`
	Cands []string `json:"candidates"` // with PORT placeholder
	Hold  bool     `json:"hold"`       // hold later finishers at ice.dial.succeeded until the winner was handed out
	// HoldPastGrace: later finishers are held for 2.6 s, i.e. beyond the 2 s the
	// dialer grants losing attempts after it has handed out the winner
	HoldPastGrace bool `json:"hold_past_grace,omitempty"`
	Class string   `json:"class"`
}

func runC09(e *Env) {
	e.R.Rule = "the real Prober.ProbeAndDial against a wildcard loopback QUIC listener that accepts everything; candidate lists built from the host's addresses (one to all of them, duplicates, closed ports, turn:-prefixed entries), with and without a hook callback that holds later finishers until the caller has taken the winner; a grace period after ProbeAndDial returned, the number of server-side connections still open must be 1 and a token written on the returned connection must arrive on that one; a case counts when >= 2 handshakes completed; distinct by (candidate list class, completion order class)"
	addrs := localAddrs()
	e.R.SetExtra("local_addresses", addrs)
	if len(addrs) < 2 {
		e.R.Inconcl("fewer than 2 local addresses: the candidate race cannot be produced here")
		e.R.Require(false, "need >= 2 local addresses")
		return
	}
	r := vk.NewRng(vk.Mix(e.Seed ^ vk.HashStr("c09"+e.Tier)))
	jp := func(h string) string { return net.JoinHostPort(h, "PORT") }
	var cases []c09Case
	add := func(class string, hold bool, cands ...string) {
		cases = append(cases, c09Case{ID: fmt.Sprintf("C09-%04d", len(cases)), Cands: cands, Hold: hold, Class: class})
	}
	n := e.Pick(6, 40)
	for i := 0; i < n; i++ {
		hold := i%2 == 1
		// all addresses
		var all []string
		for _, a := range addrs {
			all = append(all, jp(a))
		}
		add("all-addresses", hold, all...)
		// two random addresses
		a, b := addrs[r.Intn(len(addrs))], addrs[r.Intn(len(addrs))]
		add("two-addresses", hold, jp(a), jp(b), jp(addrs[0]))
		// one address only (control: exactly one handshake)
		add("single-address", hold, jp(addrs[r.Intn(len(addrs))]))
		// duplicates and a closed port
		add("duplicates+closed-port", hold, jp(addrs[0]), jp(addrs[0]), jp(addrs[len(addrs)-1]), net.JoinHostPort(addrs[0], "9"))
		// relay-prefixed entries next to direct ones
		add("turn-prefixed", hold, jp(addrs[0]), "turn:"+jp(addrs[len(addrs)-1]), jp(addrs[1%len(addrs)]))
		// a slow direct path (1.2 s each way through a delay proxy) next to a fast relay-prefixed candidate
		if i < e.Pick(2, 8) {
			add("slow-direct+turn", false, "PROXY", "turn:"+jp("127.0.0.1"))
		}
		// stragglers: handshakes that complete at the dialer only after its grace period
		if i < e.Pick(3, 10) {
			cases = append(cases, c09Case{ID: fmt.Sprintf("C09-%04d", len(cases)), Cands: all, Class: "all-addresses:finishers-held-past-the-grace-period", HoldPastGrace: true})
		}
		// unreachable only + one reachable
		add("unreachable+one", hold, net.JoinHostPort(addrs[0], "9"), "203.0.113.1:9", jp(addrs[r.Intn(len(addrs))]))
	}
	var leaks, multi atomic.Int64
	orderClasses := map[string]int{}
	var omu sync.Mutex
	for _, c := range cases { // serial: the hook is process-global
		srv, err := newC09Server()
		if err != nil {
			e.R.Inconcl("listener: " + err.Error())
			continue
		}
		port := fmt.Sprint(srv.port())
		var cands []string
		var proxy *delayProxy
		for _, x := range c.Cands {
			if x == "PROXY" {
				proxy, err = newDelayProxy(&net.UDPAddr{IP: net.IPv4(127, 0, 0, 1), Port: srv.port()}, 1200*time.Millisecond)
				if err != nil {
					continue
				}
				cands = append(cands, proxy.addr())
				continue
			}
			cands = append(cands, strings.ReplaceAll(x, "PORT", port))
		}
		var succeeded atomic.Int64
		released := make(chan struct{})
		var order []string
		verifhook.Set("ice.dial.succeeded", func(ev verifhook.Event) {
			k := succeeded.Add(1)
			omu.Lock()
			order = append(order, ev.S)
			omu.Unlock()
			if c.HoldPastGrace && k > 1 {
				time.Sleep(2600 * time.Millisecond)
				return
			}
			if c.Hold && k > 1 {
				// hold later finishers until ProbeAndDial has returned the winner
				select {
				case <-released:
				case <-time.After(3 * time.Second):
				}
			}
		})
		prober, err := ice.NewProber(ice.ProberConfig{StunServers: []string{"127.0.0.1:9"}}, vk.Quiet)
		if err != nil {
			e.R.Inconcl("prober: " + err.Error())
			srv.close()
			continue
		}
		ctx, cancel := context.WithTimeout(context.Background(), 12*time.Second)
		conn, err := prober.ProbeAndDial(ctx, cands, quictransport.ClientConfig(), vk.QUICConfig(false, 10*time.Second), nil)
		close(released)
		e.R.Eval()
		if err != nil {
			cancel()
			verifhook.Set("ice.dial.succeeded", nil)
			prober.Close()
			srv.close()
			e.R.Violate("dial:no-connection:"+c.Class, fmt.Sprintf("ProbeAndDial failed although a candidate was reachable: %v", err), c, nil)
			continue
		}
		tok := fmt.Sprintf("token-%s", c.ID)
		if st, err := conn.OpenStreamSync(ctx); err == nil {
			_, _ = st.Write([]byte(tok))
			_ = st.Close()
		}
		// grace period: losers closed by the dialer become visible at the server
		grace := time.Duration(e.Pick(700, 1000)) * time.Millisecond
		if proxy != nil {
			grace = 4500 * time.Millisecond // a slow attempt may finish (and must then be closed) this late
		}
		if c.HoldPastGrace {
			grace = 3600 * time.Millisecond
		}
		time.Sleep(grace)
		srv.mu.Lock()
		open := 0
		var tokenOn *quic.Conn
		for _, sc := range srv.conns {
			if sc.Context().Err() == nil {
				open++
			}
			if srv.token[sc] == tok {
				tokenOn = sc
			}
		}
		total := len(srv.conns)
		srv.mu.Unlock()
		hs := int(succeeded.Load())
		if proxy != nil {
			proxy.close()
			e.R.Count("slow_direct_path_cases")
			e.R.Distinct(fmt.Sprintf("%s/handshakes=%d", c.Class, hs))
		}
		if hs >= 2 {
			multi.Add(1)
			omu.Lock()
			oc := fmt.Sprintf("%s/hold=%v/handshakes=%d", c.Class, c.Hold, hs)
			orderClasses[oc]++
			omu.Unlock()
			e.R.Distinct(fmt.Sprintf("%s/hold=%v/%d", c.Class, c.Hold, hs))
		}
		detail := map[string]any{"server_conns_total": total, "server_conns_open_after_grace": open, "handshakes_completed": hs, "completion_order": order, "token_arrived": tokenOn != nil}
		switch {
		case open > 1:
			leaks.Add(1)
			key := "dial:late-winner-leaked"
			if !c.Hold {
				key = "dial:late-winner-leaked"
			}
			e.R.Violate(key, fmt.Sprintf("%d server-side connections still open %d ms after ProbeAndDial returned (handshakes completed: %d); the dialer must keep exactly one", open, e.Pick(700, 1000), hs), c, detail)
		case open == 0:
			e.R.Violate("dial:winner-closed", "ProbeAndDial returned a connection but no server-side connection is open", c, detail)
		case tokenOn == nil || tokenOn.Context().Err() != nil:
			e.R.Violate("dial:token-on-wrong-connection", "the token written on the returned connection did not arrive on the only open server-side connection", c, detail)
		default:
			e.R.Count("exactly_one_connection")
			if hs >= 2 {
				e.R.Sample(map[string]any{"case": c, "obs": detail})
			}
		}
		cancel()
		_ = conn.CloseWithError(0, "")
		verifhook.Set("ice.dial.succeeded", nil)
		prober.Close()
		srv.close()
	}
	tMain := time.Now()
	c09Bursts(e, addrs)
	e.R.SetExtra("burst_and_steered_part_ms", time.Since(tMain).Milliseconds())
	e.R.SetExtra("runs_with_two_or_more_handshakes", multi.Load())
	e.R.SetExtra("completion_order_classes", orderClasses)
	e.R.SetExtra("hook_hits", verifhook.AllHits())
	e.R.Require(multi.Load() >= int64(e.Pick(8, 60)), fmt.Sprintf("only %d runs had >= 2 completed handshakes", multi.Load()))
}


// c09Bursts: many short ProbeAndDial calls in which exactly one candidate is
// reachable and the others end at once (unparsable) or never (closed port),
// several calls at a time. The end of the last attempt, the hand-over of the
// winner and the start of the "all attempts done" watcher then fall together
// in many different orders; every call must return the connection.
func c09Bursts(e *Env, addrs []string) {
	srv, err := newC09Server()
	if err != nil {
		e.R.Inconcl("listener: " + err.Error())
		return
	}
	defer srv.close()
	port := fmt.Sprint(srv.port())
	good := net.JoinHostPort(addrs[0], port)
	junk := func(n int) []string {
		out := make([]string, n)
		for i := range out {
			out[i] = fmt.Sprintf("not an address %d", i)
		}
		return out
	}
	classes := []struct {
		name  string
		cands []string
	}{
		{"burst:single-reachable", []string{good}},
		{"burst:one-reachable+400-unparsable", append(junk(400), good)},
		{"burst:one-reachable+3-unparsable", append(junk(3), good)},
		{"burst:one-reachable+closed-port+unparsable", []string{net.JoinHostPort(addrs[0], "9"), "x", good}},
	}
	n := e.Pick(400, 4000)
	tBurst := time.Now()
	var failed [4]atomic.Int64
	var ok atomic.Int64
	// one prober (one socket) per worker, as one application process has
	pool := make(chan *ice.Prober, 8)
	for i := 0; i < 8; i++ {
		pr, err := ice.NewProber(ice.ProberConfig{StunServers: []string{"127.0.0.1:9"}}, vk.Quiet)
		if err != nil {
			e.R.Inconcl("prober: " + err.Error())
			return
		}
		defer pr.Close()
		pool <- pr
	}
	vk.ParallelDo(n, 8, func(i int) {
		c := classes[i%len(classes)]
		prober := <-pool
		defer func() { pool <- prober }()
		ctx, cancel := context.WithTimeout(context.Background(), 8*time.Second)
		defer cancel()
		conn, err := prober.ProbeAndDial(ctx, c.cands, quictransport.ClientConfig(), vk.QUICConfig(false, 5*time.Second), nil)
		e.R.Eval()
		if err != nil {
			if ctx.Err() != nil {
				e.R.Inconcl(c.name + ": deadline reached: " + err.Error())
				return
			}
			if failed[i%len(classes)].Add(1) <= 2 {
				e.R.Violate("dial:no-connection:"+c.name, fmt.Sprintf("ProbeAndDial failed although one candidate was reachable: %v", err), map[string]any{"class": c.name, "candidates": len(c.cands), "call": i}, nil)
			}
			return
		}
		ok.Add(1)
		_ = conn.CloseWithError(0, "")
	})
	for _, c := range classes {
		e.R.Distinct(c.name)
	}
	e.R.SetExtra("burst_part_ms", time.Since(tBurst).Milliseconds())
	// candidate lists whose direct entries all fail (closed port), with
	// duplicates: the relay-prefixed entry must then be tried, and a list
	// without any reachable entry must be reported as failed - judged on the
	// attempts' own end-of-attempt reports, not on a duration: once every
	// direct attempt has reported its end, the call must move on
	deadA, deadB := net.JoinHostPort(addrs[0], "9"), net.JoinHostPort(addrs[len(addrs)-1], "9")
	type deadCase struct {
		name  string
		cands []string
		relay bool
	}
	var deadCases []deadCase
	for rep := 0; rep < e.Pick(2, 8); rep++ {
		deadCases = append(deadCases,
			deadCase{"dead-duplicates+relay", []string{deadA, deadA, "turn:" + good}, true},
			deadCase{"dead-duplicates+dead+relay", []string{deadA, deadB, deadA, deadB, "turn:" + good}, true},
			deadCase{"dead-duplicates-only", []string{deadA, deadA}, false},
			deadCase{"dead-no-duplicates+relay", []string{deadA, deadB, "turn:" + good}, true})
	}
	{
		vk.ParallelDo(len(deadCases), 8, func(di int) {
			dc := deadCases[di]
			prober := <-pool
			var mu sync.Mutex
			ended := map[string]int{}
			lastEnd := time.Time{}
			ctx, cancel := context.WithTimeout(context.Background(), 20*time.Second)
			type res struct {
				conn *quic.Conn
				err  error
			}
			rch := make(chan res, 1)
			go func() {
				conn, err := prober.ProbeAndDial(ctx, dc.cands, quictransport.ClientConfig(), vk.QUICConfig(false, 5*time.Second), func(u ice.ProbeUpdate) {
					if u.State != ice.ProbeStateProbing {
						mu.Lock()
						ended[u.Addr]++
						lastEnd = time.Now()
						mu.Unlock()
					}
				})
				rch <- res{conn, err}
			}()
			// wait until every distinct direct candidate has reported its end
			direct := map[string]bool{}
			for _, c := range dc.cands {
				if !strings.HasPrefix(c, "turn:") {
					direct[c] = true
				}
			}
			var r res
			returned := false
			deadline := time.After(19 * time.Second)
		wait:
			for {
				select {
				case r = <-rch:
					returned = true
					break wait
				case <-deadline:
					break wait
				case <-time.After(50 * time.Millisecond):
					mu.Lock()
					all := len(ended) >= len(direct) && !lastEnd.IsZero() && time.Since(lastEnd) > 6*time.Second
					mu.Unlock()
					if all {
						break wait
					}
				}
			}
			e.R.Eval()
			e.R.Distinct("burst:" + dc.name)
			mu.Lock()
			nEnded := len(ended)
			mu.Unlock()
			switch {
			case !returned && nEnded >= len(direct):
				e.R.Violate("dial:stuck-after-all-direct-attempts-ended:"+dc.name, fmt.Sprintf("every direct attempt (%d distinct) reported its end more than 6 s ago, yet ProbeAndDial neither tried the relay-prefixed candidate nor reported failure", len(direct)), map[string]any{"class": dc.name, "candidates": dc.cands}, nil)
			case !returned:
				e.R.Inconcl(dc.name + ": the direct attempts did not end within the watchdog")
			case dc.relay && r.err != nil:
				e.R.Violate("dial:no-connection:"+dc.name, fmt.Sprintf("ProbeAndDial failed although the relay-prefixed candidate was reachable: %v", r.err), map[string]any{"class": dc.name}, nil)
			case !dc.relay && r.err == nil:
				e.R.Violate("dial:connection-without-reachable-candidate:"+dc.name, "ProbeAndDial returned a connection although no candidate was reachable", map[string]any{"class": dc.name}, nil)
			default:
				e.R.Count("dead_direct_lists_handled")
			}
			if r.conn != nil {
				_ = r.conn.CloseWithError(0, "")
			}
			cancel()
			if returned {
				pool <- prober
			} else {
				// the prober is stuck with that call: replace it
				if np, err := ice.NewProber(ice.ProberConfig{StunServers: []string{"127.0.0.1:9"}}, vk.Quiet); err == nil {
					pool <- np
				}
			}
		})
	}
	e.R.Require(e.R.Counter("dead_direct_lists_handled") >= e.Pick(4, 16) || len(e.R.Violations) > 0, "too few lists of failing direct candidates reached a verdict")
	// steered orders at the two scheduling points around the attempt spawn loop
	// (serial: the hooks are process-global)
	steered := 0
	for rep := 0; rep < e.Pick(24, 120); rep++ {
		kind := []string{"steered:caller-reaches-select-after-the-only-attempt-won-and-all-ended", "steered:watcher-runs-before-the-attempts-start"}[rep%2]
		succeeded := make(chan struct{})
		var once sync.Once
		if rep%2 == 0 {
			verifhook.Set("ice.dial.succeeded", func(verifhook.Event) { once.Do(func() { close(succeeded) }) })
			verifhook.Set("ice.probe.beforeSelect", func(verifhook.Event) {
				// hold the caller until the winner has been produced and its
				// goroutine has ended (the watcher then reports "all done")
				select {
				case <-succeeded:
					time.Sleep(30 * time.Millisecond)
				case <-time.After(3 * time.Second):
				}
			})
		} else {
			verifhook.Set("ice.probe.beforeSpawn", func(verifhook.Event) { time.Sleep(20 * time.Millisecond) })
		}
		prober := <-pool
		ctx, cancel := context.WithTimeout(context.Background(), 8*time.Second)
		conn, err := prober.ProbeAndDial(ctx, []string{good}, quictransport.ClientConfig(), vk.QUICConfig(false, 5*time.Second), nil)
		hits := verifhook.Hits("ice.probe.beforeSelect") + verifhook.Hits("ice.probe.beforeSpawn")
		verifhook.Set("ice.dial.succeeded", nil)
		verifhook.Set("ice.probe.beforeSelect", nil)
		verifhook.Set("ice.probe.beforeSpawn", nil)
		e.R.Eval()
		switch {
		case err != nil && ctx.Err() != nil:
			e.R.Inconcl(kind + ": deadline reached: " + err.Error())
		case err != nil:
			e.R.Violate("dial:no-connection:"+kind, fmt.Sprintf("ProbeAndDial failed although its only candidate was reachable and the handshake completed: %v", err), map[string]any{"class": kind, "rep": rep}, nil)
		default:
			_ = conn.CloseWithError(0, "")
			if hits > 0 {
				steered++
			}
		}
		cancel()
		pool <- prober
		e.R.Distinct(kind)
	}
	e.R.SetExtra("steered_calls_that_returned_the_connection", steered)
	e.R.Require(steered >= e.Pick(12, 60) || len(e.R.Violations) > 0, fmt.Sprintf("only %d steered calls reached their hook", steered))
	e.R.SetExtra("burst_calls_that_returned_the_connection", ok.Load())
	e.R.Require(ok.Load()+failed[0].Load()+failed[1].Load()+failed[2].Load()+failed[3].Load() >= int64(e.Pick(300, 3000)), "too few burst calls reached a verdict")
}
