//go:build verif

package main

import (
	"fmt"
	"os"
	"path/filepath"

	"github.com/sheerbytes/sheerbytes/internal/transfer"
	vk "github.com/sheerbytes/sheerbytes/internal/verifkit"
)

// synthLeftover writes into outDir what an interrupted EARLIER session left
// behind for the files of the hosted tree: a pre-sized data file that holds
// exactly the chunks that session had completed (the rest is zero) and a valid
// sidecar marking them. The earlier session may have used another chunk size
// than the one about to run (the host was restarted with other parameters):
//
//	samecs      same chunk size
//	samecount   another chunk size that gives the same number of chunks
//	othercount  another chunk size that gives another number of chunks
//
// The marked set is scattered (not a plain prefix), as several data streams
// completing out of order leave it. Returns the number of files prepared and
// the number with a gap below a marked chunk.
func synthLeftover(cfg vk.XferCfg, src, outDir, variant string, seed uint64) (files, gaps int, err error) {
	m, rootPath, resolver, _, err := vk.BuildManifest(cfg, src)
	if err != nil {
		return 0, 0, err
	}
	baseDir := outDir
	if !cfg.NoRootDir {
		baseDir = filepath.Join(outDir, m.Root)
	}
	r := vk.NewRng(seed ^ 0x1ef70)
	count := func(size int64, cs uint32) int64 { return (size + int64(cs) - 1) / int64(cs) }
	for _, it := range m.Items {
		if it.IsDir || it.Size == 0 || it.ID == "" {
			continue
		}
		cs := cfg.ChunkSize
		c1 := cs
		switch variant {
		case "samecount":
			c1 = 0
			for d := uint32(1); d < cs; d++ {
				if cs-d > 0 && count(it.Size, cs-d) == count(it.Size, cs) {
					c1 = cs - d
					break
				}
				if count(it.Size, cs+d) == count(it.Size, cs) {
					c1 = cs + d
					break
				}
			}
			if c1 == 0 {
				continue
			}
		case "othercount":
			c1 = cs * 2
			if count(it.Size, c1) == count(it.Size, cs) {
				c1 = cs/2 + 1
				if count(it.Size, c1) == count(it.Size, cs) {
					continue
				}
			}
		}
		total := uint32(count(it.Size, c1))
		if total < 2 || total > 4096 {
			continue
		}
		srcPath := filepath.Join(rootPath, filepath.FromSlash(it.RelPath))
		if resolver != nil {
			srcPath = resolver(it.RelPath)
		}
		data, rerr := os.ReadFile(srcPath)
		if rerr != nil || int64(len(data)) != it.Size {
			return files, gaps, fmt.Errorf("source %s: %v", srcPath, rerr)
		}
		marked := make([]bool, total)
		n := 0
		for i := range marked {
			if r.Intn(2) == 0 {
				marked[i] = true
				n++
			}
		}
		if n == 0 {
			marked[total-1] = true
		}
		if total >= 3 && r.Intn(4) != 0 {
			// make sure there is a gap below a marked chunk
			marked[total-1] = true
			marked[r.Intn(int(total)-1)] = false
		}
		out := make([]byte, it.Size)
		gap, seenZero := false, false
		for i := uint32(0); i < total; i++ {
			if !marked[i] {
				seenZero = true
				continue
			}
			if seenZero {
				gap = true
			}
			lo := int64(i) * int64(c1)
			hi := lo + int64(c1)
			if hi > it.Size {
				hi = it.Size
			}
			copy(out[lo:hi], data[lo:hi])
		}
		dataPath := filepath.Join(baseDir, filepath.FromSlash(it.RelPath))
		if err := os.MkdirAll(filepath.Dir(dataPath), 0755); err != nil {
			return files, gaps, err
		}
		if err := os.WriteFile(dataPath, out, 0644); err != nil {
			return files, gaps, err
		}
		scPath := filepath.Join(baseDir, vk.ResumeDirName, transfer.VerifCoreSidecarID(it)+".sbxmap")
		_ = os.Remove(scPath)
		sc, cerr := transfer.CreateSidecar(scPath, it.ID, it.Size, c1)
		if cerr != nil {
			return files, gaps, cerr
		}
		for i, b := range marked {
			if b {
				sc.MarkComplete(uint32(i))
			}
		}
		if err := sc.Flush(); err != nil {
			return files, gaps, err
		}
		files++
		if gap {
			gaps++
		}
	}
	return files, gaps, nil
}
