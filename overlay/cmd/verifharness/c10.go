//go:build verif

package main

// C10 – signaling messages stay inside their session and carry the true sender.
//
// Rounds against the real thruserv binary (rate limits off): several sessions,
// 8–24 WebSocket connections driven concurrently through stable phases
// (membership fixed, credit-based flow control, markers) and churn phases
// (joins, leaves, reconnects, duplicate peer ids). Every payload carries
// (author connection, author counter, per-target sequence, global id). The
// verdict is computed offline from the per-connection receive logs, the send
// logs and the connection intervals (one monotonic clock).

import (
	"encoding/json"
	"fmt"
	"sort"
	"strings"
	"sync"
	"sync/atomic"
	"time"

	"github.com/gorilla/websocket"
	vk "github.com/sheerbytes/sheerbytes/internal/verifkit"
	"github.com/sheerbytes/sheerbytes/pkg/protocol"
)

func init() { register("c10", runC10) }

// Watchdogs (never verdicts). They are generous for a healthy server (whose
// waits end in milliseconds) but short enough that a server that really loses
// messages does not stall the check for an hour: after c10MaxWatchdogs expired
// watchdogs a round skips its remaining phases and is judged on what it logged.
var (
	c10CreditWait = 6 * time.Second
	c10SettleWait = 10 * time.Second
	c10MarkerWait = 10 * time.Second
)

const c10MaxWatchdogs = 2

const (
	c10Credits        = 100 // messages in flight per recipient in a stable phase (server channel: 256)
	c10JoinWait       = 20 * time.Second
	c10SpoofSidPerMil = 1 // known class is sampled: ~0.1 % of the routable sends + one forced witness per session
)

type c10RoundCfg struct {
	Round       int    `json:"round"`
	Seed        uint64 `json:"seed"`
	Sessions    int    `json:"sessions"`
	PerSession  int    `json:"initial_clients_per_session"`
	StableOps   int    `json:"stable_ops_per_client"`
	ChurnOps    int    `json:"churn_ops_per_client"`
	ChurnEvents int    `json:"churn_events_per_session"`
	Storms      int    `json:"membership_storms"`
	Growth      int    `json:"max_extra_receivers_per_session"`
	// Collide: the sessions of the round are created on a server whose join-code draws are dictated
	// (c10ctl.go): the first draw(s) of every later session equal codes of sessions that are live.
	Collide string `json:"joincode_collisions,omitempty"`
	// Ctl / IdleMs: control-frame round (c10ctl.go)
	Ctl    string `json:"control_frames,omitempty"`
	IdleMs int    `json:"idle_ms,omitempty"`
}

type c10Payload struct {
	VF string `json:"vf"`
	G  uint64 `json:"g"`
	A  int    `json:"a"`
	N  int    `json:"n"`
	Q  int    `json:"q"`
	K  string `json:"k"`
	P  int    `json:"p"`
	C  int    `json:"c"`
}

// c10Send is one entry of an author's send log.
type c10Send struct {
	G         uint64        `json:"g"`
	A         int           `json:"author_conn"`
	N         int           `json:"n"`
	Q         int           `json:"q"`
	Kind      string        `json:"kind"`         // addressed | broadcast | marker | fence | barrier | malformed | missing-field | binary
	Target    string        `json:"target_class"` // same-session | self | ghost | other-session | absent-planned | none
	To        string        `json:"to"`
	FromClass string        `json:"from_class"` // omitted | honest | same-session-peer | other-session-peer | server
	From      string        `json:"from_wire"`
	SidClass  string        `json:"sid_class"` // omitted | honest | other-session | random
	Sid       string        `json:"sid_wire"`
	Type      string        `json:"type"`
	Phase     int           `json:"phase"`
	Stable    bool          `json:"stable"`
	Routable  bool          `json:"routable"` // a well-formed envelope the server is expected to route
	T0        time.Duration `json:"t0_ns"`
	T1        time.Duration `json:"t1_ns"`
	WriteErr  bool          `json:"write_err,omitempty"`
	Dest      []int         `json:"dest,omitempty"` // connections that must receive it (stable phases)
	Pay       c10Payload    `json:"payload"`
}

// c10FC is the flow-control window of one recipient in a stable phase. A message
// (author a, author counter n) destined to the recipient is "in flight" until the
// recipient has received it or any later message of the same author (FIFO per
// author): a lost message therefore does not leak window space for ever.
type c10FC struct {
	mu       sync.Mutex
	pending  map[int][]int // author conn -> counters n still unacknowledged
	inflight int
	lost     bool // the window stayed full for c10CreditWait: in-flight bound no longer guaranteed
}

func (f *c10FC) reset() {
	f.mu.Lock()
	f.pending, f.inflight, f.lost = map[int][]int{}, 0, false
	f.mu.Unlock()
}

func (f *c10FC) acquire(author, n int) bool {
	deadline := time.Now().Add(c10CreditWait)
	for {
		f.mu.Lock()
		if f.lost {
			f.mu.Unlock()
			return false
		}
		if f.inflight < c10Credits {
			if f.pending == nil {
				f.pending = map[int][]int{}
			}
			f.pending[author] = append(f.pending[author], n)
			f.inflight++
			f.mu.Unlock()
			return true
		}
		if time.Now().After(deadline) {
			f.lost = true
			f.mu.Unlock()
			return false
		}
		f.mu.Unlock()
		time.Sleep(100 * time.Microsecond)
	}
}

// ack: the recipient received counter n of author; everything up to n is no longer in flight.
func (f *c10FC) ack(author, n int) {
	f.mu.Lock()
	p := f.pending[author]
	k := 0
	for k < len(p) && p[k] <= n {
		k++
	}
	if k > 0 {
		f.pending[author] = p[k:]
		f.inflight -= k
	}
	f.mu.Unlock()
}

func (f *c10FC) pendingOf(author int) int {
	f.mu.Lock()
	defer f.mu.Unlock()
	return len(f.pending[author])
}

func (f *c10FC) isLost() bool { f.mu.Lock(); defer f.mu.Unlock(); return f.lost }

type c10Conn struct {
	Idx    int
	Sess   int
	PeerID string
	Role   string
	How    string // initial | join | reconnect | duplicate | host-duplicate
	ws     *vk.WSClient
	DialOK bool
	Status int

	DialStart  time.Duration
	JoinedAt   time.Duration // receipt time of its peer_list (0 = never)
	ListSid    string        // session_id of the peer_list the server greeted it with
	ListPeers  []string      // peer ids named in that peer_list
	ReplacedAt time.Duration // dial start of a later connection with the same id in the session (0 = never)
	CloseStart time.Duration // when the harness began to close it (0 = not closed by the harness)
	Zombie     atomic.Bool   // a later same-id connection was upgraded: the hub no longer routes to this one
	closed     atomic.Bool

	fc     c10FC
	sendMu sync.Mutex
	n      int
	perTo  map[string]int
	sends  []c10Send
	dead   atomic.Bool // a write failed
}

func (c *c10Conn) open() bool {
	if c.ws == nil || !c.DialOK || c.closed.Load() {
		return false
	}
	ended, _ := c.ws.ReadEnded()
	return !ended
}

type c10SessInfo struct {
	ID       string
	JoinCode string
	Planned  []string // planned peer ids of the session (host first)
	nextNew  int
}

type c10Phase struct {
	Kind    string        `json:"kind"` // stable | churn
	Start   time.Duration `json:"start_ns"`
	End     time.Duration `json:"end_ns"`
	Settled bool          `json:"settled"` // membership confirmed and channels flushed before a stable phase
	Members [][]int       `json:"members"` // per session: connection indexes (stable)
	Note    string        `json:"note,omitempty"`
}

type c10Event struct {
	Phase int           `json:"phase"`
	Sess  int           `json:"session"`
	Kind  string        `json:"kind"`
	ID    string        `json:"peer_id"`
	Conn  int           `json:"conn"`
	T0    time.Duration `json:"t0_ns"`
	OK    bool          `json:"ok"`
	Note  string        `json:"note,omitempty"`
}

type c10Round struct {
	e   *Env
	cfg c10RoundCfg
	srv *vk.Serv

	sess []*c10SessInfo

	mu            sync.Mutex
	conns         []*c10Conn
	events        []c10Event
	phases        []c10Phase
	creditTimeout map[[2]int]bool
	watchdogs     atomic.Int64
	inconcl       []string

	gid atomic.Uint64
}

var c10Types = []string{"offer", "answer", "ice_candidate", "ice_candidates", "ice_credentials", "manifest_offer",
	"manifest_accept", "transfer_start", "hello", "peer_list", "peer_joined", "peer_left", "error", "turn_credentials", "x-custom"}

// ---------------------------------------------------------------------------
// connections

func (rd *c10Round) newConn(sess int, id, role, how string) *c10Conn {
	c := &c10Conn{Sess: sess, PeerID: id, Role: role, How: how, perTo: map[string]int{}}
	rd.mu.Lock()
	c.Idx = len(rd.conns)
	rd.conns = append(rd.conns, c)
	rd.mu.Unlock()
	return c
}

func (rd *c10Round) snapshotConns() []*c10Conn {
	rd.mu.Lock()
	defer rd.mu.Unlock()
	out := make([]*c10Conn, len(rd.conns))
	copy(out, rd.conns)
	return out
}

// dial connects a new connection; earlier open connections with the same id in
// the same session are marked replaced (from the dial start) and, once the
// upgrade succeeded, zombie.
func (rd *c10Round) dial(sess int, id, role, how string) *c10Conn {
	c := rd.newConn(sess, id, role, how)
	var older []*c10Conn
	for _, o := range rd.snapshotConns() {
		if o != c && o.Sess == sess && o.PeerID == id && o.DialOK && !o.closed.Load() {
			older = append(older, o)
		}
	}
	now := vk.MonoNow()
	rd.mu.Lock()
	for _, o := range older {
		if o.ReplacedAt == 0 {
			o.ReplacedAt = now
		}
	}
	rd.mu.Unlock()
	url := vk.WSURL(rd.srv.URL, rd.sess[sess].JoinCode, id, role)
	ws, err := vk.DialWS(url, 15*time.Second, func(r vk.WSRecv) { c.onRecv(r) })
	c.ws = ws
	c.DialStart = ws.DialStart
	c.Status = ws.HTTPStatus
	if err != nil {
		return c
	}
	c.DialOK = true
	for _, o := range older {
		o.Zombie.Store(true)
	}
	if rec, ok := ws.WaitType(protocol.TypePeerList, c10JoinWait); ok {
		c.JoinedAt = rec.T
		c.ListSid = rec.Env.SessionID
		var pl protocol.PeerList
		if rec.Env.DecodePayload(&pl) == nil {
			for _, p := range pl.Peers {
				c.ListPeers = append(c.ListPeers, p.PeerID)
			}
		}
	}
	return c
}

// onRecv runs in the reader goroutine: acknowledges the flow-control window.
func (c *c10Conn) onRecv(r vk.WSRecv) {
	if r.BadJSON || len(r.Env.Payload) == 0 {
		return
	}
	var p c10Payload
	if json.Unmarshal(r.Env.Payload, &p) == nil && p.VF == "c10" {
		c.fc.ack(p.A, p.N)
	}
}

func (rd *c10Round) closeConn(c *c10Conn, graceful bool) {
	if c.ws == nil || !c.DialOK || c.closed.Swap(true) {
		return
	}
	rd.mu.Lock()
	c.CloseStart = vk.MonoNow()
	rd.mu.Unlock()
	c.ws.Close(graceful)
}

// ---------------------------------------------------------------------------
// sending

type c10Op struct {
	Kind      string
	Target    string
	To        string
	FromClass string
	From      string
	SidClass  string
	Sid       string
	Type      string
	Variant   int
}

func c10q(s string) string { b, _ := json.Marshal(s); return string(b) }

// wire builds the frame text for an op. Returns (bytes, binary?, routable?).
func c10Wire(op c10Op, pay string, g uint64) ([]byte, bool, bool) {
	env := func(v, typ, msgid string) string {
		var sb strings.Builder
		sb.WriteString("{")
		first := true
		add := func(k, val string) {
			if !first {
				sb.WriteString(",")
			}
			first = false
			sb.WriteString(c10q(k) + ":" + val)
		}
		if v != "" {
			add("v", v)
		}
		if typ != "-" {
			add("type", c10q(typ))
		}
		if msgid != "-" {
			add("msg_id", c10q(msgid))
		}
		if op.SidClass != "omitted" {
			add("session_id", c10q(op.Sid))
		}
		if op.FromClass != "omitted" {
			add("from", c10q(op.From))
		}
		if op.To != "" {
			add("to", c10q(op.To))
		}
		add("payload", pay)
		sb.WriteString("}")
		return sb.String()
	}
	msgid := fmt.Sprintf("m%d", g)
	good := env("1", op.Type, msgid)
	switch op.Kind {
	case "missing-field":
		switch op.Variant % 7 {
		case 0:
			return []byte(env("", op.Type, msgid)), false, false
		case 1:
			return []byte(env("2", op.Type, msgid)), false, false
		case 2:
			return []byte(env("1", "", msgid)), false, false
		case 3:
			return []byte(env("1", "-", msgid)), false, false
		case 4:
			return []byte(env("1", op.Type, "")), false, false
		case 5:
			return []byte(env("1", op.Type, "-")), false, false
		default:
			return []byte(env("0", op.Type, msgid)), false, false
		}
	case "malformed":
		switch op.Variant % 9 {
		case 0:
			return []byte(good[:len(good)-1-op.Variant%7]), false, false
		case 1:
			return []byte(good + "}{"), false, false
		case 2:
			return []byte(strings.Replace(good, `"v":1`, `"v":"1"`, 1)), false, false
		case 3:
			return []byte(strings.Replace(good, `"payload":`, `"to":5,"payload":`, 1)), false, false
		case 4:
			return []byte("[" + good + "]"), false, false
		case 5:
			return []byte(""), false, false
		case 6:
			return []byte("null"), false, false
		case 7:
			return []byte("hello c10 " + pay), false, false
		default:
			return []byte(strings.Replace(good, `"type":`, `"type":{"x":`, 1)), false, false
		}
	case "binary":
		return []byte(good), true, false
	}
	return []byte(good), false, true
}

// send writes one op and appends it to the author's send log.
func (rd *c10Round) send(c *c10Conn, op c10Op, phase int, stable bool, dest []*c10Conn) bool {
	c.sendMu.Lock()
	defer c.sendMu.Unlock()
	if c.dead.Load() || c.closed.Load() {
		return false
	}
	g := uint64(rd.cfg.Round+1)<<40 | rd.gid.Add(1)
	c.n++
	qk := op.To
	if qk == "" {
		qk = "*"
	}
	c.perTo[qk]++
	p := c10Payload{VF: "c10", G: g, A: c.Idx, N: c.n, Q: c.perTo[qk], K: op.Kind, P: phase}
	raw, binary, routable := c10Wire(op, "", g) // probe routability first (cheap)
	_ = raw
	var got []*c10Conn
	if stable && routable && len(dest) > 0 {
		p.C = 1
		for _, d := range dest {
			if d.fc.acquire(c.Idx, p.N) {
				got = append(got, d)
			} else {
				rd.mu.Lock()
				rd.creditTimeout[[2]int{phase, d.Idx}] = true
				rd.mu.Unlock()
			}
		}
	}
	pj, _ := json.Marshal(p)
	raw, binary, routable = c10Wire(op, string(pj), g)
	rec := c10Send{G: g, A: c.Idx, N: p.N, Q: p.Q, Kind: op.Kind, Target: op.Target, To: op.To, FromClass: op.FromClass, From: op.From,
		SidClass: op.SidClass, Sid: op.Sid, Type: op.Type, Phase: phase, Stable: stable, Routable: routable, Pay: p}
	if stable && routable {
		for _, d := range dest {
			rec.Dest = append(rec.Dest, d.Idx)
		}
	}
	rec.T0 = vk.MonoNow()
	var err error
	if binary {
		err = c.ws.SendBinary(raw)
	} else {
		err = c.ws.SendText(raw)
	}
	rec.T1 = vk.MonoNow()
	if err != nil {
		rec.WriteErr = true
		c.dead.Store(true)
		_ = got // the window entries of a dead author stay pending; recipients are excluded via WriteErr
	}
	c.sends = append(c.sends, rec)
	return err == nil
}

// genOp draws one op for author c. live = ids currently believed live in the
// session (stable: the fixed membership), planned = every id the plan knows.
func (rd *c10Round) genOp(r *vk.Rng, c *c10Conn, stable bool, live []string) c10Op {
	s := rd.sess[c.Sess]
	op := c10Op{FromClass: "omitted", SidClass: "omitted", Type: c10Types[r.Intn(len(c10Types))], Variant: r.Intn(1000)}
	pickSame := func() (string, string) {
		pool := s.Planned
		if stable || r.Intn(3) > 0 {
			pool = live
		}
		if len(pool) == 0 {
			pool = s.Planned
		}
		id := pool[r.Intn(len(pool))]
		cls := "absent-planned"
		for _, l := range live {
			if l == id {
				cls = "same-session"
			}
		}
		if id == c.PeerID {
			cls = "self"
		}
		return id, cls
	}
	otherSess := func() *c10SessInfo {
		if len(rd.sess) < 2 {
			return nil
		}
		k := r.Intn(len(rd.sess) - 1)
		if k >= c.Sess {
			k++
		}
		return rd.sess[k]
	}
	w := r.Intn(1000)
	switch {
	case w < 330:
		op.Kind = "addressed"
		op.To, op.Target = pickSame()
	case w < 370:
		op.Kind, op.To, op.Target = "addressed", c.PeerID, "self"
	case w < 640:
		op.Kind, op.Target = "broadcast", "none"
	case w < 700:
		op.Kind, op.Target = "addressed", "ghost"
		op.To = fmt.Sprintf("ghost-%d-%d", c.Idx, r.U64()%1000000007)
	case w < 790:
		op.Kind, op.Target = "addressed", "other-session"
		if o := otherSess(); o != nil {
			op.To = o.Planned[r.Intn(len(o.Planned))]
		} else {
			op.To, op.Target = fmt.Sprintf("ghost-%d-%d", c.Idx, r.U64()%1000000007), "ghost"
		}
	case w < 830:
		op.Kind, op.Target = "malformed", "none"
		if r.Bool() {
			op.To, _ = pickSame()
		}
	case w < 870:
		op.Kind, op.Target = "missing-field", "none"
		if r.Bool() {
			op.To, _ = pickSame()
		}
	case w < 900:
		op.Kind, op.Target = "binary", "none"
		if r.Bool() {
			op.To, _ = pickSame()
		}
	default:
		// hostile header on an otherwise routable message
		if r.Bool() {
			op.Kind, op.Target = "broadcast", "none"
		} else {
			op.Kind = "addressed"
			op.To, op.Target = pickSame()
		}
		switch r.Intn(3) {
		case 0:
			op.FromClass = "same-session-peer"
			op.From = s.Planned[r.Intn(len(s.Planned))]
			if op.From == c.PeerID {
				op.From = s.Planned[(r.Intn(len(s.Planned)-1)+1)%len(s.Planned)]
			}
		case 1:
			op.FromClass = "other-session-peer"
			if o := otherSess(); o != nil {
				op.From = o.Planned[r.Intn(len(o.Planned))]
			} else {
				op.From = "nobody"
			}
		default:
			op.FromClass, op.From = "server", "server"
		}
	}
	if op.Kind == "addressed" || op.Kind == "broadcast" {
		if op.FromClass == "omitted" && r.Intn(4) == 0 {
			op.FromClass, op.From = "honest", c.PeerID
		}
		switch {
		case r.Intn(1000) < c10SpoofSidPerMil:
			if o := otherSess(); o != nil && r.Bool() {
				op.SidClass, op.Sid = "other-session", o.ID
			} else {
				op.SidClass, op.Sid = "random", fmt.Sprintf("%032x", r.U64())
			}
		case r.Intn(3) == 0:
			op.SidClass, op.Sid = "honest", s.ID
		}
	}
	return op
}

// destFor computes who must receive a routable op under the fixed membership of a stable phase.
func c10DestFor(c *c10Conn, op c10Op, members []*c10Conn) []*c10Conn {
	var out []*c10Conn
	switch op.Kind {
	case "addressed", "marker", "fence", "barrier":
		for _, m := range members {
			if m.PeerID == op.To {
				out = append(out, m)
			}
		}
	case "broadcast":
		for _, m := range members {
			if m != c && m.PeerID != c.PeerID {
				out = append(out, m)
			}
		}
	}
	return out
}

func c10IDs(members []*c10Conn) []string {
	var ids []string
	for _, m := range members {
		ids = append(ids, m.PeerID)
	}
	return ids
}

// ---------------------------------------------------------------------------
// phases

// liveMembers: per session, the open, non-zombie connections that received their peer_list.
func (rd *c10Round) liveMembers() [][]*c10Conn {
	out := make([][]*c10Conn, len(rd.sess))
	for _, c := range rd.snapshotConns() {
		if c.open() && !c.Zombie.Load() && c.JoinedAt > 0 && !c.dead.Load() {
			out[c.Sess] = append(out[c.Sess], c)
		}
	}
	return out
}

func (rd *c10Round) note(s string) {
	rd.watchdogs.Add(1)
	rd.mu.Lock()
	if len(rd.inconcl) < 20 {
		rd.inconcl = append(rd.inconcl, fmt.Sprintf("round %d: %s", rd.cfg.Round, s))
	}
	rd.mu.Unlock()
}

// settle confirms the membership and flushes the server's per-peer channels:
// (1) every connection that ended has its "peer disconnected" line in the
// server output (its handler processed everything it had sent), (2) an
// all-pairs barrier sent afterwards was delivered (FIFO: everything older has
// left the channels). Returns false when a watchdog expired.
func (rd *c10Round) settle(phase int) ([][]*c10Conn, bool) {
	deadline := time.Now().Add(c10SettleWait)
	for {
		ended, connected := 0, 0
		for _, c := range rd.snapshotConns() {
			if !c.DialOK {
				continue
			}
			connected++
			if !c.open() {
				ended++
			}
		}
		txt := rd.srv.LogText()
		if strings.Count(txt, "peer disconnected session_id=") >= ended && strings.Count(txt, "peer connected session_id=") >= connected {
			break
		}
		if time.Now().After(deadline) {
			rd.note(fmt.Sprintf("settle before phase %d: server output shows fewer handler exits than closed sockets (%d) within %v", phase, ended, c10SettleWait))
			return rd.liveMembers(), false
		}
		time.Sleep(10 * time.Millisecond)
	}
	members := rd.liveMembers()
	type pairKey struct{ a, r int }
	pending := map[pairKey]bool{}
	for _, ms := range members {
		for _, a := range ms {
			for _, r := range ms {
				pending[pairKey{a.Idx, r.Idx}] = true
			}
		}
	}
	conns := rd.snapshotConns()
	wantG := map[int]map[uint64]pairKey{} // recipient -> barrier gid -> pair
	scanned := map[int]int{}
	wait := 150 * time.Millisecond
	for try := 0; try < 8 && len(pending) > 0; try++ {
		for k := range pending {
			a, r := conns[k.a], conns[k.r]
			op := c10Op{Kind: "barrier", Target: "same-session", To: r.PeerID, FromClass: "omitted", SidClass: "omitted", Type: "x-barrier"}
			if a == r {
				op.Target = "self"
			}
			before := len(a.sends)
			if rd.send(a, op, phase, false, nil) {
				if wantG[k.r] == nil {
					wantG[k.r] = map[uint64]pairKey{}
				}
				wantG[k.r][a.sends[before].G] = k
			}
		}
		until := time.Now().Add(wait)
		for len(pending) > 0 {
			for ri, want := range wantG {
				tail := conns[ri].ws.LogFrom(scanned[ri])
				scanned[ri] += len(tail)
				for _, rec := range tail {
					if rec.BadJSON || len(rec.Env.Payload) == 0 {
						continue
					}
					var p c10Payload
					if json.Unmarshal(rec.Env.Payload, &p) == nil && p.VF == "c10" {
						if k, ok := want[p.G]; ok {
							delete(pending, k)
						}
					}
				}
			}
			if len(pending) == 0 || !time.Now().Before(until) {
				break
			}
			time.Sleep(3 * time.Millisecond)
		}
		wait *= 2
	}
	if len(pending) > 0 {
		rd.note(fmt.Sprintf("settle before phase %d: %d barrier pairs undelivered", phase, len(pending)))
		return members, false
	}
	return members, true
}

func (rd *c10Round) runStable(r *vk.Rng, phase int) {
	members, settled := rd.settle(phase)
	ph := c10Phase{Kind: "stable", Start: vk.MonoNow(), Settled: settled, Members: make([][]int, len(rd.sess))}
	for s, ms := range members {
		for _, m := range ms {
			ph.Members[s] = append(ph.Members[s], m.Idx)
		}
	}
	for _, ms := range members {
		for _, m := range ms {
			m.fc.reset()
		}
	}
	var wg sync.WaitGroup
	for s := range members {
		ms := members[s]
		live := c10IDs(ms)
		for _, c := range ms {
			c, cr := c, r.Fork()
			wg.Add(1)
			go func() {
				defer wg.Done()
				for i := 0; i < rd.cfg.StableOps; i++ {
					op := rd.genOp(cr, c, true, live)
					if i == 0 && phase == 0 && c == ms[0] {
						// one guaranteed witness of the session_id class per session
						op = c10Op{Kind: "broadcast", Target: "none", FromClass: "omitted", SidClass: "random", Sid: fmt.Sprintf("%032x", cr.U64()), Type: "offer"}
						if len(rd.sess) > 1 && c.Sess%2 == 0 {
							op.SidClass, op.Sid = "other-session", rd.sess[(c.Sess+1)%len(rd.sess)].ID
						}
					}
					if !rd.send(c, op, phase, true, c10DestFor(c, op, ms)) {
						return
					}
					if cr.Intn(16) == 0 {
						time.Sleep(time.Duration(cr.Intn(300)) * time.Microsecond)
					}
				}
				// markers: one addressed message per recipient, then a fence to itself
				for _, m := range ms {
					if m == c {
						continue
					}
					op := c10Op{Kind: "marker", Target: "same-session", To: m.PeerID, FromClass: "omitted", SidClass: "omitted", Type: "x-marker"}
					rd.send(c, op, phase, true, c10DestFor(c, op, ms))
				}
				op := c10Op{Kind: "fence", Target: "self", To: c.PeerID, FromClass: "omitted", SidClass: "omitted", Type: "x-fence"}
				rd.send(c, op, phase, true, c10DestFor(c, op, ms))
			}()
		}
	}
	wg.Wait()
	// completion by counting, not timing: the phase is complete when no recipient window holds a pending
	// message (each author's last message to each recipient has arrived). While something is pending the
	// author sends a further marker (FIFO: a later arrival acknowledges everything before it, lost or not).
	// The watchdog only yields inconclusive.
	deadline := time.Now().Add(c10MarkerWait)
	wait := 100 * time.Millisecond
	nextMarker := time.Now().Add(wait)
	for {
		type pr struct{ a, r *c10Conn }
		var open []pr
		for _, ms := range members {
			for _, r := range ms {
				if r.fc.isLost() || !r.open() {
					continue
				}
				for _, a := range ms {
					if !a.dead.Load() && a.open() && r.fc.pendingOf(a.Idx) > 0 {
						open = append(open, pr{a, r})
					}
				}
			}
		}
		if len(open) == 0 {
			break
		}
		if time.Now().After(deadline) {
			ph.Note = "marker wait incomplete"
			rd.note(fmt.Sprintf("stable phase %d: %d author->recipient pairs still pending after the watchdog", phase, len(open)))
			break
		}
		if time.Now().After(nextMarker) {
			for _, o := range open {
				op := c10Op{Kind: "marker", Target: "same-session", To: o.r.PeerID, FromClass: "omitted", SidClass: "omitted", Type: "x-marker"}
				if o.a == o.r {
					op.Target = "self"
				}
				rd.send(o.a, op, phase, true, []*c10Conn{o.r})
			}
			wait *= 2
			nextMarker = time.Now().Add(wait)
		}
		time.Sleep(2 * time.Millisecond)
	}
	ph.End = vk.MonoNow()
	rd.mu.Lock()
	rd.phases = append(rd.phases, ph)
	rd.mu.Unlock()
}

func (rd *c10Round) logEvent(ev c10Event) {
	rd.mu.Lock()
	rd.events = append(rd.events, ev)
	rd.mu.Unlock()
}

func (rd *c10Round) runChurn(r *vk.Rng, phase int, last bool) {
	ph := c10Phase{Kind: "churn", Start: vk.MonoNow()}
	var wg sync.WaitGroup
	startSender := func(c *c10Conn, cr *vk.Rng) {
		wg.Add(1)
		go func() {
			defer wg.Done()
			for i := 0; i < rd.cfg.ChurnOps; i++ {
				var live []string
				for _, m := range rd.liveMembers()[c.Sess] {
					live = append(live, m.PeerID)
				}
				op := rd.genOp(cr, c, false, live)
				if !rd.send(c, op, phase, false, nil) {
					return
				}
				if cr.Intn(3) == 0 {
					time.Sleep(time.Duration(cr.Intn(1500)) * time.Microsecond)
				}
			}
		}()
	}
	for _, ms := range rd.liveMembers() {
		for _, c := range ms {
			startSender(c, r.Fork())
		}
	}
	var dwg sync.WaitGroup
	for s := range rd.sess {
		s, dr := s, r.Fork()
		dwg.Add(1)
		go func() {
			defer dwg.Done()
			si := rd.sess[s]
			hostDupDone := false
			for ev := 0; ev < rd.cfg.ChurnEvents; ev++ {
				time.Sleep(time.Duration(500+dr.Intn(4000)) * time.Microsecond)
				var recvLive []*c10Conn
				var hostLive *c10Conn
				for _, m := range rd.liveMembers()[s] {
					if m.Role == "receiver" {
						recvLive = append(recvLive, m)
					} else {
						hostLive = m
					}
				}
				kind := []string{"join", "leave", "reconnect", "duplicate", "duplicate", "join"}[dr.Intn(6)]
				if last && s == 0 && ev == rd.cfg.ChurnEvents-1 && hostLive != nil && !hostDupDone {
					kind = "host-duplicate"
				}
				if len(recvLive) <= 1 && (kind == "leave") {
					kind = "join"
				}
				if len(recvLive) == 0 && kind != "host-duplicate" {
					kind = "join"
				}
				if len(recvLive) >= rd.cfg.PerSession-1+rd.cfg.Growth && kind == "join" {
					kind = "leave" // keep the round within its client bound
				}
				e := c10Event{Phase: phase, Sess: s, Kind: kind, T0: vk.MonoNow()}
				switch kind {
				case "join":
					var id string
					// sometimes an id that was used before and left, otherwise a fresh planned one
					if si.nextNew < len(si.Planned) {
						id = si.Planned[si.nextNew]
						si.nextNew++
					} else {
						id = si.Planned[1+dr.Intn(len(si.Planned)-1)]
						for _, m := range recvLive {
							if m.PeerID == id {
								id = ""
							}
						}
					}
					if id == "" {
						e.Kind, e.Note = "join", "skipped: no free planned id"
						break
					}
					c := rd.dial(s, id, "receiver", "join")
					e.ID, e.Conn, e.OK = id, c.Idx, c.DialOK && c.JoinedAt > 0
					if c.DialOK {
						startSender(c, dr.Fork())
					}
				case "leave":
					c := recvLive[dr.Intn(len(recvLive))]
					rd.closeConn(c, dr.Bool())
					e.ID, e.Conn, e.OK = c.PeerID, c.Idx, true
				case "reconnect":
					c := recvLive[dr.Intn(len(recvLive))]
					rd.closeConn(c, dr.Bool())
					if dr.Bool() {
						time.Sleep(time.Duration(dr.Intn(2000)) * time.Microsecond)
					}
					n := rd.dial(s, c.PeerID, "receiver", "reconnect")
					e.ID, e.Conn, e.OK = c.PeerID, n.Idx, n.DialOK && n.JoinedAt > 0
					if n.DialOK {
						startSender(n, dr.Fork())
					}
				case "duplicate":
					c := recvLive[dr.Intn(len(recvLive))]
					n := rd.dial(s, c.PeerID, "receiver", "duplicate")
					e.ID, e.Conn, e.OK = c.PeerID, n.Idx, n.DialOK && n.JoinedAt > 0
					if n.DialOK {
						startSender(n, dr.Fork())
					}
					// the replaced socket stays open (the server does not close it) and keeps sending
				case "host-duplicate":
					hostDupDone = true
					n := rd.dial(s, hostLive.PeerID, "sender", "host-duplicate")
					e.ID, e.Conn, e.OK = hostLive.PeerID, n.Idx, n.DialOK && n.JoinedAt > 0
					if n.DialOK {
						startSender(n, dr.Fork())
					}
				}
				rd.logEvent(e)
			}
		}()
	}
	dwg.Wait()
	wg.Wait()
	// replaced sockets are closed now (they were sending until here)
	for _, c := range rd.snapshotConns() {
		if c.Zombie.Load() && c.open() {
			rd.closeConn(c, false)
			rd.logEvent(c10Event{Phase: phase, Sess: c.Sess, Kind: "close-replaced", ID: c.PeerID, Conn: c.Idx, T0: vk.MonoNow(), OK: true})
		}
	}
	ph.End = vk.MonoNow()
	rd.mu.Lock()
	rd.phases = append(rd.phases, ph)
	rd.mu.Unlock()
}

// ---------------------------------------------------------------------------
// one round

type c10RoundResult struct {
	Cfg        c10RoundCfg
	OK         bool
	Conns      int
	Sends      map[string]int
	Delivered  map[string]int
	Errors     int
	Events     map[string]int
	Pairs      int
	PairsDone  int
	Covered    int
	Unsettled  int
	ServerDrop int
}

func c10PlanIDs(r *vk.Rng, s, total int) []string {
	ids := []string{fmt.Sprintf("s%d-host", s)}
	for k := 0; k < total; k++ {
		id := fmt.Sprintf("s%d-r%d", s, k)
		switch r.Intn(6) {
		case 0:
			id += " é/?&="
		case 1:
			id = fmt.Sprintf("%x-%d-%d", r.U64()&0xffffff, s, k)
		}
		ids = append(ids, id)
	}
	return ids
}

func c10RunRound(e *Env, cfg c10RoundCfg, agg *c10Agg) {
	// once earlier rounds have produced violations, further rounds add nothing
	// to the verdict; skipping them keeps a failing run short
	if e.R.ViolationCount() > 0 && cfg.Round >= 4 {
		e.R.Count("rounds_skipped_after_violations")
		return
	}
	r := vk.NewRng(cfg.Seed)
	rd := &c10Round{e: e, cfg: cfg, creditTimeout: map[[2]int]bool{}}
	flags := []string{"--ws-msgs-per-sec", "0", "--ws-connects-per-min", "0", "--session-creates-per-min", "0", "--max-receivers-per-sender", "0"}
	srv, plan, err := c10StartServ(e, cfg, flags)
	if err != nil {
		e.R.Inconcl(fmt.Sprintf("round %d: %v", cfg.Round, err))
		return
	}
	rd.srv = srv
	defer srv.Stop()
	for s := 0; s < cfg.Sessions; s++ {
		if !plan.before(rd, s) {
			e.R.Inconcl(fmt.Sprintf("round %d: join-code plan file could not be written", cfg.Round))
			return
		}
		rs, err := vk.CreateSessionRaw(srv.URL, "")
		if err != nil || rs.Status != 201 || rs.JoinCode == "" || rs.SessionID == "" {
			e.R.Inconcl(fmt.Sprintf("round %d: POST /session failed: %v status=%d body=%s", cfg.Round, err, rs.Status, rs.Body))
			return
		}
		total := cfg.PerSession - 1 + cfg.Storms*cfg.ChurnEvents/2 + 2
		rd.sess = append(rd.sess, &c10SessInfo{ID: rs.SessionID, JoinCode: rs.JoinCode, Planned: c10PlanIDs(r, s, total), nextNew: cfg.PerSession})
	}
	// initial membership, connected concurrently
	var wg sync.WaitGroup
	for s := range rd.sess {
		for k := 0; k < cfg.PerSession; k++ {
			s, k := s, k
			wg.Add(1)
			go func() {
				defer wg.Done()
				role := "receiver"
				if k == 0 {
					role = "sender"
				}
				rd.dial(s, rd.sess[s].Planned[k], role, "initial")
			}()
		}
	}
	wg.Wait()
	for _, c := range rd.snapshotConns() {
		if !c.DialOK || c.JoinedAt == 0 {
			e.R.Inconcl(fmt.Sprintf("round %d: initial connection %d (%s) failed: http %d", cfg.Round, c.Idx, c.PeerID, c.Status))
			for _, x := range rd.snapshotConns() {
				rd.closeConn(x, false)
			}
			return
		}
	}
	phase := 0
	rd.runStable(r.Fork(), phase)
	for st := 0; st < cfg.Storms && rd.watchdogs.Load() < c10MaxWatchdogs; st++ {
		phase++
		rd.runChurn(r.Fork(), phase, st == cfg.Storms-1)
		if rd.watchdogs.Load() >= c10MaxWatchdogs {
			break
		}
		phase++
		rd.runStable(r.Fork(), phase)
	}
	alive := srv.Alive()
	if n := srv.LogCount("panic serving"); n > 0 {
		e.R.CountN("diag_server_handler_panics", n)
	}
	for _, c := range rd.snapshotConns() {
		rd.closeConn(c, false)
	}
	srv.Stop()
	for _, n := range rd.inconcl {
		e.R.Inconcl(n)
	}
	if !alive {
		e.R.Violate("server-died", "thruserv exited during the round", cfg, map[string]any{"log_tail": srv.LogTail(3000)})
	}
	c10JudgeAdmission(rd, plan)
	c10Judge(rd, agg)
}

// ---------------------------------------------------------------------------
// offline oracle

type c10Agg struct {
	mu               sync.Mutex
	sends            map[string]int // by kind/target
	hostile          map[string]int // by from/sid class
	delivered        map[string]int
	checked          int
	errorsSeen       int
	errorsOK         int
	mustReport       int
	events           map[string]int
	conns            int
	sessions         int
	rounds           int
	pairs            int
	pairsDone        int
	covered          int
	stableOK         int
	stableUns        int
	serverEnvs       map[string]int
	invalidDelivered int
	selfEcho         int
	serverClosed     int
	maxClients       int
}

func c10NewAgg() *c10Agg {
	return &c10Agg{sends: map[string]int{}, hostile: map[string]int{}, delivered: map[string]int{}, events: map[string]int{}, serverEnvs: map[string]int{}}
}

type c10NotFound struct {
	T  time.Duration
	To string
}

func c10Judge(rd *c10Round, agg *c10Agg) {
	e := rd.e
	conns := rd.snapshotConns()
	byG := map[uint64]*c10Send{}
	for _, c := range conns {
		for i := range c.sends {
			byG[c.sends[i].G] = &c.sends[i]
		}
	}
	phaseKind := func(p int) string {
		if p < len(rd.phases) {
			return rd.phases[p].Kind
		}
		return "?"
	}
	caseOf := func(rc *c10Conn, s *c10Send, rec *vk.WSRecv) map[string]any {
		m := map[string]any{"round": rd.cfg, "recipient": map[string]any{"conn": rc.Idx, "session": rc.Sess, "peer_id": rc.PeerID, "how": rc.How}}
		if s != nil {
			a := conns[s.A]
			m["send"] = s
			m["author"] = map[string]any{"conn": a.Idx, "session": a.Sess, "peer_id": a.PeerID, "how": a.How, "zombie": a.Zombie.Load()}
		}
		if rec != nil {
			m["received"] = map[string]any{"t_ns": rec.T, "raw": string(rec.Raw)}
		}
		return m
	}
	local := c10NewAgg()
	received := make([]map[uint64]bool, len(conns))
	notFound := make([][]c10NotFound, len(conns))

	for _, rc := range conns {
		if rc.ws == nil || !rc.DialOK {
			continue
		}
		seen := map[uint64]bool{}
		received[rc.Idx] = seen
		lastN := map[int]int{}
		log := rc.ws.Log()
		for i := range log {
			rec := &log[i]
			if rec.Kind != websocket.TextMessage || rec.BadJSON {
				e.R.Violate("unattributable-frame", "a client received a frame that is not a JSON envelope", caseOf(rc, nil, rec), nil)
				continue
			}
			env := rec.Env
			var p c10Payload
			isOurs := len(env.Payload) > 0 && json.Unmarshal(env.Payload, &p) == nil && p.VF == "c10"
			if !isOurs {
				if env.From != "server" {
					e.R.Violate("unattributable-envelope", "a client received an envelope that neither the server nor any harness client authored", caseOf(rc, nil, rec), nil)
					continue
				}
				local.serverEnvs[env.Type]++
				if env.Type == protocol.TypeError {
					var pe protocol.Error
					_ = env.DecodePayload(&pe)
					if pe.Code == "peer_not_found" {
						to := strings.TrimPrefix(pe.Message, "target peer not found: ")
						notFound[rc.Idx] = append(notFound[rc.Idx], c10NotFound{T: rec.T, To: to})
					}
				}
				continue
			}
			s := byG[p.G]
			if s == nil {
				e.R.Violate("unattributable-envelope", "received payload carries a global id nobody sent", caseOf(rc, nil, rec), nil)
				continue
			}
			a := conns[s.A]
			local.checked++
			relation := s.Target
			opk := s.Kind
			local.delivered[opk+"/"+relation+"/"+phaseKind(s.Phase)]++
			e.R.Distinct(fmt.Sprintf("%s|%s|from:%s|sid:%s|%s", opk, relation, s.FromClass, s.SidClass, phaseKind(s.Phase)))
			if !s.Routable {
				local.invalidDelivered++ // malformed / incomplete / binary input was forwarded: not forbidden by the property, still checked below
			}
			// 1. author connected to the recipient's session
			if a.Sess != rc.Sess {
				e.R.Violate("isolation:cross-session:"+opk+":"+relation,
					fmt.Sprintf("a %s message (%s) authored in session %d was delivered to a peer of session %d", opk, relation, a.Sess, rc.Sess), caseOf(rc, s, rec), nil)
				continue
			}
			// 2. from = the id the author connected with
			if env.From != a.PeerID {
				e.R.Violate("true-sender:from-class:"+s.FromClass,
					fmt.Sprintf("recipient saw from=%q but the author connected as %q (author wrote from-class %s)", env.From, a.PeerID, s.FromClass), caseOf(rc, s, rec), nil)
			}
			// 3. session_id is the session
			if env.SessionID != rd.sess[rc.Sess].ID {
				cls := "spoofed"
				if s.SidClass == "omitted" || s.SidClass == "honest" {
					cls = s.SidClass
				}
				e.R.Violate("session-id-field:"+cls,
					fmt.Sprintf("recipient saw session_id=%q in session %q (author wrote sid-class %s)", env.SessionID, rd.sess[rc.Sess].ID, s.SidClass), caseOf(rc, s, rec), nil)
			}
			// 4. addressing
			if s.To != "" {
				if rc.PeerID != s.To {
					e.R.Violate("addressed:wrong-recipient:"+relation,
						fmt.Sprintf("message addressed to %q was delivered to %q", s.To, rc.PeerID), caseOf(rc, s, rec), nil)
				}
				if env.To != s.To {
					e.R.Violate("addressed:to-field-altered", fmt.Sprintf("to=%q on the wire, %q at the recipient", s.To, env.To), caseOf(rc, s, rec), nil)
				}
			} else {
				if env.To != "" {
					e.R.Violate("broadcast:to-field-set", fmt.Sprintf("broadcast arrived with to=%q", env.To), caseOf(rc, s, rec), nil)
				}
				if rc == a {
					local.selfEcho++
				}
			}
			// 5. no duplicate; 6. per (author -> recipient) order
			if seen[p.G] {
				e.R.Violate("duplicate:"+opk, "the same message was delivered twice to one connection", caseOf(rc, s, rec), nil)
			} else if p.N <= lastN[s.A] {
				e.R.Violate("reorder:"+opk, fmt.Sprintf("message n=%d of connection %d arrived after n=%d", p.N, s.A, lastN[s.A]), caseOf(rc, s, rec), nil)
			} else {
				lastN[s.A] = p.N
			}
			seen[p.G] = true
			// 7. content
			if p != s.Pay || (s.Routable && env.Type != s.Type) {
				e.R.Violate("content-altered:"+opk, "payload or type differs from what the author sent", caseOf(rc, s, rec), nil)
			}
			// 8. causality (sanity of the harness clocks)
			if rec.T < s.T0 {
				e.R.Violate("harness:clock", "message received before it was sent", caseOf(rc, s, rec), nil)
			}
		}
	}

	// peer_not_found: author only, and only for ids not connected during the send
	routable := func(sess int, id string, t0, t1 time.Duration) bool {
		for _, c := range conns {
			if c.Sess != sess || c.PeerID != id || !c.DialOK || c.JoinedAt == 0 || c.JoinedAt > t0 {
				continue
			}
			until := time.Duration(1<<62 - 1)
			if c.CloseStart > 0 && c.CloseStart < until {
				until = c.CloseStart
			}
			if c.ReplacedAt > 0 && c.ReplacedAt < until {
				until = c.ReplacedAt
			}
			if re := c.ws.ReadEndAt(); re > 0 && (c.CloseStart == 0 || re < c.CloseStart) {
				continue // ended by the server at a time the client cannot know (unlink precedes the close by up to 1 s): no claim
			}
			if until >= t1 {
				return true
			}
		}
		return false
	}
	finalFence := map[int]bool{}
	if n := len(rd.phases); n > 0 && rd.phases[n-1].Kind == "stable" {
		for _, ms := range rd.phases[n-1].Members {
			for _, ci := range ms {
				c := conns[ci]
				for i := len(c.sends) - 1; i >= 0; i-- {
					if c.sends[i].Kind == "fence" && c.sends[i].Phase == n-1 {
						finalFence[ci] = received[ci][c.sends[i].G]
						break
					}
				}
			}
		}
	}
	for _, rc := range conns {
		if rc.ws == nil || !rc.DialOK {
			continue
		}
		sendsTo := map[string][]*c10Send{}
		for i := range rc.sends {
			s := &rc.sends[i]
			if s.Routable && s.To != "" {
				sendsTo[s.To] = append(sendsTo[s.To], s)
			}
		}
		errsFor := map[string]int{}
		for _, nf := range notFound[rc.Idx] {
			local.errorsSeen++
			k := errsFor[nf.To]
			errsFor[nf.To]++
			cands := sendsTo[nf.To]
			cs := map[string]any{"round": rd.cfg, "recipient": map[string]any{"conn": rc.Idx, "session": rc.Sess, "peer_id": rc.PeerID}, "error_about": nf.To, "t_ns": nf.T}
			if k >= len(cands) || cands[k].T0 > nf.T {
				e.R.Violate("notfound:unsolicited", fmt.Sprintf("peer_not_found about %q reached a connection that had not addressed that id (error #%d, %d sends)", nf.To, k+1, len(cands)), cs, nil)
				continue
			}
			s := cands[k]
			cs["send"] = s
			e.R.Distinct(fmt.Sprintf("peer_not_found|%s|%s", s.Target, phaseKind(s.Phase)))
			if routable(rc.Sess, nf.To, s.T0, nf.T) {
				var books []map[string]any
				for _, c := range conns {
					if c.Sess == rc.Sess && c.PeerID == nf.To {
						books = append(books, map[string]any{"conn": c.Idx, "how": c.How, "dial_ok": c.DialOK, "dial_start_ns": c.DialStart, "joined_ns": c.JoinedAt,
							"replaced_ns": c.ReplacedAt, "close_start_ns": c.CloseStart, "read_end_ns": c.ws.ReadEndAt(), "zombie": c.Zombie.Load()})
					}
				}
				var lines []string
				for _, l := range strings.Split(rd.srv.LogText(), "\n") {
					if strings.Contains(l, "peer_id="+nf.To+" ") || strings.HasSuffix(l, "peer_id="+nf.To) || strings.Contains(l, "panic") {
						lines = append(lines, l)
					}
				}
				var evs []c10Event
				for _, ev := range rd.events {
					if ev.Sess == rc.Sess {
						evs = append(evs, ev)
					}
				}
				e.R.Violate("notfound:for-connected-peer:"+phaseKind(s.Phase),
					fmt.Sprintf("peer_not_found for %q although a connection with that id was registered in the session before the send started and stayed until the error arrived", nf.To), cs,
					map[string]any{"connections_with_that_id": books, "server_output_lines": lines, "session_events": evs, "phases": rd.phases,
						"all_sends_to_that_id_by_author": sendsTo[nf.To], "errors_about_that_id_before": k})
				continue
			}
			local.errorsOK++
		}
		if finalFence[rc.Idx] {
			// everything this connection addressed to ids that never exist in its session must have been reported
			for to, list := range sendsTo {
				cls := list[0].Target
				if cls != "ghost" && cls != "other-session" {
					continue
				}
				want := 0
				for _, s := range list {
					if !s.WriteErr {
						want++
					}
				}
				local.mustReport += want
				if errsFor[to] < want {
					e.R.Violate("notfound:missing-report:"+cls,
						fmt.Sprintf("%d messages addressed to %q (%s) but only %d peer_not_found reports reached the author before its final fence", want, to, cls, errsFor[to]),
						map[string]any{"round": rd.cfg, "author": map[string]any{"conn": rc.Idx, "session": rc.Sess, "peer_id": rc.PeerID}, "sends": list}, nil)
				}
			}
		}
	}

	// no loss in settled stable phases: FIFO + a later message received => every earlier one is in the log
	for pi, ph := range rd.phases {
		if ph.Kind != "stable" {
			continue
		}
		if !ph.Settled {
			local.stableUns++
			continue
		}
		local.stableOK++
		for _, ms := range ph.Members {
			for _, ai := range ms {
				a := conns[ai]
				exp := map[int][]*c10Send{}
				for i := range a.sends {
					s := &a.sends[i]
					if s.Phase != pi || !s.Stable {
						continue
					}
					for _, d := range s.Dest {
						exp[d] = append(exp[d], s)
					}
				}
				for _, ri := range ms {
					rc := conns[ri]
					list := exp[ri]
					if len(list) == 0 {
						continue
					}
					if rd.creditTimeout[[2]int{pi, ri}] {
						continue
					}
					if re := rc.ws.ReadEndAt(); re > 0 && re < ph.End {
						continue // the recipient's socket ended inside the phase: it did not keep reading
					}
					local.pairs++
					last := -1
					for i, s := range list {
						if received[ri][s.G] {
							last = i
						}
					}
					if last == len(list)-1 {
						local.pairsDone++
					}
					local.covered += last + 1
					for i := 0; i < last; i++ {
						s := list[i]
						if !received[ri][s.G] && !s.WriteErr {
							e.R.Violate("loss:stable-phase:"+s.Kind,
								fmt.Sprintf("stable phase %d: message n=%d (%s) of connection %d never reached connection %d although a later message n=%d did and the recipient kept reading (<= %d in flight)",
									pi, s.N, s.Kind, ai, ri, list[last].N, c10Credits),
								map[string]any{"round": rd.cfg, "lost": s, "later_received": list[last], "recipient": map[string]any{"conn": rc.Idx, "peer_id": rc.PeerID}}, nil)
						}
					}
					e.R.Distinct(fmt.Sprintf("no-loss|phase-kind:stable|after-churn:%v", pi > 0))
				}
			}
		}
	}

	for _, c := range conns {
		for i := range c.sends {
			s := &c.sends[i]
			local.sends[s.Kind+"/"+s.Target+"/"+phaseKind(s.Phase)]++
			if s.FromClass != "omitted" || s.SidClass != "omitted" {
				local.hostile["from:"+s.FromClass+"/sid:"+s.SidClass]++
			}
		}
		if c.DialOK {
			local.conns++
			if re := c.ws.ReadEndAt(); re > 0 && (c.CloseStart == 0 || re < c.CloseStart) {
				local.serverClosed++
			}
		}
	}
	for _, ev := range rd.events {
		k := ev.Kind
		if !ev.OK {
			k += ":failed"
		}
		local.events[k]++
	}

	agg.mu.Lock()
	defer agg.mu.Unlock()
	for k, v := range local.sends {
		agg.sends[k] += v
	}
	for k, v := range local.hostile {
		agg.hostile[k] += v
	}
	for k, v := range local.delivered {
		agg.delivered[k] += v
	}
	for k, v := range local.events {
		agg.events[k] += v
	}
	for k, v := range local.serverEnvs {
		agg.serverEnvs[k] += v
	}
	agg.checked += local.checked
	agg.errorsSeen += local.errorsSeen
	agg.errorsOK += local.errorsOK
	agg.mustReport += local.mustReport
	agg.conns += local.conns
	agg.sessions += len(rd.sess)
	agg.rounds++
	agg.pairs += local.pairs
	agg.pairsDone += local.pairsDone
	agg.covered += local.covered
	agg.stableOK += local.stableOK
	agg.stableUns += local.stableUns
	agg.invalidDelivered += local.invalidDelivered
	agg.selfEcho += local.selfEcho
	agg.serverClosed += local.serverClosed
	maxOpen := 0
	for _, ph := range rd.phases {
		n := 0
		for _, ms := range ph.Members {
			n += len(ms)
		}
		if n > maxOpen {
			maxOpen = n
		}
	}
	if maxOpen > agg.maxClients {
		agg.maxClients = maxOpen
	}
	total := 0
	for _, v := range local.sends {
		total += v
	}
	e.R.EvalN(local.checked) // one evaluation per delivered envelope judged by the oracle
	e.R.Sample(map[string]any{"round": rd.cfg, "connections": local.conns, "messages_sent": total, "envelopes_checked": local.checked,
		"peer_not_found_checked": local.errorsSeen, "churn_events": local.events, "stable_pairs_judged": local.pairs,
		"stable_pairs_with_marker": local.pairsDone, "messages_covered_by_no_loss": local.covered, "phases": len(rd.phases)})
}

func runC10(e *Env) {
	r := vk.NewRng(e.Seed ^ vk.HashStr("c10"+e.Tier))
	e.R.Rule = "one case = a round against the real thruserv (rate limits off): 2-4 sessions, 8-24 concurrent WebSocket connections, stable phases (fixed membership, <=100 in flight per recipient, markers) alternating with churn phases (join, leave, reconnect, duplicate peer id, duplicate host) while every connection sends addressed (same session / self / unknown id / id of another session), broadcast, spoofed from, spoofed session_id, malformed, incomplete and binary frames; an envelope counts when it was delivered and checked against the author's send log; distinct by (operation kind, addressee relation, from class, session_id class, phase kind), plus peer_not_found reports by (addressee relation, phase kind); some rounds create their sessions through forced join-code collisions (admission judged per connection: distinct by collision kind and how the connection joined); control-frame rounds (members send ping / pong frames, stay idle for real seconds, then exchange messages: distinct by the control frames the recipient had sent and the idle class); allowance rounds on servers with the per-connection message budget switched on (defaults 50/s burst 100, 1/s burst 40, 2/s burst 8): every connection writes exactly `burst` text frames in its life (inside its allowance by count), distinct by (limits, how the connection's peer id relates to other connections of the server: live in other sessions / fresh / reconnected in the same session / id of a closed connection of another session, operation kind, from class)"
	rounds := e.Pick(18, 48)
	cfgs := make([]c10RoundCfg, rounds)
	for i := range cfgs {
		c := c10RoundCfg{Round: i, Seed: r.U64()}
		if e.Thorough() {
			// 24 concurrent clients: 4 x 6 or 3 x 8 (no growth beyond the initial membership)
			c.Sessions, c.PerSession, c.StableOps, c.ChurnOps, c.ChurnEvents, c.Storms, c.Growth = 4, 6, 250, 80, 10, 5, 0
			if i%3 == 1 {
				c.Sessions, c.PerSession = 3, 8
			}
		} else {
			// 8, 12 or 16 initial clients, at most one extra receiver per session; every third round 4 x 5 = 20 (+1 each = 24)
			c.Sessions, c.PerSession, c.StableOps, c.ChurnOps, c.ChurnEvents, c.Storms, c.Growth = 2+i%3, 4, 120, 60, 8, 2, 1
			if i%3 == 2 {
				c.PerSession, c.Storms = 5, 3
			}
		}
		// rounds 1, 7, 8, 13, 19, 20, …: sessions created through join-code collisions (c10ctl.go)
		if i%6 == 1 || i%12 == 8 {
			c.Collide = c10CollideKinds[(i/3)%len(c10CollideKinds)]
		}
		cfgs[i] = c
	}
	agg := c10NewAgg()
	// control-frame rounds (ping / pong from clients, then an idle period, then traffic) run next to
	// the ordinary rounds: their idle periods are real seconds
	ctlDone := c10StartCtlRounds(e, r.Fork(), rounds, agg)
	// allowance rounds (c10_allow.go): servers with the per-connection message budget switched on,
	// every connection stays inside its allowance by count
	allowDone := c10StartAllowRounds(e)
	vk.ParallelDo(rounds, e.Pick(4, 6), func(i int) { c10RunRound(e, cfgs[i], agg) })
	ctlDone()
	allowDone()

	sentTotal := 0
	for _, v := range agg.sends {
		sentTotal += v
	}
	e.R.SetExtra("rounds_judged", agg.rounds)
	e.R.SetExtra("sessions", agg.sessions)
	e.R.SetExtra("connections", agg.conns)
	e.R.SetExtra("max_concurrent_clients_in_a_round", agg.maxClients)
	e.R.SetExtra("messages_sent_total", sentTotal)
	e.R.SetExtra("messages_sent_by_kind_target_phase", agg.sends)
	e.R.SetExtra("hostile_header_sends", agg.hostile)
	e.R.SetExtra("envelopes_delivered_and_checked", agg.checked)
	e.R.SetExtra("delivered_by_kind_target_phase", agg.delivered)
	e.R.SetExtra("server_envelopes_seen", agg.serverEnvs)
	e.R.SetExtra("peer_not_found", map[string]int{"seen": agg.errorsSeen, "consistent": agg.errorsOK, "sends_that_had_to_be_reported": agg.mustReport})
	e.R.SetExtra("churn_events", agg.events)
	e.R.SetExtra("no_loss", map[string]int{"stable_phases_settled": agg.stableOK, "stable_phases_unsettled_not_judged": agg.stableUns,
		"author_recipient_pairs_judged": agg.pairs, "pairs_with_final_marker": agg.pairsDone, "messages_covered": agg.covered})
	e.R.SetExtra("diagnostics", map[string]int{"invalid_input_forwarded": agg.invalidDelivered, "broadcast_echo_to_author": agg.selfEcho,
		"connections_ended_by_server": agg.serverClosed})
	keys := make([]string, 0)
	for k := range agg.delivered {
		keys = append(keys, k)
	}
	sort.Strings(keys)

	e.R.Require(agg.rounds >= rounds*2/3, fmt.Sprintf("only %d of %d rounds ran to a verdict", agg.rounds, rounds))
	e.R.Require(agg.checked >= e.Pick(2000, 60000), fmt.Sprintf("only %d envelopes delivered and checked", agg.checked))
	e.R.Require(agg.pairsDone >= e.Pick(30, 300), fmt.Sprintf("only %d author->recipient pairs completed a stable phase with marker", agg.pairsDone))
	e.R.Require(agg.errorsSeen >= e.Pick(100, 2000), fmt.Sprintf("only %d peer_not_found reports seen", agg.errorsSeen))
	churn := 0
	for k, v := range agg.events {
		if !strings.HasSuffix(k, ":failed") {
			churn += v
		}
	}
	e.R.Require(churn >= e.Pick(20, 300), fmt.Sprintf("only %d churn events", churn))
	e.R.Require(agg.events["duplicate"] >= 3, "fewer than 3 duplicate-peer-id reconnects happened")
	e.R.Require(agg.stableOK >= agg.rounds, "fewer settled stable phases than rounds")
	c10CtlRequire(e)
	c10AllowRequire(e)
}
