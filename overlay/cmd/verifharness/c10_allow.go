//go:build verif

package main

// C10, allowance rounds: the real thruserv with its per-connection message
// budget SWITCHED ON (the other rounds of C10 run with --ws-msgs-per-sec 0).
//
// The property excuses a lost message only when the recipient stops reading;
// the documented server limit "--ws-msgs-per-sec / --ws-msgs-burst ... per
// connection" adds one more excuse: traffic beyond the allowance of the
// author's connection. These rounds produce histories in which NO connection
// ever leaves its allowance, decided by counting and never by time: a
// connection writes at most `burst` text frames during its whole life (a token
// bucket that starts full admits the first `burst` frames whatever their
// timing). Every connection uses its allowance up to the last frame. What
// varies is who else is, or was, on the server:
//
//   id-live-in-other-sessions      the same peer ids (p0, p1, p2) are connected to three
//                                  sessions at once and all of them spend their allowance
//                                  concurrently (peer ids mean something only inside a session)
//   fresh-id                       an id nobody else on this server ever used (control; all
//                                  connections share the loopback IP and the session's host)
//   id-reconnected-same-session    a member spends its allowance, leaves (peer_left seen by
//                                  the host), connects again under the same id to the same
//                                  session and spends the allowance of the new connection
//   id-of-closed-conn-other-session a member of session 1 spends its allowance and leaves; a
//                                  session created afterwards has a member with that id
//
// Flow (all waits are for logical events): wave 1 = everybody sends its
// operations (addressed round-robin to the other members, one in ten
// broadcast, one in eight with a spoofed `from`), then a fence addressed to
// itself: its return shows that the server's reader of this connection has
// routed everything before it. When every author of the round is through,
// every member sends a barrier to itself: whatever the authors' handlers put
// into this member's channel precedes the barrier, so "barrier read" means
// "everything routed to me has been read". Wave 2 = leavers leave, the
// reconnecting / later connections join and do the same while the members that
// stayed only read (and spend their last frame on the barrier).
//
// Oracle: a connection that stayed inside its allowance is not ended by the
// server; every envelope an author with a returned fence sent is, at every
// destination with a returned barrier, in the log once, in the author's order,
// with the true sender, the session's id and the right addressee; nothing
// arrives at a connection of another session or at a non-addressee. A fence
// that does not return on an open socket is decided by the bounded-progress
// rule (no frame in the second half of the watchdog + a canary connection that
// joins the session afterwards gets its own fence back and reaches the stuck
// connection); otherwise inconclusive.

import (
	"encoding/json"
	"fmt"
	"path/filepath"
	"sort"
	"sync"
	"sync/atomic"
	"time"

	vk "github.com/sheerbytes/sheerbytes/internal/verifkit"
	"github.com/sheerbytes/sheerbytes/pkg/protocol"
)

const (
	c10aWatchdog = 16 * time.Second // own fence / barrier; never a verdict by itself
	c10aJoinWait = 20 * time.Second
)

var c10aClasses = []string{"id-live-in-other-sessions", "fresh-id", "id-reconnected-same-session", "id-of-closed-conn-other-session"}

type c10aLimits struct {
	Name  string
	Flags []string
	Burst int
}

// the documented defaults (50 msg/s, burst 100) and two small allowances whose refill (1-2 tokens per
// second) cannot hide a budget that is shared between connections
var c10aLimitClasses = []c10aLimits{
	{"defaults-50-per-s-burst-100", nil, 100},
	{"1-per-s-burst-40", []string{"--ws-msgs-per-sec", "1", "--ws-msgs-burst", "40"}, 40},
	{"2-per-s-burst-8", []string{"--ws-msgs-per-sec", "2", "--ws-msgs-burst", "8"}, 8},
}

type c10aCfg struct {
	Round  int      `json:"round"`
	Seed   uint64   `json:"seed"`
	Limits string   `json:"server_message_limits"`
	Flags  []string `json:"server_flags"`
	Burst  int      `json:"text_frames_per_connection"`
}

type c10aPay struct {
	VF string `json:"vf"`
	R  int    `json:"r"`
	A  int    `json:"a"`
	N  int    `json:"n"`
	K  string `json:"k"`
}

type c10aSend struct {
	N        int    `json:"n"`
	Kind     string `json:"kind"` // addressed | broadcast | fence | barrier | canary
	To       string `json:"to"`
	FromWire string `json:"from_wire,omitempty"`
	Wave     int    `json:"wave"`
	Dest     []int  `json:"dest"`
	WriteErr bool   `json:"write_err,omitempty"`
}

type c10aConn struct {
	Idx    int    `json:"conn"`
	Sess   int    `json:"session"`
	PeerID string `json:"peer_id"`
	Role   string `json:"role"`
	Class  string `json:"id_class"`
	Budget int    `json:"budget"`
	ws     *vk.WSClient

	closed   atomic.Bool // the harness began to close it
	mu       sync.Mutex
	sent     int
	sends    []c10aSend
	writeErr bool
	fence    map[int]string // wave -> ok | ended | stuck | stuck-refuted
	barrier  map[int]string
	endedBy  string // "" | "server" : read ended although the harness had not closed it
}

type c10aSess struct {
	ID, JoinCode string
}

type c10aRound struct {
	e   *Env
	cfg c10aCfg
	srv *vk.Serv

	mu      sync.Mutex
	sess    []c10aSess
	conns   []*c10aConn
	inconcl []string
	canary  int
}

func (rd *c10aRound) note(s string) {
	rd.mu.Lock()
	rd.inconcl = append(rd.inconcl, fmt.Sprintf("allowance round %d (%s): %s", rd.cfg.Round, rd.cfg.Limits, s))
	rd.mu.Unlock()
}

func (rd *c10aRound) snapshot() []*c10aConn {
	rd.mu.Lock()
	defer rd.mu.Unlock()
	return append([]*c10aConn(nil), rd.conns...)
}

func (rd *c10aRound) newSession() bool {
	rs, err := vk.CreateSessionRaw(rd.srv.URL, "")
	if err != nil || rs.Status != 201 || rs.JoinCode == "" || rs.SessionID == "" {
		rd.note(fmt.Sprintf("POST /session failed: %v status=%d body=%s", err, rs.Status, rs.Body))
		return false
	}
	rd.mu.Lock()
	rd.sess = append(rd.sess, c10aSess{ID: rs.SessionID, JoinCode: rs.JoinCode})
	rd.mu.Unlock()
	return true
}

func (rd *c10aRound) dial(sess int, id, role, class string, budget int) *c10aConn {
	c := &c10aConn{Sess: sess, PeerID: id, Role: role, Class: class, Budget: budget, fence: map[int]string{}, barrier: map[int]string{}}
	rd.mu.Lock()
	c.Idx = len(rd.conns)
	rd.conns = append(rd.conns, c)
	jc := rd.sess[sess].JoinCode
	rd.mu.Unlock()
	ws, err := vk.DialWS(vk.WSURL(rd.srv.URL, jc, id, role), 15*time.Second, nil)
	c.ws = ws
	if err != nil {
		c.closed.Store(true)
		rd.note(fmt.Sprintf("connection %d (%s, session %d) was not admitted: http %d %v", c.Idx, id, sess, ws.HTTPStatus, err))
		return nil
	}
	if _, ok := ws.WaitType(protocol.TypePeerList, c10aJoinWait); !ok {
		rd.note(fmt.Sprintf("connection %d (%s, session %d) got no peer_list", c.Idx, id, sess))
		return nil
	}
	return c
}

// members: the connections of a session the harness has not closed
func (rd *c10aRound) members(sess int) []*c10aConn {
	var out []*c10aConn
	for _, c := range rd.snapshot() {
		if c.Sess == sess && c.ws != nil && !c.closed.Load() && c.Class != "canary" {
			out = append(out, c)
		}
	}
	return out
}

var c10aTypes = []string{"offer", "answer", "ice_candidate", "manifest_offer", "x-custom"}

// send writes one text frame; the harness never writes more than Budget frames on a connection.
func (rd *c10aRound) send(c *c10aConn, kind, to, fromWire string, wave int, dest []*c10aConn) bool {
	c.mu.Lock()
	defer c.mu.Unlock()
	if c.writeErr {
		return false
	}
	if c.sent >= c.Budget {
		panic(fmt.Sprintf("c10 allowance round: harness bug, connection %d would exceed its budget of %d frames", c.Idx, c.Budget))
	}
	n := len(c.sends)
	pay, _ := json.Marshal(c10aPay{VF: "c10a", R: rd.cfg.Round, A: c.Idx, N: n, K: kind})
	env := map[string]any{"v": protocol.ProtocolVersion, "type": c10aTypes[(c.Idx+n)%len(c10aTypes)], "msg_id": fmt.Sprintf("a%d-%d-%d", rd.cfg.Round, c.Idx, n),
		"payload": json.RawMessage(pay)}
	if to != "" {
		env["to"] = to
	}
	if fromWire != "" {
		env["from"] = fromWire
	}
	b, _ := json.Marshal(env)
	s := c10aSend{N: n, Kind: kind, To: to, FromWire: fromWire, Wave: wave}
	for _, d := range dest {
		s.Dest = append(s.Dest, d.Idx)
	}
	c.sent++
	if err := c.ws.SendText(b); err != nil {
		s.WriteErr = true
		c.writeErr = true
	}
	c.sends = append(c.sends, s)
	return !s.WriteErr
}

func c10aIsOwn(round, a, n int) func(vk.WSRecv) bool {
	return func(r vk.WSRecv) bool {
		if r.BadJSON || len(r.Env.Payload) == 0 {
			return false
		}
		var p c10aPay
		return json.Unmarshal(r.Env.Payload, &p) == nil && p.VF == "c10a" && p.R == round && p.A == a && p.N == n
	}
}

// sendToSelfAndWait sends a fence / barrier addressed to the connection itself and waits for it.
// ok: it came back. ended: the socket ended although the harness had not closed it (or the write failed).
// stuck: watchdog; quiet = no frame at all arrived during the second half of the watchdog.
func (rd *c10aRound) sendToSelfAndWait(c *c10aConn, kind string, wave int) (status string, quiet bool) {
	if !rd.send(c, kind, c.PeerID, "", wave, []*c10aConn{c}) {
		return "ended", false
	}
	c.mu.Lock()
	n := len(c.sends) - 1
	c.mu.Unlock()
	pred := c10aIsOwn(rd.cfg.Round, c.Idx, n)
	if _, ok := c.ws.WaitFor(pred, c10aWatchdog/2); ok {
		return "ok", false
	}
	if ended, _ := c.ws.ReadEnded(); ended {
		return "ended", false
	}
	l1 := c.ws.Len()
	if _, ok := c.ws.WaitFor(pred, c10aWatchdog/2); ok {
		return "ok", false
	}
	if ended, _ := c.ws.ReadEnded(); ended {
		return "ended", false
	}
	return "stuck", c.ws.Len() == l1
}

// canaryRefutes: bounded-progress reference for a connection whose own fence did not come back: a fresh
// connection joins the same session now, gets its own fence back and reaches the stuck connection.
func (rd *c10aRound) canaryRefutes(c *c10aConn, n int) bool {
	rd.mu.Lock()
	rd.canary++
	id := fmt.Sprintf("canary%d", rd.canary)
	rd.mu.Unlock()
	k := rd.dial(c.Sess, id, "receiver", "canary", 2)
	if k == nil {
		return false
	}
	defer func() { k.closed.Store(true); k.ws.Close(false) }()
	if !rd.send(k, "canary", c.PeerID, "", 0, []*c10aConn{c}) {
		return false
	}
	if st, _ := rd.sendToSelfAndWait(k, "fence", 0); st != "ok" {
		return false
	}
	if _, ok := c.ws.WaitFor(c10aIsOwn(rd.cfg.Round, k.Idx, 0), c10aWatchdog); !ok {
		return false
	}
	// the stuck connection's socket works in the server-to-client direction and the server serves the
	// session; its own fence, written before the canary existed, is still missing
	_, late := c.ws.WaitFor(c10aIsOwn(rd.cfg.Round, c.Idx, n), 10*time.Millisecond)
	return !late
}

func (rd *c10aRound) selfStep(c *c10aConn, kind string, wave int, into map[int]string) {
	st, quiet := rd.sendToSelfAndWait(c, kind, wave)
	if st == "stuck" {
		c.mu.Lock()
		n := len(c.sends) - 1
		c.mu.Unlock()
		if quiet && rd.canaryRefutes(c, n) {
			st = "stuck-refuted"
		} else {
			rd.note(fmt.Sprintf("%s of connection %d (%s) did not return within the watchdog and the bounded-progress references did not apply", kind, c.Idx, c.Class))
		}
	}
	if st == "ended" && !c.closed.Load() {
		c.mu.Lock()
		c.endedBy = "server"
		c.mu.Unlock()
	}
	c.mu.Lock()
	into[wave] = st
	c.mu.Unlock()
}

// runWave: authors send ops(c) operations and a fence; then every open member of every session sends a barrier.
func (rd *c10aRound) runWave(wave int, authors []*c10aConn, ops func(*c10aConn) int) {
	var wg sync.WaitGroup
	for _, c := range authors {
		c := c
		others := []*c10aConn{}
		for _, m := range rd.members(c.Sess) {
			if m != c {
				others = append(others, m)
			}
		}
		wg.Add(1)
		go func() {
			defer wg.Done()
			r := vk.NewRng(rd.cfg.Seed ^ uint64(c.Idx+1)*0x9e3779b97f4a7c15 ^ uint64(wave))
			for i, k := 0, ops(c); i < k && len(others) > 0; i++ {
				from := ""
				if r.Intn(8) == 0 {
					from = others[r.Intn(len(others))].PeerID // somebody else's id, also live in other sessions
				}
				if r.Intn(10) == 0 {
					if !rd.send(c, "broadcast", "", from, wave, others) {
						break
					}
					continue
				}
				t := others[(i+c.Idx)%len(others)]
				if !rd.send(c, "addressed", t.PeerID, from, wave, []*c10aConn{t}) {
					break
				}
			}
			rd.selfStep(c, "fence", wave, c.fence)
		}()
	}
	wg.Wait()
	for s := range rd.sess {
		for _, c := range rd.members(s) {
			c := c
			c.mu.Lock()
			dead := c.writeErr || c.endedBy != ""
			c.mu.Unlock()
			if dead {
				continue
			}
			wg.Add(1)
			go func() {
				defer wg.Done()
				rd.selfStep(c, "barrier", wave, c.barrier)
			}()
		}
	}
	wg.Wait()
}

// leave: TCP-graceful close, then the host of the session must have seen the peer_left.
func (rd *c10aRound) leave(c *c10aConn, host *c10aConn) bool {
	c.closed.Store(true)
	c.ws.CloseDrained(true, 10*time.Second)
	_, ok := host.ws.WaitFor(func(r vk.WSRecv) bool {
		if r.BadJSON || r.Env.Type != protocol.TypePeerLeft || r.Env.From != "server" {
			return false
		}
		var pl protocol.PeerLeft
		return r.Env.DecodePayload(&pl) == nil && pl.PeerID == c.PeerID
	}, c10aWatchdog)
	if !ok {
		rd.note(fmt.Sprintf("no peer_left for connection %d (%s) reached the host of session %d", c.Idx, c.PeerID, c.Sess))
	}
	return ok
}

func c10RunAllowRound(e *Env, cfg c10aCfg) {
	if e.R.ViolationCount() > 0 && cfg.Round%100 >= 3 {
		e.R.Count("allow_rounds_skipped_after_violations")
		return
	}
	rd := &c10aRound{e: e, cfg: cfg}
	flags := append([]string{"--ws-connects-per-min", "0", "--session-creates-per-min", "0", "--max-receivers-per-sender", "0"}, cfg.Flags...)
	srv, err := vk.StartServ(filepath.Join(e.BinDir, "thruserv"), flags, filepath.Join(e.Work, fmt.Sprintf("c10-allow-serv-%03d.log", cfg.Round)))
	if err != nil {
		e.R.Inconcl(fmt.Sprintf("allowance round %d: %v", cfg.Round, err))
		return
	}
	rd.srv = srv
	defer srv.Stop()
	finish := func(judge bool) {
		alive := srv.Alive()
		for _, c := range rd.snapshot() {
			// what the server did to a connection is read off before the harness closes anything
			if c.ws != nil && !c.closed.Load() {
				if ended, _ := c.ws.ReadEnded(); ended {
					c.mu.Lock()
					c.endedBy = "server"
					c.mu.Unlock()
				}
			}
		}
		for _, c := range rd.snapshot() {
			if c.ws != nil && !c.closed.Swap(true) {
				c.ws.Close(false)
			}
		}
		srv.Stop()
		for _, n := range rd.inconcl {
			e.R.Inconcl(n)
		}
		if !alive {
			e.R.Violate("server-died", "thruserv exited during an allowance round", cfg, map[string]any{"log_tail": srv.LogTail(3000)})
		}
		c10aJudge(rd, judge)
	}

	B := cfg.Burst
	// ---- wave 1: three sessions, the ids p0 p1 p2 in each of them + two ids of their own
	for s := 0; s < 3; s++ {
		if !rd.newSession() {
			finish(false)
			return
		}
	}
	type plan struct {
		sess            int
		id, role, class string
	}
	var plans []plan
	for s := 0; s < 3; s++ {
		plans = append(plans, plan{s, "p0", "sender", c10aClasses[0]}, plan{s, "p1", "receiver", c10aClasses[0]}, plan{s, "p2", "receiver", c10aClasses[0]},
			plan{s, fmt.Sprintf("u%da", s), "receiver", c10aClasses[1]}, plan{s, fmt.Sprintf("u%db", s), "receiver", c10aClasses[1]})
	}
	dialAll := func(pl []plan) ([]*c10aConn, bool) {
		out := make([]*c10aConn, len(pl))
		var wg sync.WaitGroup
		// hosts first: a receiver cannot join a session without its sender on every configuration
		for pass := 0; pass < 2; pass++ {
			for i, p := range pl {
				if (p.role == "sender") != (pass == 0) {
					continue
				}
				i, p := i, p
				wg.Add(1)
				go func() { defer wg.Done(); out[i] = rd.dial(p.sess, p.id, p.role, p.class, B) }()
			}
			wg.Wait()
		}
		for _, c := range out {
			if c == nil {
				return out, false
			}
		}
		return out, true
	}
	w1, ok := dialAll(plans)
	if !ok {
		finish(false)
		return
	}
	byKey := map[string]*c10aConn{}
	for _, c := range w1 {
		byKey[fmt.Sprintf("%d/%s", c.Sess, c.PeerID)] = c
	}
	leavers := []*c10aConn{byKey["0/u0a"], byKey["1/u1a"], byKey["1/u1b"]}
	isLeaver := map[*c10aConn]bool{}
	for _, c := range leavers {
		isLeaver[c] = true
	}
	rd.runWave(1, w1, func(c *c10aConn) int {
		if isLeaver[c] {
			return B - 2 // + fence + barrier = the whole allowance
		}
		return B - 3 // one frame is kept for the barrier of wave 2
	})
	anyDead := func() bool {
		for _, c := range rd.snapshot() {
			c.mu.Lock()
			d := c.endedBy != "" || c.writeErr
			c.mu.Unlock()
			if d {
				return true
			}
		}
		return false
	}
	if anyDead() || len(rd.inconcl) > 0 {
		finish(true) // wave 1 is judged; the history of wave 2 needs everybody alive
		return
	}
	// ---- wave 2: leavers leave; one comes back to its session, the ids of the two others appear in a new session
	for _, c := range leavers {
		if !rd.leave(c, byKey[fmt.Sprintf("%d/p0", c.Sess)]) {
			finish(true)
			return
		}
	}
	if !rd.newSession() {
		finish(true)
		return
	}
	w2, ok := dialAll([]plan{
		{0, "u0a", "receiver", c10aClasses[2]},
		{3, "p0", "sender", c10aClasses[0]},
		{3, "u1a", "receiver", c10aClasses[3]},
		{3, "u1b", "receiver", c10aClasses[3]},
		{3, "u3a", "receiver", c10aClasses[1]},
	})
	if !ok {
		finish(true)
		return
	}
	rd.runWave(2, w2, func(c *c10aConn) int { return B - 2 })
	finish(true)
}

// ---------------------------------------------------------------------------
// oracle

func c10aJudge(rd *c10aRound, judge bool) {
	e, cfg := rd.e, rd.cfg
	if !judge {
		return
	}
	conns := rd.snapshot()
	key := func(class, what string) string { return "allowance:" + cfg.Limits + ":" + class + ":" + what }
	spec := func(c *c10aConn) map[string]any {
		return map[string]any{"round": cfg, "connection": c, "frames_written": c.sent, "fence_by_wave": c.fence, "barrier_by_wave": c.barrier}
	}
	e.R.Eval()
	e.R.Count("allow_rounds_judged")
	e.R.Count("allow_rounds_" + cfg.Limits)

	// 1. a connection inside its allowance is not hung up on, and its own messages are processed
	for _, c := range conns {
		if c.Class == "canary" {
			continue
		}
		if c.sent > c.Budget {
			e.R.Inconcl(fmt.Sprintf("allowance round %d: harness wrote %d frames on connection %d (budget %d)", cfg.Round, c.sent, c.Idx, c.Budget))
			return
		}
		if c.endedBy == "server" || c.writeErr {
			e.R.Violate(key(c.Class, "connection-ended-by-server-inside-its-allowance"),
				fmt.Sprintf("the server ended a connection that had written %d text frames in total (allowance of a connection: burst %d)", c.sent, c.Budget),
				spec(c), map[string]any{"server_log_tail": rd.srv.LogTail(2500)})
		}
		for _, m := range []map[int]string{c.fence, c.barrier} {
			for w, st := range m {
				if st == "stuck-refuted" {
					e.R.Violate(key(c.Class, "own-message-never-processed"),
						fmt.Sprintf("wave %d: a message addressed to the author itself (frame %d of an allowance of %d) did not come back on an open socket; no frame for half the watchdog; a canary connection that joined the session afterwards got its own fence back and reached this connection", w, c.sent, c.Budget),
						spec(c), map[string]any{"server_log_tail": rd.srv.LogTail(2500)})
				}
			}
		}
		if c.sent == c.Budget && c.endedBy == "" && !c.writeErr {
			e.R.Count("allow_connections_spent_whole_allowance:" + c.Class)
			e.R.Count("allow_connections_spent_whole_allowance@" + cfg.Limits + ":" + c.Class)
		}
	}

	// 2. the receive logs
	type an struct{ a, n int }
	got := make([]map[an]bool, len(conns))
	for _, rc := range conns {
		got[rc.Idx] = map[an]bool{}
		if rc.ws == nil || rc.Class == "canary" {
			continue
		}
		last := map[int]int{}
		for _, r := range rc.ws.Log() {
			if r.BadJSON || len(r.Env.Payload) == 0 {
				continue
			}
			if r.Env.Type == protocol.TypeError && r.Env.From == "server" {
				e.R.Count("allow_diag_error_envelopes_from_server")
				continue
			}
			var p c10aPay
			if json.Unmarshal(r.Env.Payload, &p) != nil || p.VF != "c10a" || p.R != cfg.Round || p.A < 0 || p.A >= len(conns) {
				continue
			}
			au := conns[p.A]
			if au.Class == "canary" {
				continue
			}
			det := map[string]any{"recipient": rc, "author": au, "envelope": r.Env, "frame_index": r.Idx}
			if au.Sess != rc.Sess {
				e.R.Violate(key(au.Class, "delivered-to-another-session"), "an envelope reached a connection of another session", cfg, det)
				continue
			}
			if p.N >= len(au.sends) {
				continue
			}
			s := au.sends[p.N]
			inDest := false
			for _, d := range s.Dest {
				inDest = inDest || d == rc.Idx
			}
			switch {
			case !inDest:
				e.R.Violate(key(au.Class, s.Kind+":delivered-to-non-addressee"), "an envelope reached a connection it was not meant for", cfg, det)
			case r.Env.From != au.PeerID:
				e.R.Violate(key(au.Class, s.Kind+":wrong-from"), "from is not the id the author connected with", cfg, det)
			case r.Env.SessionID != rd.sess[rc.Sess].ID:
				e.R.Violate(key(au.Class, s.Kind+":wrong-session-id"), "session_id is not the session of the connection", cfg, det)
			case s.To != "" && r.Env.To != rc.PeerID:
				e.R.Violate(key(au.Class, s.Kind+":wrong-to"), "to is not the recipient's id", cfg, det)
			case got[rc.Idx][an{p.A, p.N}]:
				e.R.Violate(key(au.Class, s.Kind+":duplicate"), "the same envelope was delivered twice", cfg, det)
			default:
				if l, seen := last[p.A]; seen && p.N < l {
					e.R.Violate(key(au.Class, s.Kind+":reordered"), "envelopes of one author arrived out of the author's order", cfg, det)
				}
				e.R.Count("allow_envelopes_delivered_and_checked")
				spoof := "honest-from"
				if s.FromWire != "" {
					spoof = "spoofed-from"
				}
				e.R.Distinct("allowance:" + cfg.Limits + ":" + au.Class + ":" + s.Kind + ":" + spoof)
			}
			got[rc.Idx][an{p.A, p.N}] = true
			if p.N > last[p.A] {
				last[p.A] = p.N
			}
		}
	}

	// 3. no loss: author's fence returned (everything before it was routed), recipient's barrier returned
	// afterwards (everything routed to it has been read)
	for _, au := range conns {
		if au.Class == "canary" {
			continue
		}
		for _, s := range au.sends {
			if s.WriteErr || au.fence[s.Wave] != "ok" || s.Wave == 0 {
				continue
			}
			if s.Kind == "barrier" {
				continue // judged by its own return
			}
			for _, d := range s.Dest {
				rc := conns[d]
				if rc.barrier[s.Wave] != "ok" {
					continue
				}
				e.R.Count("allow_messages_covered_by_no_loss")
				if !got[d][an{au.Idx, s.N}] {
					e.R.Violate(key(au.Class, s.Kind+":lost"),
						fmt.Sprintf("frame %d of %d of a connection inside its allowance never reached a destination that kept reading (author's later fence returned, recipient's later barrier returned)", s.N+1, au.Budget),
						cfg, map[string]any{"author": au, "send": s, "recipient": rc, "server_log_tail": rd.srv.LogTail(2500)})
				}
			}
		}
	}
	e.R.Sample(map[string]any{"allowance_round": cfg, "connections": len(conns), "sessions": len(rd.sess)})
}

// ---------------------------------------------------------------------------
// plan + minimum observations

func c10StartAllowRounds(e *Env) func() {
	r := vk.NewRng(e.Seed ^ vk.HashStr("c10allow"+e.Tier))
	n := e.Pick(4, 12)
	var wg sync.WaitGroup
	sem := make(chan struct{}, e.Pick(2, 3))
	for i := 0; i < n; i++ {
		l := c10aLimitClasses[i%len(c10aLimitClasses)]
		cfg := c10aCfg{Round: 900 + i, Seed: r.U64(), Limits: l.Name, Flags: l.Flags, Burst: l.Burst}
		wg.Add(1)
		go func() {
			defer wg.Done()
			sem <- struct{}{}
			defer func() { <-sem }()
			c10RunAllowRound(e, cfg)
		}()
	}
	return wg.Wait
}

func c10AllowRequire(e *Env) {
	counters := map[string]int{}
	names := []string{"allow_rounds_judged", "allow_envelopes_delivered_and_checked", "allow_messages_covered_by_no_loss",
		"allow_diag_error_envelopes_from_server", "allow_rounds_skipped_after_violations"}
	for _, l := range c10aLimitClasses {
		names = append(names, "allow_rounds_"+l.Name)
		for _, c := range c10aClasses {
			names = append(names, "allow_connections_spent_whole_allowance@"+l.Name+":"+c)
		}
	}
	for _, c := range c10aClasses {
		names = append(names, "allow_connections_spent_whole_allowance:"+c)
	}
	sort.Strings(names)
	for _, k := range names {
		counters[k] = e.R.Counter(k)
	}
	e.R.SetExtra("allowance_rounds_message_limits_on", counters)
	if e.R.ViolationCount() > 0 {
		return // the minimums are for clean runs
	}
	e.R.Require(counters["allow_rounds_judged"] >= e.Pick(3, 9), fmt.Sprintf("only %d allowance rounds (message limits on) were judged", counters["allow_rounds_judged"]))
	for _, l := range c10aLimitClasses {
		for _, c := range c10aClasses {
			k := "allow_connections_spent_whole_allowance@" + l.Name + ":" + c
			e.R.Require(counters[k] >= 1, "no connection of class "+c+" spent its whole allowance unharmed on a server with limits "+l.Name)
		}
	}
	e.R.Require(counters["allow_messages_covered_by_no_loss"] >= e.Pick(1500, 5000),
		fmt.Sprintf("only %d messages of connections inside their allowance were covered by the no-loss oracle", counters["allow_messages_covered_by_no_loss"]))
}
