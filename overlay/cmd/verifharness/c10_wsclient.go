//go:build verif

package main

// C10, stage "wsclient" – send-then-leave histories through the real client
// wrapper internal/wsclient (and through raw sockets) against the real thruserv.
//
// The main stage (c10.go) judges no-loss only between members of a fixed
// membership and drives raw sockets only. Here the authors are transient: a
// peer connects (real wsclient.Dial + ReadLoop, as internal/app does, or a raw
// socket), sends a burst of 1..96 envelopes (every Send / write returned nil)
// and leaves at once (wsclient.Conn.Close, optionally reconnecting under the
// same id; raw sockets leave TCP-gracefully), while the recipients – members
// that stay for the whole round and never stop reading, some of them reading
// through the real wsclient.ReadLoop – log what arrives. Verdict (offline, after
// every author handler has exited per the server output and a barrier has
// flushed every recipient's channel): every accepted message destined to a
// staying member is in that member's log, once, in per-connection order, with
// the true sender and session.
//
// History classes (part of the violation key):
//   inbound-quiet          one author at a time, staying members silent, the author
//                          waited for its own peer_joined and sends nothing that is
//                          answered: nothing travels towards it when it leaves
//   inbound-busy-greeted   several authors + noise concurrently; the author had its
//                          peer_list before its first send
//   inbound-busy-ungreeted as before, but the author does not wait for the greeting
//                          (these waves come last in a session's schedule)
// On the unchanged tree the two busy classes of wsclient authors lose messages
// (bare TCP close with unread inbound data => reset; server returns early when it
// cannot greet a peer that already left); the quiet class and all raw-author
// classes are loss-free.
//
// Every round runs in a child process of its own (c10_wsflood.go): a panic in a
// goroutine of the client library ends that process, the stage attributes it to
// the journalled episodes in flight and still writes its report. The same file
// holds the flood rounds: bursts of 330-480 routable envelopes from one author
// goroutine with more than 256 outstanding in the client (stalled or merely
// slower link), authors that linger until everything has arrived – "never
// reordered" judged at every staying member.
//
// Flow control is by counting (peer_left envelopes, wave markers), never by
// time: at most c10wWaveBudget author messages + noise are in flight per
// session, well below the server's per-peer channel of 256.

import (
	"context"
	"encoding/json"
	"fmt"
	"io"
	"log/slog"
	"path/filepath"
	"runtime"
	"strings"
	"sync"
	"sync/atomic"
	"time"

	"github.com/gorilla/websocket"
	vk "github.com/sheerbytes/sheerbytes/internal/verifkit"
	"github.com/sheerbytes/sheerbytes/internal/wsclient"
	"github.com/sheerbytes/sheerbytes/pkg/protocol"
)

func init() { register("c10ws", runC10WS) }

// Watchdogs: never verdicts. An expired watchdog makes the round unsettled
// (no-loss not judged for it) and is reported as inconclusive.
var (
	c10wDialWait   = 15 * time.Second
	c10wLeftWait   = 25 * time.Second
	c10wSettleWait = 25 * time.Second
	c10wLingerWait = 10 * time.Second
)

const (
	c10wWaveBudget = 96 // author messages that can reach a staying member, per session and wave
	c10wNoise      = 6  // messages per staying member and wave
)

var c10wLogger = slog.New(slog.NewTextHandler(io.Discard, nil))

type c10wEpisode struct {
	Round  int    `json:"round"`
	Wave   int    `json:"wave"`
	Sess   int    `json:"session"`
	Slot   int    `json:"slot"`
	PeerID string `json:"peer_id"`
	Layer  string `json:"author_layer"` // wsclient | raw
	Leave  string `json:"leave"`        // wsclient: close-now | yield-close | reconnect | linger; raw: eof | close-frame (both TCP-graceful)
	// Inbound: quiet = nothing is on its way to the author when it leaves (it waited for its own peer_joined,
	// staying members are silent, one author at a time, no message that is answered); busy-greeted = noise, other
	// authors and error reports travel towards the author while it leaves, it had received its peer_list before
	// its first send; busy-ungreeted = same, and it sends and leaves without waiting for the server's greeting.
	Inbound    string `json:"inbound"`
	Wait       string `json:"waits_for"` // none | peer_list | own-peer_joined (before the first send)
	Pace       string `json:"pace"`      // tight | yield
	Bursts     []int  `json:"bursts"`
	BurstClass string `json:"burst_class"` // single | few | many | overflow | flood-stalled | flood-free
	// Link (flood bursts): stalled = the client's TCP connection does not take any byte from the moment the burst
	// starts until the author has made its 258th Send call (256 queued + 1 in the writer's hand + 1), i.e. until
	// more envelopes are outstanding than the client queue holds; free = nothing is held back, the burst simply
	// outruns the writer.
	Link string `json:"link,omitempty"`
	K    int    `json:"k_in_wave"`
	Seed uint64 `json:"seed"`
}

func (ep *c10wEpisode) id() string {
	return fmt.Sprintf("r%d-s%d-w%d-k%d", ep.Round, ep.Sess, ep.Wave, ep.K)
}

type c10wSend struct {
	G         uint64        `json:"g"`
	A         int           `json:"author_conn"`
	N         int           `json:"n"`
	Kind      string        `json:"kind"` // addressed | broadcast | marker | barrier | invalid-version
	Routable  bool          `json:"routable"`
	Target    string        `json:"target_class"` // staying-raw | staying-wsclient | host | self | author-slot | ghost | other-session | none
	To        string        `json:"to"`
	FromClass string        `json:"from_class"` // omitted | honest | same-session-peer | other-session-peer | server
	From      string        `json:"from_wire"`
	SidClass  string        `json:"sid_class"` // omitted | honest | other-session
	Sid       string        `json:"sid_wire"`
	Type      string        `json:"type"`
	Wave      int           `json:"wave"`
	Pos       int           `json:"pos_in_burst"`
	Tail      bool          `json:"last_of_burst"`
	Accepted  bool          `json:"accepted"` // Send / write returned nil
	T0        time.Duration `json:"t0_ns"`
	Pay       c10Payload    `json:"payload"`
}

type c10wRecv struct {
	T   time.Duration
	Env protocol.Envelope
	Bad string // non-empty: frame that is not a JSON text envelope (raw layer only)
}

type c10wConn struct {
	Idx    int
	Sess   int
	PeerID string
	Role   string
	Layer  string // raw | wsclient
	Stay   bool   // member for the whole round, never stops reading
	Ep     *c10wEpisode
	Part   int
	DialOK bool
	Status int

	raw      *vk.WSClient
	wc       *wsclient.Conn
	link     *c10wLink // flood authors: frame counter / stall gate underneath the real wsclient
	cancel   context.CancelFunc
	readDone chan struct{}

	mu       sync.Mutex
	log      []c10wRecv
	got      map[uint64]bool
	leftSeen map[string]int
	types    map[string]bool
	selfJoin bool
	readEnd  time.Duration

	sendMu     sync.Mutex
	n          int
	sends      []c10wSend
	closed     atomic.Bool
	CloseStart time.Duration

	// flood bursts: envelopes accepted by Send and not yet written to the TCP connection (largest value seen /
	// value when the stalled link was released)
	FloodMaxOut    int
	FloodAtRelease int
}

func (c *c10wConn) appendRecv(rec c10wRecv) {
	var g uint64
	left := ""
	if rec.Bad == "" {
		if len(rec.Env.Payload) > 0 {
			var p c10Payload
			if json.Unmarshal(rec.Env.Payload, &p) == nil && p.VF == "c10w" {
				g = p.G
			}
		}
		if g == 0 && rec.Env.From == "server" && rec.Env.Type == protocol.TypePeerLeft {
			var pl protocol.PeerLeft
			if rec.Env.DecodePayload(&pl) == nil {
				left = pl.PeerID
			}
		}
	}
	selfJoin := false
	if rec.Bad == "" && g == 0 && rec.Env.From == "server" && rec.Env.Type == protocol.TypePeerJoined {
		var pj protocol.PeerJoined
		selfJoin = rec.Env.DecodePayload(&pj) == nil && pj.Peer.PeerID == c.PeerID
	}
	c.mu.Lock()
	c.log = append(c.log, rec)
	if selfJoin {
		c.selfJoin = true
	}
	if g != 0 {
		c.got[g] = true
	}
	if left != "" {
		c.leftSeen[left]++
	}
	if rec.Bad == "" && g == 0 && rec.Env.From == "server" {
		c.types[rec.Env.Type] = true // server-authored envelopes only: clients send every type name, peer_list included
	}
	c.mu.Unlock()
}

func (c *c10wConn) hasG(g uint64) bool { c.mu.Lock(); defer c.mu.Unlock(); return c.got[g] }
func (c *c10wConn) leftCount(id string) int {
	c.mu.Lock()
	defer c.mu.Unlock()
	return c.leftSeen[id]
}
func (c *c10wConn) sawType(t string) bool { c.mu.Lock(); defer c.mu.Unlock(); return c.types[t] }
func (c *c10wConn) sawSelfJoin() bool     { c.mu.Lock(); defer c.mu.Unlock(); return c.selfJoin }
func (c *c10wConn) readEndAt() time.Duration {
	if c.Layer == "raw" {
		if c.raw == nil {
			return 0
		}
		return c.raw.ReadEndAt()
	}
	c.mu.Lock()
	defer c.mu.Unlock()
	return c.readEnd
}
func (c *c10wConn) snapshotLog() []c10wRecv {
	c.mu.Lock()
	defer c.mu.Unlock()
	out := make([]c10wRecv, len(c.log))
	copy(out, c.log)
	return out
}

type c10wSess struct {
	ID       string
	JoinCode string
	Stay     []*c10wConn // host first
	Slots    []string    // author slot ids
}

type c10wRoundCfg struct {
	Round    int    `json:"round"`
	Seed     uint64 `json:"seed"`
	Sessions int    `json:"sessions"`
	Waves    int    `json:"waves"`
	Slots    int    `json:"author_slots_per_session"`
	Flood    bool   `json:"flood_round,omitempty"` // only quiet waves with bursts beyond the client queue, authors linger
}

type c10wRound struct {
	e   *Env
	cfg c10wRoundCfg
	srv *vk.Serv

	sess []*c10wSess

	mu            sync.Mutex
	conns         []*c10wConn
	expLeft       []map[string]int // per session: author id -> upgraded connections so far
	authorUps     int
	episodes      []*c10wEpisode
	notes         []string
	broken        atomic.Bool // a watchdog expired: remaining waves are skipped, no-loss is not judged
	lingerExpired atomic.Int32
	settled       bool

	gid atomic.Uint64
}

func (rd *c10wRound) note(s string) {
	rd.broken.Store(true)
	rd.mu.Lock()
	if len(rd.notes) < 10 {
		rd.notes = append(rd.notes, fmt.Sprintf("wsclient round %d: %s", rd.cfg.Round, s))
	}
	rd.mu.Unlock()
}

func (rd *c10wRound) snapshotConns() []*c10wConn {
	rd.mu.Lock()
	defer rd.mu.Unlock()
	out := make([]*c10wConn, len(rd.conns))
	copy(out, rd.conns)
	return out
}

func c10wWait(cond func() bool, watchdog time.Duration) bool {
	deadline := time.Now().Add(watchdog)
	for i := 0; ; i++ {
		if cond() {
			return true
		}
		if time.Now().After(deadline) {
			return false
		}
		if i < 20 {
			runtime.Gosched()
		} else {
			time.Sleep(500 * time.Microsecond)
		}
	}
}

// dial connects one connection on the given layer. For the wsclient layer the
// connection is used exactly as internal/app uses it: Dial, then ReadLoop in a
// goroutine with a callback.
func (rd *c10wRound) dial(sess int, id, role, layer string, stay bool, ep *c10wEpisode, part int) *c10wConn {
	c := &c10wConn{Sess: sess, PeerID: id, Role: role, Layer: layer, Stay: stay, Ep: ep, Part: part,
		got: map[uint64]bool{}, leftSeen: map[string]int{}, types: map[string]bool{}}
	rd.mu.Lock()
	c.Idx = len(rd.conns)
	rd.conns = append(rd.conns, c)
	rd.mu.Unlock()
	url := vk.WSURL(rd.srv.URL, rd.sess[sess].JoinCode, id, role)
	if layer == "raw" {
		ws, err := vk.DialWS(url, c10wDialWait, func(r vk.WSRecv) {
			rec := c10wRecv{T: r.T, Env: r.Env}
			if r.Kind != websocket.TextMessage {
				rec.Bad = "non-text frame"
			} else if r.BadJSON {
				rec.Bad = "text frame that is not a JSON envelope: " + string(r.Raw)
			}
			c.appendRecv(rec)
		})
		c.raw = ws
		c.Status = ws.HTTPStatus
		if err != nil {
			return c
		}
		c.DialOK = true
		return c
	}
	dctx := context.Background()
	if ep != nil && ep.Link != "" {
		c.link = &c10wLink{}
		dctx = context.WithValue(dctx, c10wLinkKey{}, c.link)
	}
	wc, err := wsclient.Dial(dctx, url, c10wLogger)
	if err != nil {
		return c
	}
	rctx, cancel := context.WithCancel(context.Background())
	c.wc, c.cancel, c.readDone = wc, cancel, make(chan struct{})
	c.DialOK = true
	go func() {
		_ = wc.ReadLoop(rctx, func(env protocol.Envelope) { c.appendRecv(c10wRecv{T: vk.MonoNow(), Env: env}) })
		c.mu.Lock()
		c.readEnd = vk.MonoNow()
		c.mu.Unlock()
		close(c.readDone)
	}()
	return c
}

// closeConn leaves. wsclient layer: Conn.Close() – the call internal/app makes
// when a run ends (`defer conn.Close()` / closeConn) – and only afterwards the
// ReadLoop context is cancelled (cancelling first would abort the socket, which
// is a different history: an aborting client). Raw layer: always TCP-graceful
// (optional close frame, shutdown(SHUT_WR), drain until the server's EOF), so
// that "the write returned nil" implies "the bytes reached the server".
func (rd *c10wRound) closeConn(c *c10wConn, graceful bool) {
	if !c.DialOK || c.closed.Swap(true) {
		return
	}
	c.sendMu.Lock() // never concurrently with a Send (Send on a closed wsclient.Conn panics on the unchanged tree)
	c.CloseStart = vk.MonoNow()
	if c.Layer == "raw" {
		if !c.raw.CloseDrained(graceful, c10wDialWait) {
			rd.e.R.Count("raw_leave_without_server_eof")
		}
	} else {
		_ = c.wc.Close()
	}
	c.sendMu.Unlock()
	if c.Layer != "raw" {
		c.cancel()
		select {
		case <-c.readDone:
		case <-time.After(10 * time.Second):
		}
	}
}

type c10wOp struct {
	Kind, Target, To, FromClass, From, SidClass, Sid, Type string
}

// prep builds the envelope and the send-log record of the connection's next message (caller holds c.sendMu).
func (rd *c10wRound) prep(c *c10wConn, op c10wOp, wave, pos int, tail bool) (protocol.Envelope, c10wSend) {
	g := uint64(rd.cfg.Round+1)<<40 | rd.gid.Add(1)
	c.n++
	p := c10Payload{VF: "c10w", G: g, A: c.Idx, N: c.n, K: op.Kind, P: wave}
	env, _ := protocol.NewEnvelope(op.Type, fmt.Sprintf("w%d", g), p)
	env.To = op.To
	if op.Kind == "invalid-version" {
		env.V = 2 // ValidateBasic fails: the server drops it without any answer
	}
	if op.FromClass != "omitted" {
		env.From = op.From
	}
	if op.SidClass != "omitted" {
		env.SessionID = op.Sid
	}
	rec := c10wSend{G: g, A: c.Idx, N: c.n, Kind: op.Kind, Target: op.Target, To: op.To, FromClass: op.FromClass, From: op.From,
		SidClass: op.SidClass, Sid: op.Sid, Type: op.Type, Wave: wave, Pos: pos, Tail: tail, Pay: p, Routable: op.Kind != "invalid-version"}
	return env, rec
}

func (rd *c10wRound) send(c *c10wConn, op c10wOp, wave, pos int, tail bool) bool {
	c.sendMu.Lock()
	defer c.sendMu.Unlock()
	if c.closed.Load() {
		return false
	}
	env, rec := rd.prep(c, op, wave, pos, tail)
	rec.T0 = vk.MonoNow()
	var err error
	if c.Layer == "raw" {
		err = c.raw.SendJSON(env)
	} else {
		err = c.wc.Send(env)
	}
	rec.Accepted = err == nil
	c.sends = append(c.sends, rec)
	return err == nil
}

func (rd *c10wRound) otherSess(r *vk.Rng, s int) *c10wSess {
	if len(rd.sess) < 2 {
		return nil
	}
	k := r.Intn(len(rd.sess) - 1)
	if k >= s {
		k++
	}
	return rd.sess[k]
}

func c10wStayClass(m *c10wConn) string {
	if m.Role == "sender" {
		return "host"
	}
	return "staying-" + m.Layer
}

// hostile decorates a routable op with spoofed headers now and then.
func (rd *c10wRound) hostile(r *vk.Rng, c *c10wConn, op *c10wOp) {
	s := rd.sess[c.Sess]
	op.FromClass, op.SidClass = "omitted", "omitted"
	switch w := r.Intn(100); {
	case w < 12:
		op.FromClass, op.From = "same-session-peer", s.Stay[r.Intn(len(s.Stay))].PeerID
		if op.From == c.PeerID {
			op.FromClass = "honest"
		}
	case w < 18:
		if o := rd.otherSess(r, c.Sess); o != nil {
			op.FromClass, op.From = "other-session-peer", o.Stay[r.Intn(len(o.Stay))].PeerID
		}
	case w < 22:
		op.FromClass, op.From = "server", "server"
	case w < 40:
		op.FromClass, op.From = "honest", c.PeerID
	}
	switch w := r.Intn(100); {
	case w < 5:
		if o := rd.otherSess(r, c.Sess); o != nil {
			op.SidClass, op.Sid = "other-session", o.ID
		}
	case w < 30:
		op.SidClass, op.Sid = "honest", s.ID
	}
}

// genOp draws one author/noise op. reach=true forces a message that reaches a staying member.
func (rd *c10wRound) genOp(r *vk.Rng, c *c10wConn, reach bool) c10wOp {
	s := rd.sess[c.Sess]
	op := c10wOp{Type: c10Types[r.Intn(len(c10Types))]}
	w := r.Intn(100)
	if reach {
		w = r.Intn(80)
	}
	switch {
	case w < 55:
		m := s.Stay[r.Intn(len(s.Stay))]
		op.Kind, op.To, op.Target = "addressed", m.PeerID, c10wStayClass(m)
		if m == c {
			op.Target = "self"
		}
	case w < 80:
		op.Kind, op.Target = "broadcast", "none"
	case w < 88:
		op.Kind, op.Target, op.To = "addressed", "author-slot", s.Slots[r.Intn(len(s.Slots))]
		if op.To == c.PeerID {
			op.Target = "self"
		}
	case w < 94:
		op.Kind, op.Target, op.To = "addressed", "ghost", fmt.Sprintf("ghost-%d-%d", c.Idx, r.U64()%1000000007)
	default:
		if o := rd.otherSess(r, c.Sess); o != nil {
			op.Kind, op.Target = "addressed", "other-session"
			if r.Bool() {
				op.To = o.Stay[r.Intn(len(o.Stay))].PeerID
			} else {
				op.To = o.Slots[r.Intn(len(o.Slots))]
			}
		} else {
			op.Kind, op.Target, op.To = "addressed", "ghost", fmt.Sprintf("ghost-%d-%d", c.Idx, r.U64()%1000000007)
		}
	}
	rd.hostile(r, c, &op)
	return op
}

func (rd *c10wRound) runEpisode(ep *c10wEpisode) {
	// journal: the parent process attributes a crash of this process (a panic in a goroutine of the client
	// library cannot be recovered here) to the episodes that had begun and not ended
	c10wJournalLine("B", ep)
	defer c10wJournalLine("E", ep)
	r := vk.NewRng(ep.Seed)
	stay := rd.sess[ep.Sess].Stay
	for part, k := range ep.Bursts {
		if rd.broken.Load() {
			return
		}
		c := rd.dial(ep.Sess, ep.PeerID, "receiver", ep.Layer, false, ep, part)
		if !c.DialOK {
			// environment (handshake timeout on a loaded machine): the episode simply did not happen
			rd.e.R.Count("author_dial_failed")
			rd.e.R.Inconcl(fmt.Sprintf("wsclient round %d: author connection of slot %q could not be established (http %d)", rd.cfg.Round, ep.PeerID, c.Status))
			return
		}
		rd.mu.Lock()
		rd.authorUps++
		rd.mu.Unlock()
		greeted := false
		switch ep.Wait {
		case "peer_list":
			greeted = c10wWait(func() bool { return c.sawType(protocol.TypePeerList) }, c10wDialWait)
			if !greeted {
				rd.note(fmt.Sprintf("author %q did not see its peer_list within the watchdog", ep.PeerID))
			}
		case "own-peer_joined":
			greeted = true
			// the last thing the server sends to a joining peer on its own account; in a quiet episode nothing
			// else is on its way to the author afterwards
			if !c10wWait(func() bool { return c.sawSelfJoin() }, c10wDialWait) {
				rd.note(fmt.Sprintf("author %q did not see its own peer_joined within the watchdog", ep.PeerID))
			}
		}
		if greeted {
			// a handler that has written the peer_list always reaches its deferred peer_left broadcast; one whose
			// greeting failed (the author left first) returns without it – such connections are not waited for
			rd.mu.Lock()
			rd.expLeft[ep.Sess][ep.PeerID]++
			rd.mu.Unlock()
		}
		filler := 0
		if ep.BurstClass == "overflow" {
			filler = 270 // more than wsclient's send queue (256): Send blocks until the writer has drained
		}
		var tail *c10wSend // copy of the last message of the burst
		var burst []c10wSend
		if strings.HasPrefix(ep.BurstClass, "flood") {
			burst = rd.floodBurst(r, ep, c, k)
			if len(burst) > 0 && burst[len(burst)-1].Tail {
				tail = &burst[len(burst)-1]
			}
			filler, k = 0, 0
		}
		for i := 0; i < filler+k; i++ {
			var op c10wOp
			if i < filler {
				// envelopes the server drops without an answer (protocol version 2): they fill the client queue,
				// reach nobody and cause no traffic towards the author
				op = c10wOp{Kind: "invalid-version", Target: "none", Type: "x-filler", FromClass: "omitted", SidClass: "omitted"}
			} else {
				op = rd.genOp(r, c, i == filler+k-1 || ep.Inbound == "quiet")
			}
			if !rd.send(c, op, ep.Wave, i, i == filler+k-1) {
				break
			}
			if i == filler+k-1 {
				cp := c.sends[len(c.sends)-1]
				tail = &cp
			}
			if ep.Pace == "yield" {
				runtime.Gosched()
			}
		}
		graceful := false
		switch ep.Leave {
		case "yield-close":
			runtime.Gosched()
		case "linger":
			// control class: the author stays until every staying destination has the last message of the burst
			// ("stays connected a little longer", expressed as an event)
			if burst != nil {
				// flood: until every message of the burst is at every staying destination – order is judged on
				// what arrived, and nothing is outstanding in the client when Close is called
				lw := c10wLingerWait
				if rd.lingerExpired.Load() >= 2 {
					lw = time.Second // (a tree that loses or misroutes messages: do not spend the full watchdog on every episode)
				}
				if !c10wWait(func() bool {
					for i := range burst {
						for _, m := range stay {
							if burst[i].Accepted && (burst[i].To == "" || burst[i].To == m.PeerID) && !m.hasG(burst[i].G) {
								return false
							}
						}
					}
					return true
				}, lw) {
					rd.lingerExpired.Add(1)
				}
			} else if tail != nil {
				c10wWait(func() bool {
					for _, m := range stay {
						if (tail.To == "" || tail.To == m.PeerID) && !m.hasG(tail.G) {
							return false
						}
					}
					return true
				}, c10wLingerWait)
			}
		case "close-frame":
			graceful = true
		}
		rd.closeConn(c, graceful)
	}
}

// planWave draws the episodes of one wave. The waves with ungreeted authors (which send and leave without
// waiting for the server's greeting, and whose handlers may exit without a peer_left) come last in a session's
// schedule, so that no late peer_left of theirs can travel towards the author of a quiet episode.
func (rd *c10wRound) planWave(r *vk.Rng, s, wave int, ungreeted bool) (eps []*c10wEpisode, inbound string) {
	if rd.cfg.Flood {
		return rd.planFloodWave(r, s, wave), "quiet"
	}
	si := rd.sess[s]
	inbound = "busy-greeted"
	long := false
	w := 2 + r.Intn(len(si.Slots)-1)
	switch x := r.Intn(20); {
	case ungreeted:
		inbound = "busy-ungreeted"
	case x < 8:
		inbound = "quiet" // episodes run one after the other, staying members are silent
		w = 2 + r.Intn(3)
	case x < 12:
		long, w = true, 1
	}
	perm := make([]int, len(si.Slots))
	for i := range perm {
		perm[i] = i
	}
	for i := len(perm) - 1; i > 0; i-- {
		j := r.Intn(i + 1)
		perm[i], perm[j] = perm[j], perm[i]
	}
	share := c10wWaveBudget / w
	if inbound == "quiet" {
		share = c10wWaveBudget // sequential: each episode is drained before the next starts
		long = r.Intn(4) == 0
	}
	for k := 0; k < w; k++ {
		slot := perm[k%len(perm)]
		ep := &c10wEpisode{Round: rd.cfg.Round, Wave: wave, Sess: s, Slot: slot, K: k, PeerID: si.Slots[slot], Seed: r.U64(),
			Inbound: inbound, Pace: "tight", Wait: "peer_list"}
		if inbound == "quiet" {
			ep.Wait = "own-peer_joined"
		} else if ungreeted {
			// own id space, so that the peer_left counts of the greeted ids stay exact; short bursts only
			ep.Wait = "none"
			ep.PeerID = fmt.Sprintf("s%d-u%d", s, slot)
		}
		if r.Intn(4) == 0 {
			ep.Pace = "yield"
		}
		if r.Intn(10) < 7 {
			ep.Layer = "wsclient"
			switch x := r.Intn(100); {
			case x < 45:
				ep.Leave = "close-now"
			case x < 60:
				ep.Leave = "yield-close"
			case x < 85:
				ep.Leave = "reconnect"
			default:
				ep.Leave = "linger"
			}
			if (inbound == "quiet" || ep.Wait == "none") && ep.Leave == "reconnect" {
				// a reconnect under the same id makes the old handler's peer_left race with the new connection:
				// not a quiet history. (The slot ids are re-used by later episodes anyway.)
				ep.Leave = "close-now"
			}
		} else {
			ep.Layer = "raw"
			ep.Leave = []string{"eof", "close-frame"}[r.Intn(2)]
		}
		total := 0
		switch {
		case long && ep.Layer == "wsclient" && r.Intn(3) == 0:
			ep.BurstClass, total = "overflow", 10+r.Intn(30)
		case long:
			ep.BurstClass, total = "many", 40+r.Intn(share-39)
		default:
			switch x := r.Intn(10); {
			case x < 4:
				ep.BurstClass, total = "single", 1
			case x < 7 || ep.Wait == "none":
				ep.BurstClass, total = "few", 2+r.Intn(4)
			default:
				ep.BurstClass, total = "many", 6+r.Intn(share-5)
			}
		}
		if ep.Leave == "reconnect" {
			if total < 2 {
				total = 2
				ep.BurstClass = "few"
			}
			a := 1 + r.Intn(total-1)
			ep.Bursts = []int{a, total - a}
		} else {
			ep.Bursts = []int{total}
		}
		eps = append(eps, ep)
	}
	return eps, inbound
}

// leftSeen: every staying member of the session has seen one peer_left per author connection opened so far
// (flow control by counting; the verdict is taken later, after the round has settled).
func (rd *c10wRound) leftSeen(s int) bool {
	si := rd.sess[s]
	rd.mu.Lock()
	exp := map[string]int{}
	for k, v := range rd.expLeft[s] {
		exp[k] = v
	}
	rd.mu.Unlock()
	ok := c10wWait(func() bool {
		for _, m := range si.Stay {
			for id, n := range exp {
				if m.leftCount(id) < n {
					return false
				}
			}
		}
		return true
	}, c10wLeftWait)
	if !ok {
		// diagnostics for the inconclusive note
		for _, m := range si.Stay {
			for id, n := range exp {
				if got := m.leftCount(id); got < n {
					txt := rd.srv.LogText()
					vk.Logf("c10ws round %d session %d: member %q (%s, read ended at %v) saw %d peer_left for %q, expected %d; server output: %d connected, %d disconnected lines for that id, %d greeting failures",
						rd.cfg.Round, s, m.PeerID, m.Layer, m.readEndAt(), got, id, n,
						strings.Count(txt, "session_id="+si.ID+" peer_id="+id+" role="), strings.Count(txt, "peer disconnected session_id="+si.ID+" peer_id="+id+"\n"),
						strings.Count(txt, `msg="failed to send peer list"`))
				}
			}
		}
	}
	return ok
}

// runSession drives all waves of one session.
func (rd *c10wRound) runSession(r *vk.Rng, s int) {
	si := rd.sess[s]
	uwaves := (rd.cfg.Waves + 2) / 3
	if rd.cfg.Flood {
		uwaves = 0
	}
	for wave := 0; wave < rd.cfg.Waves+uwaves && !rd.broken.Load(); wave++ {
		eps, inbound := rd.planWave(r, s, wave, wave >= rd.cfg.Waves)
		rd.mu.Lock()
		rd.episodes = append(rd.episodes, eps...)
		rd.mu.Unlock()
		if inbound == "quiet" {
			for _, ep := range eps {
				rd.runEpisode(ep)
				if rd.broken.Load() {
					return
				}
				if !rd.leftSeen(s) {
					rd.note(fmt.Sprintf("session %d wave %d (quiet): a staying member did not see the peer_left of the author within the watchdog", s, wave))
					return
				}
			}
			continue
		}
		var wg sync.WaitGroup
		for _, m := range si.Stay {
			m, nr := m, r.Fork()
			wg.Add(1)
			go func() {
				defer wg.Done()
				for i := 0; i < c10wNoise; i++ {
					rd.send(m, rd.genOp(nr, m, false), wave, i, false)
					if nr.Intn(3) == 0 {
						runtime.Gosched()
					}
				}
			}()
		}
		for _, ep := range eps {
			ep := ep
			wg.Add(1)
			go func() { defer wg.Done(); rd.runEpisode(ep) }()
		}
		wg.Wait()
		if rd.broken.Load() {
			return
		}
		if !rd.leftSeen(s) {
			rd.note(fmt.Sprintf("session %d wave %d: a staying member did not see a peer_left for every closed author connection within the watchdog", s, wave))
			return
		}
		// … and a marker from every staying member to every other one has arrived (their noise has left the channels)
		if !rd.markers(s, wave, "marker") {
			rd.note(fmt.Sprintf("session %d wave %d: wave markers between staying members undelivered within the watchdog", s, wave))
			return
		}
	}
}

func (rd *c10wRound) markers(s, wave int, kind string) bool {
	si := rd.sess[s]
	type want struct {
		r *c10wConn
		g uint64
	}
	var ws []want
	for _, a := range si.Stay {
		for _, m := range si.Stay {
			if a == m && kind == "marker" {
				continue
			}
			if kind == "barrier" && a != si.Stay[0] {
				continue
			}
			op := c10wOp{Kind: kind, Target: c10wStayClass(m), To: m.PeerID, FromClass: "omitted", SidClass: "omitted", Type: "x-" + kind}
			if a == m {
				op.Target = "self"
			}
			if rd.send(a, op, wave, 0, false) {
				ws = append(ws, want{m, a.sends[len(a.sends)-1].G})
			} else {
				return false
			}
		}
	}
	return c10wWait(func() bool {
		for _, w := range ws {
			if !w.r.hasG(w.g) {
				return false
			}
		}
		return true
	}, c10wSettleWait)
}

// ---------------------------------------------------------------------------

type c10wAgg struct {
	mu         sync.Mutex
	Rounds     int            `json:"rounds"`
	Settled    int            `json:"settled"`
	Episodes   map[string]int `json:"episodes"` // layer|leave|burst class
	Conns      int            `json:"conns"`
	Accepted   int            `json:"accepted"`
	Checked    int            `json:"checked"`
	Judged     map[string]int `json:"judged"` // no-loss judged (message, staying recipient) pairs by author layer|leave|kind|recipient layer
	Tails      map[string]int `json:"tails"`  // of those: last message of a burst, by author layer|leave
	NotJudged  map[string]int `json:"not_judged"`
	ServerEnvs map[string]int `json:"server_envs"`
	NotFound   int            `json:"not_found"`
	Lost       int            `json:"lost"`
	// flood bursts (more envelopes outstanding than the client queue holds)
	FloodEpisodes map[string]int `json:"flood_episodes"` // author layer|link|exceeded or not-exceeded
	FloodOrder    map[string]int `json:"flood_order"`    // delivered envelopes of flood bursts whose per-connection order was checked: layer|link|exceeded?|read-by-layer
	FloodMaxOut   int            `json:"flood_max_outstanding"`
}

func newC10wAgg() *c10wAgg {
	return &c10wAgg{Episodes: map[string]int{}, Judged: map[string]int{}, Tails: map[string]int{}, NotJudged: map[string]int{}, ServerEnvs: map[string]int{},
		FloodEpisodes: map[string]int{}, FloodOrder: map[string]int{}}
}

// merge adds o to a (a.mu held by the caller or a private).
func (a *c10wAgg) merge(o *c10wAgg) {
	a.Rounds += o.Rounds
	a.Settled += o.Settled
	a.Conns += o.Conns
	a.Accepted += o.Accepted
	a.Checked += o.Checked
	a.NotFound += o.NotFound
	a.Lost += o.Lost
	if o.FloodMaxOut > a.FloodMaxOut {
		a.FloodMaxOut = o.FloodMaxOut
	}
	for _, pr := range []struct{ dst, src map[string]int }{{a.Episodes, o.Episodes}, {a.Judged, o.Judged}, {a.Tails, o.Tails}, {a.NotJudged, o.NotJudged},
		{a.ServerEnvs, o.ServerEnvs}, {a.FloodEpisodes, o.FloodEpisodes}, {a.FloodOrder, o.FloodOrder}} {
		for k, v := range pr.src {
			pr.dst[k] += v
		}
	}
}

func c10wRunRound(e *Env, cfg c10wRoundCfg, agg *c10wAgg) {
	r := vk.NewRng(cfg.Seed)
	rd := &c10wRound{e: e, cfg: cfg}
	flags := []string{"--ws-msgs-per-sec", "0", "--ws-connects-per-min", "0", "--session-creates-per-min", "0", "--max-receivers-per-sender", "0"}
	srv, err := vk.StartServ(filepath.Join(e.BinDir, "thruserv"), flags, filepath.Join(e.Work, fmt.Sprintf("c10ws-serv-%03d.log", cfg.Round)))
	if err != nil {
		e.R.Inconcl(fmt.Sprintf("wsclient round %d: %v", cfg.Round, err))
		return
	}
	rd.srv = srv
	defer srv.Stop()
	for s := 0; s < cfg.Sessions; s++ {
		rs, err := vk.CreateSessionRaw(srv.URL, "")
		if err != nil || rs.Status != 201 || rs.JoinCode == "" || rs.SessionID == "" {
			e.R.Inconcl(fmt.Sprintf("wsclient round %d: POST /session failed: %v status=%d", cfg.Round, err, rs.Status))
			return
		}
		si := &c10wSess{ID: rs.SessionID, JoinCode: rs.JoinCode}
		for k := 0; k < cfg.Slots; k++ {
			id := fmt.Sprintf("s%d-a%d", s, k)
			if r.Intn(5) == 0 {
				id += " ü/&="
			}
			si.Slots = append(si.Slots, id)
		}
		rd.sess = append(rd.sess, si)
		rd.expLeft = append(rd.expLeft, map[string]int{})
	}
	closeAll := func() {
		for _, c := range rd.snapshotConns() {
			rd.closeConn(c, false)
		}
	}
	// staying members: host (raw), one raw receiver, one or two receivers reading through the real wsclient.ReadLoop
	for s, si := range rd.sess {
		layers := []string{"raw", "raw", "wsclient"}
		if (cfg.Round+s)%2 == 1 {
			layers = append(layers, "wsclient")
		}
		for k, layer := range layers {
			role, id := "receiver", fmt.Sprintf("s%d-stay%d-%s", s, k, layer)
			if k == 0 {
				role, id = "sender", fmt.Sprintf("s%d-host", s)
			}
			c := rd.dial(s, id, role, layer, true, nil, 0)
			if !c.DialOK || !c10wWait(func() bool { return c.sawType(protocol.TypePeerList) }, c10wDialWait) {
				e.R.Inconcl(fmt.Sprintf("wsclient round %d: staying member %q could not join (http %d)", cfg.Round, id, c.Status))
				closeAll()
				return
			}
			si.Stay = append(si.Stay, c)
		}
	}
	var wg sync.WaitGroup
	for s := range rd.sess {
		s, sr := s, r.Fork()
		wg.Add(1)
		go func() { defer wg.Done(); rd.runSession(sr, s) }()
	}
	wg.Wait()
	// settle: every author handler has exited (server output), then a barrier from the host to every staying
	// member (and itself) flushes each recipient's channel (FIFO: everything routed earlier has been written)
	if !rd.broken.Load() {
		rd.mu.Lock()
		ups := rd.authorUps
		rd.mu.Unlock()
		// a handler exits either through its deferred peer_left ("peer disconnected" line) or, when it could not
		// greet a peer that had already left, through the early return after "failed to send peer list"
		exits := func() int {
			return srv.LogCount("peer disconnected session_id=") + srv.LogCount(`msg="failed to send peer list"`)
		}
		if !c10wWait(func() bool { return exits() >= ups }, c10wSettleWait) {
			rd.note(fmt.Sprintf("settle: server output shows fewer handler exits than closed author connections (%d)", ups))
		}
	}
	if !rd.broken.Load() {
		ok := true
		for s := range rd.sess {
			if !rd.markers(s, rd.cfg.Waves+(rd.cfg.Waves+2)/3, "barrier") {
				ok = false
			}
		}
		if !ok {
			rd.note("settle: barrier from the host to the staying members undelivered within the watchdog")
		}
		rd.settled = ok
	}
	endT := vk.MonoNow()
	alive := srv.Alive()
	closeAll()
	srv.Stop()
	for _, n := range rd.notes {
		e.R.Inconcl(n)
	}
	if !alive {
		e.R.Violate("server-died", "thruserv exited during a send-then-leave round", cfg, map[string]any{"log_tail": srv.LogTail(3000)})
	}
	c10wJudge(rd, agg, endT)
}

func c10wJudge(rd *c10wRound, agg *c10wAgg, endT time.Duration) {
	e := rd.e
	conns := rd.snapshotConns()
	byG := map[uint64]*c10wSend{}
	for _, c := range conns {
		for i := range c.sends {
			byG[c.sends[i].G] = &c.sends[i]
		}
	}
	epOf := func(c *c10wConn) (string, string, string) {
		if c.Ep == nil {
			return c.Layer, "stays", "noise"
		}
		return c.Ep.Layer, c.Ep.Leave + "|inbound-" + c.Ep.Inbound, c.Ep.BurstClass
	}
	caseOf := func(rc *c10wConn, s *c10wSend, rec *c10wRecv) map[string]any {
		m := map[string]any{"round": rd.cfg, "stage": "wsclient",
			"recipient": map[string]any{"conn": rc.Idx, "session": rc.Sess, "peer_id": rc.PeerID, "layer": rc.Layer, "stays": rc.Stay}}
		if s != nil {
			a := conns[s.A]
			m["send"] = s
			m["author"] = map[string]any{"conn": a.Idx, "session": a.Sess, "peer_id": a.PeerID, "layer": a.Layer, "stays": a.Stay, "episode": a.Ep, "connection_of_episode": a.Part}
		}
		if rec != nil {
			b, _ := json.Marshal(rec.Env)
			m["received"] = map[string]any{"t_ns": rec.T, "envelope": string(b), "bad": rec.Bad}
		}
		return m
	}
	local := newC10wAgg()
	floodOf := func(a *c10wConn) (bool, string) {
		if a.Ep == nil || !strings.HasPrefix(a.Ep.BurstClass, "flood") {
			return false, ""
		}
		ex := "not-exceeded"
		if a.FloodMaxOut > c10wClientQueue {
			ex = "exceeded"
		}
		link := a.Ep.Link
		if link == "" {
			link = "no-client-queue"
		}
		return true, a.Ep.Layer + "|" + link + "|" + ex
	}

	for _, rc := range conns {
		if !rc.DialOK {
			continue
		}
		local.Conns++
		seen := map[uint64]bool{}
		lastN := map[int]int{}
		errsFor := map[string]int{}
		sendsTo := map[string]int{}
		for i := range rc.sends {
			if rc.sends[i].To != "" {
				sendsTo[rc.sends[i].To]++
			}
		}
		log := rc.snapshotLog()
		for i := range log {
			rec := &log[i]
			if rec.Bad != "" {
				e.R.Violate("unattributable-frame", "a client received a frame that is not a JSON envelope", caseOf(rc, nil, rec), nil)
				continue
			}
			env := rec.Env
			var p c10Payload
			isOurs := len(env.Payload) > 0 && json.Unmarshal(env.Payload, &p) == nil && p.VF == "c10w"
			if !isOurs {
				if env.From != "server" {
					e.R.Violate("unattributable-envelope", "a client received an envelope that neither the server nor any harness client authored", caseOf(rc, nil, rec), nil)
					continue
				}
				local.ServerEnvs[env.Type]++
				if env.Type == protocol.TypeError {
					var pe protocol.Error
					_ = env.DecodePayload(&pe)
					if pe.Code == "peer_not_found" {
						local.NotFound++
						to := strings.TrimPrefix(pe.Message, "target peer not found: ")
						errsFor[to]++
						if errsFor[to] > sendsTo[to] {
							e.R.Violate("notfound:unsolicited", fmt.Sprintf("peer_not_found about %q reached a connection that had addressed that id %d times (error #%d)", to, sendsTo[to], errsFor[to]), caseOf(rc, nil, rec), nil)
						}
					}
				}
				continue
			}
			s := byG[p.G]
			if s == nil {
				e.R.Violate("unattributable-envelope", "received payload carries a global id nobody sent", caseOf(rc, nil, rec), nil)
				continue
			}
			a := conns[s.A]
			al, leave, _ := epOf(a)
			local.Checked++
			if !s.Routable {
				e.R.Count("diag_invalid_input_forwarded") // not forbidden by the property; still checked below
			}
			e.R.Distinct(fmt.Sprintf("via-%s|%s|%s|%s|from:%s|sid:%s|read-by-%s", al, leave, s.Kind, s.Target, s.FromClass, s.SidClass, rc.Layer))
			if a.Sess != rc.Sess {
				e.R.Violate("isolation:cross-session:"+s.Kind+":"+s.Target+":via-"+al,
					fmt.Sprintf("a %s message (%s) authored in session %d was delivered to a peer of session %d", s.Kind, s.Target, a.Sess, rc.Sess), caseOf(rc, s, rec), nil)
				continue
			}
			if env.From != a.PeerID {
				e.R.Violate("true-sender:from-class:"+s.FromClass+":via-"+al,
					fmt.Sprintf("recipient saw from=%q but the author connected as %q (author wrote from-class %s)", env.From, a.PeerID, s.FromClass), caseOf(rc, s, rec), nil)
			}
			if env.SessionID != rd.sess[rc.Sess].ID {
				e.R.Violate("session-id-field:"+s.SidClass+":via-"+al,
					fmt.Sprintf("recipient saw session_id=%q in session %q (author wrote sid-class %s)", env.SessionID, rd.sess[rc.Sess].ID, s.SidClass), caseOf(rc, s, rec), nil)
			}
			if s.To != "" {
				if rc.PeerID != s.To {
					e.R.Violate("addressed:wrong-recipient:"+s.Target+":via-"+al, fmt.Sprintf("message addressed to %q was delivered to %q", s.To, rc.PeerID), caseOf(rc, s, rec), nil)
				}
				if env.To != s.To {
					e.R.Violate("addressed:to-field-altered", fmt.Sprintf("to=%q on the wire, %q at the recipient", s.To, env.To), caseOf(rc, s, rec), nil)
				}
			} else if env.To != "" {
				e.R.Violate("broadcast:to-field-set", fmt.Sprintf("broadcast arrived with to=%q", env.To), caseOf(rc, s, rec), nil)
			}
			if seen[p.G] {
				e.R.Violate("duplicate:"+s.Kind+":via-"+al+":read-by-"+rc.Layer, "the same message was delivered twice to one connection", caseOf(rc, s, rec), nil)
			} else if p.N <= lastN[s.A] {
				key := "reorder:" + s.Kind + ":via-" + al + ":read-by-" + rc.Layer
				var det any
				if a.Ep != nil && strings.HasPrefix(a.Ep.BurstClass, "flood") {
					key += ":burst-" + a.Ep.BurstClass
					det = map[string]any{"max_envelopes_accepted_and_not_yet_written_by_the_client": a.FloodMaxOut, "client_queue": c10wClientQueue,
						"accepted_when_the_link_was_released": a.FloodAtRelease}
				}
				e.R.Violate(key, fmt.Sprintf("message n=%d of connection %d arrived after n=%d (one author goroutine called Send in the order of n)", p.N, s.A, lastN[s.A]), caseOf(rc, s, rec), det)
			} else {
				lastN[s.A] = p.N
			}
			if fl, fk := floodOf(a); fl {
				local.FloodOrder[fk+"|read-by-"+rc.Layer]++
				e.R.Distinct(fmt.Sprintf("order|via-%s|%s|%s|read-by-%s", al, a.Ep.BurstClass, s.Kind, rc.Layer))
			}
			seen[p.G] = true
			if p != s.Pay || env.Type != s.Type {
				e.R.Violate("content-altered:"+s.Kind, "payload or type differs from what the author sent", caseOf(rc, s, rec), nil)
			}
			if rec.T < s.T0 {
				e.R.Violate("harness:clock", "message received before it was sent", caseOf(rc, s, rec), nil)
			}
		}
	}

	// no loss: every accepted message destined to a staying member (connected before the first wave, reading
	// until after the final barrier) is in that member's log
	for _, a := range conns {
		if !a.DialOK {
			continue
		}
		al, leave, bc := epOf(a)
		if a.Ep != nil && a.Part == 0 {
			local.Episodes[al+"|"+leave+"|"+bc]++
		}
		if fl, fk := floodOf(a); fl {
			local.FloodEpisodes[fk]++
			if a.FloodMaxOut > local.FloodMaxOut {
				local.FloodMaxOut = a.FloodMaxOut
			}
		}
		for i := range a.sends {
			s := &a.sends[i]
			if !s.Accepted {
				continue
			}
			local.Accepted++
			if s.Kind == "barrier" || !s.Routable {
				continue
			}
			for _, m := range rd.sess[a.Sess].Stay {
				if (s.To != "" && s.To != m.PeerID) || (s.To == "" && m == a) {
					continue
				}
				cls := fmt.Sprintf("%s|%s|%s|read-by-%s", al, leave, s.Kind, m.Layer)
				if !rd.settled {
					local.NotJudged["round-unsettled"]++
					continue
				}
				if re := m.readEndAt(); re > 0 && re < endT {
					local.NotJudged["recipient-read-ended"]++
					continue
				}
				local.Judged[cls]++
				if s.Tail {
					local.Tails[al+"|"+leave]++
				}
				if m.hasG(s.G) {
					e.R.Distinct("no-loss|" + cls + "|burst:" + bc)
					continue
				}
				local.Lost++
				later := 0
				for j := i + 1; j < len(a.sends); j++ {
					if a.sends[j].Accepted && m.hasG(a.sends[j].G) {
						later++
					}
				}
				key := "loss:author-stays:via-" + al
				if a.Ep != nil {
					mode := "prompt"
					if a.Ep.Leave == "linger" {
						mode = "linger"
					}
					key = fmt.Sprintf("loss:author-leaves:via-%s:%s:inbound-%s", al, mode, a.Ep.Inbound)
				}
				e.R.Violate(key,
					fmt.Sprintf("message n=%d (%s, position %d of its burst, last=%v) accepted from connection %d (%s, %s, leave mode %s) never reached staying member %q (connection %d, read through %s), which was connected before the author and kept reading until after every author handler had exited and a barrier had flushed its channel; %d later messages of that connection did arrive",
						s.N, s.Kind, s.Pos, s.Tail, a.Idx, a.PeerID, al, leave, m.PeerID, m.Idx, m.Layer, later),
					caseOf(m, s, nil), map[string]any{"accepted_sends_of_connection": len(a.sends), "recipient_log_len": len(m.snapshotLog()),
						"author_saw_its_peer_list": a.sawType(protocol.TypePeerList), "envelopes_received_by_author_connection": len(a.snapshotLog()),
						"server_lines_failed_to_send_peer_list": rd.srv.LogCount(`msg="failed to send peer list"`)})
			}
		}
	}

	local.Rounds = 1
	if rd.settled {
		local.Settled = 1
	}
	agg.mu.Lock()
	defer agg.mu.Unlock()
	agg.merge(local)
	nj := 0
	for _, v := range local.Judged {
		nj += v
	}
	e.R.EvalN(local.Checked)
	e.R.Sample(map[string]any{"stage": "wsclient", "round": rd.cfg, "settled": rd.settled, "connections": local.Conns, "episodes": local.Episodes,
		"messages_accepted": local.Accepted, "envelopes_checked": local.Checked, "no_loss_pairs_judged": nj, "first_episode": firstEpisode(rd)})
	_ = endT
}

func firstEpisode(rd *c10wRound) any {
	rd.mu.Lock()
	defer rd.mu.Unlock()
	if len(rd.episodes) == 0 {
		return nil
	}
	return rd.episodes[0]
}

func runC10WS(e *Env) {
	r := vk.NewRng(e.Seed ^ vk.HashStr("c10ws"+e.Tier))
	e.R.Rule = "one case = a send-then-leave episode against the real thruserv: an author connects (real internal/wsclient Dial+ReadLoop+Send+Close, or a raw socket), sends a burst (single / few / many / more than the client queue; flood: 330-480 routable envelopes from one goroutine while the client's link is stalled or simply slower than the author, so that more than 256 are outstanding in the client) of addressed / broadcast / spoofed-header envelopes and leaves at once (close-now, yield-close, reconnect under the same id, linger as control; raw: abrupt close / close frame) while staying members (raw readers and readers through the real wsclient.ReadLoop) keep reading and send noise; an envelope counts when it was delivered and checked against the author's send log (routing, true sender, no duplicate, per-connection order) – distinct by (author layer, leave mode, kind, addressee relation, from class, session_id class, reader layer) – and a (message, staying recipient) pair counts when no-loss was judged for it after the round settled – distinct by (author layer, leave mode, kind, reader layer, burst class)"
	rounds := e.Pick(6, 24)
	floods := e.Pick(3, 8)
	cfgs := make([]c10wRoundCfg, rounds, rounds+floods)
	for i := range cfgs {
		cfgs[i] = c10wRoundCfg{Round: i, Seed: r.U64(), Sessions: 2 + i%2, Waves: e.Pick(12, 40), Slots: 3 + i%2}
	}
	for i := 0; i < floods; i++ {
		cfgs = append(cfgs, c10wRoundCfg{Round: rounds + i, Seed: r.U64(), Sessions: 2, Waves: e.Pick(8, 20), Slots: 3, Flood: true})
	}
	// every round runs in a child process of its own: the judged client library starts goroutines of its own,
	// and a panic there cannot be recovered by the harness; the child journals every episode it begins / ends
	agg := newC10wAgg()
	crashed := c10wRunRoundsInChildren(e, cfgs, agg)
	rounds += floods

	sum := func(m map[string]int, pred func(string) bool) int {
		n := 0
		for k, v := range m {
			if pred(k) {
				n += v
			}
		}
		return n
	}
	has := func(sub string) func(string) bool { return func(k string) bool { return strings.Contains(k, sub) } }
	e.R.SetExtra("rounds_judged", agg.Rounds)
	e.R.SetExtra("rounds_settled", agg.Settled)
	e.R.SetExtra("connections", agg.Conns)
	e.R.SetExtra("episodes_by_layer_leave_burst", agg.Episodes)
	e.R.SetExtra("messages_accepted", agg.Accepted)
	e.R.SetExtra("envelopes_delivered_and_checked", agg.Checked)
	e.R.SetExtra("no_loss_pairs_judged_by_author_leave_kind_reader", agg.Judged)
	e.R.SetExtra("no_loss_tail_messages_judged_by_author_leave", agg.Tails)
	e.R.SetExtra("no_loss_pairs_not_judged", agg.NotJudged)
	e.R.SetExtra("no_loss_pairs_lost", agg.Lost)
	e.R.SetExtra("server_envelopes_seen", agg.ServerEnvs)
	e.R.SetExtra("peer_not_found_seen", agg.NotFound)

	e.R.Require(agg.Settled >= (rounds*2+2)/3, fmt.Sprintf("only %d of %d send-then-leave rounds settled", agg.Settled, rounds))
	for _, cls := range []string{"wsclient|close-now|inbound-quiet", "wsclient|close-now|inbound-busy-greeted", "wsclient|close-now|inbound-busy-ungreeted",
		"wsclient|yield-close|inbound-quiet", "wsclient|yield-close|inbound-busy-greeted", "wsclient|reconnect|inbound-busy-greeted",
		"wsclient|linger|inbound-quiet", "wsclient|linger|inbound-busy-greeted",
		"raw|eof|inbound-quiet", "raw|eof|inbound-busy-greeted", "raw|eof|inbound-busy-ungreeted",
		"raw|close-frame|inbound-quiet", "raw|close-frame|inbound-busy-greeted", "raw|close-frame|inbound-busy-ungreeted"} {
		min := e.Pick(40, 300)
		if strings.Contains(cls, "yield-close") || strings.Contains(cls, "linger") || strings.Contains(cls, "ungreeted") {
			min = e.Pick(12, 100)
		}
		n := sum(agg.Judged, func(k string) bool { return strings.HasPrefix(k, cls+"|") })
		e.R.Require(n >= min, fmt.Sprintf("only %d (message, staying recipient) pairs of class %q were judged for no-loss", n, cls))
		t := agg.Tails[cls]
		e.R.Require(t >= min/4, fmt.Sprintf("only %d last-of-burst messages of class %q were judged for no-loss", t, cls))
	}
	e.R.Require(sum(agg.Judged, has("read-by-wsclient")) >= e.Pick(200, 2000), "too few no-loss pairs whose recipient reads through wsclient.ReadLoop")
	e.R.Require(sum(agg.Episodes, has("|single")) >= e.Pick(20, 150) && sum(agg.Episodes, has("|many")) >= e.Pick(20, 150),
		"too few single-message or long-burst episodes")
	e.R.Require(sum(agg.Episodes, has("|overflow")) >= 1, "no episode with more messages than the client send queue ran")

	// flood bursts: per-connection order judged at staying members for authors through the real wsclient that had
	// more envelopes outstanding than the client queue holds
	e.R.SetExtra("round_processes", map[string]any{"started": len(cfgs), "died_or_without_report": crashed})
	e.R.SetExtra("flood_episodes_by_layer_link_queue_exceeded", agg.FloodEpisodes)
	e.R.SetExtra("flood_envelopes_order_checked_by_layer_link_queue_exceeded_reader", agg.FloodOrder)
	e.R.SetExtra("flood_max_envelopes_accepted_and_not_yet_written_by_the_client", agg.FloodMaxOut)
	e.R.Require(crashed == 0, fmt.Sprintf("%d round processes died or wrote no report", crashed))
	e.R.Require(agg.FloodEpisodes["wsclient|stalled|exceeded"] >= e.Pick(8, 40),
		fmt.Sprintf("only %d stalled-link flood episodes through wsclient had more than %d envelopes outstanding in the client", agg.FloodEpisodes["wsclient|stalled|exceeded"], c10wClientQueue))
	e.R.Require(sum(agg.FloodEpisodes, has("wsclient|free|")) >= e.Pick(3, 15), "too few free-link flood episodes through wsclient")
	for _, rl := range []string{"raw", "wsclient"} {
		n := agg.FloodOrder["wsclient|stalled|exceeded|read-by-"+rl]
		e.R.Require(n >= e.Pick(800, 4000), fmt.Sprintf("only %d envelopes of queue-exceeding bursts were order-checked at staying members reading through %s", n, rl))
	}
	e.R.Require(sum(agg.Judged, has("wsclient|linger|inbound-quiet|")) >= 1 && sum(agg.Episodes, has("|flood-stalled")) >= 1, "no flood episode was judged for no-loss")
}
