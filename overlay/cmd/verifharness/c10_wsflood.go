//go:build verif

package main

// C10, stage "wsclient" – (1) process isolation of the rounds, (2) flood bursts.
//
// (1) The judged client library (internal/wsclient) runs goroutines of its own
// (writeLoop, and whatever a change adds). A panic there takes the process down
// and cannot be recovered by the caller, so every round of the stage runs in a
// child process (role "c10wsround") that journals each episode when it begins
// and when it has ended and writes a report of its own; the stage process
// merges the reports, and attributes the death of a child to the episodes that
// were in flight: a Go crash whose panicking goroutine is inside repository code
// (not harness / kit code) is a violation – the author process of a sequential
// Dial / ReadLoop / Send … / Close history died and took its accepted envelopes
// with it –, anything else (harness bug, timeout, killed) is inconclusive.
//
// (2) "never reordered" for authors through the real wsclient that have more
// envelopes outstanding than the client's send queue holds (256). One author
// goroutine calls Send 330-480 times in the order of its per-connection
// sequence numbers; every envelope is routable (addressed round-robin to the
// staying members, one in ten broadcast), so the order is visible at every
// staying member. Two link classes:
//   stalled  the TCP connection underneath the client (a net.Conn wrapper put
//            there through the dialer, everything above it is the repository's
//            code) takes no byte from the start of the burst until the author
//            has made its 258th Send call – 256 queued + 1 in the writer's hand
//            + the call that finds the queue full; decided by counting calls –
//            and is then released: a link that is briefly not drained;
//   free     nothing is held back, the burst simply outruns the writer; the
//            wrapper only counts frames, "queue exceeded" is an observation.
// Flood authors linger until the whole burst is at its destinations and only
// then call Close (nothing is outstanding at Close), in quiet sessions (one
// author at a time, staying members silent), at most ~210 messages per
// recipient in flight (server channel: 256), so no-loss is judged as well.

import (
	"context"
	"encoding/json"
	"flag"
	"fmt"
	"net"
	"os"
	"os/exec"
	"path/filepath"
	"runtime"
	"runtime/debug"
	"strings"
	"sync"
	"sync/atomic"
	"time"

	vk "github.com/sheerbytes/sheerbytes/internal/verifkit"
	"github.com/sheerbytes/sheerbytes/internal/wsclient"
	"github.com/sheerbytes/sheerbytes/pkg/protocol"
)

func init() { childCommands["c10wsround"] = c10wRoundChildMain }

const c10wClientQueue = 256 // capacity of wsclient.Conn's send queue on the unchanged tree

// ---------------------------------------------------------------------------
// link: frame counter and stall gate underneath a real wsclient connection

type c10wLinkKey struct{}

type c10wLink struct {
	mu     sync.Mutex
	gate   chan struct{} // non-nil while stalled; closed on release
	writes atomic.Int64  // completed Write calls (one per WebSocket frame for envelopes below the write buffer size)
}

func (l *c10wLink) stall() {
	l.mu.Lock()
	if l.gate == nil {
		l.gate = make(chan struct{})
	}
	l.mu.Unlock()
}

func (l *c10wLink) release() {
	l.mu.Lock()
	if l.gate != nil {
		close(l.gate)
		l.gate = nil
	}
	l.mu.Unlock()
}

func (l *c10wLink) wait() {
	l.mu.Lock()
	g := l.gate
	l.mu.Unlock()
	if g == nil {
		return
	}
	select {
	case <-g:
	case <-time.After(20 * time.Second): // never a verdict: the episode's own watchdog reports it
	}
}

type c10wLinkConn struct {
	net.Conn
	l *c10wLink
}

func (c *c10wLinkConn) Write(p []byte) (int, error) {
	c.l.wait()
	n, err := c.Conn.Write(p)
	c.l.writes.Add(1)
	return n, err
}

// c10wNetDial is installed as the client dialer's NetDialContext in the round process: a plain TCP dial, wrapped
// when the caller put a link into the context.
func c10wNetDial(ctx context.Context, network, addr string) (net.Conn, error) {
	var d net.Dialer
	c, err := d.DialContext(ctx, network, addr)
	if err != nil {
		return nil, err
	}
	if l, ok := ctx.Value(c10wLinkKey{}).(*c10wLink); ok && l != nil {
		return &c10wLinkConn{Conn: c, l: l}, nil
	}
	return c, nil
}

// ---------------------------------------------------------------------------
// flood episodes

func (rd *c10wRound) planFloodWave(r *vk.Rng, s, wave int) (eps []*c10wEpisode) {
	si := rd.sess[s]
	w := 1 + r.Intn(2)
	for k := 0; k < w; k++ {
		slot := r.Intn(len(si.Slots))
		ep := &c10wEpisode{Round: rd.cfg.Round, Wave: wave, Sess: s, Slot: slot, K: k, PeerID: si.Slots[slot], Seed: r.U64(),
			Inbound: "quiet", Pace: "tight", Wait: "own-peer_joined"}
		switch x := r.Intn(20); {
		case x < 11:
			ep.Layer, ep.Leave, ep.Link, ep.BurstClass = "wsclient", "linger", "stalled", "flood-stalled"
		case x < 17:
			ep.Layer, ep.Leave, ep.Link, ep.BurstClass = "wsclient", "linger", "free", "flood-free"
		default: // control: the same burst written synchronously to a raw socket (no client queue)
			ep.Layer, ep.Leave, ep.BurstClass = "raw", []string{"eof", "close-frame"}[r.Intn(2)], "flood-free"
		}
		// at most 480*0.9/3 + 48 = 192 (+ notices) messages per recipient, fewer than the server's per-peer channel holds
		ep.Bursts = []int{c10wClientQueue + 2 + 72 + r.Intn(151)}
		eps = append(eps, ep)
	}
	return eps
}

// floodBurst sends n routable envelopes from this one goroutine, back to back, in the order of the connection's
// sequence numbers. The envelopes are built beforehand so that the loop is little more than the Send calls.
// Returns a copy of the send-log records of the burst.
func (rd *c10wRound) floodBurst(r *vk.Rng, ep *c10wEpisode, c *c10wConn, n int) []c10wSend {
	type item struct {
		env protocol.Envelope
		rec c10wSend
	}
	stay := rd.sess[ep.Sess].Stay
	c.sendMu.Lock()
	defer c.sendMu.Unlock()
	if c.closed.Load() {
		return nil
	}
	items := make([]item, n)
	rr := r.Intn(len(stay))
	for i := range items {
		op := c10wOp{Type: c10Types[r.Intn(len(c10Types))]}
		if r.Intn(10) == 0 {
			op.Kind, op.Target = "broadcast", "none"
		} else {
			m := stay[rr%len(stay)]
			rr++
			op.Kind, op.To, op.Target = "addressed", m.PeerID, c10wStayClass(m)
		}
		rd.hostile(r, c, &op)
		items[i].env, items[i].rec = rd.prep(c, op, ep.Wave, i, i == n-1)
	}
	first := len(c.sends)
	if c.Layer == "raw" {
		for i := range items {
			items[i].rec.T0 = vk.MonoNow()
			err := c.raw.SendJSON(items[i].env)
			items[i].rec.Accepted = err == nil
			c.sends = append(c.sends, items[i].rec)
			if err != nil {
				break
			}
		}
		return append([]c10wSend(nil), c.sends[first:]...)
	}

	var calls, returned atomic.Int64
	var over atomic.Bool
	base := c.link.writes.Load() // the upgrade request went through the link as well
	opened := make(chan struct{})
	atRelease := 0
	if ep.Link == "stalled" {
		c.link.stall()
		need := int64(min(n, c10wClientQueue+2))
		go func() {
			defer close(opened)
			// released by count: the author has made the call that finds the queue full (on the unchanged tree it
			// blocks in that call until the link is released)
			if !c10wWait(func() bool { return calls.Load() >= need || over.Load() }, c10wDialWait) {
				rd.note(fmt.Sprintf("flood author %q: only %d of %d Send calls made while the link was stalled (watchdog)", ep.PeerID, calls.Load(), need))
			}
			// exposure only, never a verdict: an author whose Send does not block can run further ahead of the writer
			for i := 0; i < 300 && calls.Load() < int64(min(n, c10wClientQueue+2+96)); i++ {
				if i < 40 {
					runtime.Gosched()
				} else {
					time.Sleep(20 * time.Microsecond)
				}
			}
			atRelease = int(returned.Load() - (c.link.writes.Load() - base))
			c.link.release()
		}()
	} else {
		close(opened)
	}
	maxOut := 0
	for i := range items {
		calls.Add(1)
		items[i].rec.T0 = vk.MonoNow()
		err := c.wc.Send(items[i].env)
		returned.Add(1)
		items[i].rec.Accepted = err == nil
		c.sends = append(c.sends, items[i].rec)
		if err != nil {
			break
		}
		// accepted by Send and not yet written to the TCP connection (queued, in the writer's hand, or wherever
		// the client keeps them)
		if out := i + 1 - int(c.link.writes.Load()-base); out > maxOut {
			maxOut = out
		}
	}
	over.Store(true) // (a burst that ended early)
	<-opened
	c.FloodMaxOut, c.FloodAtRelease = maxOut, atRelease
	return append([]c10wSend(nil), c.sends[first:]...)
}

// ---------------------------------------------------------------------------
// journal (child side)

var c10wJournal struct {
	mu sync.Mutex
	f  *os.File
}

func c10wJournalLine(kind string, ep *c10wEpisode) {
	c10wJournal.mu.Lock()
	defer c10wJournal.mu.Unlock()
	if c10wJournal.f == nil {
		return
	}
	b, _ := json.Marshal(ep)
	// one write call per line, unbuffered: complete lines survive the death of the process. The id of the author
	// goroutine lets the parent map the crashing goroutine of a crash report ("goroutine N [running]" / "created
	// by … in goroutine N") to the episode even when the episode has ended in the meantime.
	_, _ = c10wJournal.f.WriteString(kind + "\t" + ep.id() + "\t" + c10wGoID() + "\t" + string(b) + "\n")
}

func c10wGoID() string {
	var buf [64]byte
	f := strings.Fields(string(buf[:runtime.Stack(buf[:], false)]))
	if len(f) >= 2 && f[0] == "goroutine" {
		return f[1]
	}
	return "?"
}

// ---------------------------------------------------------------------------
// round processes

// c10wRoundChildMain is the child role: verifharness c10wsround -cfg JSON -tier T -seed N -bindir D -work D -out F -journal F
func c10wRoundChildMain(args []string) int {
	fs := flag.NewFlagSet("c10wsround", flag.ExitOnError)
	cfgS := fs.String("cfg", "", "round configuration (JSON)")
	tier := fs.String("tier", "quick", "")
	seed := fs.Uint64("seed", 1, "")
	bindir := fs.String("bindir", "", "")
	work := fs.String("work", "", "")
	out := fs.String("out", "", "")
	journal := fs.String("journal", "", "")
	_ = fs.Parse(args)
	var cfg c10wRoundCfg
	if err := json.Unmarshal([]byte(*cfgS), &cfg); err != nil {
		fmt.Fprintln(os.Stderr, "c10wsround: bad -cfg:", err)
		return 3
	}
	debug.SetTraceback("all")
	jf, err := os.OpenFile(*journal, os.O_CREATE|os.O_WRONLY|os.O_TRUNC|os.O_APPEND, 0644)
	if err != nil {
		fmt.Fprintln(os.Stderr, "c10wsround:", err)
		return 3
	}
	c10wJournal.f = jf
	defer jf.Close()
	wsclient.VerifSetNetDialContext(c10wNetDial)
	e := &Env{Prop: "c10ws", Stage: fmt.Sprintf("round%d", cfg.Round), Tier: *tier, Seed: *seed, Work: *work, BinDir: *bindir}
	e.R = vk.NewReport("c10ws", e.Stage, *tier, *seed)
	agg := newC10wAgg()
	c10wRunRound(e, cfg, agg)
	e.R.SetExtra("agg", agg)
	if err := e.R.Write(*out); err != nil {
		fmt.Fprintln(os.Stderr, "c10wsround:", err)
		return 3
	}
	return 0
}

type c10wRoundReport struct {
	Evaluations  int            `json:"evaluations"`
	DistinctKeys []string       `json:"distinct_keys"`
	Samples      []any          `json:"samples"`
	Violations   []vk.Violation `json:"violations"`
	Inconclusive []string       `json:"inconclusive"`
	Extra        struct {
		Counters map[string]int `json:"counters"`
		Agg      *c10wAgg       `json:"agg"`
	} `json:"extra"`
}

var c10wRoundTimeout = 8 * time.Minute // watchdog of one round process; never a verdict

// c10wRunRoundsInChildren runs every round in a process of its own and merges the reports into e.R / agg.
// Returns the number of round processes that died or wrote no report.
func c10wRunRoundsInChildren(e *Env, cfgs []c10wRoundCfg, agg *c10wAgg) int {
	var mu sync.Mutex
	died := 0
	vk.ParallelDo(len(cfgs), e.Pick(3, 4), func(i int) {
		cfg := cfgs[i]
		cj, _ := json.Marshal(cfg)
		out := filepath.Join(e.Work, fmt.Sprintf("c10ws-round-%03d.json", cfg.Round))
		jp := filepath.Join(e.Work, fmt.Sprintf("c10ws-round-%03d.journal", cfg.Round))
		errp := filepath.Join(e.Work, fmt.Sprintf("c10ws-round-%03d.stderr", cfg.Round))
		ef, _ := os.Create(errp)
		ctx, cancel := context.WithTimeout(context.Background(), c10wRoundTimeout)
		cmd := exec.CommandContext(ctx, os.Args[0], "c10wsround", "-cfg", string(cj), "-tier", e.Tier, "-seed", fmt.Sprint(e.Seed),
			"-bindir", e.BinDir, "-work", e.Work, "-out", out, "-journal", jp)
		cmd.Stdout, cmd.Stderr = ef, ef
		err := cmd.Run()
		timedOut := ctx.Err() != nil
		cancel()
		if ef != nil {
			ef.Close()
		}
		var rep c10wRoundReport
		data, rerr := os.ReadFile(out)
		mu.Lock()
		defer mu.Unlock()
		if err == nil && rerr == nil && json.Unmarshal(data, &rep) == nil && rep.Extra.Agg != nil {
			e.R.EvalN(rep.Evaluations)
			for _, k := range rep.DistinctKeys {
				e.R.Distinct(k)
			}
			for _, s := range rep.Samples {
				e.R.Sample(s)
			}
			for _, v := range rep.Violations {
				e.R.Violate(v.Key, v.What, v.Case, v.Detail)
			}
			for _, n := range rep.Inconclusive {
				e.R.Inconcl(n)
			}
			for k, n := range rep.Extra.Counters {
				switch {
				case k == "inconclusive":
				case strings.HasPrefix(k, "violation:"):
					e.R.CountN("all_"+k, n)
				default:
					e.R.CountN(k, n)
				}
			}
			agg.merge(rep.Extra.Agg)
			return
		}
		// the round process died: attribute it to the episodes it had begun and not ended
		died++
		errText, _ := os.ReadFile(errp)
		inFlight, byGo := c10wReadJournal(jp)
		crash := c10wParseCrash(string(errText))
		cs := map[string]any{"round": cfg, "stage": "wsclient", "episodes_in_flight": inFlight}
		var culprit *c10wEpisode // the episode whose author goroutine crashed or started the crashing goroutine
		for _, id := range crash.GoIDs {
			if ep := byGo[id]; ep != nil && culprit == nil {
				culprit = ep
			}
		}
		switch {
		case timedOut:
			e.R.Inconcl(fmt.Sprintf("wsclient round %d: the round process exceeded %s and was killed", cfg.Round, c10wRoundTimeout))
		case crash.Headline == "":
			e.R.Inconcl(fmt.Sprintf("wsclient round %d: the round process ended abnormally (%v) without a Go crash report; %d episodes in flight", cfg.Round, err, len(inFlight)))
		case !crash.InRepo:
			e.R.Inconcl(fmt.Sprintf("wsclient round %d: the round process crashed in harness code (%s); %d episodes in flight", cfg.Round, crash.Headline, len(inFlight)))
		default:
			var key string
			var worst *c10wEpisode
			if culprit != nil && culprit.Layer == "wsclient" {
				key, worst = c10wCrashKey([]*c10wEpisode{culprit})
				cs["attribution"] = "the crashing goroutine is, or was started by, the author goroutine of this episode"
			} else {
				key, worst = c10wCrashKey(inFlight)
				cs["attribution"] = "episode in flight with the largest burst"
			}
			if worst != nil {
				cs["episode"] = worst
			}
			e.R.Violate(key, fmt.Sprintf("the client process died of a Go crash inside the repository's code (%s; crashing goroutine: %s) while every connection of the round was used sequentially (Dial, ReadLoop in a goroutine, Send … from one goroutine, then Close – never Send and Close concurrently): the authors of the %d episodes in flight are gone together with the envelopes Send had accepted from them",
				crash.Headline, crash.TopRepoFrame, len(inFlight)), cs, map[string]any{"crash_report_head": crash.Head})
		}
	})
	return died
}

// c10wReadJournal reads a round journal: episodes begun and not ended, and the latest episode begun by each
// author goroutine.
func c10wReadJournal(path string) (inFlight []*c10wEpisode, byGo map[string]*c10wEpisode) {
	byGo = map[string]*c10wEpisode{}
	data, err := os.ReadFile(path)
	if err != nil {
		return nil, byGo
	}
	open := map[string]*c10wEpisode{}
	var order []string
	for _, ln := range strings.Split(string(data), "\n") {
		f := strings.SplitN(ln, "\t", 4)
		if len(f) < 4 {
			continue // (a torn last line)
		}
		switch f[0] {
		case "B":
			var ep c10wEpisode
			if json.Unmarshal([]byte(f[3]), &ep) == nil {
				open[f[1]] = &ep
				order = append(order, f[1])
				byGo[f[2]] = &ep
			}
		case "E":
			delete(open, f[1])
		}
	}
	for _, id := range order {
		if ep := open[id]; ep != nil {
			inFlight = append(inFlight, ep)
			delete(open, id)
		}
	}
	return inFlight, byGo
}

type c10wCrash struct {
	Headline     string // "panic: …" / "fatal error: …" line
	InRepo       bool   // the crashing goroutine has a frame in repository code that is not harness / kit code
	TopRepoFrame string
	Head         string
	GoIDs        []string // id of the crashing goroutine and of the goroutine that created it
}

// c10wParseCrash finds the Go crash report in the stderr of a round process and classifies the crashing goroutine
// (the first goroutine block after the headline).
func c10wParseCrash(text string) c10wCrash {
	var cr c10wCrash
	at := -1
	for _, mark := range []string{"\npanic: ", "\nfatal error: "} {
		if i := strings.Index("\n"+text, mark); i >= 0 && (at < 0 || i < at) {
			at = i
		}
	}
	if at < 0 {
		return cr
	}
	rest := text[at:]
	cr.Headline = strings.SplitN(rest, "\n", 2)[0]
	cr.Head = rest[:min(len(rest), 2500)]
	g := strings.Index(rest, "\ngoroutine ")
	if g < 0 {
		return cr
	}
	block := rest[g+1:]
	if end := strings.Index(block, "\n\n"); end >= 0 {
		block = block[:end]
	}
	if f := strings.Fields(block); len(f) >= 2 {
		cr.GoIDs = append(cr.GoIDs, f[1])
	}
	if i := strings.LastIndex(block, " in goroutine "); i >= 0 && strings.Contains(block[:i], "created by ") {
		if f := strings.Fields(block[i+len(" in goroutine "):]); len(f) > 0 {
			cr.GoIDs = append(cr.GoIDs, f[0])
		}
	}
	const mod = "github.com/sheerbytes/sheerbytes/"
	for _, ln := range strings.Split(block, "\n") {
		if !strings.HasPrefix(ln, mod) || strings.HasPrefix(ln, mod+"internal/verifkit.") || strings.HasPrefix(ln, mod+"internal/verifhook.") {
			continue
		}
		cr.InRepo = true
		if i := strings.LastIndex(ln, "("); i > 0 {
			ln = ln[:i]
		}
		cr.TopRepoFrame = strings.TrimPrefix(ln, mod)
		break
	}
	return cr
}

// c10wCrashKey names the history class of a client crash after the in-flight episode with the largest burst.
func c10wCrashKey(inFlight []*c10wEpisode) (string, *c10wEpisode) {
	rank := map[string]int{"single": 1, "few": 2, "many": 3, "overflow": 4, "flood-free": 5, "flood-stalled": 6}
	var worst *c10wEpisode
	for _, ep := range inFlight {
		if ep.Layer != "wsclient" {
			continue
		}
		if worst == nil || rank[ep.BurstClass] > rank[worst.BurstClass] {
			worst = ep
		}
	}
	if worst == nil {
		return "crash:client-process:via-wsclient:no-author-episode-in-flight", nil
	}
	mode := "prompt"
	if worst.Leave == "linger" {
		mode = "linger"
	}
	return fmt.Sprintf("crash:author-leaves:via-wsclient:%s:burst-%s", mode, worst.BurstClass), worst
}
