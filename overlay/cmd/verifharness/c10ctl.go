//go:build verif

package main

// C10, two further dimensions of stage main (both against the real thruserv):
//
// (1) Sessions born through join-code collisions. Some rounds run on a server whose
//     join-code draws are dictated (shim internal/session/zz_verif_export_c14.go: env
//     VERIF_JOINCODE_PLAN -> verifhook.Override("session.joincode")): the first draw(s) of
//     every session after the first equal codes of sessions that are live. The clients then
//     join with the code the server's POST /session answer gave them, and the ordinary round
//     (stable + churn phases, cross-session oracle) runs on top. Added oracle ("admission"): a
//     client that joined with the code the server handed out for session X is greeted as a
//     member of X (peer_list session_id) and its peer_list names no id that exists only in
//     another session.
//
// (2) Control frames from clients followed by time. A round in which, after an ordinary
//     stable phase, the members send WebSocket control frames (ping, ping with payload,
//     unsolicited pong, ping burst, mixed; one member per session sends none), stay idle for
//     a number of real seconds (no close, no traffic) and then exchange addressed / broadcast
//     messages again. No-loss after the idle period: complete per counting (every recipient
//     has the last expected message of every author; FIFO => everything earlier must be in
//     the log). A recipient that stays incomplete is judged by the bounded-progress rule
//     (DESIGN.md §1): watchdog expired, nothing arrived at it for the second half of the
//     watchdog, its socket is still open, and a canary (a client that joins the same session
//     afterwards and exchanges messages with the member that sent no control frame, which
//     itself is complete) is served normally; otherwise inconclusive.

import (
	"encoding/json"
	"fmt"
	"os"
	"path/filepath"
	"strings"
	"sync"
	"time"

	"github.com/gorilla/websocket"
	vk "github.com/sheerbytes/sheerbytes/internal/verifkit"
)

// ---------------------------------------------------------------------------
// (1) join-code collisions

var c10CollideKinds = []string{"pair", "chain", "first"}

// c10Plan dictates the join-code draws of the next POST /session of one server process.
type c10Plan struct {
	path  string
	gen   int
	kind  string
	seed  uint64
	draws [][]string // per session: the draws that were dictated
}

func c10Code(seed uint64, k int) string {
	const chars = "ABCDEFGHJKLMNPQRSTUVWXYZ23456789"
	v := vk.Mix(seed ^ uint64(k+1)*0x9e3779b97f4a7c15)
	b := make([]byte, 8)
	for i := range b {
		b[i] = chars[v%32]
		v /= 32
	}
	return string(b)
}

// c10StartServ starts thruserv for a round; collision rounds get the plan file in the environment.
func c10StartServ(e *Env, cfg c10RoundCfg, flags []string) (*vk.Serv, *c10Plan, error) {
	logPath := filepath.Join(e.Work, fmt.Sprintf("c10-serv-%03d.log", cfg.Round))
	bin := filepath.Join(e.BinDir, "thruserv")
	if cfg.Collide == "" {
		srv, err := vk.StartServ(bin, flags, logPath)
		return srv, nil, err
	}
	p := &c10Plan{path: filepath.Join(e.Work, fmt.Sprintf("c10-joincode-plan-%03d.txt", cfg.Round)), kind: cfg.Collide, seed: cfg.Seed}
	if err := p.set(c10Code(cfg.Seed, 0)); err != nil { // the file exists before the server starts
		return nil, nil, err
	}
	srv, err := vk.StartServEnv(bin, flags, logPath, []string{"VERIF_JOINCODE_PLAN=" + p.path})
	return srv, p, err
}

func (p *c10Plan) set(codes ...string) error {
	p.gen++
	tmp := p.path + ".tmp"
	if err := os.WriteFile(tmp, []byte(fmt.Sprintf("g%d %s\n", p.gen, strings.Join(codes, " "))), 0644); err != nil {
		return err
	}
	return os.Rename(tmp, p.path)
}

// before is called before the POST /session that creates session s (nil plan: ordinary round).
func (p *c10Plan) before(rd *c10Round, s int) bool {
	if p == nil {
		return true
	}
	fresh := c10Code(p.seed, s)
	var draws []string
	if s > 0 {
		switch p.kind {
		case "pair": // first draw = code of the session created just before
			draws = append(draws, rd.sess[s-1].JoinCode)
		case "chain": // every live code is drawn before a free one
			for k := 0; k < s; k++ {
				draws = append(draws, rd.sess[k].JoinCode)
			}
		default: // "first": first draw = code of the oldest session, second = that of the newest
			draws = append(draws, rd.sess[0].JoinCode)
			if s > 1 {
				draws = append(draws, rd.sess[s-1].JoinCode)
			}
		}
	}
	draws = append(draws, fresh)
	p.draws = append(p.draws, draws)
	return p.set(draws...) == nil
}

func c10AdmissionClass(rd *c10Round) string {
	if rd.cfg.Collide != "" {
		return "joincode-collision:" + rd.cfg.Collide
	}
	return "ordinary-codes"
}

// c10JudgeAdmission: the code the server handed out for session X admits into session X.
func c10JudgeAdmission(rd *c10Round, plan *c10Plan) {
	e := rd.e
	class := c10AdmissionClass(rd)
	if plan != nil {
		for s, si := range rd.sess {
			if s >= len(plan.draws) {
				break
			}
			dictated := false
			for _, d := range plan.draws[s] {
				if d == si.JoinCode {
					dictated = true
				}
			}
			if !dictated {
				e.R.Inconcl(fmt.Sprintf("round %d: the server's join code %s for session %d is none of the dictated draws %v (plan not in effect)", rd.cfg.Round, si.JoinCode, s, plan.draws[s]))
				continue
			}
			if s > 0 {
				e.R.Count("admission_sessions_created_through_a_collision")
				e.R.CountN("admission_colliding_draws", len(plan.draws[s])-1)
			}
		}
	}
	foreign := func(sess int, id string) bool {
		for _, own := range rd.sess[sess].Planned {
			if own == id {
				return false
			}
		}
		for o, ot := range rd.sess {
			if o == sess {
				continue
			}
			for _, x := range ot.Planned {
				if x == id {
					return true
				}
			}
		}
		return false
	}
	for _, c := range rd.snapshotConns() {
		if !c.DialOK || c.JoinedAt == 0 {
			continue
		}
		e.R.Count("admissions_checked")
		e.R.Distinct("admission|" + class + "|" + c.How)
		cs := map[string]any{"round": rd.cfg, "conn": c.Idx, "peer_id": c.PeerID, "how": c.How, "session_index": c.Sess,
			"session_id_from_create": rd.sess[c.Sess].ID, "join_code_from_create": rd.sess[c.Sess].JoinCode}
		if plan != nil {
			cs["dictated_draws_per_session"] = plan.draws
		}
		if c.ListSid != rd.sess[c.Sess].ID {
			other := -1
			for o, ot := range rd.sess {
				if ot.ID == c.ListSid {
					other = o
				}
			}
			e.R.Violate("isolation:joined-other-session:"+class,
				fmt.Sprintf("a client joined with the join code the server had returned for session %q and was greeted with a peer_list of session %q (session index %d of the round)", rd.sess[c.Sess].ID, c.ListSid, other),
				cs, map[string]any{"peer_list_ids": c.ListPeers})
			continue
		}
		for _, id := range c.ListPeers {
			if foreign(c.Sess, id) {
				e.R.Violate("isolation:peer-list-names-other-session:"+class,
					fmt.Sprintf("the peer_list a client of session %d was greeted with names %q, an id that only connects to another session", c.Sess, id), cs, map[string]any{"peer_list_ids": c.ListPeers})
				break
			}
		}
	}
}

// ---------------------------------------------------------------------------
// (2) control frames from clients, then time, then traffic

var c10CtlClasses = []string{"ping", "ping-payload", "pong-unsolicited", "ping-burst", "ping-pong-mixed"}

const (
	c10CtlWatchdog = 12 * time.Second
	c10CtlPostOps  = 12
)

func c10CtlIdleClass(ms int) string {
	// the class is the planned length of the idle period, not a measurement
	if ms >= 10500 {
		return "idle-long"
	}
	return "idle-short"
}

// c10StartCtlRounds starts the control-frame rounds in the background; the returned function waits for them.
func c10StartCtlRounds(e *Env, r *vk.Rng, base int, agg *c10Agg) func() {
	idles := []int{11000}
	if e.Thorough() {
		idles = []int{11000, 2500, 24000, 11000}
	}
	var wg sync.WaitGroup
	for k, ms := range idles {
		cfg := c10RoundCfg{Round: base + k, Seed: r.U64(), Sessions: 2 + k%2, PerSession: 5, StableOps: e.Pick(40, 120), Ctl: "mixed", IdleMs: ms}
		wg.Add(1)
		go func() {
			defer wg.Done()
			c10RunCtlRound(e, cfg, agg)
		}()
	}
	return wg.Wait
}

func c10CtlClassOf(sess, k int) string {
	if k == 0 {
		return "none"
	}
	return c10CtlClasses[(k-1+sess*4)%len(c10CtlClasses)]
}

func c10SendCtl(c *c10Conn, class string) error {
	ping := func(b []byte) error { return c.ws.SendControl(websocket.PingMessage, b) }
	pong := func(b []byte) error { return c.ws.SendControl(websocket.PongMessage, b) }
	switch class {
	case "ping":
		return ping(nil)
	case "ping-payload":
		return ping([]byte(fmt.Sprintf("c10-ping-%d", c.Idx)))
	case "pong-unsolicited":
		return pong([]byte("unsolicited"))
	case "ping-burst":
		for i := 0; i < 20; i++ {
			if err := ping([]byte(fmt.Sprintf("b%d", i))); err != nil {
				return err
			}
		}
		return nil
	case "ping-pong-mixed":
		if err := pong(nil); err != nil {
			return err
		}
		if err := ping([]byte("mixed")); err != nil {
			return err
		}
		return pong([]byte("mixed"))
	}
	return nil
}

type c10CtlExp struct {
	a, r int
	list []c10Send
}

func c10RunCtlRound(e *Env, cfg c10RoundCfg, agg *c10Agg) {
	r := vk.NewRng(cfg.Seed)
	rd := &c10Round{e: e, cfg: cfg, creditTimeout: map[[2]int]bool{}}
	flags := []string{"--ws-msgs-per-sec", "0", "--ws-connects-per-min", "0", "--session-creates-per-min", "0", "--max-receivers-per-sender", "0"}
	srv, _, err := c10StartServ(e, cfg, flags)
	if err != nil {
		e.R.Inconcl(fmt.Sprintf("control round %d: %v", cfg.Round, err))
		return
	}
	rd.srv = srv
	defer srv.Stop()
	for s := 0; s < cfg.Sessions; s++ {
		rs, err := vk.CreateSessionRaw(srv.URL, "")
		if err != nil || rs.Status != 201 || rs.JoinCode == "" || rs.SessionID == "" {
			e.R.Inconcl(fmt.Sprintf("control round %d: POST /session failed: %v status=%d body=%s", cfg.Round, err, rs.Status, rs.Body))
			return
		}
		rd.sess = append(rd.sess, &c10SessInfo{ID: rs.SessionID, JoinCode: rs.JoinCode, Planned: c10PlanIDs(r, s, cfg.PerSession+1), nextNew: cfg.PerSession})
	}
	var wg sync.WaitGroup
	for s := range rd.sess {
		for k := 0; k < cfg.PerSession; k++ {
			s, k := s, k
			wg.Add(1)
			go func() {
				defer wg.Done()
				role := "receiver"
				if k == 0 {
					role = "sender"
				}
				rd.dial(s, rd.sess[s].Planned[k], role, "initial")
			}()
		}
	}
	wg.Wait()
	finish := func() {
		for _, c := range rd.snapshotConns() {
			rd.closeConn(c, false)
		}
		srv.Stop()
		for _, n := range rd.inconcl {
			e.R.Inconcl("control " + n)
		}
	}
	for _, c := range rd.snapshotConns() {
		if !c.DialOK || c.JoinedAt == 0 {
			e.R.Inconcl(fmt.Sprintf("control round %d: initial connection %d (%s) failed: http %d", cfg.Round, c.Idx, c.PeerID, c.Status))
			finish()
			return
		}
	}
	// class of every member: by its position in the session's plan
	classOf := map[int]string{}
	for _, c := range rd.snapshotConns() {
		for k, id := range rd.sess[c.Sess].Planned {
			if id == c.PeerID {
				classOf[c.Idx] = c10CtlClassOf(c.Sess, k)
			}
		}
	}
	idleClass := c10CtlIdleClass(cfg.IdleMs)

	// phase 0: ordinary stable phase
	rd.runStable(r.Fork(), 0)
	if rd.watchdogs.Load() > 0 || len(rd.phases) != 1 || !rd.phases[0].Settled {
		rd.note("control round: the opening stable phase did not settle; control frames not driven")
		finish()
		c10Judge(rd, agg)
		return
	}
	conns := rd.snapshotConns()
	members := make([][]*c10Conn, len(rd.sess))
	for s, ms := range rd.phases[0].Members {
		for _, ci := range ms {
			members[s] = append(members[s], conns[ci])
		}
	}

	// phase 1: control frames, each followed by a fence to itself (the server's reader of that
	// connection has handled the control frames when the fence comes back)
	ph := c10Phase{Kind: "control", Start: vk.MonoNow(), Settled: true, Members: rd.phases[0].Members}
	ctlOK := true
	var cmu sync.Mutex
	for _, ms := range members {
		for _, c := range ms {
			c := c
			wg.Add(1)
			go func() {
				defer wg.Done()
				err := c10SendCtl(c, classOf[c.Idx])
				op := c10Op{Kind: "fence", Target: "self", To: c.PeerID, FromClass: "omitted", SidClass: "omitted", Type: "x-fence"}
				ok := err == nil && rd.send(c, op, 1, false, nil)
				if ok {
					g := c.sends[len(c.sends)-1].G
					_, ok = c.ws.WaitFor(func(rec vk.WSRecv) bool {
						var p c10Payload
						return !rec.BadJSON && len(rec.Env.Payload) > 0 && json.Unmarshal(rec.Env.Payload, &p) == nil && p.VF == "c10" && p.G == g
					}, c10CtlWatchdog)
				}
				if !ok {
					cmu.Lock()
					ctlOK = false
					cmu.Unlock()
				}
			}()
		}
	}
	wg.Wait()
	ph.End = vk.MonoNow()
	rd.phases = append(rd.phases, ph)
	if !ctlOK {
		rd.note("control round: a control frame could not be written or the fence after it did not come back within the watchdog")
		finish()
		c10Judge(rd, agg)
		return
	}

	// idle: nobody sends, nobody closes
	time.Sleep(time.Duration(cfg.IdleMs) * time.Millisecond)

	// phase 2: traffic after the idle period
	ph = c10Phase{Kind: "post-idle", Start: vk.MonoNow(), Settled: true, Members: make([][]int, len(rd.sess))}
	endedIdle := 0
	for s := range members {
		var still []*c10Conn
		for _, c := range members[s] {
			if c.open() {
				still = append(still, c)
				ph.Members[s] = append(ph.Members[s], c.Idx)
			} else {
				endedIdle++
			}
		}
		members[s] = still
	}
	e.R.CountN("ctl_connections_ended_by_the_server_while_idle", endedIdle)
	var exps []*c10CtlExp
	var emu sync.Mutex
	for s := range members {
		ms := members[s]
		live := c10IDs(ms)
		for _, c := range ms {
			c, cr := c, r.Fork()
			wg.Add(1)
			go func() {
				defer wg.Done()
				mine := map[int]*c10CtlExp{}
				do := func(op c10Op) bool {
					if !rd.send(c, op, 2, false, nil) {
						return false
					}
					rec := c.sends[len(c.sends)-1]
					if !rec.Routable {
						return true
					}
					for _, d := range c10DestFor(c, op, ms) {
						x := mine[d.Idx]
						if x == nil {
							x = &c10CtlExp{a: c.Idx, r: d.Idx}
							mine[d.Idx] = x
						}
						x.list = append(x.list, rec)
					}
					return true
				}
				ok := true
				for i := 0; i < c10CtlPostOps && ok; i++ {
					ok = do(rd.genOp(cr, c, true, live))
				}
				for _, m := range ms {
					if m != c && ok {
						ok = do(c10Op{Kind: "marker", Target: "same-session", To: m.PeerID, FromClass: "omitted", SidClass: "omitted", Type: "x-marker"})
					}
				}
				if ok {
					ok = do(c10Op{Kind: "fence", Target: "self", To: c.PeerID, FromClass: "omitted", SidClass: "omitted", Type: "x-fence"})
				}
				if !ok {
					return // a write of this author failed: what it sent is not judged
				}
				emu.Lock()
				for _, x := range mine {
					exps = append(exps, x)
				}
				emu.Unlock()
			}()
		}
	}
	wg.Wait()

	// completion by counting: every recipient holds the last expected message of every author
	got := map[int]map[uint64]bool{}
	scanned := map[int]int{}
	lastRecvT := map[int]time.Duration{}
	scan := func(ci int) {
		tail := conns[ci].ws.LogFrom(scanned[ci])
		scanned[ci] += len(tail)
		if got[ci] == nil {
			got[ci] = map[uint64]bool{}
		}
		for _, rec := range tail {
			lastRecvT[ci] = rec.T
			if rec.BadJSON || len(rec.Env.Payload) == 0 {
				continue
			}
			var p c10Payload
			if json.Unmarshal(rec.Env.Payload, &p) == nil && p.VF == "c10" {
				got[ci][p.G] = true
			}
		}
	}
	incomplete := func() []*c10CtlExp {
		var out []*c10CtlExp
		for _, x := range exps {
			scan(x.r)
			if !got[x.r][x.list[len(x.list)-1].G] {
				out = append(out, x)
			}
		}
		return out
	}
	deadline := time.Now().Add(c10CtlWatchdog)
	var open []*c10CtlExp
	for {
		open = incomplete()
		if len(open) == 0 || time.Now().After(deadline) {
			break
		}
		time.Sleep(5 * time.Millisecond)
	}
	wdEnd := vk.MonoNow()
	ph.End = wdEnd
	rd.phases = append(rd.phases, ph)

	suspects := map[int]bool{}
	for _, x := range open {
		suspects[x.r] = true
	}
	// canary (only when somebody is incomplete): a client that joins now and exchanges messages with
	// the member of its session that sent no control frame
	canaryOK := map[int]bool{} // by session
	if len(suspects) > 0 {
		for s := range members {
			need := false
			for _, m := range members[s] {
				if suspects[m.Idx] {
					need = true
				}
			}
			if !need || len(members[s]) == 0 {
				continue
			}
			var quiet *c10Conn
			for _, m := range members[s] {
				if classOf[m.Idx] == "none" {
					quiet = m
				}
			}
			if quiet == nil || suspects[quiet.Idx] {
				continue // the member without control frames is itself incomplete: no reference
			}
			cn := rd.dial(s, fmt.Sprintf("s%d-canary", s), "receiver", "canary")
			if !cn.DialOK || cn.JoinedAt == 0 {
				continue
			}
			wait := func(rc *c10Conn, g uint64) bool {
				_, ok := rc.ws.WaitFor(func(rec vk.WSRecv) bool {
					var p c10Payload
					return !rec.BadJSON && len(rec.Env.Payload) > 0 && json.Unmarshal(rec.Env.Payload, &p) == nil && p.VF == "c10" && p.G == g
				}, c10CtlWatchdog)
				return ok
			}
			op1 := c10Op{Kind: "addressed", Target: "same-session", To: quiet.PeerID, FromClass: "omitted", SidClass: "omitted", Type: "x-canary"}
			op2 := c10Op{Kind: "addressed", Target: "same-session", To: cn.PeerID, FromClass: "omitted", SidClass: "omitted", Type: "x-canary"}
			if rd.send(cn, op1, 2, false, nil) && wait(quiet, cn.sends[len(cn.sends)-1].G) &&
				rd.send(quiet, op2, 2, false, nil) && wait(cn, quiet.sends[len(quiet.sends)-1].G) {
				canaryOK[s] = true
			}
		}
	}
	// verdicts per (author -> recipient)
	now := vk.MonoNow()
	for _, x := range exps {
		rc, a := conns[x.r], conns[x.a]
		scan(x.r)
		class := classOf[x.r]
		key := fmt.Sprintf("loss:after-client-control-frames:%s:%s", class, idleClass)
		cs := map[string]any{"round": cfg, "recipient": map[string]any{"conn": rc.Idx, "session": rc.Sess, "peer_id": rc.PeerID, "control_frames_sent": class},
			"author": map[string]any{"conn": a.Idx, "peer_id": a.PeerID, "control_frames_sent": classOf[x.a]}, "idle_ms_planned": cfg.IdleMs}
		var missing []c10Send
		for _, s := range x.list {
			if !got[x.r][s.G] {
				missing = append(missing, s)
			}
		}
		if got[x.r][x.list[len(x.list)-1].G] {
			e.R.Count("ctl_pairs_judged")
			e.R.Count("ctl_pairs_judged_recipient_" + class)
			e.R.CountN("ctl_messages_covered", len(x.list))
			e.R.Distinct(fmt.Sprintf("no-loss|post-idle|recipient-sent:%s|%s", class, idleClass))
			if len(missing) > 0 {
				e.R.Violate(key, fmt.Sprintf("after the idle period %d of %d messages of connection %d never reached connection %d (which had sent control frames: %s) although a later one did and the recipient kept reading",
					len(missing), len(x.list), x.a, x.r, class), cs, map[string]any{"missing": missing})
			}
			continue
		}
		// incomplete: bounded-progress rule
		ended, _ := rc.ws.ReadEnded()
		quietFor := now - lastRecvT[x.r]
		switch {
		case ended:
			e.R.Count("ctl_pairs_not_judged_recipient_socket_ended")
		case !canaryOK[rc.Sess]:
			e.R.Inconcl(fmt.Sprintf("control round %d: connection %d (%s) misses messages of connection %d after the watchdog, but the canary of its session was not served either (machine or server stalled)", cfg.Round, x.r, class, x.a))
		case lastRecvT[x.r] > wdEnd-time.Duration(c10CtlWatchdog/2):
			e.R.Inconcl(fmt.Sprintf("control round %d: connection %d (%s) misses messages of connection %d after the watchdog but still received frames during its second half (slow, not stuck)", cfg.Round, x.r, class, x.a))
		default:
			e.R.Count("ctl_pairs_judged")
			e.R.Violate(key, fmt.Sprintf("after the idle period %d of %d messages of connection %d (every write of the author returned nil) never reached connection %d, which had sent control frames (%s), kept its socket open and kept reading: nothing arrived at it for %v while a client that joined afterwards and the member without control frames were served normally",
				len(missing), len(x.list), x.a, x.r, class, quietFor.Round(time.Millisecond)), cs,
				map[string]any{"missing_first": missing[0], "missing": len(missing), "frames_received_by_recipient_in_total": scanned[x.r], "server_log_tail": srv.LogTail(1500)})
		}
	}
	e.R.Count("ctl_rounds_judged")
	for _, ms := range members {
		for _, m := range ms {
			e.R.Count("ctl_members_" + classOf[m.Idx])
		}
	}
	e.R.Count("ctl_rounds_" + idleClass)
	alive := srv.Alive()
	finish()
	if !alive {
		e.R.Violate("server-died", "thruserv exited during the round", cfg, map[string]any{"log_tail": srv.LogTail(3000)})
	}
	c10JudgeAdmission(rd, nil)
	c10Judge(rd, agg)
}

func c10CtlRequire(e *Env) {
	counters := map[string]int{}
	for _, k := range []string{"admissions_checked", "admission_sessions_created_through_a_collision", "admission_colliding_draws",
		"ctl_rounds_judged", "ctl_rounds_idle-long", "ctl_rounds_idle-short", "ctl_pairs_judged", "ctl_messages_covered",
		"ctl_connections_ended_by_the_server_while_idle", "ctl_pairs_not_judged_recipient_socket_ended", "ctl_members_none"} {
		counters[k] = e.R.Counter(k)
	}
	for _, c := range c10CtlClasses {
		counters["ctl_members_"+c] = e.R.Counter("ctl_members_" + c)
		counters["ctl_pairs_judged_recipient_"+c] = e.R.Counter("ctl_pairs_judged_recipient_" + c)
	}
	e.R.SetExtra("joincode_collisions_and_control_frames", counters)
	if e.R.ViolationCount() > 0 {
		return // rounds are skipped after violations; the minimums below are for clean runs
	}
	e.R.Require(counters["admission_sessions_created_through_a_collision"] >= e.Pick(4, 12),
		fmt.Sprintf("only %d sessions were created through a join-code collision", counters["admission_sessions_created_through_a_collision"]))
	e.R.Require(counters["admissions_checked"] >= e.Pick(200, 2000), fmt.Sprintf("only %d admissions checked", counters["admissions_checked"]))
	e.R.Require(counters["ctl_rounds_idle-long"] >= 1, "no control-frame round with an idle period of more than 10 s was judged")
	e.R.Require(counters["ctl_pairs_judged"] >= e.Pick(30, 100), fmt.Sprintf("only %d author->recipient pairs judged after control frames + idle", counters["ctl_pairs_judged"]))
	for _, c := range c10CtlClasses {
		e.R.Require(counters["ctl_pairs_judged_recipient_"+c] >= 1, "no recipient of control-frame class "+c+" was judged after the idle period")
	}
}
