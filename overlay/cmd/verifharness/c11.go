//go:build verif

package main

// C11 – the signaling hub survives any interleaving of join, leave and send.
//
// The parent generates the stress specs (pure function of tier, seed, build),
// runs each stress in its own child process (a crash of the hub's own
// goroutines would take the process down: it is then attributed to that one
// spec and reported), merges the children's verdicts and observations.

import (
	"context"
	"encoding/json"
	"fmt"
	"os"
	"os/exec"
	"path/filepath"
	"sort"
	"strings"
	"sync"
	"syscall"
	"time"

	vk "github.com/sheerbytes/sheerbytes/internal/verifkit"
)

func init() {
	register("c11", runC11)
	childCommands["c11child"] = c11ChildMain
}

// c11Specs: the list of stresses of a tier. Operation counts, not seconds, bound the work.
func c11Specs(tier string, seed uint64, race bool) []c11Spec {
	rng := vk.NewRng(seed ^ vk.HashStr("c11"+tier))
	runs, rounds, ops := 12, 8, 1500
	if tier == "thorough" {
		runs = 36 // three seeds-worth of quick
	}
	if race {
		ops = 600 // the -race build is 3-8x slower per operation; same scripts, shorter rounds
	}
	mixes := []string{"balanced", "churn", "sparse", "bcast"}
	profiles := []string{"yield", "sleep", "target:" + c11HookNames[0], "target:" + c11HookNames[1], "target:" + c11HookNames[2], "target:" + c11HookNames[3], "none"}
	workers := []int{8, 12, 16}
	maxUs := []int{40, 200, 1000}
	mo, po := rng.Intn(len(mixes)), rng.Intn(len(profiles))
	var out []c11Spec
	for i := 0; i < runs; i++ {
		sp := c11Spec{
			ID:           fmt.Sprintf("C11-%s-%d-%s%02d", tier, seed, map[bool]string{false: "p", true: "r"}[race], i),
			Seed:         rng.U64(),
			Sessions:     1 + i%3,
			Workers:      workers[(i/3+int(seed))%3],
			Rounds:       rounds,
			OpsPerWorker: ops,
			Mix:          mixes[(i+mo)%len(mixes)],
			Profile:      profiles[(i+po)%len(profiles)],
			HookMaxUs:    maxUs[rng.Intn(len(maxUs))],
			StallS:       12,
		}
		out = append(out, sp)
	}
	return out
}

type c11ChildOutcome struct {
	spec   c11Spec
	res    *c11Result
	err    string // non-empty: no result
	log    string
	timed  bool
	wall   float64
	exitRC int
}

func c11RunChild(e *Env, sp c11Spec, timeout time.Duration) c11ChildOutcome {
	oc := c11ChildOutcome{spec: sp}
	specPath := filepath.Join(e.Work, sp.ID+".spec.json")
	resPath := filepath.Join(e.Work, sp.ID+".result.json")
	logPath := filepath.Join(e.Work, sp.ID+".log")
	data, _ := json.Marshal(sp)
	if err := os.WriteFile(specPath, data, 0644); err != nil {
		oc.err = err.Error()
		return oc
	}
	lf, err := os.Create(logPath)
	if err != nil {
		oc.err = err.Error()
		return oc
	}
	ctx, cancel := context.WithTimeout(context.Background(), timeout)
	defer cancel()
	cmd := exec.CommandContext(ctx, os.Args[0], "c11child", specPath, resPath)
	cmd.Stdout, cmd.Stderr = lf, lf
	cmd.Env = append(os.Environ(), "GOTRACEBACK=all")
	cmd.Cancel = func() error { return cmd.Process.Signal(syscall.SIGQUIT) } // goroutine dump into the log
	cmd.WaitDelay = 10 * time.Second
	t0 := time.Now()
	runErr := cmd.Run()
	oc.wall = time.Since(t0).Seconds()
	lf.Close()
	if b, err := os.ReadFile(logPath); err == nil {
		oc.log = string(b)
	}
	oc.timed = ctx.Err() != nil
	if cmd.ProcessState != nil {
		oc.exitRC = cmd.ProcessState.ExitCode()
	}
	if b, err := os.ReadFile(resPath); err == nil {
		var r c11Result
		if json.Unmarshal(b, &r) == nil {
			oc.res = &r
		}
	}
	if oc.res == nil {
		oc.err = fmt.Sprintf("no result (run error: %v, exit code %d)", runErr, oc.exitRC)
	}
	return oc
}

// c11CrashClass inspects the log of a child that died without a result.
func c11CrashClass(log string) (key, site string, hubFrame bool) {
	hubFrame = strings.Contains(log, "/internal/peers/hub.go:")
	site = c11HubSite(log)
	switch {
	case strings.Contains(log, "fatal error: concurrent map"):
		key = "crash:concurrent-map-access"
	case strings.Contains(log, "send on closed channel"):
		key = "crash:send-on-closed-channel"
	case strings.Contains(log, "close of closed channel"):
		key = "crash:close-of-closed-channel"
	case strings.Contains(log, "all goroutines are asleep"):
		key = "crash:deadlock"
	case strings.Contains(log, "fatal error:"):
		key = "crash:fatal-error"
	case strings.Contains(log, "panic:"):
		key = "crash:unrecovered-panic"
	default:
		key = "crash:process-died"
	}
	return
}

func c11Tail(s string, n int) string {
	if len(s) > n {
		return "…" + s[len(s)-n:]
	}
	return s
}

func runC11(e *Env) {
	R := e.R
	R.Rule = "evaluations = hub operations executed (Add, remove, CloseSession, List, Broadcast, BroadcastExcept, SendTo on the real peers.Hub, each bracketed by call/return records of one monotonic clock); " +
		"a distinct non-trivial case = two operations on the same session that overlapped in time per those records, distinct by (kind of the earlier operation, hook window it was in when the later one was called, kind of the later operation)"
	specs := c11Specs(e.Tier, e.Seed, e.Race)
	timeout := 6 * time.Minute // generous wall-clock watchdog; its firing alone is inconclusive
	if e.Thorough() {
		timeout = 10 * time.Minute
	}
	outcomes := make([]c11ChildOutcome, len(specs))
	var mu sync.Mutex
	t0 := time.Now()
	vk.ParallelDo(len(specs), 3, func(i int) {
		oc := c11RunChild(e, specs[i], timeout)
		mu.Lock()
		outcomes[i] = oc
		mu.Unlock()
		ops := 0
		if oc.res != nil {
			for _, n := range oc.res.Ops {
				ops += n
			}
		}
		vk.Logf("c11 %s sessions=%d workers=%d mix=%s profile=%s: ops=%d wall=%.1fs err=%q", specs[i].ID, specs[i].Sessions, specs[i].Workers, specs[i].Mix, specs[i].Profile, ops, oc.wall, oc.err)
	})

	ops := map[string]int{}
	overlaps := map[string]int{}
	windows := map[string]int{}
	hookHits := map[string]int64{}
	counters := map[string]int{}
	panics := map[string]int{}
	panicOverlap := map[string]int{}
	panicSites := map[string]int{}
	violCounts := map[string]int{}
	var runsInfo []any
	totalOps := 0
	finished := 0
	for _, oc := range outcomes {
		sp := oc.spec
		info := map[string]any{"id": sp.ID, "sessions": sp.Sessions, "workers": sp.Workers, "mix": sp.Mix, "hook_profile": sp.Profile, "hook_max_us": sp.HookMaxUs,
			"rounds": sp.Rounds, "ops_per_worker_per_round": sp.OpsPerWorker, "child_wall_s": oc.wall}
		if oc.res == nil {
			info["outcome"] = oc.err
			runsInfo = append(runsInfo, info)
			key, site, hub := c11CrashClass(oc.log)
			switch {
			case oc.timed:
				R.Inconcl(fmt.Sprintf("%s: wall-clock watchdog (%s) fired before the child reported; no verdict from the watchdog alone", sp.ID, timeout))
			case hub:
				R.Violate(key, fmt.Sprintf("the stress process died (exit %d) with a frame of internal/peers/hub.go on the crashing stack: %s", oc.exitRC, site),
					map[string]any{"spec": sp}, map[string]any{"log_tail": c11Tail(oc.log, 8000)})
				violCounts[key]++
			default:
				R.Inconcl(fmt.Sprintf("%s: child produced no result and no hub.go frame is on a crashing stack (%s); harness problem, no verdict. log tail: %s", sp.ID, oc.err, c11Tail(oc.log, 1500)))
			}
			continue
		}
		r := oc.res
		n := 0
		for k, v := range r.Ops {
			ops[k] += v
			n += v
		}
		totalOps += n
		info["ops"] = n
		info["ops_per_s"] = int(r.OpsPerSec)
		info["rounds_done"] = r.RoundsDone
		info["stalled"] = r.Stalled
		info["goroutines_at_end"] = r.GoroutinesEnd
		runsInfo = append(runsInfo, info)
		if r.RoundsDone == sp.Rounds {
			finished++
		}
		for k, v := range r.Overlaps {
			overlaps[k] += v
		}
		for k, v := range r.Windows {
			windows[k] += v
			R.Distinct(k)
		}
		for k, v := range r.HookHits {
			hookHits[k] += v
		}
		for k, v := range r.Counters {
			counters[k] += v
		}
		for k, v := range r.Panics {
			panics[k] += v
		}
		for k, v := range r.PanicOverlap {
			panicOverlap[k] += v
		}
		for k, v := range r.PanicSites {
			panicSites[k] += v
		}
		for k, v := range r.ViolCounts {
			violCounts[k] += v
		}
		if r.ForeignHooks > 0 {
			counters["hook_hits_from_unregistered_goroutines"] += int(r.ForeignHooks)
		}
		for _, v := range r.Violations {
			R.Violate(v.Key, v.What, v.Case, v.Detail)
		}
		for _, s := range r.Inconclusive {
			R.Inconcl(s)
		}
		for _, s := range r.Samples {
			R.Sample(s)
		}
	}
	R.EvalN(totalOps)

	// race reports written by the children (GORACE log_path is inherited); the orchestrator turns
	// reports with repo frames into violations, here they are only counted for the evidence
	raceReports, raceHub := 0, 0
	if gr := os.Getenv("GORACE"); strings.Contains(gr, "log_path=") {
		p := gr[strings.Index(gr, "log_path=")+len("log_path="):]
		if i := strings.IndexByte(p, ' '); i >= 0 {
			p = p[:i]
		}
		files, _ := filepath.Glob(p + ".*")
		for _, f := range files {
			if b, err := os.ReadFile(f); err == nil {
				for _, blk := range strings.Split(string(b), "WARNING: DATA RACE")[1:] {
					raceReports++
					if strings.Contains(blk, "/internal/peers/hub.go:") {
						raceHub++
					}
				}
			}
		}
	}

	carve := map[string]int{}
	for k, v := range counters {
		if strings.HasPrefix(k, "carve_out") {
			carve[k] = v
		}
	}
	R.SetExtra("operations_per_kind", ops)
	R.SetExtra("overlapping_pairs_per_kind_pair", overlaps)
	R.SetExtra("overlap_windows", windows)
	R.SetExtra("hook_hits", hookHits)
	R.SetExtra("oracle_counters", counters)
	R.SetExtra("carve_outs", carve)
	R.SetExtra("panics_recovered_per_key", panics)
	R.SetExtra("panic_sites", panicSites)
	R.SetExtra("panic_vs_concurrent_operation", panicOverlap)
	R.SetExtra("violation_counts", violCounts)
	R.SetExtra("race_reports", map[string]int{"total": raceReports, "with_hub_go_frame": raceHub})
	R.SetExtra("runs", runsInfo)
	R.SetExtra("stress_wall_s", time.Since(t0).Seconds())

	// minimum observation: a run that did not reach the interleavings it is about must not pass
	R.Require(finished == len(specs) || len(R.Violations) > 0 || len(R.Inconclusive) > 0, fmt.Sprintf("only %d of %d stresses completed all rounds", finished, len(specs)))
	for _, n := range c11HookNames {
		R.Require(hookHits[n] >= 200, fmt.Sprintf("hook %s hit only %d times", n, hookHits[n]))
	}
	for _, k := range c11KindName {
		R.Require(ops[k] >= 2000, fmt.Sprintf("only %d %s operations", ops[k], k))
	}
	for _, p := range []string{"remove|Broadcast", "remove|BroadcastExcept", "Add|Broadcast", "CloseSession|Broadcast", "remove|SendTo", "Add|remove", "remove|remove", "Add|CloseSession", "remove|List"} {
		R.Require(overlaps[p] > 0, "no overlapping pair "+p+" observed")
	}
	R.Require(R.DistinctCount() >= 40, fmt.Sprintf("only %d distinct (operation pair, hook window) overlaps", R.DistinctCount()))
	R.Require(counters["sendto_target_definitely_live"] >= 500, fmt.Sprintf("only %d SendTo probes had a definitely live target", counters["sendto_target_definitely_live"]))
	R.Require(counters["list_names_checked"] >= 500, fmt.Sprintf("only %d List entries checked", counters["list_names_checked"]))
	R.Require(counters["quiescence_checks"] >= len(specs), fmt.Sprintf("only %d quiescence snapshots", counters["quiescence_checks"]))

	keys := make([]string, 0, len(violCounts))
	for k := range violCounts {
		keys = append(keys, fmt.Sprintf("%s x%d", k, violCounts[k]))
	}
	sort.Strings(keys)
	vk.Logf("c11 done: %d ops, %d distinct windows, violations: %v, races: %d", totalOps, R.DistinctCount(), keys, raceReports)
}
