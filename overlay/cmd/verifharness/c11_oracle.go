//go:build verif

package main

// C11 history oracle: judges one round of call/return records of hub operations.
//
// Time is one monotonic clock; the effect of an operation lies somewhere in
// [call, ret]. A verdict is given only where the records leave no ambiguity.

import (
	"fmt"
	"math"
	"sort"

	"github.com/sheerbytes/sheerbytes/internal/peers"
)

const c11Inf = int64(math.MaxInt64)

type c11ConnInfo struct {
	idx    int32
	sess   int8
	peer   int32
	add    *c11Op
	rems   []*c11Op // remove calls, sorted by call
	deadBy int64    // time by which the connection is surely out of the routing maps
}

type c11AddList struct {
	conns  []*c11ConnInfo // sorted by add.call
	pmRet  []int64        // prefix max of add.ret
	smKill []int64        // suffix min of add.ret over Adds that returned normally
}

type c11OpList struct {
	ops    []*c11Op // sorted by call
	pmRet  []int64
	smKill []int64
}

type c11History struct {
	st       *c11Stress
	ops      []c11Op
	conns    map[int32]*c11ConnInfo
	adds     map[[2]int32]*c11AddList
	closes   []*c11OpList // per session
	removers [][]*c11Op   // per session: removes that passed hub.remove.afterUnlink
}

func newC11History(st *c11Stress, ops []c11Op) *c11History {
	sort.SliceStable(ops, func(i, j int) bool { return ops[i].call < ops[j].call })
	h := &c11History{st: st, ops: ops, conns: map[int32]*c11ConnInfo{}, adds: map[[2]int32]*c11AddList{}}
	ns := st.spec.Sessions
	h.closes = make([]*c11OpList, ns)
	h.removers = make([][]*c11Op, ns)
	for s := range h.closes {
		h.closes[s] = &c11OpList{}
	}
	for i := range ops {
		o := &ops[i]
		switch o.kind {
		case c11Add:
			c := &c11ConnInfo{idx: o.conn, sess: o.sess, peer: o.peer, add: o, deadBy: c11Inf}
			h.conns[o.conn] = c
			k := [2]int32{int32(o.sess), o.peer}
			al := h.adds[k]
			if al == nil {
				al = &c11AddList{}
				h.adds[k] = al
			}
			al.conns = append(al.conns, c)
		case c11Close:
			h.closes[o.sess].ops = append(h.closes[o.sess].ops, o)
		}
	}
	for i := range ops {
		o := &ops[i]
		if o.kind != c11Remove {
			continue
		}
		if c := h.conns[o.conn]; c != nil {
			c.rems = append(c.rems, o)
		}
		if o.hk[0] != 0 {
			h.removers[o.sess] = append(h.removers[o.sess], o)
		}
	}
	for _, al := range h.adds {
		n := len(al.conns)
		al.pmRet = make([]int64, n)
		al.smKill = make([]int64, n+1)
		al.smKill[n] = c11Inf
		var m int64
		for i, c := range al.conns {
			if c.add.ret > m {
				m = c.add.ret
			}
			al.pmRet[i] = m
		}
		for i := n - 1; i >= 0; i-- {
			al.smKill[i] = al.smKill[i+1]
			if a := al.conns[i].add; a.pan == 0 && a.ret < al.smKill[i] {
				al.smKill[i] = a.ret
			}
		}
	}
	for _, cl := range h.closes {
		n := len(cl.ops)
		cl.pmRet = make([]int64, n)
		cl.smKill = make([]int64, n+1)
		cl.smKill[n] = c11Inf
		var m int64
		for i, o := range cl.ops {
			if o.ret > m {
				m = o.ret
			}
			cl.pmRet[i] = m
		}
		for i := n - 1; i >= 0; i-- {
			cl.smKill[i] = cl.smKill[i+1]
			if o := cl.ops[i]; o.pan == 0 && o.ret < cl.smKill[i] {
				cl.smKill[i] = o.ret
			}
		}
	}
	// deadBy: the earliest return of an operation that surely removes the connection:
	// a remove of it; an Add of the same (session, peer id) called after its Add
	// returned (replacement); a CloseSession of its session called after its Add returned.
	for _, c := range h.conns {
		d := c11Inf
		for _, r := range c.rems {
			if r.pan == 0 && r.ret < d {
				d = r.ret
			}
		}
		al := h.adds[[2]int32{int32(c.sess), c.peer}]
		i := sort.Search(len(al.conns), func(i int) bool { return al.conns[i].add.call >= c.add.ret })
		if al.smKill[i] < d {
			d = al.smKill[i]
		}
		cl := h.closes[c.sess]
		j := sort.Search(len(cl.ops), func(j int) bool { return cl.ops[j].call >= c.add.ret })
		if cl.smKill[j] < d {
			d = cl.smKill[j]
		}
		c.deadBy = d
	}
	return h
}

// possiblyLive: the connection may have been in the routing maps at some instant of [a, b].
func (c *c11ConnInfo) possiblyLive(a, b int64) bool {
	return c.add.call <= b && c.deadBy >= a
}

func (h *c11History) connJSON(c *c11ConnInfo) map[string]any {
	m := map[string]any{"conn": c11ConnID(c.idx), "session": c.sess, "peer": c11PeerName(int(c.peer)), "add": h.st.opJSON(c.add)}
	var rs []any
	for _, r := range c.rems {
		rs = append(rs, h.st.opJSON(r))
	}
	m["removes"] = rs
	if c.deadBy != c11Inf {
		m["surely_gone_by_ns"] = c.deadBy
	}
	return m
}

// around returns up to max operations of a session overlapping [a, b] (minimal history of a finding).
func (h *c11History) around(sess int8, a, b int64, max int) []any {
	var out []any
	for i := range h.ops {
		o := &h.ops[i]
		if o.sess != sess || o.ret < a || o.call > b {
			continue
		}
		if o.kind == c11List || o.kind == c11SendTo {
			continue
		}
		out = append(out, h.st.opJSON(o))
		if len(out) >= max {
			break
		}
	}
	return out
}

func c11WindowOf(e *c11Op, t int64) int {
	switch e.kind {
	case c11Remove:
		if e.hk[0] == 0 || t < e.hk[0] {
			return 0
		}
		if e.hk[1] == 0 || t < e.hk[1] {
			return 1
		}
		return 2
	case c11Bcast, c11BExcept, c11Close:
		if e.hk[0] == 0 || t < e.hk[0] {
			return 0
		}
		return 1
	}
	return 0
}

func c11WindowName(kind, w int) string {
	switch kind {
	case c11Remove:
		return [...]string{"before-unlink", "unlinked-closing", "before-gc"}[w]
	case c11Bcast, c11BExcept:
		return [...]string{"before-copy", "list-copied", ""}[w]
	case c11Close:
		return [...]string{"before-unlink", "unlinked-closing", ""}[w]
	}
	return "in-call"
}

func (h *c11History) judge(res *c11Result) {
	st := h.st
	var overlaps [c11NKinds][c11NKinds]int
	var windows [c11NKinds][3][c11NKinds]int
	active := make([][]*c11Op, st.spec.Sessions)
	panOverlap := map[[2]uint8]int{}

	for i := range h.ops {
		o := &h.ops[i]
		res.Ops[c11KindName[o.kind]]++
		// overlap sweep on the same session
		act := active[o.sess][:0]
		for _, e := range active[o.sess] {
			if e.ret >= o.call {
				act = append(act, e)
			}
		}
		for _, e := range act {
			a, b := e.kind, o.kind
			if a > b {
				a, b = b, a
			}
			overlaps[a][b]++
			wn := c11WindowOf(e, o.call)
			windows[e.kind][wn][o.kind]++
			if windows[e.kind][wn][o.kind] == 1 && len(res.Samples) < 6 && (e.kind == c11Remove || e.kind == c11Close || e.kind == c11Bcast) && wn > 0 {
				res.Samples = append(res.Samples, map[string]any{"run": st.spec.ID, "overlap": c11KindName[e.kind] + "/" + c11WindowName(int(e.kind), wn) + " > " + c11KindName[o.kind],
					"earlier": st.opJSON(e), "later": st.opJSON(o)})
			}
			if e.pan != 0 {
				panOverlap[[2]uint8{e.kind, o.kind}]++
			}
			if o.pan != 0 {
				panOverlap[[2]uint8{o.kind, e.kind}]++
			}
		}
		active[o.sess] = append(act, o)

		if o.pan != 0 {
			continue // recorded as a violation by the worker; no further verdict from a panicked call
		}
		switch o.kind {
		case c11SendTo:
			h.judgeSendTo(res, o)
		case c11List:
			h.judgeList(res, o)
		}
	}
	for a := 0; a < c11NKinds; a++ {
		for b := a; b < c11NKinds; b++ {
			if overlaps[a][b] > 0 {
				res.Overlaps[c11KindName[a]+"|"+c11KindName[b]] += overlaps[a][b]
			}
		}
		for w := 0; w < 3; w++ {
			for b := 0; b < c11NKinds; b++ {
				if windows[a][w][b] > 0 {
					res.Windows[c11KindName[a]+"/"+c11WindowName(a, w)+">"+c11KindName[b]] += windows[a][w][b]
				}
			}
		}
	}
	for k, n := range panOverlap {
		res.PanicOverlap[c11KindName[k[0]]+" panicked while "+c11KindName[k[1]]+" in flight"] += n
	}
}

func (h *c11History) judgeSendTo(res *c11Result, o *c11Op) {
	st := h.st
	res.Counters["sendto_checked"]++
	al := h.adds[[2]int32{int32(o.sess), o.peer}]
	k := 0
	if al != nil {
		k = sort.Search(len(al.conns), func(i int) bool { return al.conns[i].add.call > o.ret })
	}
	if o.ok {
		res.Counters["sendto_true"]++
		found := false
		for i := k - 1; i >= 0; i-- {
			if al.conns[i].possiblyLive(o.call, o.ret) {
				found = true
				break
			}
		}
		if !found {
			det := map[string]any{"probe": st.opJSON(o)}
			if k > 0 {
				det["latest_connection_of_peer"] = h.connJSON(al.conns[k-1])
			}
			res.violate("sendto:routed-to-departed-peer",
				fmt.Sprintf("SendTo(%s, %s) returned true although no connection of that peer id could have been in the hub during the call", st.sessIDs[o.sess], c11PeerName(int(o.peer))),
				map[string]any{"spec": st.spec, "probe": st.opJSON(o)}, det)
		}
	} else {
		res.Counters["sendto_false"]++
	}
	if k == 0 {
		if !o.ok {
			res.Counters["sendto_false_no_connection_ever"]++
		}
		return
	}
	// the only connection that can be "definitely the current one throughout the call"
	// is the one whose Add was called last before the probe returned
	c := al.conns[k-1]
	cl := h.closes[o.sess]
	kc := sort.Search(len(cl.ops), func(i int) bool { return cl.ops[i].call > o.ret })
	closedAfterAddBegan := kc > 0 && cl.pmRet[kc-1] >= c.add.call
	definite := c.add.pan == 0 && c.add.ret <= o.call &&
		(k == 1 || al.pmRet[k-2] < c.add.call) &&
		(len(c.rems) == 0 || c.rems[0].call > o.ret)
	if !definite {
		res.Counters["sendto_liveness_ambiguous_no_verdict"]++
		return
	}
	if closedAfterAddBegan {
		// CloseSession ran on the session after the Add began: the connection may legitimately be gone
		if !o.ok {
			res.Counters["carve_out_closesession_after_add"]++
		} else {
			res.Counters["sendto_liveness_ambiguous_no_verdict"]++
		}
		return
	}
	res.Counters["sendto_target_definitely_live"]++
	if o.ok {
		res.Counters["sendto_definite_true"]++
		return
	}
	// failed probe of a definitely live connection: excused iff a remover of the same
	// session was between its unlink and its return while the Add ran
	var exc *c11Op
	strict := false
	for _, r := range h.removers[o.sess] {
		if r.call > c.add.ret {
			break
		}
		if r.ret >= c.add.call {
			if exc == nil {
				exc = r
			}
			if r.hk[0] <= c.add.ret {
				strict = true
				exc = r
				break
			}
		}
	}
	if exc != nil {
		res.Counters["carve_out_remover_window"]++
		if strict {
			res.Counters["carve_out_remover_window_strict_hook_time"]++
		}
		if res.Counters["carve_out_remover_window"] <= 2 {
			res.Samples = append(res.Samples, map[string]any{"run": st.spec.ID, "carve_out": "failed probe excused: session emptied and recreated under a remover still in its wait window",
				"probe": st.opJSON(o), "connection": h.connJSON(c), "remover": st.opJSON(exc)})
		}
		return
	}
	res.violate("sendto:live-peer-unroutable",
		fmt.Sprintf("SendTo(%s, %s) returned false although connection %s was added before the call and nothing removed, replaced or closed it until the call returned (no remover window, no CloseSession)", st.sessIDs[o.sess], c11PeerName(int(o.peer)), c11ConnID(c.idx)),
		map[string]any{"spec": st.spec, "probe": st.opJSON(o)},
		map[string]any{"probe": st.opJSON(o), "connection": h.connJSON(c), "session_history_since_add": h.around(o.sess, c.add.call, o.ret, 24)})
}

func (h *c11History) judgeList(res *c11Result, o *c11Op) {
	st := h.st
	res.Counters["list_checked"]++
	for _, e := range o.list {
		res.Counters["list_names_checked"]++
		idx := c11ParseConnID(e.role)
		c := h.conns[idx]
		key, what := "", ""
		switch {
		case idx < 0:
			key, what = "list:unknown-entry", "List returned an entry that no Add ever registered"
		case c == nil:
			key, what = "list:departed-peer-listed", "List named a connection of an earlier round, all of whose removes had returned"
		case c.sess != o.sess:
			key, what = "list:peer-of-other-session", "List named a connection that was added to a different session"
		case c11PeerName(int(c.peer)) != e.peer:
			key, what = "list:wrong-peer-id", "List named a connection under a peer id it was not added with"
		case !c.possiblyLive(o.call, o.ret):
			key, what = "list:departed-peer-listed", "List named a peer none of whose connections could have been in the hub during the call"
		default:
			continue
		}
		det := map[string]any{"list": st.opJSON(o), "entry": e.peer + "/" + e.role}
		if c != nil {
			det["connection"] = h.connJSON(c)
		}
		res.violate(key, fmt.Sprintf("%s: List(%s) -> %s/%s", what, st.sessIDs[o.sess], e.peer, e.role),
			map[string]any{"spec": st.spec, "list": st.opJSON(o)}, det)
	}
}

// checkSnapshot judges a copy of the hub's maps taken (under the hub's lock) while no
// operation was in flight. phase "partial": connections still live; "final": every remove returned.
func (h *c11History) checkSnapshot(res *c11Result, phase string, snap peers.VerifHubSnapshot, t1, t2 int64, round int) {
	st := h.st
	cs := map[string]any{"spec": st.spec, "round": round, "quiescence": phase}
	viol := func(key, what string, c *c11ConnInfo) {
		det := map[string]any{"snapshot": snap}
		if c != nil {
			det["connection"] = h.connJSON(c)
		}
		res.violate(key, fmt.Sprintf("%s (round %d, %s quiescence: no hub call in flight%s)", what, round, phase,
			map[string]string{"partial": "", "final": ", every remove has returned"}[phase]), cs, det)
	}
	for sid, conns := range snap.Sessions {
		if len(conns) == 0 {
			viol("leak:empty-session-entry", fmt.Sprintf("hub.sessions[%s] is an entry for an empty session", sid), nil)
		}
		if _, ok := snap.ByPeerID[sid]; !ok {
			viol("leak:session-entry-without-byPeerID", fmt.Sprintf("hub.sessions[%s] exists but hub.byPeerID[%s] does not", sid, sid), nil)
		}
		for _, vc := range conns {
			res.Counters["snapshot_conns_checked"]++
			c := h.conns[c11ParseConnID(vc.ConnID)]
			if phase == "final" || c == nil || !c.possiblyLive(t1, t2) {
				viol("leak:departed-conn-still-listed", fmt.Sprintf("hub.sessions[%s] still holds connection %s (peer %s) whose removal had returned", sid, vc.ConnID, vc.PeerID), c)
			}
		}
	}
	for sid, m := range snap.ByPeerID {
		conns, ok := snap.Sessions[sid]
		if !ok {
			viol("leak:byPeerID-entry-without-session", fmt.Sprintf("hub.byPeerID[%s] exists (%d peer ids) but hub.sessions[%s] does not", sid, len(m), sid), nil)
			continue
		}
		for pid, cid := range m {
			res.Counters["snapshot_peerids_checked"]++
			found := false
			for _, vc := range conns {
				if vc.ConnID == cid && vc.PeerID == pid {
					found = true
				}
			}
			if !found {
				viol("leak:byPeerID-entry-for-departed-conn", fmt.Sprintf("hub.byPeerID[%s][%s] = %s but that connection is no longer in hub.sessions[%s]: the peer id of a connection that has left is still in the routing table", sid, pid, cid, sid),
					h.conns[c11ParseConnID(cid)])
			}
		}
	}
}

// orphans finds connections whose own remove found nothing to unlink although, per the
// records, nothing had removed, replaced or closed them: their send channel was never closed.
func (h *c11History) orphans() (list []*c11ConnInfo, stale map[int32]*c11Op) {
	stale = map[int32]*c11Op{}
	for _, c := range h.conns {
		if c.add.pan != 0 || len(c.rems) == 0 {
			continue
		}
		r0 := c.rems[0]
		if r0.pan != 0 || r0.hk[0] != 0 || r0.wstop {
			continue
		}
		al := h.adds[[2]int32{int32(c.sess), c.peer}]
		k := sort.Search(len(al.conns), func(i int) bool { return al.conns[i].add.call > r0.ret })
		if k == 0 || al.conns[k-1] != c || (k > 1 && al.pmRet[k-2] >= c.add.call) {
			continue // another Add of the same peer id may have replaced it
		}
		cl := h.closes[c.sess]
		kc := sort.Search(len(cl.ops), func(i int) bool { return cl.ops[i].call > r0.ret })
		if kc > 0 && cl.pmRet[kc-1] >= c.add.call {
			continue // CloseSession may have closed it
		}
		list = append(list, c)
		// the remover whose late garbage collection fell between this Add and this remove is preferred as witness
		for _, r := range h.removers[c.sess] {
			if r.call > c.add.ret {
				break
			}
			if r.ret >= c.add.call {
				if stale[c.idx] == nil {
					stale[c.idx] = r
				}
				if r.hk[1] != 0 && r.hk[1] <= r0.ret {
					stale[c.idx] = r
					break
				}
			}
		}
	}
	sort.Slice(list, func(i, j int) bool { return list[i].add.call < list[j].add.call })
	return
}

// checkWriters judges the census of writer goroutines taken at final quiescence.
func (h *c11History) checkWriters(res *c11Result, parked, other, round int) {
	st := h.st
	orph, stale := h.orphans()
	withWindow := 0
	for _, c := range orph {
		if stale[c.idx] != nil {
			withWindow++
		}
	}
	res.Counters["orphaned_conns_remove_found_nothing"] += len(orph)
	res.Counters["orphaned_conns_with_stale_remover_window"] += withWindow
	res.Counters["writer_goroutines_running_at_final_quiescence"] += other
	newLeaks := parked - st.lastParked
	st.lastParked = parked
	if parked > res.Counters["writer_goroutines_parked_at_final_quiescence_max"] {
		res.Counters["writer_goroutines_parked_at_final_quiescence_max"] = parked
	}
	if newLeaks <= 0 {
		return
	}
	res.Counters["writer_goroutines_leaked"] += newLeaks
	var wit []any
	for _, c := range orph {
		if len(wit) >= 2 {
			break
		}
		w := map[string]any{"connection": h.connJSON(c)}
		if r := stale[c.idx]; r != nil {
			w["stale_remover_in_its_wait_window_during_the_add"] = st.opJSON(r)
			w["session_history_from_add_to_remove"] = h.around(c.sess, c.add.call, c.rems[0].ret, 16)
		}
		wit = append(wit, w)
	}
	res.violate("leak:writer-goroutine-never-closed",
		fmt.Sprintf("%d writer goroutines of the hub (Hub.Add.func1) are parked on a send channel that nobody can close any more (round %d, every remove has returned, hub maps empty); %d connections of this round had their remove find nothing to unlink although nothing had removed, replaced or closed them (%d of them were added while a remover of the same session was between unlink and return)",
			newLeaks, round, len(orph), withWindow),
		map[string]any{"spec": st.spec, "round": round},
		map[string]any{"parked_writers_total": parked, "new_this_round": newLeaks, "orphaned_connections_this_round": len(orph), "witnesses": wit})
}
