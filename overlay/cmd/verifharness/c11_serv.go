//go:build verif

package main

// C11, server stage ("c11serv") – the clauses "a peer that has left is no longer
// listed", "no routing state leaks once a session is empty" and "never crash or
// deadlock the server or the handler of an uninvolved peer", decided THROUGH the
// real thruserv binary (its real handleWebSocket around the real hub).
//
// Dimension driven here: the point of the connection's life at which a client
// disappears, and how (FIN / RST / close frame):
//
//	tcp-connect            TCP connection, no byte sent
//	partial-request        half of the upgrade request sent
//	request-sent           whole upgrade request sent, nothing read (the server
//	                       registers the peer and its first write hits a dead socket)
//	request-sent-halfclose request sent, write side shut down, reads until the server closes
//	upgraded-unread        101 response read, peer list not read
//	peer-list-read         first frame (peer list) read
//	mid-frame              a frame header announcing 200 bytes + 60 bytes sent
//	after-send             three complete messages sent (broadcast, addressed, unknown addressee), no reply read
//	joined                 own peer_joined seen (the ordinary leave; control class)
//
// crossed with the role (receiver; sender only at the handshake points), a fresh
// or a re-used peer id (a flaky client that reconnects under the same id), the
// kind of session (hosted: a sender and a bystander stay connected; receivers-only:
// the session is empty at quiescence), and the server configuration (limits off,
// receiver limit 3, no idle timeout, seeded jitter at the hub hook points inside
// the server, short session lifetime).
//
// Oracle, at quiescence, from outside (nothing but what later clients are told):
//   - the peer list sent to a later joiner names no connection that is gone,
//   - an addressed message to a departed id is answered with peer_not_found,
//   - an addressed message to a peer that stayed connected is not,
//   - with --max-receivers-per-sender N, N real receivers are admitted after any
//     number of receivers have come and gone,
//   - the server process is alive, no handler panicked, joins are served.
//
// Quiescence is not a sleep: the harness polls with fresh observers until the
// listing is clean (then judges at once). A departed peer that is still listed is
// a violation only under the bounded-progress rule: (i) ≥ c11sW since its socket
// was closed, (ii) the server's end of that TCP connection is no longer open
// (/proc/net/tcp), (iii) canaries – observers that joined and left the same
// server AFTER the suspect left – were found delisted in ≥ c11sCanaries later
// polls. Otherwise the round is inconclusive.

import (
	"bufio"
	"crypto/rand"
	"encoding/base64"
	"encoding/json"
	"fmt"
	"io"
	"net"
	"net/http"
	"os"
	"path/filepath"
	"sort"
	"strconv"
	"strings"
	"sync"
	"sync/atomic"
	"time"

	vk "github.com/sheerbytes/sheerbytes/internal/verifkit"
	"github.com/sheerbytes/sheerbytes/pkg/protocol"
)

func init() { register("c11serv", runC11Serv) }

const (
	c11sW        = 15 * time.Second // bounded-progress window for "still listed"
	c11sWMax     = 50 * time.Second // after this without the other conjuncts: inconclusive
	c11sCanaries = 5
	c11sIOWait   = 15 * time.Second // watchdog of a single client step (expiry => not reached / inconclusive, never a verdict)
)

// ---------------------------------------------------------------------------
// case classes

var c11sPoints = []string{"tcp-connect", "partial-request", "request-sent", "request-sent-halfclose", "upgraded-unread",
	"peer-list-read", "mid-frame", "after-send", "joined"}

type c11sClass struct{ Point, Close string }

func (c c11sClass) String() string { return c.Point + "/" + c.Close }

// handshake reports whether the point lies before the server's read loop can have been reached by design of the client.
func (c c11sClass) handshake() bool {
	switch c.Point {
	case "tcp-connect", "partial-request", "request-sent", "upgraded-unread":
		return true
	}
	return false
}

func c11sClasses() []c11sClass {
	var out []c11sClass
	for _, p := range c11sPoints {
		closes := []string{"fin", "rst"}
		switch p {
		case "request-sent-halfclose":
			closes = []string{"fin"}
		case "peer-list-read", "after-send", "joined":
			closes = []string{"fin", "rst", "wsclose"}
		}
		for _, c := range closes {
			out = append(out, c11sClass{p, c})
		}
	}
	return out
}

type c11sCase struct {
	Sess  int    `json:"session"`
	Point string `json:"disconnect_point"`
	Close string `json:"close"`
	Role  string `json:"role"`
	ID    string `json:"peer_id"`
	IDCls string `json:"id_class"` // fresh | reuse
	Delay int    `json:"delay_before_close_us,omitempty"` // pause between reaching the point and disappearing (scheduling only)

	Reached  bool          `json:"reached"`
	Status   int           `json:"http_status,omitempty"`
	LPort    int           `json:"client_port,omitempty"`
	Note     string        `json:"note,omitempty"`
	ClosedAt time.Duration `json:"closed_at_ns,omitempty"`
	Path     string        `json:"server_path,omitempty"` // from the server's output: no-add | add-early-exit | add-readloop | cN-dM (re-used id)

	Stall *c11sStallInfo `json:"non_reader,omitempty"` // set for clients that stay connected and stop reading (c11_serv_stall.go)
}

func (c *c11sCase) class() c11sClass { return c11sClass{c.Point, c.Close} }

// ---------------------------------------------------------------------------
// raw client: full control over where the connection ends

type c11sRaw struct {
	tc *net.TCPConn
	br *bufio.Reader
}

func c11sDialRaw(port int) (*c11sRaw, int, error) {
	c, err := net.DialTimeout("tcp", "127.0.0.1:"+strconv.Itoa(port), c11sIOWait)
	if err != nil {
		return nil, 0, err
	}
	tc := c.(*net.TCPConn)
	_ = tc.SetDeadline(time.Now().Add(c11sIOWait))
	return &c11sRaw{tc: tc, br: bufio.NewReader(tc)}, tc.LocalAddr().(*net.TCPAddr).Port, nil
}

func c11sUpgradeRequest(port int, join, id, role string) []byte {
	key := make([]byte, 16)
	_, _ = rand.Read(key)
	return []byte(fmt.Sprintf("GET /ws?join_code=%s&peer_id=%s&role=%s HTTP/1.1\r\nHost: 127.0.0.1:%d\r\nUpgrade: websocket\r\nConnection: Upgrade\r\n"+
		"Sec-WebSocket-Key: %s\r\nSec-WebSocket-Version: 13\r\n\r\n", join, id, role, port, base64.StdEncoding.EncodeToString(key)))
}

// frame builds one masked client frame.
func c11sFrame(op byte, payload []byte) []byte {
	var mask [4]byte
	_, _ = rand.Read(mask[:])
	b := []byte{0x80 | op}
	n := len(payload)
	switch {
	case n < 126:
		b = append(b, 0x80|byte(n))
	case n < 65536:
		b = append(b, 0x80|126, byte(n>>8), byte(n))
	default:
		b = append(b, 0x80|127, 0, 0, 0, 0, byte(n>>24), byte(n>>16), byte(n>>8), byte(n))
	}
	b = append(b, mask[:]...)
	for i, p := range payload {
		b = append(b, p^mask[i%4])
	}
	return b
}

// readFrame reads one (unmasked) server frame.
func (r *c11sRaw) readFrame() (op byte, payload []byte, err error) {
	var h [2]byte
	if _, err = io.ReadFull(r.br, h[:]); err != nil {
		return
	}
	op = h[0] & 0x0f
	n := uint64(h[1] & 0x7f)
	switch n {
	case 126:
		var x [2]byte
		if _, err = io.ReadFull(r.br, x[:]); err != nil {
			return
		}
		n = uint64(x[0])<<8 | uint64(x[1])
	case 127:
		var x [8]byte
		if _, err = io.ReadFull(r.br, x[:]); err != nil {
			return
		}
		n = 0
		for _, b := range x {
			n = n<<8 | uint64(b)
		}
	}
	if n > 1<<22 {
		return op, nil, fmt.Errorf("frame of %d bytes", n)
	}
	payload = make([]byte, n)
	_, err = io.ReadFull(r.br, payload)
	return
}

func c11sEnvJSON(typ, to string) []byte {
	b, _ := json.Marshal(protocol.Envelope{V: protocol.ProtocolVersion, Type: typ, MsgID: protocol.NewMsgID(), To: to, Payload: json.RawMessage(`{}`)})
	return b
}

// c11sVanish executes one case against the server: connect, go as far as the
// case's point, disappear. Nothing here judges.
func c11sVanish(port int, join, hostID string, vc *c11sCase) {
	r, lport, err := c11sDialRaw(port)
	if err != nil {
		vc.Note = "dial: " + err.Error()
		return
	}
	vc.LPort = lport
	leave := func() {
		if vc.Delay > 0 && vc.Reached {
			time.Sleep(time.Duration(vc.Delay) * time.Microsecond)
		}
		if vc.Close == "wsclose" {
			_, _ = r.tc.Write(c11sFrame(8, []byte{0x03, 0xe8}))
		}
		if vc.Close == "rst" {
			_ = r.tc.SetLinger(0)
		}
		_ = r.tc.Close()
		vc.ClosedAt = vk.MonoNow()
	}
	req := c11sUpgradeRequest(port, join, vc.ID, vc.Role)
	switch vc.Point {
	case "tcp-connect":
		vc.Reached = true
		leave()
		return
	case "partial-request":
		_, err = r.tc.Write(req[:len(req)/2])
		vc.Reached = err == nil
		leave()
		return
	case "request-sent":
		_, err = r.tc.Write(req)
		vc.Reached = err == nil
		leave()
		return
	case "request-sent-halfclose":
		_, err = r.tc.Write(req)
		if err == nil {
			err = r.tc.CloseWrite()
		}
		if err == nil {
			_, err = io.Copy(io.Discard, r.br) // until the server closes its side
			vc.Reached = err == nil
		}
		if err != nil {
			vc.Note = "halfclose: " + err.Error()
		}
		leave()
		return
	}
	if _, err = r.tc.Write(req); err != nil {
		vc.Note = "write request: " + err.Error()
		leave()
		return
	}
	resp, err := http.ReadResponse(r.br, nil)
	if err != nil {
		vc.Note = "read response: " + err.Error()
		leave()
		return
	}
	vc.Status = resp.StatusCode
	if resp.StatusCode != http.StatusSwitchingProtocols {
		b, _ := io.ReadAll(io.LimitReader(resp.Body, 256))
		vc.Note = "refused: " + strings.TrimSpace(string(b))
		leave()
		return
	}
	if vc.Point == "upgraded-unread" {
		vc.Reached = true
		leave()
		return
	}
	// read up to the peer list (a message routed through the hub may overtake it: the peer is registered before the list is written)
	var op byte
	var payload []byte
	for {
		op, payload, err = r.readFrame()
		if err != nil {
			vc.Note = "waiting for the peer list: " + err.Error()
			leave()
			return
		}
		var env protocol.Envelope
		if op == 1 && json.Unmarshal(payload, &env) == nil && env.Type == protocol.TypePeerList {
			break
		}
	}
	switch vc.Point {
	case "peer-list-read":
		vc.Reached = true
	case "mid-frame":
		f := c11sFrame(1, []byte(strings.Repeat("x", 200)))
		_, err = r.tc.Write(f[:60])
		vc.Reached = err == nil
	case "after-send":
		var buf []byte
		buf = append(buf, c11sFrame(1, c11sEnvJSON(protocol.TypeOffer, ""))...)
		buf = append(buf, c11sFrame(1, c11sEnvJSON(protocol.TypeOffer, hostID))...)
		buf = append(buf, c11sFrame(1, c11sEnvJSON(protocol.TypeOffer, "nobody-"+vc.ID))...)
		_, err = r.tc.Write(buf)
		vc.Reached = err == nil
	case "joined":
		// a connection under a re-used id may have been replaced before its own peer_joined was broadcast (the server
		// may serve the two upgrade requests in either order): then the wait ends by this shorter watchdog, not reached
		_ = r.tc.SetReadDeadline(time.Now().Add(4 * time.Second))
		for {
			op, payload, err = r.readFrame()
			if err != nil {
				vc.Note = "waiting for own peer_joined: " + err.Error()
				break
			}
			if op != 1 {
				continue
			}
			var env protocol.Envelope
			if json.Unmarshal(payload, &env) != nil || env.Type != protocol.TypePeerJoined {
				continue
			}
			var pj protocol.PeerJoined
			if env.DecodePayload(&pj) == nil && pj.Peer.PeerID == vc.ID {
				vc.Reached = true
				break
			}
		}
	}
	leave()
}

// ---------------------------------------------------------------------------
// server-side socket state (conjunct (ii) of the bounded-progress rule)

// c11sServerSocketsOpen returns the client ports (out of ports) for which the
// server still holds an open socket (ESTABLISHED or CLOSE_WAIT with local port
// servPort). ok=false when /proc/net/tcp* cannot be read.
func c11sServerSocketsOpen(servPort int, ports map[int]bool) (open map[int]bool, ok bool) {
	open = map[int]bool{}
	for _, f := range []string{"/proc/net/tcp", "/proc/net/tcp6"} {
		data, err := os.ReadFile(f)
		if err != nil {
			continue
		}
		ok = true
		for _, line := range strings.Split(string(data), "\n")[1:] {
			fs := strings.Fields(line)
			if len(fs) < 4 || (fs[3] != "01" && fs[3] != "08") {
				continue
			}
			li, ri := strings.LastIndex(fs[1], ":"), strings.LastIndex(fs[2], ":")
			if li < 0 || ri < 0 {
				continue
			}
			lp, e1 := strconv.ParseInt(fs[1][li+1:], 16, 32)
			rp, e2 := strconv.ParseInt(fs[2][ri+1:], 16, 32)
			if e1 != nil || e2 != nil || int(lp) != servPort {
				continue
			}
			if ports[int(rp)] {
				open[int(rp)] = true
			}
		}
	}
	return
}

// ---------------------------------------------------------------------------
// rounds

type c11sRoundCfg struct {
	Name  string   `json:"config"`
	Kind  string   `json:"kind"` // listing | slots | expiry | nonce | expstorm
	Flags []string `json:"flags"`
	Hooks string   `json:"verifhook,omitempty"`
	Seed  uint64   `json:"seed"`
	Idx   int      `json:"round"`
}

var c11sLimitsOff = []string{"--ws-msgs-per-sec", "0", "--ws-connects-per-min", "0", "--session-creates-per-min", "0"}

func c11sRounds(tier string, seed uint64) []c11sRoundCfg {
	rng := vk.NewRng(seed ^ vk.HashStr("c11serv"+tier))
	flags := func(extra ...string) []string { return append(append([]string{}, c11sLimitsOff...), extra...) }
	jit := func() string {
		s := rng.U64() % 1000000
		return fmt.Sprintf("hub.remove.afterUnlink=jitter(25,%d);hub.remove.beforeGC=jitter(25,%d);hub.broadcast.afterCopy=jitter(2,%d)", s, s+1, s+2)
	}
	base := []c11sRoundCfg{
		{Name: "limits-off", Kind: "listing", Flags: flags("--max-receivers-per-sender", "0")},
		{Name: "receiver-limit-3", Kind: "slots", Flags: flags("--max-receivers-per-sender", "3")},
		{Name: "no-idle-timeout", Kind: "listing", Flags: flags("--max-receivers-per-sender", "0", "--ws-idle-timeout", "0")},
		{Name: "hub-jitter", Kind: "listing", Flags: flags("--max-receivers-per-sender", "0"), Hooks: jit()},
		{Name: "session-lifetime-3s", Kind: "expiry", Flags: flags("--max-receivers-per-sender", "0", "--session-timeout", "3s")},
		{Name: "turn-credentials", Kind: "listing", Flags: flags("--max-receivers-per-sender", "0", "--turn-server", "turn:127.0.0.1:3478", "--turn-static-auth-secret", "c11-secret")},
		{Name: "hub-jitter", Kind: "listing", Flags: flags("--max-receivers-per-sender", "0"), Hooks: jit()},
		{Name: "receiver-limit-3-jitter", Kind: "slots", Flags: flags("--max-receivers-per-sender", "3"), Hooks: jit()},
	}
	out := base
	if tier == "thorough" {
		for rep := 0; rep < 8; rep++ {
			out = append(out,
				c11sRoundCfg{Name: "limits-off", Kind: "listing", Flags: flags("--max-receivers-per-sender", "0")},
				c11sRoundCfg{Name: "hub-jitter", Kind: "listing", Flags: flags("--max-receivers-per-sender", "0"), Hooks: jit()},
				c11sRoundCfg{Name: "receiver-limit-3-jitter", Kind: "slots", Flags: flags("--max-receivers-per-sender", "3"), Hooks: jit()},
				c11sRoundCfg{Name: "session-lifetime-3s-jitter", Kind: "expiry", Flags: flags("--max-receivers-per-sender", "0", "--session-timeout", "3s"), Hooks: jit()},
			)
		}
	}
	// appended last so that the rounds above keep their seeds: connections with repeated handshake fields (c11_serv_nonce.go)
	out = append(out,
		c11sRoundCfg{Name: "same-handshake", Kind: "nonce", Flags: flags("--max-receivers-per-sender", "0")},
		c11sRoundCfg{Name: "same-handshake-jitter", Kind: "nonce", Flags: flags("--max-receivers-per-sender", "0"), Hooks: jit()})
	if tier == "thorough" {
		for rep := 0; rep < 4; rep++ {
			out = append(out, c11sRoundCfg{Name: "same-handshake-jitter", Kind: "nonce", Flags: flags("--max-receivers-per-sender", "0"), Hooks: jit()})
		}
	}
	// appended after them for the same reason: many sessions expiring beside creations, joins and departures (c11_serv_expstorm.go)
	// (their hook schedules come from a generator of their own: a jit() here would shift the seeds of all rounds above)
	out = append(out, c11sRoundCfg{Name: "session-lifetime-40ms-storm", Kind: "expstorm", Flags: c11xFlags()})
	if tier == "thorough" {
		xr := vk.NewRng(seed ^ vk.HashStr("c11serv-expstorm"+tier))
		for rep := 0; rep < 3; rep++ {
			s := xr.U64() % 1000000
			out = append(out, c11sRoundCfg{Name: "session-lifetime-40ms-storm-jitter", Kind: "expstorm", Flags: c11xFlags(),
				Hooks: fmt.Sprintf("hub.remove.afterUnlink=jitter(25,%d);hub.remove.beforeGC=jitter(25,%d);hub.broadcast.afterCopy=jitter(2,%d)", s, s+1, s+2)})
		}
	}
	for i := range out {
		out[i].Seed = rng.U64()
		out[i].Idx = i
	}
	return out
}

type c11sSess struct {
	Idx  int
	Kind string // hosted | receivers-only | second-sender | slots | canary
	Join string
	SID  string

	host, by *vk.WSClient
	items    [][]*c11sCase // an item is executed by one worker, cases in order (re-used id: two cases)
	extra    []*c11sCase   // connections driven outside the worker pool: non-readers and the connections that replace them
	byID     map[string][]*c11sCase

	obsN      int
	closedObs []string // observers that joined and left after the vanishers (canaries)
	canaryOK  int
	gone      bool // join code no longer accepted (a sender-role connection left): unobservable
	slotHeld  []*vk.WSClient

	// the most recent poll of settle(): what a later joiner was told and which ids were answered with peer_not_found
	lastListed   []protocol.PeerInfo
	lastNotFound map[string]bool
	lastProbed   bool
	lastLive     []string // stable peers whose connection was open when they were probed
	lastMarker   string
}

// vanishers: the cases executed by the worker pool.
func (s *c11sSess) vanishers() []*c11sCase {
	var out []*c11sCase
	for _, it := range s.items {
		out = append(out, it...)
	}
	return out
}

// cases: every connection of the session that is (to be) gone at quiescence.
func (s *c11sSess) cases() []*c11sCase {
	return append(s.vanishers(), s.extra...)
}

func (s *c11sSess) addExtra(c *c11sCase) {
	c.Sess = s.Idx
	s.byID[c.ID] = append(s.byID[c.ID], c)
	s.extra = append(s.extra, c)
}

type c11sAgg struct {
	mu       sync.Mutex
	counters map[string]int
	perClass map[string]map[string]int // class -> {executed, reached, path:*}
	rounds   []any
}

func (a *c11sAgg) count(k string, n int) {
	a.mu.Lock()
	a.counters[k] += n
	a.mu.Unlock()
}

func (a *c11sAgg) classCount(cls, k string) {
	a.mu.Lock()
	m := a.perClass[cls]
	if m == nil {
		m = map[string]int{}
		a.perClass[cls] = m
	}
	m[k]++
	a.mu.Unlock()
}

type c11sRound struct {
	e    *Env
	cfg  c11sRoundCfg
	srv  *vk.Serv
	agg  *c11sAgg
	rng  *vk.Rng
	sess []*c11sSess
	info map[string]any
	hlog string

	aborted    atomic.Bool  // the server stopped serving joins (reported): the rest of the round is skipped
	ioTimeouts atomic.Int32 // client steps that ended by the watchdog
	stallMu    sync.Mutex

	// non-readers (c11_serv_stall.go)
	stallMu2        sync.Mutex
	stallers        []*c11sStaller
	stallersStarted int
	churnDone       atomic.Int64
	probeSeq        atomic.Int64

	// connections with equal handshake fields (c11_serv_nonce.go)
	nonceConns, nonceConnsReached int
}

func (rd *c11sRound) caseSpec(extra map[string]any) map[string]any {
	m := map[string]any{"server_config": rd.cfg.Name, "flags": rd.cfg.Flags, "verifhook": rd.cfg.Hooks, "round": rd.cfg.Idx, "round_seed": rd.cfg.Seed}
	for k, v := range extra {
		m[k] = v
	}
	return m
}

func (rd *c11sRound) inconcl(format string, a ...any) {
	rd.e.R.Inconcl(fmt.Sprintf("c11serv round %d (%s): ", rd.cfg.Idx, rd.cfg.Name) + fmt.Sprintf(format, a...))
}

// newSession creates a session on the server and connects its stable peers.
func (rd *c11sRound) newSession(kind string) (*c11sSess, error) {
	rs, err := vk.CreateSessionRaw(rd.srv.URL, "")
	if err != nil || rs.JoinCode == "" {
		return nil, fmt.Errorf("POST /session: %v status %d %s", err, rs.Status, rs.Body)
	}
	s := &c11sSess{Idx: len(rd.sess), Kind: kind, Join: rs.JoinCode, SID: rs.SessionID, byID: map[string][]*c11sCase{}}
	dial := func(id, role string) (*vk.WSClient, error) {
		c, err := vk.DialWS(vk.WSURL(rd.srv.URL, s.Join, id, role), c11sIOWait, nil)
		if err != nil {
			return nil, err
		}
		if _, ok := c.WaitType(protocol.TypePeerList, c11sIOWait); !ok {
			c.Close(false)
			return nil, fmt.Errorf("stable peer %s got no peer list", id)
		}
		return c, nil
	}
	switch kind {
	case "hosted", "canary":
		if s.host, err = dial("host", "sender"); err != nil {
			return nil, err
		}
		if s.by, err = dial("bystander", "receiver"); err != nil {
			return nil, err
		}
	case "second-sender":
		if s.by, err = dial("bystander", "receiver"); err != nil {
			return nil, err
		}
	case "slots":
		if s.host, err = dial("host", "sender"); err != nil {
			return nil, err
		}
	}
	rd.sess = append(rd.sess, s)
	return s, nil
}

func (s *c11sSess) add(cs ...*c11sCase) {
	for _, c := range cs {
		c.Sess = s.Idx
		s.byID[c.ID] = append(s.byID[c.ID], c)
	}
	s.items = append(s.items, cs)
}

func (s *c11sSess) stable() map[string]*vk.WSClient {
	m := map[string]*vk.WSClient{}
	if s.host != nil {
		m["host"] = s.host
	}
	if s.by != nil {
		m["bystander"] = s.by
	}
	return m
}

// runVanishers executes all items of all sessions on w workers; a hosted
// session's host talks while they come and go (broadcast + a message addressed
// to the vanisher's id), so that the server's Broadcast/SendTo interleave with
// its Add/remove.
func (rd *c11sRound) runVanishers(w int) {
	type job struct {
		s  *c11sSess
		it []*c11sCase
	}
	var jobs []job
	for _, s := range rd.sess {
		for _, it := range s.items {
			jobs = append(jobs, job{s, it})
		}
	}
	for i := len(jobs) - 1; i > 0; i-- {
		j := rd.rng.Intn(i + 1)
		jobs[i], jobs[j] = jobs[j], jobs[i]
	}
	vk.ParallelDo(len(jobs), w, func(i int) {
		jb := jobs[i]
		for _, vc := range jb.it {
			if rd.aborted.Load() {
				return
			}
			if jb.s.host != nil {
				if jb.s.host.SendText(c11sEnvJSON(protocol.TypeOffer, vc.ID)) == nil {
					rd.agg.count("host_messages_addressed_to_a_vanisher", 1)
				}
			}
			c11sVanish(rd.srv.Port, jb.s.Join, "host", vc)
			rd.afterCase(vc)
			rd.churnTick()
			if jb.s.host != nil {
				if jb.s.host.SendText(c11sEnvJSON(protocol.TypeOffer, "")) == nil {
					rd.agg.count("host_broadcasts_during_churn", 1)
				}
			}
		}
	})
}

type c11sObservation struct {
	client *vk.WSClient
	id     string
	status int
	listed []protocol.PeerInfo
	ok     bool
	err    string
}

// observe joins the session as a fresh well-behaved receiver and returns the peer list it was sent.
func (rd *c11sRound) observe(s *c11sSess) c11sObservation {
	s.obsN++
	o := c11sObservation{id: fmt.Sprintf("obs-%d-%04d", s.Idx, s.obsN)}
	c, err := vk.DialWS(vk.WSURL(rd.srv.URL, s.Join, o.id, "receiver"), c11sIOWait, nil)
	o.status = c.HTTPStatus
	if err != nil {
		o.err = err.Error()
		return o
	}
	o.client = c
	rec, ok := c.WaitType(protocol.TypePeerList, c11sIOWait)
	if !ok {
		o.err = "upgraded but no peer list within the watchdog"
		return o
	}
	var pl protocol.PeerList
	if err := rec.Env.DecodePayload(&pl); err != nil {
		o.err = "peer list payload: " + err.Error()
		return o
	}
	o.listed, o.ok = pl.Peers, true
	rd.agg.count("peer_lists_observed", 1)
	return o
}

func c11sListedIDs(pl []protocol.PeerInfo) map[string]int {
	m := map[string]int{}
	for _, p := range pl {
		m[p.PeerID]++
	}
	return m
}

// routeProbe sends one addressed message per target and then one to a fresh
// unknown id; the server answers an unroutable addressee with a peer_not_found
// error written synchronously on this connection, in order. When the error for
// the marker has arrived, every earlier target without an error was routable.
func c11sRouteProbe(c *vk.WSClient, targets []string, marker string) (notFound map[string]bool, ok bool) {
	notFound, ok, _ = c11sRouteProbeSent(c, targets, marker)
	return notFound, ok
}

// c11sRouteProbeSent is c11sRouteProbe that also tells whether the probe was written at all: sent == false means a write
// on the asking connection failed - that connection is over for the client (closed or reset, e.g. by the expiry of its
// session), which is not "no answer within the watchdog" and must not be read as a handler that makes no progress.
func c11sRouteProbeSent(c *vk.WSClient, targets []string, marker string) (notFound map[string]bool, ok bool, sent bool) {
	notFound, ok = c11sRouteProbeImpl(c, targets, marker, &sent)
	return
}

func c11sRouteProbeImpl(c *vk.WSClient, targets []string, marker string, sent *bool) (notFound map[string]bool, ok bool) {
	from := c.Len()
	for _, t := range targets {
		if c.SendText(c11sEnvJSON(protocol.TypeOffer, t)) != nil {
			return nil, false
		}
	}
	if c.SendText(c11sEnvJSON(protocol.TypeOffer, marker)) != nil {
		return nil, false
	}
	*sent = true
	errTarget := func(r vk.WSRecv) (string, bool) {
		if r.BadJSON || r.Env.Type != protocol.TypeError {
			return "", false
		}
		var pe protocol.Error
		if r.Env.DecodePayload(&pe) != nil || pe.Code != "peer_not_found" {
			return "", false
		}
		i := strings.LastIndex(pe.Message, ": ")
		if i < 0 {
			return "", false
		}
		return pe.Message[i+2:], true
	}
	if _, found := c.WaitFor(func(r vk.WSRecv) bool { t, ok := errTarget(r); return ok && r.Idx >= from && t == marker }, c11sIOWait); !found {
		return nil, false
	}
	notFound = map[string]bool{}
	for _, r := range c.LogFrom(from) {
		if t, ok := errTarget(r); ok {
			notFound[t] = true
		}
	}
	return notFound, true
}

// stalled decides whether a join that was upgraded but never got its peer list
// is the server's doing: /health answers and a join into a brand-new session is
// upgraded and left without a peer list too. (Bounded progress: watchdog expired,
// nothing arrives, the canary request is served.)
func (rd *c11sRound) stalled() bool {
	hc := &http.Client{Timeout: 5 * time.Second}
	resp, err := hc.Get(rd.srv.URL + "/health")
	if err != nil {
		return false
	}
	_ = resp.Body.Close()
	rs, err := vk.CreateSessionRaw(rd.srv.URL, "")
	if err != nil || rs.JoinCode == "" {
		return false
	}
	c, err := vk.DialWS(vk.WSURL(rd.srv.URL, rs.JoinCode, "stall-probe", "receiver"), c11sIOWait, nil)
	if err != nil {
		return false
	}
	defer c.Close(false)
	_, ok := c.WaitType(protocol.TypePeerList, c11sIOWait)
	return !ok
}

func (rd *c11sRound) observeFailed(s *c11sSess, o c11sObservation, where string) {
	if o.status == http.StatusSwitchingProtocols && o.client != nil && rd.suspectStall(where+", session kind "+s.Kind) {
		return
	}
	rd.inconcl("%s: observer of session %d (%s) failed: http %d %s", where, s.Idx, s.Kind, o.status, o.err)
}

// c11sServStalled: some round found the server not serving joins (a violation is recorded); rounds not yet started are skipped.
var c11sServStalled atomic.Bool

// suspectStall is called when a client step ended by its watchdog. If the server
// no longer serves joins at all (see stalled) that is reported once and the
// round is aborted; otherwise nothing happens (the step simply was not reached).
func (rd *c11sRound) suspectStall(where string) bool {
	rd.stallMu.Lock()
	defer rd.stallMu.Unlock()
	if rd.aborted.Load() {
		return true
	}
	if !rd.srv.Alive() || !rd.stalled() {
		return false
	}
	rd.aborted.Store(true)
	c11sServStalled.Store(true)
	rd.e.R.Violate("serv:join-stalls-after-upgrade:"+rd.cfg.Kind, "a client step ended by its watchdog, /health answers, and a join into a brand-new session is upgraded (101) but never receives its peer list: the hub no longer serves joins",
		rd.caseSpec(map[string]any{"where": where}), map[string]any{"server_log_tail": rd.srv.LogTail(3000)})
	return true
}

// afterCase: a vanisher that ended by a watchdog may be the first sign of a server that stopped serving.
func (rd *c11sRound) afterCase(vc *c11sCase) {
	if vc.Reached || !strings.Contains(vc.Note, "timeout") {
		return
	}
	if n := rd.ioTimeouts.Add(1); n >= 2 && n&(n-1) == 0 {
		rd.suspectStall(fmt.Sprintf("vanisher %s ended by its watchdog (%d so far)", vc.class(), n))
	}
}

// settle polls every observable session with a fresh observer (peer list +
// routing probe) until no departed peer is listed or routable and the server
// holds none of the departed clients' sockets any more, or until the
// bounded-progress conjuncts for "still listed" hold. The last poll of each
// session is what judgeListing decides on. Returns false when the round has no verdict.
func (rd *c11sRound) settle() bool {
	start := time.Now()
	var all []*c11sCase
	for _, s := range rd.sess {
		all = append(all, s.cases()...)
	}
	for iter := 0; ; iter++ {
		dirty := 0
		needCanary := false
		for _, s := range rd.sess {
			if s.gone || s.Kind == "slots" {
				continue
			}
			o := rd.observe(s)
			if o.status == http.StatusNotFound {
				s.gone = true
				continue
			}
			if !o.ok {
				rd.observeFailed(s, o, "settle")
				if o.client != nil {
					o.client.Close(false)
				}
				return false
			}
			listed := c11sListedIDs(o.listed)
			nOld := len(s.closedObs) - 1 // the observer of the previous poll may still be on its way out
			if nOld < 0 {
				nOld = 0
			}
			var targets []string
			for id := range s.byID {
				targets = append(targets, id)
			}
			sort.Strings(targets)
			targets = append(targets, s.closedObs[:nOld]...)
			s.lastLive = nil
			for id, c := range s.stable() {
				if ended, _ := c.ReadEnded(); !ended {
					s.lastLive = append(s.lastLive, id)
				}
			}
			sort.Strings(s.lastLive)
			s.lastMarker = fmt.Sprintf("nobody-%d-%04d", s.Idx, s.obsN)
			s.lastNotFound, s.lastProbed = c11sRouteProbe(o.client, append(append([]string{}, targets...), s.lastLive...), s.lastMarker)
			s.lastListed = o.listed
			if !s.lastProbed {
				rd.inconcl("settle: routing probe in session %d (%s) did not complete", s.Idx, s.Kind)
				o.client.Close(false)
				return false
			}
			rd.agg.count("routing_probes", 1)
			ghost := false
			for _, id := range targets {
				if listed[id] > 0 || !s.lastNotFound[id] {
					ghost = true
				}
			}
			if n := len(s.closedObs); n > 0 && listed[s.closedObs[n-1]] == 0 {
				s.canaryOK++
			}
			o.client.Close(iter%2 == 0)
			s.closedObs = append(s.closedObs, o.id)
			if ghost {
				dirty++
				if s.canaryOK < c11sCanaries {
					needCanary = true
				}
			}
		}
		el := time.Since(start)
		if dirty == 0 {
			// clean; also wait (bounded) until the server has let go of every departed client's socket,
			// so that a handler that has not run yet is not mistaken for one that has finished
			open, ok := rd.socketGate(all)
			if !ok || len(open) == 0 || el >= c11sW {
				rd.agg.count("settle_polls", iter+1)
				if ok && len(open) > 0 {
					rd.agg.count("settled_with_server_sockets_still_open", len(open))
				}
				return true
			}
		} else if el >= c11sW && !needCanary {
			rd.agg.count("settle_polls", iter+1)
			rd.agg.count("settle_deadline_reached", 1)
			return true
		}
		if el >= c11sWMax {
			rd.inconcl("departed peers still listed after %v but fewer than %d canary leaves were confirmed (machine stalled?); no verdict", el.Round(time.Second), c11sCanaries)
			return false
		}
		d := time.Duration(40*(iter+1)) * time.Millisecond
		if d > 400*time.Millisecond {
			d = 400 * time.Millisecond
		}
		time.Sleep(d)
	}
}

// serverPaths classifies every case by what the server's own output says about its handler.
func (rd *c11sRound) serverPaths() {
	txt := rd.srv.LogText()
	conn, disc := map[string]int{}, map[string]int{}
	for _, line := range strings.Split(txt, "\n") {
		var m map[string]int
		switch {
		case strings.HasPrefix(line, "peer connected "):
			m = conn
		case strings.HasPrefix(line, "peer disconnected "):
			m = disc
		default:
			continue
		}
		sid, pid := "", ""
		for _, f := range strings.Fields(line) {
			if strings.HasPrefix(f, "session_id=") {
				sid = f[len("session_id="):]
			} else if strings.HasPrefix(f, "peer_id=") {
				pid = f[len("peer_id="):]
			}
		}
		m[sid+"|"+pid]++
	}
	for _, s := range rd.sess {
		for _, vc := range s.cases() {
			c, d := conn[s.SID+"|"+vc.ID], disc[s.SID+"|"+vc.ID]
			switch {
			case len(s.byID[vc.ID]) > 1:
				vc.Path = fmt.Sprintf("c%d-d%d", c, d)
			case c == 0:
				vc.Path = "no-add"
			case d == 0:
				vc.Path = "add-early-exit"
			default:
				vc.Path = "add-readloop"
			}
			cls := vc.class().String()
			rd.agg.classCount(cls, "executed")
			if vc.Reached {
				rd.agg.classCount(cls, "reached")
			}
			rd.agg.classCount(cls, "path:"+vc.Path)
			if len(s.byID[vc.ID]) == 1 {
				rd.agg.count("server_path:"+vc.Path, 1)
				rd.agg.count("server_path:"+vc.Path+":"+rd.cfg.Kind, 1)
			}
			if vc.Reached {
				rd.e.R.Distinct(fmt.Sprintf("serv|%s|%s|%s|%s|%s|%s", rd.cfg.Name, s.Kind, cls, vc.Role, vc.IDCls, vc.Path))
			}
			rd.e.R.Eval()
		}
	}
}

// socketGate: conjunct (ii) for a set of cases; returns the cases whose server-side socket is still open.
func (rd *c11sRound) socketGate(cs []*c11sCase) (stillOpen []*c11sCase, ok bool) {
	ports := map[int]bool{}
	for _, c := range cs {
		if c.LPort > 0 {
			ports[c.LPort] = true
		}
	}
	open, ok := c11sServerSocketsOpen(rd.srv.Port, ports)
	if !ok {
		return nil, false
	}
	for _, c := range cs {
		if open[c.LPort] {
			stillOpen = append(stillOpen, c)
		}
	}
	return stillOpen, true
}

func c11sIDs(pl []protocol.PeerInfo) []string {
	var out []string
	for _, p := range pl {
		out = append(out, p.PeerID+"("+p.Role+")")
	}
	sort.Strings(out)
	return out
}

// judgeListing decides on the last poll of every observable session after settle().
func (rd *c11sRound) judgeListing() {
	R := rd.e.R
	for _, s := range rd.sess {
		if s.Kind == "slots" {
			continue
		}
		if s.gone || s.lastMarker == "" {
			rd.agg.count("sessions_unobservable_after_a_sender_left", 1)
			continue
		}
		listedPI := s.lastListed
		listed := c11sListedIDs(listedPI)
		notFound := s.lastNotFound
		stable := s.stable()
		nObs := len(s.closedObs) - 2 // the last entry is the observer of the last poll itself, the one before may have been on its way out
		if nObs < 0 {
			nObs = 0
		}
		rd.agg.count("sessions_judged_at_quiescence", 1)
		rd.agg.count("sessions_judged:"+s.Kind, 1)
		if s.host == nil && s.by == nil {
			rd.agg.count("empty_sessions_judged", 1)
		}

		// departed peers: listed / routable
		type finding struct {
			listed, routable bool
			cases            []*c11sCase
		}
		bad := map[string]*finding{}
		for id, cs := range s.byID {
			f := &finding{listed: listed[id] > 0, routable: !notFound[id], cases: cs}
			rd.agg.count("departed_ids_checked", 1)
			if f.listed || f.routable {
				bad[id] = f
			}
		}
		var suspects []*c11sCase
		for _, f := range bad {
			suspects = append(suspects, f.cases...)
		}
		stillOpen, gateOK := rd.socketGate(suspects)
		openSet := map[*c11sCase]bool{}
		for _, c := range stillOpen {
			openSet[c] = true
		}
		badIDs := make([]string, 0, len(bad))
		for id := range bad {
			badIDs = append(badIDs, id)
		}
		sort.Strings(badIDs)
		for _, id := range badIDs {
			f := bad[id]
			// the connection the finding is attributed to: the last one under this id that got far enough to be registered at all
			last := f.cases[len(f.cases)-1]
			for i := len(f.cases) - 1; i >= 0; i-- {
				if p := f.cases[i].Point; p != "tcp-connect" && p != "partial-request" {
					last = f.cases[i]
					break
				}
			}
			anyOpen := false
			for _, c := range f.cases {
				anyOpen = anyOpen || openSet[c]
			}
			if !gateOK || anyOpen || s.canaryOK < c11sCanaries {
				rd.inconcl("departed peer %s (%s) is still listed/routable but the server still holds its socket or canaries are missing (gate ok=%v, open=%v, canaries=%d); no verdict", id, last.class(), gateOK, anyOpen, s.canaryOK)
				continue
			}
			cls := last.class().String()
			if !last.Reached {
				cls = "before:" + cls // the connection ended (error / refusal) on its way to the point
			}
			if last.IDCls == "reuse" {
				// the history class of a re-used id is the pair of connections (the server may have served them in either order)
				cls = "reused-id:"
				for i, c := range f.cases {
					if i > 0 {
						cls += ">"
					}
					cls += c.class().String()
				}
			}
			if last.Role == "sender" {
				cls += "+sender"
			}
			detail := map[string]any{"peer_list_sent_to_later_joiner": c11sIDs(listedPI), "cases_with_this_id": f.cases, "later_leavers_confirmed_delisted": s.canaryOK,
				"since_socket_closed_s": (vk.MonoNow() - last.ClosedAt).Seconds(), "server_log_tail": rd.srv.LogTail(2500)}
			spec := rd.caseSpec(map[string]any{"session_kind": s.Kind, "case": last})
			if f.listed {
				R.Violate("serv:departed-peer-still-listed:"+cls, fmt.Sprintf("a client that disappeared at '%s' (close: %s) is still named in the peer list the server sends to a later joiner; %d later leavers of the same session were already delisted and the server no longer holds the socket", last.Point, last.Close, s.canaryOK), spec, detail)
			}
			if f.routable {
				R.Violate("serv:departed-peer-still-routable:"+cls, fmt.Sprintf("an addressed message to the id of a client that disappeared at '%s' (close: %s) is accepted by the server (no peer_not_found) at quiescence", last.Point, last.Close), spec, detail)
			}
			if s.host == nil && s.by == nil {
				R.Violate("serv:state-left-in-empty-session:"+cls, "every connection of the session is gone, yet a later joiner is told about / can address a peer", spec, detail)
			}
		}
		// earlier observers (ordinary join + leave)
		for _, id := range s.closedObs[:nObs] {
			if listed[id] > 0 || !notFound[id] {
				if s.canaryOK >= c11sCanaries {
					R.Violate("serv:departed-peer-still-listed:observer/ordinary-leave", "a well-behaved receiver that joined, read its peer list and left is still listed/routable while later leavers were delisted",
						rd.caseSpec(map[string]any{"session_kind": s.Kind, "observer": id}), map[string]any{"peer_list": c11sIDs(listedPI)})
				} else {
					rd.inconcl("observer %s still listed, too few canaries (%d)", id, s.canaryOK)
				}
			}
		}
		// ids that are nobody's
		for id := range listed {
			_, isV := s.byID[id]
			_, isS := stable[id]
			if !isV && !isS && !strings.HasPrefix(id, "obs-") {
				R.Violate("serv:unknown-peer-listed", "the peer list names an id no client of this session ever used", rd.caseSpec(map[string]any{"session_kind": s.Kind}), map[string]any{"peer_list": c11sIDs(listedPI)})
			}
		}
		// peers that stayed connected must be routable (their session never emptied: they were in it throughout)
		for _, id := range s.lastLive {
			rd.agg.count("connected_peers_probed", 1)
			if ended, _ := stable[id].ReadEnded(); ended {
				continue // ended meanwhile: judged below
			}
			if notFound[id] {
				R.Violate("serv:connected-peer-not-routable:"+s.Kind, fmt.Sprintf("the %s stayed connected for the whole round, so its session never emptied, yet an addressed message to it is answered with peer_not_found", id),
					rd.caseSpec(map[string]any{"session_kind": s.Kind, "peer": id}), map[string]any{"peer_list": c11sIDs(listedPI), "server_log_tail": rd.srv.LogTail(2500)})
			}
		}
		// uninvolved peers must not have been disconnected by the server
		for id, c := range stable {
			if ended, err := c.ReadEnded(); ended {
				R.Violate("serv:uninvolved-peer-disconnected:"+s.Kind, fmt.Sprintf("the connection of the %s, which only stayed connected while other clients came and went, was ended by the server", id),
					rd.caseSpec(map[string]any{"session_kind": s.Kind, "peer": id}), map[string]any{"read_error": fmt.Sprint(err), "server_log_tail": rd.srv.LogTail(2500)})
			} else {
				rd.agg.count("uninvolved_peers_still_connected", 1)
			}
		}
	}
}

// serverHealth: crash clause – the process lives, no handler panicked.
func (rd *c11sRound) serverHealth() {
	R := rd.e.R
	txt := rd.srv.LogText()
	if !rd.srv.Alive() {
		key, site, _ := c11CrashClass(txt)
		R.Violate("serv:server-process-died:"+key, fmt.Sprintf("thruserv exited during the round (%v) %s", rd.srv.ExitErr(), site), rd.caseSpec(nil), map[string]any{"server_log_tail": c11Tail(txt, 8000)})
		return
	}
	if n := strings.Count(txt, "http: panic serving"); n > 0 {
		key, site, _ := c11CrashClass(txt)
		R.Violate("serv:handler-panic:"+key, fmt.Sprintf("%d WebSocket handlers of the server panicked (recovered by net/http; the peer is disconnected) %s", n, site), rd.caseSpec(nil), map[string]any{"server_log_tail": c11Tail(txt, 8000)})
	}
	rd.agg.count("server_alive_checks", 1)
}

func (rd *c11sRound) hookHits() {
	data, err := os.ReadFile(rd.hlog)
	if err != nil {
		return
	}
	for _, line := range strings.Split(string(data), "\n") {
		fs := strings.Fields(line)
		if len(fs) >= 2 {
			rd.agg.count("server_hook_hits:"+fs[1], 1)
		}
	}
}

func (rd *c11sRound) closeAll() {
	for _, s := range rd.sess {
		for _, c := range s.slotHeld {
			c.Close(false)
		}
		if s.by != nil {
			s.by.Close(true)
		}
		if s.host != nil {
			s.host.Close(true)
		}
	}
}

// ---- listing round --------------------------------------------------------

func (rd *c11sRound) runListing() {
	classes := c11sClasses()
	n := 0
	id := func(s *c11sSess) string { n++; return fmt.Sprintf("v%d-%03d", s.Idx, n) }
	plan := []string{"hosted", "hosted", "receivers-only", "second-sender"}
	for _, kind := range plan {
		s, err := rd.newSession(kind)
		if err != nil {
			if !rd.suspectStall("session setup") {
				rd.inconcl("session setup (%s): %v", kind, err)
			}
			return
		}
		for _, cl := range classes {
			switch kind {
			case "second-sender":
				// a sender-role connection that reaches the read loop deletes the session when it leaves (not C11's
				// business) and nothing could be observed any more: sender role only up to "request-sent"
				if cl.handshake() && cl.Point != "upgraded-unread" {
					s.add(&c11sCase{Point: cl.Point, Close: cl.Close, Role: "sender", ID: id(s), IDCls: "fresh"})
				}
			default:
				s.add(&c11sCase{Point: cl.Point, Close: cl.Close, Role: "receiver", ID: id(s), IDCls: "fresh"})
			}
		}
		if kind != "second-sender" {
			// the same points with a pause before disappearing: the close lands at other places of the handler
			for k := 0; k < 14; k++ {
				cl := classes[rd.rng.Intn(len(classes))]
				if k < 6 {
					cl = []c11sClass{{"request-sent", "fin"}, {"request-sent", "rst"}, {"upgraded-unread", "fin"}, {"upgraded-unread", "rst"}, {"request-sent", "fin"}, {"request-sent", "rst"}}[k]
				}
				s.add(&c11sCase{Point: cl.Point, Close: cl.Close, Role: "receiver", ID: id(s), IDCls: "fresh", Delay: []int{20, 50, 100, 200, 500, 1000, 5000}[rd.rng.Intn(7)]})
			}
			// a flaky client: two connections under one id, back to back, each ending at its own point
			for k := 0; k < 8; k++ {
				a, b := classes[rd.rng.Intn(len(classes))], classes[rd.rng.Intn(len(classes))]
				if k < 4 { // always: the second connection ends inside the handshake
					b = []c11sClass{{"request-sent", "fin"}, {"request-sent", "rst"}, {"upgraded-unread", "fin"}, {"upgraded-unread", "rst"}}[k]
				}
				rid := id(s)
				s.add(&c11sCase{Point: a.Point, Close: a.Close, Role: "receiver", ID: rid, IDCls: "reuse"},
					&c11sCase{Point: b.Point, Close: b.Close, Role: "receiver", ID: rid, IDCls: "reuse"})
			}
		}
	}
	// the reader-behaviour dimension (c11_serv_stall.go): peers that stay connected and stop reading, blocked before the
	// churn starts; some are replaced by a second connection under their id, some leave in the middle of the churn, the
	// rest after it. All of them are gone at quiescence and judged like every other departed peer.
	churnJobs := 0
	for _, s := range rd.sess {
		churnJobs += len(s.items)
	}
	nr := 0
	for _, s := range rd.sess {
		sid := func() string { nr++; return fmt.Sprintf("nr%d-%03d", s.Idx, nr) }
		switch s.Kind {
		case "hosted":
			rd.stallPlan(s, sid, "churn", c11sStallPoints, 4, churnJobs)
		case "receivers-only":
			rd.stallPlan(s, sid, "churn", []string{"stalled-own-errors"}, 2, churnJobs)
		}
	}
	rd.startStallers()
	if rd.progressAll("stalled") && rd.runReconnects() {
		rd.runVanishers(6)
		rd.progressAll("churn")
	}
	rd.releaseStallers(nil)
	rd.progress("departure", nil)
	if rd.aborted.Load() {
		rd.serverPaths()
		return
	}
	if rd.settle() {
		rd.serverPaths()
		rd.judgeListing()
	} else {
		rd.serverPaths()
	}
}

// ---- slots round ----------------------------------------------------------

func (rd *c11sRound) runSlots() {
	const N = 3
	R := rd.e.R
	classes := c11sClasses()
	canary, err := rd.newSession("slots") // sender only: the canary observers are its only receivers
	if err != nil {
		if !rd.suspectStall("session setup") {
			rd.inconcl("canary session setup: %v", err)
		}
		return
	}
	canary.Kind = "canary"
	n := 0
	for _, cl := range classes {
		s, err := rd.newSession("slots")
		if err != nil {
			if !rd.suspectStall("session setup") {
				rd.inconcl("session setup (slots): %v", err)
			}
			return
		}
		for b := 0; b < 3*N; b++ {
			n++
			s.add(&c11sCase{Point: cl.Point, Close: cl.Close, Role: "receiver", ID: fmt.Sprintf("v%d-%03d", s.Idx, n), IDCls: "fresh"})
		}
	}
	// non-readers as receivers under the limit: per stall point a session whose N slots are all held by non-readers, and
	// one session with two of them, one of which is replaced by a second connection under its id
	nr := 0
	for i, p := range append(append([]string{}, c11sStallPoints...), c11sStallPoints[int(rd.cfg.Seed%3)]) {
		s, err := rd.newSession("slots")
		if err != nil {
			if !rd.suspectStall("session setup") {
				rd.inconcl("session setup (slots, non-readers): %v", err)
			}
			return
		}
		sid := func() string { nr++; return fmt.Sprintf("nr%d-%03d", s.Idx, nr) }
		fill := "addressed"
		if p == "stalled-own-errors" {
			fill = "own-errors"
		}
		if i < len(c11sStallPoints) {
			for b := 0; b < N; b++ {
				rd.newStaller(s, sid(), p, []string{"fin", "rst"}[b%2], fill, "slots", nil).info.Overflow = b == 1
			}
		} else {
			rd.newStaller(s, sid(), p, "rst", fill, "slots", nil)
			sc := []c11sClass{{"joined", "fin"}, {"peer-list-read", "rst"}, {"request-sent", "fin"}, {"upgraded-unread", "rst"}}[int(rd.cfg.Seed>>2)%4]
			rd.newStaller(s, sid(), p, "fin", fill, "reconnect", &sc)
		}
	}
	rd.startStallers()
	if !(rd.progressAll("stalled") && rd.runReconnects()) {
		rd.releaseStallers(nil)
		rd.serverPaths()
		return
	}
	// per session: batches of N concurrent vanishers; sessions in parallel
	slots := rd.sess[1:]
	vk.ParallelDo(len(slots), 6, func(i int) {
		s := slots[i]
		for b := 0; b < len(s.items) && !rd.aborted.Load(); b += N {
			var wg sync.WaitGroup
			for _, it := range s.items[b:min(b+N, len(s.items))] {
				wg.Add(1)
				go func(vc *c11sCase) {
					defer wg.Done()
					c11sVanish(rd.srv.Port, s.Join, "host", vc)
					rd.afterCase(vc)
					_ = s.host.SendText(c11sEnvJSON(protocol.TypeOffer, vc.ID))
				}(it[0])
			}
			wg.Wait()
			// give the next batch a chance to be admitted: wait (bounded, no verdict) for the server to drop this batch's sockets
			for t0 := time.Now(); time.Since(t0) < 3*time.Second; time.Sleep(20 * time.Millisecond) {
				if open, ok := rd.socketGate(s.vanishers()[:min(b+N, len(s.items))]); !ok || len(open) == 0 {
					break
				}
			}
		}
	})
	rd.progressAll("slots")
	rd.releaseStallers(nil)
	rd.progress("departure", nil)
	if rd.aborted.Load() {
		rd.serverPaths()
		return
	}
	// quiescence: fill the N slots of every session with real receivers
	start := time.Now()
	lists := map[int][]protocol.PeerInfo{}
	var prevCanary string
	canaryOK := 0
	for iter := 0; ; iter++ {
		missing := 0
		for _, s := range slots {
			for len(s.slotHeld) < N {
				s.obsN++
				c, err := vk.DialWS(vk.WSURL(rd.srv.URL, s.Join, fmt.Sprintf("real-%d-%d", s.Idx, len(s.slotHeld)), "receiver"), c11sIOWait, nil)
				if err != nil {
					if c.HTTPStatus != http.StatusTooManyRequests {
						rd.inconcl("slots: receiver join failed with http %d: %v", c.HTTPStatus, err)
						rd.serverPaths()
						return
					}
					rd.agg.count("slot_refusals_seen", 1)
					missing++
					break
				}
				if rec, ok := c.WaitType(protocol.TypePeerList, c11sIOWait); ok {
					var pl protocol.PeerList
					if rec.Env.DecodePayload(&pl) == nil {
						lists[s.Idx] = pl.Peers
					}
				}
				s.slotHeld = append(s.slotHeld, c)
			}
		}
		// canary: an ordinary join+leave on the same server, confirmed delisted by the next one
		o := rd.observe(canary)
		switch {
		case o.status == http.StatusTooManyRequests:
			// earlier canaries have not been delisted yet: no confirmation from this poll
		case !o.ok:
			rd.observeFailed(canary, o, "slots canary")
			if o.client != nil {
				o.client.Close(false)
			}
			return
		default:
			if prevCanary != "" && c11sListedIDs(o.listed)[prevCanary] == 0 {
				canaryOK++
			}
			o.client.Close(iter%2 == 0)
			prevCanary = o.id
		}
		if missing == 0 {
			break
		}
		el := time.Since(start)
		if el >= c11sW && canaryOK >= c11sCanaries {
			rd.agg.count("settle_deadline_reached", 1)
			break
		}
		if el >= c11sWMax {
			rd.inconcl("slots: receivers still refused after %v but only %d canary leaves confirmed; no verdict", el.Round(time.Second), canaryOK)
			return
		}
		d := time.Duration(40*(iter+1)) * time.Millisecond
		if d > 400*time.Millisecond {
			d = 400 * time.Millisecond
		}
		time.Sleep(d)
	}
	rd.serverPaths()
	for _, s := range slots {
		cl := s.cases()[0].class()
		rd.agg.count("sessions_judged_at_quiescence", 1)
		rd.agg.count("slot_sessions_judged", 1)
		listed := c11sListedIDs(lists[s.Idx])
		var ghosts []string
		for id := range listed {
			if _, v := s.byID[id]; v {
				ghosts = append(ghosts, id)
			}
		}
		sort.Strings(ghosts)
		if len(s.slotHeld) == N && len(ghosts) == 0 {
			rd.agg.count("slot_sessions_all_receivers_admitted", 1)
			continue
		}
		open, gateOK := rd.socketGate(s.cases())
		if !gateOK || len(open) > 0 || canaryOK < c11sCanaries {
			rd.inconcl("slots: session %d (%s): %d of %d receivers admitted, departed listed %v, but server still holds %d sockets / canaries %d; no verdict", s.Idx, cl, len(s.slotHeld), N, ghosts, len(open), canaryOK)
			continue
		}
		spec := rd.caseSpec(map[string]any{"session_kind": "slots", "max_receivers_per_sender": N, "disconnect_point": cl.Point, "close": cl.Close, "vanished_receivers": len(s.cases())})
		detail := map[string]any{"receivers_admitted": len(s.slotHeld), "peer_list_of_last_admitted": c11sIDs(lists[s.Idx]), "cases": s.cases(), "canary_leaves_confirmed": canaryOK, "server_log_tail": rd.srv.LogTail(2500)}
		if len(s.slotHeld) < N {
			R.Violate("serv:receiver-slot-held-by-departed-peer:"+cl.String(), fmt.Sprintf("after %d receivers disappeared at '%s' (close: %s) only %d of %d real receivers are admitted (\"receiver limit reached\") although the sender is the only live connection; ordinary leavers on the same server were delisted meanwhile", len(s.cases()), cl.Point, cl.Close, len(s.slotHeld), N), spec, detail)
		}
		if len(ghosts) > 0 {
			R.Violate("serv:departed-peer-still-listed:"+cl.String(), fmt.Sprintf("receivers that disappeared at '%s' (close: %s) are still named in the peer list sent to a later joiner: %v", cl.Point, cl.Close, ghosts), spec, detail)
		}
	}
	// the sender stayed connected throughout
	for _, s := range slots {
		if ended, err := s.host.ReadEnded(); ended {
			R.Violate("serv:uninvolved-peer-disconnected:slots", "the sender's connection was ended by the server while receivers came and went", rd.caseSpec(nil), map[string]any{"read_error": fmt.Sprint(err)})
		} else {
			rd.agg.count("uninvolved_peers_still_connected", 1)
		}
	}
}

// ---- expiry round ---------------------------------------------------------

// Sessions expire (hub.CloseSession from the expiry timer) while clients vanish
// at every point. After expiry nothing of those sessions can be asked for, so
// the round judges the crash / deadlock clause only: the process lives, no
// handler panicked, a new session on the same server is served.
func (rd *c11sRound) runExpiry() {
	classes := c11sClasses()
	n := 0
	for k := 0; k < 3; k++ {
		s, err := rd.newSession("hosted")
		if err != nil {
			if !rd.suspectStall("session setup") {
				rd.inconcl("session setup (expiry): %v", err)
			}
			return
		}
		for rep := 0; rep < 12; rep++ {
			for _, cl := range classes {
				n++
				s.add(&c11sCase{Point: cl.Point, Close: cl.Close, Role: "receiver", ID: fmt.Sprintf("v%d-%04d", s.Idx, n), IDCls: "fresh"})
			}
		}
	}
	// non-readers that are still blocked when their session expires (hub.CloseSession has to get rid of them), one per
	// stall point and session, and one whose id is taken over by a second connection first
	nr := 0
	for _, s := range rd.sess {
		sid := func() string { nr++; return fmt.Sprintf("nr%d-%03d", s.Idx, nr) }
		for i, p := range c11sStallPoints {
			fill := []string{"addressed", "broadcast"}[(i+s.Idx)%2]
			if p == "stalled-own-errors" {
				fill = "own-errors"
			}
			rd.newStaller(s, sid(), p, []string{"fin", "rst"}[(i+s.Idx)%2], fill, "expiry", nil).info.Overflow = (i+s.Idx)%3 == 0
		}
		sc := []c11sClass{{"joined", "fin"}, {"request-sent", "rst"}, {"peer-list-read", "wsclose"}}[s.Idx%3]
		rd.newStaller(s, sid(), c11sStallPoints[(s.Idx+int(rd.cfg.Seed%3))%3], "rst", "addressed", "reconnect", &sc)
	}
	// (beside the vanishers, not before them: the sessions live for 3 s only)
	nonReaders := make(chan struct{})
	go func() {
		defer close(nonReaders)
		rd.startStallers()
		_ = rd.progressAll("stalled") && rd.runReconnects()
	}()
	// vanishers run until their session's join code is refused (expired) – bounded by the case list
	var mu sync.Mutex
	expired := map[int]bool{}
	var jobs []*c11sCase
	for k := 0; ; k++ {
		any := false
		for _, s := range rd.sess {
			if cs := s.vanishers(); k < len(cs) {
				jobs = append(jobs, cs[k])
				any = true
			}
		}
		if !any {
			break
		}
	}
	ran := 0
	vk.ParallelDo(len(jobs), 6, func(i int) {
		vc := jobs[i]
		s := rd.sess[vc.Sess]
		mu.Lock()
		done := expired[s.Idx]
		mu.Unlock()
		if done || rd.aborted.Load() {
			return
		}
		_ = s.host.SendText(c11sEnvJSON(protocol.TypeOffer, vc.ID))
		c11sVanish(rd.srv.Port, s.Join, "host", vc)
		rd.afterCase(vc)
		_ = s.host.SendText(c11sEnvJSON(protocol.TypeOffer, ""))
		mu.Lock()
		ran++
		if vc.Status == http.StatusNotFound {
			expired[s.Idx] = true
		}
		mu.Unlock()
		time.Sleep(10 * time.Millisecond)
	})
	rd.agg.count("expiry_round_vanishers_run", ran)
	<-nonReaders
	if rd.aborted.Load() {
		rd.releaseStallers(nil)
		rd.serverPaths()
		return
	}
	// wait for the expiry itself (bounded; the lifetime is 3 s): "session expired" lines of the server. The non-readers
	// stay for the first part of the wait (coverage: how many sessions expired with a blocked non-reader in them).
	for t0 := time.Now(); time.Since(t0) < 20*time.Second; time.Sleep(50 * time.Millisecond) {
		if rd.srv.LogCount("session expired session_id=") >= len(rd.sess) || !rd.srv.Alive() {
			break
		}
		if time.Since(t0) > 8*time.Second {
			rd.releaseStallers(nil) // idempotent
		}
	}
	rd.expiredWithNonReaders()
	rd.progress("expiry", nil)
	rd.releaseStallers(nil)
	exp := rd.srv.LogCount("session expired session_id=")
	rd.agg.count("sessions_expired_with_clients_connected", exp)
	rd.serverPaths()
	if exp < len(rd.sess) {
		rd.inconcl("expiry: only %d of %d sessions were reported expired within the watchdog", exp, len(rd.sess))
		return
	}
	// the hub must still serve: a new session, a join, a peer list with just the joiner
	s, err := rd.newSession("receivers-only")
	if err != nil {
		rd.inconcl("expiry: new session after the expiries: %v", err)
		return
	}
	o := rd.observe(s)
	if !o.ok {
		rd.observeFailed(s, o, "after expiry")
	} else {
		rd.agg.count("joins_served_after_expiries", 1)
	}
	if o.client != nil {
		o.client.Close(true)
	}
	for _, s := range rd.sess {
		for _, c := range s.stable() {
			if ended, _ := c.ReadEnded(); ended {
				rd.agg.count("expired_session_connections_closed_by_server", 1)
			}
		}
	}
}

// ---------------------------------------------------------------------------

func runC11Serv(e *Env) {
	R := e.R
	R.Rule = "evaluations = client connections driven against the real thruserv that ended at a chosen point of their life (9 disconnect points x FIN/RST/close frame, receiver/sender role, fresh/re-used id; " +
		"plus non-readers: 3 stall points x FIN/RST that stay connected without reading until the server-side write is blocked, alone / replaced by a second connection under their id / during the churn / holding receiver slots / until the session expires; " +
		"plus connections that present byte-identical handshake fields (Sec-WebSocket-Key etc.) while live together: a reconnect under the same id, two peers of one session, peers of two sessions x FIN/RST/close frame of the one that leaves); " +
		"plus, in the expiry-storm rounds, WebSocket connections into 40 ms sessions of a server on which thousands of other sessions are created and expire (fates: sender leaves at once / receiver or sender stays until the expiry ends the connection / late join beside the expiry); " +
		"a distinct non-trivial case = (server configuration, session kind, disconnect point/close, role, id class, path the server's handler took per its own output: no-add | add-early-exit | add-readloop) of a case that reached its point"
	bin := filepath.Join(e.BinDir, "thruserv")
	if _, err := os.Stat(bin); err != nil {
		R.Inconcl("thruserv binary not built: " + err.Error())
		R.Require(false, "no thruserv binary")
		return
	}
	agg := &c11sAgg{counters: map[string]int{}, perClass: map[string]map[string]int{}}
	rounds := c11sRounds(e.Tier, e.Seed)
	t0 := time.Now()
	var mu sync.Mutex
	var infos []any
	started := 0
	vk.ParallelDo(len(rounds), 3, func(i int) {
		cfg := rounds[i]
		if c11sServStalled.Load() {
			return
		}
		if only := os.Getenv("VERIF_C11S_KIND"); only != "" && cfg.Kind != only { // debugging aid: the run is then inconclusive (rounds missing)
			return
		}
		rd := &c11sRound{e: e, cfg: cfg, agg: agg, rng: vk.NewRng(cfg.Seed), hlog: filepath.Join(e.Work, fmt.Sprintf("c11serv-%02d.hooks", i))}
		env := []string{"VERIFHOOK_LOG=" + rd.hlog}
		if cfg.Hooks != "" {
			env = append(env, "VERIFHOOK="+cfg.Hooks)
		}
		srv, err := vk.StartServEnv(bin, cfg.Flags, filepath.Join(e.Work, fmt.Sprintf("c11serv-%02d.log", i)), env)
		if err != nil {
			R.Inconcl(fmt.Sprintf("c11serv round %d (%s): %v", i, cfg.Name, err))
			return
		}
		rd.srv = srv
		r0 := time.Now()
		switch cfg.Kind {
		case "listing":
			rd.runListing()
		case "slots":
			rd.runSlots()
		case "expiry":
			rd.runExpiry()
		case "nonce":
			rd.runNonce()
		case "expstorm":
			rd.runExpiryStorm()
		}
		rd.serverHealth()
		rd.closeAll()
		rd.hookHits()
		srv.Stop()
		rd.raceReports()
		nCases, nReached := rd.nonceConns, rd.nonceConnsReached
		var notReached []any
		for _, s := range rd.sess {
			for _, vc := range s.cases() {
				nCases++
				if vc.Reached {
					nReached++
				} else if len(notReached) < 12 && vc.Status != http.StatusNotFound && (vc.LPort > 0 || vc.Note != "") {
					notReached = append(notReached, vc)
				}
			}
		}
		mu.Lock()
		started++
		infos = append(infos, map[string]any{"round": i, "config": cfg.Name, "kind": cfg.Kind, "flags": cfg.Flags, "verifhook": cfg.Hooks, "sessions": len(rd.sess),
			"connections_driven": nCases, "reached_their_point": nReached, "not_reached_samples": notReached, "wall_s": time.Since(r0).Seconds()})
		mu.Unlock()
		for _, s := range rd.sess {
			for _, vc := range s.cases() {
				if vc.Reached && vc.Path == "add-early-exit" {
					R.Sample(map[string]any{"server_config": cfg.Name, "session_kind": s.Kind, "case": vc})
					break
				}
			}
		}
		vk.Logf("c11serv round %d %s: %d connections (%d reached), %.1fs", i, cfg.Name, nCases, nReached, time.Since(r0).Seconds())
	})

	agg.mu.Lock()
	defer agg.mu.Unlock()
	c := agg.counters
	R.SetExtra("serv_rounds", infos)
	R.SetExtra("serv_counters", c)
	R.SetExtra("serv_per_disconnect_class", agg.perClass)
	R.SetExtra("serv_wall_s", time.Since(t0).Seconds())
	if c11sDiagBroken.Load() {
		R.SetExtra("serv_kernel_queue_lookup", "/proc/net/tcp* (exact netlink lookups not available)")
	} else {
		R.SetExtra("serv_kernel_queue_lookup", "NETLINK_SOCK_DIAG exact lookups")
	}

	if len(R.Violations) > 0 {
		return // a refuting execution was found; the minimum-observation rules are about passing runs
	}
	R.Require(started == len(rounds), fmt.Sprintf("only %d of %d server rounds ran", started, len(rounds)))
	for _, cl := range c11sClasses() {
		m := agg.perClass[cl.String()]
		R.Require(m["reached"] >= 3, fmt.Sprintf("disconnect class %s reached its point only %d times", cl, m["reached"]))
	}
	R.Require(c["server_path:add-early-exit:listing"] >= 5, fmt.Sprintf("only %d connections made the server register the peer and leave before its read loop (listing rounds)", c["server_path:add-early-exit:listing"]))
	R.Require(c["server_path:add-early-exit:slots"] >= 3, fmt.Sprintf("only %d such connections in the receiver-limit rounds", c["server_path:add-early-exit:slots"]))
	R.Require(c["server_path:add-readloop"] >= 20, fmt.Sprintf("only %d connections reached the server's read loop", c["server_path:add-readloop"]))
	R.Require(c["server_path:no-add"] >= 5, fmt.Sprintf("only %d connections ended before the server registered them", c["server_path:no-add"]))
	R.Require(c["sessions_judged:hosted"] >= 4 && c["empty_sessions_judged"] >= 2, fmt.Sprintf("sessions judged at quiescence: hosted %d, empty %d", c["sessions_judged:hosted"], c["empty_sessions_judged"]))
	R.Require(c["slot_sessions_judged"] >= len(c11sClasses()), fmt.Sprintf("only %d receiver-limit sessions judged", c["slot_sessions_judged"]))
	R.Require(c["departed_ids_checked"] >= 100, fmt.Sprintf("only %d departed ids checked against listing and routing", c["departed_ids_checked"]))
	R.Require(c["connected_peers_probed"] >= 6 && c["uninvolved_peers_still_connected"] >= 6, "too few connected (uninvolved) peers probed")
	R.Require(c["sessions_expired_with_clients_connected"] >= 3 && c["joins_served_after_expiries"] >= 1, "expiry round did not complete")
	R.Require(c["server_alive_checks"] >= len(rounds), "server health not checked in every round")
	// the reader-behaviour dimension: every stall point and fill was driven to a blocked server-side write, in every round
	// kind and combined with every event, and the canaries were asked while the writes were blocked
	for _, p := range c11sStallPoints {
		R.Require(c["nonreader_blocked:"+p] >= 4, fmt.Sprintf("non-readers of class %s with a blocked server-side write: only %d", p, c["nonreader_blocked:"+p]))
		for _, cl := range []string{"fin", "rst"} {
			m := agg.perClass[p+"/"+cl]
			R.Require(m["reached"] >= 2, fmt.Sprintf("non-reader class %s/%s blocked only %d times", p, cl, m["reached"]))
		}
	}
	for _, f := range []string{"addressed", "broadcast", "own-errors"} {
		R.Require(c["nonreader_blocked_fill:"+f] >= 3, fmt.Sprintf("non-readers blocked by %s traffic: only %d", f, c["nonreader_blocked_fill:"+f]))
	}
	for _, k := range []string{"listing", "slots", "expiry"} {
		R.Require(c["nonreader_blocked_round:"+k] >= 3, fmt.Sprintf("blocked non-readers in %s rounds: only %d", k, c["nonreader_blocked_round:"+k]))
	}
	for _, ev := range []string{"stalled", "reconnect", "churn", "slots", "expiry", "departure"} {
		R.Require(c["progress_probes_served:"+ev] >= 1, fmt.Sprintf("no canary of the uninvolved was asked after event '%s' of a non-reader's history", ev))
	}
	R.Require(c["reconnects_over_a_blocked_nonreader"] >= 6, fmt.Sprintf("only %d second connections came under the id of a blocked non-reader", c["reconnects_over_a_blocked_nonreader"]))
	R.Require(c["progress_probes_served_with_blocked_nonreader:reconnect"] >= 6, fmt.Sprintf("only %d canaries after a reconnect over a blocked non-reader", c["progress_probes_served_with_blocked_nonreader:reconnect"]))
	R.Require(c["connected_nonreaders_probed"] >= 10 && c["senders_of_a_nonreaders_session_answered"] >= 10, "too few probes of the sender / the routability of a connected non-reader")
	R.Require(c["nonreaders_with_hub_queue_overflowed"] >= 6 && c["nonreader_overflowed_event:reconnect"] >= 2, fmt.Sprintf("only %d blocked non-readers had more messages routed to them than the hub queues (%d of them replaced by a reconnect)", c["nonreaders_with_hub_queue_overflowed"], c["nonreader_overflowed_event:reconnect"]))
	R.Require(c["sessions_expired_with_a_blocked_nonreader"] >= 1, "no session expired while a blocked non-reader was in it")
	// the handshake dimension: every history of connections with equal handshake fields reached its point (both
	// connections registered, the leaving one's server end gone) with every close class and both kinds of key
	for _, h := range c11nHists {
		R.Require(c["nonce_cases_reached:"+h] >= 3, fmt.Sprintf("connections with equal handshake fields, history %s: only %d cases reached their point", h, c["nonce_cases_reached:"+h]))
	}
	for _, k := range []string{"close:fin", "close:rst", "close:wsclose", "key:rfc-sample", "key:random-per-case"} {
		R.Require(c["nonce_cases_reached:"+k] >= 3, fmt.Sprintf("connections with equal handshake fields, %s: only %d cases reached their point", k, c["nonce_cases_reached:"+k]))
	}
	R.Require(c["nonce_connected_peers_judged"] >= 40 && c["nonce_departed_ids_checked"] >= 20, fmt.Sprintf("connections with equal handshake fields: only %d connected / %d departed peers judged", c["nonce_connected_peers_judged"], c["nonce_departed_ids_checked"]))
	// many sessions expiring beside creations, joins and departures (c11_serv_expstorm.go)
	R.Require(c["expstorm_sessions_created"] >= 5000 && c["expstorm_sessions_reported_expired"] >= 5000, fmt.Sprintf("expiry storm: only %d sessions created / %d reported expired", c["expstorm_sessions_created"], c["expstorm_sessions_reported_expired"]))
	R.Require(c["expstorm_sessions_expired_while_all_creators_were_creating"] >= 1000, fmt.Sprintf("expiry storm: only %d sessions had expired while all creators were still creating", c["expstorm_sessions_expired_while_all_creators_were_creating"]))
	for _, f := range c11xFates {
		R.Require(c["expstorm_fate_reached:"+f] >= 5, fmt.Sprintf("expiry storm: fate %s reached only %d times", f, c["expstorm_fate_reached:"+f]))
	}
	R.Require(c["expstorm_sessions_deleted_by_their_sender"] >= 5 && c["expstorm_connections_ended_by_expiry:receiver"] >= 5 && c["expstorm_connections_ended_by_expiry:sender"] >= 5,
		"expiry storm: too few senders left before their session expired / too few connections were ended by an expiry")
	R.Require(c["expstorm_joins_served_after_storm"] >= 1, "expiry storm: no join into a brand-new session was served after the storm")
	if e.Race {
		R.Require(c["server_race_logs_checked"] >= started, fmt.Sprintf("race stage: the race log of the server process was looked up in only %d of %d rounds", c["server_race_logs_checked"], started))
	}
	R.Require(c["server_hook_hits:hub.remove.afterUnlink"] >= 100, fmt.Sprintf("the server's own remove path was observed only %d times (hook log)", c["server_hook_hits:hub.remove.afterUnlink"]))
}
