//go:build verif

package main

// c11_serv_expstorm.go – C11, server stage, rounds of kind "expstorm": MANY sessions of
// one real thruserv expire while other sessions are being created, joined and left.
//
// The expiry round (c11_serv.go) lets three sessions expire, one after the other, on a
// server that does nothing else at that moment: the timer callback of an expiring
// session (hub.CloseSession + store.Delete + the bookkeeping of cmd/thruserv around
// them) never ran beside a POST /session of another client, beside the departure of
// another session's sender (which cancels that session's expiry) or beside the expiry
// of a third session. The property quantifies over "sessions expiring ... in any
// interleaving" and over the server, not only over internal/peers, so this round
// produces those interleavings in bulk: a short --session-timeout, keep-alive HTTP
// clients that create sessions continuously (bursts created together expire together),
// and WebSocket clients that, in sessions of their own,
//
//   sender-leaves        join as sender, read the peer list, leave at once (the handler's
//                        deferred block cancels the expiry and deletes the session),
//   receiver-until-end   join as receiver and stay until the expiry closes the connection,
//   sender-until-end     the same as sender, whose handler then cancels an expiry that has
//                        already fired,
//   late-join            join about one lifetime after the creation (Add of the real
//                        handler beside CloseSession / store.Delete of the expiry callback).
//
// Oracle (crash / deadlock clause only; nothing of an expired session can be asked for):
// the server process is alive after the storm (a runtime "fatal error: concurrent map
// writes" is not a panic and ends the whole process), no handler panicked, and - on a
// server that keeps expiring sessions - a join into a brand-new session is still served
// with its peer list and /health answers. In the race stage every report of the race
// detector written by the thruserv process of a round whose stack shows a file of
// cmd/thruserv is a violation too (the orchestrator attributes reports by module-path
// frames and cannot see package main of the server).
//
// The amount of work is a pure function of (tier, round seed): numbers of requests per
// worker, never a duration. Minimum observation: sessions created, sessions reported
// expired while creators were still creating, each fate reached.

import (
	"fmt"
	"io"
	"net/http"
	"os"
	"strconv"
	"strings"
	"sync"
	"sync/atomic"
	"time"

	vk "github.com/sheerbytes/sheerbytes/internal/verifkit"
	"github.com/sheerbytes/sheerbytes/pkg/protocol"
)

var c11xFates = []string{"sender-leaves", "receiver-until-end", "sender-until-end", "late-join"}

const c11xTTL = 40 * time.Millisecond

// c11xStayWait bounds how long a connection that stays "until the expiry ends it" waits for that end. Its expiry decides
// nothing (the case is counted as not ended), so it is much shorter than the client-step watchdog: 75 lifetimes.
const c11xStayWait = 3 * time.Second

func c11xFlags() []string {
	return append(append([]string{}, c11sLimitsOff...), "--max-receivers-per-sender", "0", "--max-sessions", "0",
		"--session-timeout", c11xTTL.String())
}

// c11xPost creates one session through a keep-alive client; status is reported as 200 for any 2xx answer with a join code.
func c11xPost(hc *http.Client, base string) (join string, status int, err error) {
	resp, err := hc.Post(base+"/session", "application/json", nil)
	if err != nil {
		return "", 0, err
	}
	body, _ := io.ReadAll(io.LimitReader(resp.Body, 4096))
	_ = resp.Body.Close()
	if resp.StatusCode/100 != 2 {
		return "", resp.StatusCode, nil
	}
	const k = `"join_code":"`
	s := string(body)
	if i := strings.Index(s, k); i >= 0 {
		s = s[i+len(k):]
		if j := strings.IndexByte(s, '"'); j > 0 {
			return s[:j], http.StatusOK, nil
		}
	}
	return "", resp.StatusCode, fmt.Errorf("no join code in %q", string(body))
}

func (rd *c11sRound) runExpiryStorm() {
	e := rd.e
	creators, perCreator := 8, e.Pick(2500, 10000)
	if e.Race {
		perCreator = e.Pick(800, 3200) // the race detector needs an unordered pair of accesses, not a collision in time: a third of the volume
	}
	wsWorkers, perWS := 6, e.Pick(120, 480)
	var dead, stop atomic.Bool
	var created, postErrs, postRefused atomic.Int64
	var expiredWhileCreating atomic.Int64
	count := func(k string) {
		rd.agg.count("expstorm_"+k, 1)
		if strings.HasPrefix(k, "fate_reached:") {
			rd.e.R.Distinct(fmt.Sprintf("serv|%s|expiry-storm|%s", rd.cfg.Name, strings.TrimPrefix(k, "fate_reached:")))
		}
	}
	checkDead := func() bool {
		if !rd.srv.Alive() {
			dead.Store(true)
			stop.Store(true)
			return true
		}
		return false
	}
	newHC := func() *http.Client {
		return &http.Client{Timeout: c11sIOWait, Transport: &http.Transport{MaxIdleConnsPerHost: 2, DisableCompression: true}}
	}

	var wg sync.WaitGroup
	var creatorsLeft atomic.Int32
	creatorsLeft.Store(int32(creators))
	for w := 0; w < creators; w++ {
		wg.Add(1)
		go func(w int) {
			defer wg.Done()
			hc := newHC()
			defer hc.CloseIdleConnections()
			for i := 0; i < perCreator && !stop.Load(); i++ {
				_, st, err := c11xPost(hc, rd.srv.URL)
				switch {
				case err != nil:
					if checkDead() {
						return
					}
					postErrs.Add(1)
				case st != http.StatusOK:
					postRefused.Add(1)
				default:
					created.Add(1)
				}
				if w == 0 && i == perCreator/2 && creatorsLeft.Load() == int32(creators) {
					// a logical mark, read by one creator in the middle of its work: so many sessions had already expired
					// while all creators were still creating
					expiredWhileCreating.Store(int64(rd.srv.LogCount("session expired session_id=")))
				}
			}
			creatorsLeft.Add(-1)
		}(w)
	}
	for w := 0; w < wsWorkers; w++ {
		wg.Add(1)
		go func(w int) {
			defer wg.Done()
			rng := vk.NewRng(rd.cfg.Seed ^ vk.HashStr(fmt.Sprintf("expstorm-ws-%d", w)))
			hc := newHC()
			defer hc.CloseIdleConnections()
			for i := 0; i < perWS && !stop.Load(); i++ {
				fate := c11xFates[(w+i)%len(c11xFates)]
				pause := time.Duration(rng.Intn(int(c11xTTL))) + c11xTTL/2 // late-join: 0.5 .. 1.5 lifetimes
				abrupt := rng.Bool()
				join, st, err := c11xPost(hc, rd.srv.URL)
				if err != nil || st != http.StatusOK {
					if err != nil && checkDead() {
						return
					}
					count("ws_session_not_created")
					continue
				}
				created.Add(1)
				rd.e.R.Eval()
				role := "receiver"
				if strings.HasPrefix(fate, "sender") {
					role = "sender"
				}
				if fate == "late-join" {
					time.Sleep(pause)
				}
				c, err := vk.DialWS(vk.WSURL(rd.srv.URL, join, fmt.Sprintf("x%d-%d", w, i), role), c11sIOWait, nil)
				if err != nil {
					if c.HTTPStatus == 0 && checkDead() {
						return
					}
					if c.HTTPStatus == http.StatusNotFound {
						count("join_refused_session_gone:" + fate)
						if fate == "late-join" {
							count("fate_reached:" + fate)
						}
					} else {
						count("join_failed_other:" + fate)
					}
					continue
				}
				_, gotList := c.WaitType(protocol.TypePeerList, c11sIOWait)
				if gotList {
					count("joins_served_during_storm")
				}
				switch fate {
				case "sender-leaves":
					c.Close(!abrupt)
					if gotList {
						count("fate_reached:" + fate)
					}
				case "late-join":
					count("fate_reached:" + fate)
					if gotList {
						count("late_join_served_before_expiry")
					} else if ended, _ := c.ReadEnded(); ended {
						count("late_join_upgraded_then_closed_by_expiry")
					}
					c.Close(!abrupt)
				default: // stay until the expiry ends the connection
					c.WaitFor(func(vk.WSRecv) bool { return false }, c11xStayWait)
					if ended, _ := c.ReadEnded(); ended {
						count("connections_ended_by_expiry:" + role)
						count("fate_reached:" + fate)
					} else {
						count("connection_not_ended_within_watchdog:" + role) // no verdict: the property does not promise it
					}
					c.Close(!abrupt)
				}
			}
		}(w)
	}
	wg.Wait()

	nCreated := int(created.Load())
	rd.agg.count("expstorm_sessions_created", nCreated)
	rd.agg.count("expstorm_post_errors", int(postErrs.Load()))
	rd.agg.count("expstorm_post_refused", int(postRefused.Load()))
	rd.agg.count("expstorm_sessions_expired_while_all_creators_were_creating", int(expiredWhileCreating.Load()))
	spec := rd.caseSpec(map[string]any{"workload": "expiry storm", "session_timeout": c11xTTL.String(), "creators": creators, "posts_per_creator": perCreator,
		"ws_workers": wsWorkers, "sessions_per_ws_worker": perWS, "fates": c11xFates})
	died := func(when string) bool {
		if rd.srv.Alive() {
			return false
		}
		if _, killedBy, desc := rd.srv.ExitInfo(); killedBy != "" {
			// thruserv never ends itself by SIGKILL / SIGTERM: that came from outside the pair (OOM killer, another process)
			rd.inconcl("expiry storm: the server process was %s (%s)", desc, when)
			return true
		}
		txt := rd.srv.LogText()
		fatal := ""
		if i := strings.Index(txt, "fatal error:"); i >= 0 {
			fatal = c11Tail(txt[i:min(len(txt), i+6000)], 6000)
		}
		rd.e.R.Violate("serv:expiry-storm:server-process-died", fmt.Sprintf("thruserv died (%v) while sessions expired beside session creations, sender departures and other expiries (%s; %d sessions created, %d reported expired)",
			rd.srv.ExitErr(), when, nCreated, strings.Count(txt, "session expired session_id=")), spec, map[string]any{"first_fatal_error": fatal, "server_log_tail": c11Tail(txt, 4000)})
		return true
	}
	if dead.Load() {
		died("during the storm")
		return
	}
	if died("found dead right after the storm") {
		return
	}
	if postErrs.Load() > int64(nCreated/10) {
		rd.inconcl("expiry storm: %d of the POST /session requests failed on a living server", postErrs.Load())
	}
	// quiescence of the expiries (logical: the count of 'session expired' lines no longer grows between two polls), bounded
	prev := -1
	for t0 := time.Now(); time.Since(t0) < 10*time.Second; time.Sleep(150 * time.Millisecond) {
		n := rd.srv.LogCount("session expired session_id=")
		if n == prev || !rd.srv.Alive() {
			break
		}
		prev = n
	}
	if died("after the storm, while the remaining sessions expired") {
		return
	}
	txt := rd.srv.LogText()
	rd.agg.count("expstorm_sessions_reported_expired", strings.Count(txt, "session expired session_id="))
	rd.agg.count("expstorm_sessions_deleted_by_their_sender", strings.Count(txt, "session deleted session_id="))
	// the uninvolved: a brand-new session is still joined and served (the lifetime is short, so a join may find its session gone:
	// several attempts; an attempt that was upgraded and is neither served nor closed is handed to the stall rule)
	served := false
	hc := newHC()
	defer hc.CloseIdleConnections()
	for a := 0; a < 40 && !served; a++ {
		join, st, err := c11xPost(hc, rd.srv.URL)
		if err != nil || st != http.StatusOK {
			if err != nil && died("when a new session was asked for after the storm") {
				return
			}
			continue
		}
		c, err := vk.DialWS(vk.WSURL(rd.srv.URL, join, fmt.Sprintf("canary-%d", a), "receiver"), c11sIOWait, nil)
		if err != nil {
			continue
		}
		_, ok := c.WaitType(protocol.TypePeerList, c11sIOWait)
		ended, _ := c.ReadEnded()
		c.Close(false)
		if ok {
			served = true
		} else if !ended && rd.suspectStall("join into a new session after the expiry storm") {
			return
		}
	}
	if served {
		rd.agg.count("expstorm_joins_served_after_storm", 1)
	} else if !died("when new sessions were joined after the storm") {
		rd.inconcl("expiry storm: none of 40 joins into brand-new sessions was served before its session expired")
	}
}

// raceReports (race stage): reports of the race detector written by THIS round's thruserv
// process whose stacks show a file of cmd/thruserv. The process inherited GORACE
// (halt_on_error=0 log_path=<prefix>) from the orchestrator and writes <prefix>.<pid>.
func (rd *c11sRound) raceReports() {
	if !rd.e.Race || rd.srv == nil {
		return
	}
	prefix := ""
	for _, f := range strings.Fields(os.Getenv("GORACE")) {
		if strings.HasPrefix(f, "log_path=") {
			prefix = strings.TrimPrefix(f, "log_path=")
		}
	}
	if prefix == "" || prefix == "stderr" || prefix == "stdout" {
		return
	}
	rd.agg.count("server_race_logs_checked", 1)
	data, err := os.ReadFile(prefix + "." + strconv.Itoa(rd.srv.Pid))
	if err != nil {
		return // no report was written
	}
	blocks := strings.Split(string(data), "WARNING: DATA RACE")[1:]
	n, first := 0, ""
	for _, b := range blocks {
		if strings.Contains(b, "/cmd/thruserv/") {
			if n == 0 {
				first = c11Tail(b[:min(len(b), 4000)], 4000)
			}
			n++
		}
	}
	if n == 0 {
		return
	}
	rd.e.R.Violate("serv:data-race-in-thruserv-main:"+rd.cfg.Kind, fmt.Sprintf("the race detector reported %d data races with frames in cmd/thruserv in the server process of this round", n),
		rd.caseSpec(nil), map[string]any{"first_report": first, "reports": n})
}
