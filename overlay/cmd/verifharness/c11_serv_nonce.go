//go:build verif

package main

// C11, server stage, round kind "nonce" – the dimension "client-chosen handshake
// fields repeated across connections".
//
// Everything a client writes into its upgrade request is the client's to choose,
// including the fields a well-behaved library draws at random per connection
// (Sec-WebSocket-Key). The other rounds' clients draw a fresh key per dial, so
// whatever the server derives from the handshake is unique there by accident.
// Here several connections that are live at the same time present byte-identical
// handshake fields (Sec-WebSocket-Key, Origin, User-Agent, Cookie, X-Request-Id,
// Sec-WebSocket-Protocol): small hand-written clients that send the RFC 6455
// sample nonce, a client that replays its handshake on reconnect, a peer that
// copies another peer's nonce.
//
// Histories (each in a hosted session: a sender and a bystander stay connected, so
// the session never empties), crossed with how the leaving connection ends
// (FIN / RST / close frame) and the kind of key (RFC sample, shared by every such
// case of the round, i.e. also across sessions; one random key per case):
//
//	reconnect-overlap      A1(id X,key K) joins; A2(X,K) joins; A1 goes away
//	reconnect-after-close  A1(X,K) joins and goes away; A2(X,K) dials at once
//	two-peers/first-leaves A(X,K), B(Y,K) in one session; A goes away, B stays
//	two-peers/second-leaves                               B goes away, A stays
//	two-sessions           A(X,K) in session 1, B(Y,K) in session 2; A goes away
//	two-sessions-same-id   A(X,K) in session 1, B(X,K) in session 2; A goes away
//
// Oracle (the clauses of the listing round, asked through later clients; the
// connections are ordinary well-behaved readers):
//   - a connection that read its own peer list (so the server registered it), was
//     never replaced by a later connection under its id and has not left is named
//     in the peer list sent to every later joiner, an addressed message to its id is
//     not answered with peer_not_found, and that message arrives on ITS socket –
//     at every poll, in particular after the server's end of the other connection
//     with the same handshake fields is gone (logical gate: /proc/net/tcp);
//   - such a message arriving on any other socket of the case is a violation at once
//     (a positive observation); not arriving within the client-step watchdog is
//     inconclusive;
//   - the server does not end such a connection;
//   - a connection that left is delisted / peer_not_found: polled, a violation only
//     under the bounded-progress rule of the listing round (>= c11sW since it left,
//     the server's end of it gone, >= c11sCanaries later observers delisted);
//   - a peer list names no id that no client of that session used.

import (
	"encoding/base64"
	"encoding/json"
	"fmt"
	"io"
	"net/http"
	"sort"
	"strings"
	"sync"
	"time"

	vk "github.com/sheerbytes/sheerbytes/internal/verifkit"
	"github.com/sheerbytes/sheerbytes/pkg/protocol"
)

const c11nRFCSampleKey = "dGhlIHNhbXBsZSBub25jZQ=="

var c11nHists = []string{"reconnect-overlap", "reconnect-after-close", "two-peers/first-leaves", "two-peers/second-leaves", "two-sessions", "two-sessions-same-id"}

// c11nConn is a raw WebSocket client with a chosen handshake that keeps reading.
type c11nConn struct {
	ID    string `json:"peer_id"`
	Key   string `json:"sec_websocket_key"`
	Sess  int    `json:"session"`
	LPort int    `json:"client_port"`
	Name  string `json:"name"`

	raw *c11sRaw
	mu  sync.Mutex
	got map[string]bool // msg ids of the text envelopes received on this socket
	// ended: the read side ended (error or close frame); byUs: after we closed it
	ended, byUs bool
	endNote     string
	closedAt    time.Duration
}

func c11nUpgradeRequest(port int, join, id, role, key string) []byte {
	return []byte(fmt.Sprintf("GET /ws?join_code=%s&peer_id=%s&role=%s HTTP/1.1\r\nHost: 127.0.0.1:%d\r\nUpgrade: websocket\r\nConnection: Upgrade\r\n"+
		"Sec-WebSocket-Key: %s\r\nSec-WebSocket-Version: 13\r\nSec-WebSocket-Protocol: fixed-client\r\nOrigin: http://fixed-client.example\r\n"+
		"User-Agent: fixed-handshake-client/1.0\r\nCookie: sid=%s\r\nX-Request-Id: %s\r\n\r\n", join, id, role, port, key, key, key))
}

// c11nJoin connects, sends the chosen handshake and reads up to the connection's own peer list.
func c11nJoin(port int, sess *c11sSess, name, id, key string) (*c11nConn, error) {
	r, lport, err := c11sDialRaw(port)
	if err != nil {
		return nil, fmt.Errorf("dial: %v", err)
	}
	c := &c11nConn{ID: id, Key: key, Sess: sess.Idx, LPort: lport, Name: name, raw: r, got: map[string]bool{}}
	fail := func(format string, a ...any) (*c11nConn, error) {
		_ = r.tc.Close()
		return nil, fmt.Errorf(format, a...)
	}
	if _, err = r.tc.Write(c11nUpgradeRequest(port, sess.Join, id, "receiver", key)); err != nil {
		return fail("write request: %v", err)
	}
	resp, err := http.ReadResponse(r.br, nil)
	if err != nil {
		return fail("read response: %v", err)
	}
	if resp.StatusCode != http.StatusSwitchingProtocols {
		b, _ := io.ReadAll(io.LimitReader(resp.Body, 256))
		return fail("refused: http %d %s", resp.StatusCode, strings.TrimSpace(string(b)))
	}
	for {
		op, payload, err := r.readFrame()
		if err != nil {
			return fail("waiting for the peer list: %v", err)
		}
		var env protocol.Envelope
		if op != 1 || json.Unmarshal(payload, &env) != nil {
			continue
		}
		c.got[env.MsgID] = true
		if env.Type == protocol.TypePeerList {
			break
		}
	}
	_ = r.tc.SetDeadline(time.Time{})
	go c.readLoop()
	return c, nil
}

func (c *c11nConn) readLoop() {
	for {
		op, payload, err := c.raw.readFrame()
		if err != nil {
			c.mu.Lock()
			c.ended, c.endNote = true, "read: "+err.Error()
			c.mu.Unlock()
			return
		}
		switch op {
		case 1:
			var env protocol.Envelope
			if json.Unmarshal(payload, &env) == nil {
				c.mu.Lock()
				c.got[env.MsgID] = true
				c.mu.Unlock()
			}
		case 9:
			_, _ = c.raw.tc.Write(c11sFrame(10, payload))
		case 8:
			c.mu.Lock()
			c.ended, c.endNote = true, "close frame from the server"
			c.mu.Unlock()
			return
		}
	}
}

func (c *c11nConn) has(msgID string) bool {
	c.mu.Lock()
	defer c.mu.Unlock()
	return c.got[msgID]
}

// endedByServer: the read side ended although the harness had not closed the connection.
func (c *c11nConn) endedByServer() (bool, string) {
	c.mu.Lock()
	defer c.mu.Unlock()
	return c.ended && !c.byUs, c.endNote
}

func (c *c11nConn) leave(how string) {
	c.mu.Lock()
	if c.byUs {
		c.mu.Unlock()
		return
	}
	c.byUs = true
	c.mu.Unlock()
	if how == "wsclose" {
		_, _ = c.raw.tc.Write(c11sFrame(8, []byte{0x03, 0xe8}))
	}
	if how == "rst" {
		_ = c.raw.tc.SetLinger(0)
	}
	_ = c.raw.tc.Close()
	c.closedAt = vk.MonoNow()
}

type c11nCase struct {
	N       int         `json:"case"`
	Hist    string      `json:"history"`
	Close   string      `json:"close_of_the_leaving_connection"`
	KeyKind string      `json:"key_kind"` // rfc-sample | random-per-case
	Key     string      `json:"sec_websocket_key"`
	Conns   []*c11nConn `json:"connections"`
	Steps   []string    `json:"steps"`
	Reached bool        `json:"reached"`
	Note    string      `json:"note,omitempty"`

	sess []*c11sSess
}

func (nc *c11nCase) step(format string, a ...any) {
	nc.Steps = append(nc.Steps, fmt.Sprintf(format, a...))
}

// c11nProbe: one addressed message per target (msg ids returned), then the marker; see c11sRouteProbe.
func c11nProbe(c *vk.WSClient, targets []string, marker, tag string) (notFound map[string]bool, msgIDs map[string]string, ok bool) {
	from := c.Len()
	msgIDs = map[string]string{}
	send := func(to, mid string) bool {
		b, _ := json.Marshal(protocol.Envelope{V: protocol.ProtocolVersion, Type: protocol.TypeOffer, MsgID: mid, To: to, Payload: json.RawMessage(`{}`)})
		return c.SendText(b) == nil
	}
	for i, t := range targets {
		msgIDs[t] = fmt.Sprintf("%s-%d-%s", tag, i, protocol.NewMsgID())
		if !send(t, msgIDs[t]) {
			return nil, nil, false
		}
	}
	if !send(marker, tag+"-marker-"+protocol.NewMsgID()) {
		return nil, nil, false
	}
	errTarget := func(r vk.WSRecv) (string, bool) {
		if r.BadJSON || r.Env.Type != protocol.TypeError {
			return "", false
		}
		var pe protocol.Error
		if r.Env.DecodePayload(&pe) != nil || pe.Code != "peer_not_found" {
			return "", false
		}
		i := strings.LastIndex(pe.Message, ": ")
		if i < 0 {
			return "", false
		}
		return pe.Message[i+2:], true
	}
	if _, found := c.WaitFor(func(r vk.WSRecv) bool { t, ok := errTarget(r); return ok && r.Idx >= from && t == marker }, c11sIOWait); !found {
		return nil, nil, false
	}
	notFound = map[string]bool{}
	for _, r := range c.LogFrom(from) {
		if t, ok := errTarget(r); ok {
			notFound[t] = true
		}
	}
	return notFound, msgIDs, true
}

// nonceServerGone: a connection ended unexpectedly; when the process is on its way out (its sockets close before its exit
// is seen) that is serverHealth's finding, not one about the connection. Only classifies which key reports a dead server.
func (rd *c11sRound) nonceServerGone() bool {
	for t0 := time.Now(); time.Since(t0) < 3*time.Second; time.Sleep(20 * time.Millisecond) {
		if !rd.srv.Alive() {
			return true
		}
	}
	return false
}

// gate waits (bounded by the client-step watchdog) until the server holds none of the given connections' sockets.
func (rd *c11sRound) nonceGate(cs ...*c11nConn) bool {
	ports := map[int]bool{}
	for _, c := range cs {
		ports[c.LPort] = true
	}
	for t0 := time.Now(); time.Since(t0) < c11sIOWait; time.Sleep(5 * time.Millisecond) {
		open, ok := c11sServerSocketsOpen(rd.srv.Port, ports)
		if !ok {
			return false
		}
		if len(open) == 0 {
			return true
		}
	}
	return false
}

// noncePoll asks fresh observers of session s. live: connections that must be listed, routable and served on their own
// socket (judged at every poll); gone: connections that left (polled until delisted; bounded-progress rule). Returns
// false when the case ends here (violation recorded or no verdict).
func (rd *c11sRound) noncePoll(nc *c11nCase, s *c11sSess, phase string, live, gone []*c11nConn, known map[string]bool) bool {
	R := rd.e.R
	key := nc.Hist + ":" + phase
	spec := func() map[string]any {
		return rd.caseSpec(map[string]any{"dimension": "handshake fields repeated across live connections", "nonce_case": nc, "phase": phase, "judged_session": s.Idx})
	}
	goneIDs := map[string]bool{}
	for _, g := range gone {
		goneIDs[g.ID] = true
	}
	for _, l := range live {
		delete(goneIDs, l.ID) // an id whose later connection is live is not a departed id
	}
	start := time.Now()
	for iter := 0; ; iter++ {
		for _, l := range live {
			if by, note := l.endedByServer(); by {
				if rd.nonceServerGone() { // the process died: reported by serverHealth, not a finding about this connection
					nc.Note = "server process gone"
					return false
				}
				R.Violate("serv:connected-peer-disconnected:same-handshake/"+key, fmt.Sprintf("connection %s (peer %s) read its peer list, was never replaced under its id and did not leave, yet the server ended it (%s) while another connection with the same handshake fields came or went", l.Name, l.ID, note), spec(), nil)
				return false
			}
		}
		o := rd.observe(s)
		if !o.ok {
			rd.observeFailed(s, o, "nonce "+key)
			if o.client != nil {
				o.client.Close(false)
			}
			return false
		}
		listed := c11sListedIDs(o.listed)
		nOld := len(s.closedObs) - 1
		if nOld < 0 {
			nOld = 0
		}
		var targets []string
		for _, l := range live {
			targets = append(targets, l.ID)
		}
		for id := range goneIDs {
			targets = append(targets, id)
		}
		sort.Strings(targets)
		targets = append(targets, s.closedObs[:nOld]...)
		marker := fmt.Sprintf("nobody-%d-%04d", s.Idx, s.obsN)
		notFound, msgIDs, ok := c11nProbe(o.client, targets, marker, fmt.Sprintf("n%d-%d-%d", nc.N, s.Idx, s.obsN))
		if !ok {
			rd.inconcl("nonce case %d (%s): routing probe in session %d did not complete", nc.N, key, s.Idx)
			o.client.Close(false)
			return false
		}
		rd.agg.count("routing_probes", 1)
		detail := map[string]any{"peer_list_sent_to_observer": c11sIDs(o.listed), "answered_peer_not_found": notFound, "observer": o.id}
		// connected clauses (all of them are evaluated before the case ends, so that the evidence shows every clause that broke)
		bad := false
		for id := range listed {
			if !known[id] && !strings.HasPrefix(id, fmt.Sprintf("obs-%d-", s.Idx)) {
				R.Violate("serv:unknown-peer-listed:same-handshake/"+key, fmt.Sprintf("the peer list of session %d names %s, an id no client of this session used", s.Idx, id), spec(), detail)
				bad = true
			}
		}
		for _, l := range live {
			if listed[l.ID] == 0 {
				R.Violate("serv:connected-peer-not-listed:same-handshake/"+key, fmt.Sprintf("connection %s (peer %s, Sec-WebSocket-Key %s) is connected, was never replaced and read its own peer list, yet the peer list sent to a later joiner does not name it", l.Name, l.ID, l.Key), spec(), detail)
				bad = true
			}
			if notFound[l.ID] {
				R.Violate("serv:connected-peer-not-routable:same-handshake/"+key, fmt.Sprintf("connection %s (peer %s, Sec-WebSocket-Key %s) is connected and its session never emptied, yet an addressed message to it is answered with peer_not_found", l.Name, l.ID, l.Key), spec(), detail)
				bad = true
				continue
			}
			// delivery on the addressed socket (the message was accepted: no peer_not_found before the in-order marker)
			mid := msgIDs[l.ID]
			wrong := ""
			arrived := false
			for t0 := time.Now(); time.Since(t0) < c11sIOWait && !arrived && wrong == ""; time.Sleep(2 * time.Millisecond) {
				arrived = l.has(mid)
				for _, other := range nc.Conns {
					if other != l && other.has(mid) {
						wrong = other.Name
					}
				}
			}
			switch {
			case wrong != "":
				R.Violate("serv:addressed-message-on-wrong-socket:same-handshake/"+key, fmt.Sprintf("message %s addressed to peer %s (connection %s) was written to the socket of connection %s, which presented the same handshake fields", mid, l.ID, l.Name, wrong), spec(), detail)
				bad = true
			case !arrived:
				if !bad {
					rd.inconcl("nonce case %d (%s): the server accepted a message addressed to %s but it did not arrive on its socket within the watchdog, nor on another socket of the case; no verdict", nc.N, key, l.ID)
				}
				o.client.Close(false)
				return false
			default:
				rd.agg.count("nonce_messages_arrived_on_the_addressed_socket", 1)
				rd.agg.count("nonce_connected_peers_judged", 1)
			}
		}
		if bad {
			o.client.Close(false)
			return false
		}
		// departed clauses
		var ghosts []string
		for id := range goneIDs {
			if listed[id] > 0 || !notFound[id] {
				ghosts = append(ghosts, id)
			}
		}
		sort.Strings(ghosts)
		if n := len(s.closedObs); n > 0 && listed[s.closedObs[n-1]] == 0 {
			s.canaryOK++
		}
		o.client.Close(iter%2 == 0)
		s.closedObs = append(s.closedObs, o.id)
		if len(ghosts) == 0 {
			rd.agg.count("nonce_departed_ids_checked", len(goneIDs))
			rd.agg.count("nonce_polls", iter+1)
			return true
		}
		el := time.Since(start)
		if el >= c11sW && s.canaryOK >= c11sCanaries {
			ports := map[int]bool{}
			for _, g := range gone {
				ports[g.LPort] = true
			}
			if open, ok := c11sServerSocketsOpen(rd.srv.Port, ports); ok && len(open) == 0 {
				detail["still_listed_or_routable"] = ghosts
				detail["later_leavers_delisted"] = s.canaryOK
				R.Violate("serv:departed-peer-still-listed:same-handshake/"+key, fmt.Sprintf("connections that left are still listed / accepted as addressee %v after the server's end of them was gone; %d later leavers of the same session were delisted meanwhile", el.Round(time.Second), s.canaryOK), spec(), detail)
				return false
			}
		}
		if el >= c11sWMax {
			rd.inconcl("nonce case %d (%s): departed ids %v still listed after %v without the bounded-progress conjuncts; no verdict", nc.N, key, ghosts, el.Round(time.Second))
			return false
		}
		d := time.Duration(20*(iter+1)) * time.Millisecond
		if d > 400*time.Millisecond {
			d = 400 * time.Millisecond
		}
		time.Sleep(d)
	}
}

func (rd *c11sRound) runNonceCase(nc *c11nCase) {
	port := rd.srv.Port
	s1 := nc.sess[0]
	x, y := fmt.Sprintf("nx-%d", nc.N), fmt.Sprintf("ny-%d", nc.N)
	known := func(ids ...string) map[string]bool {
		m := map[string]bool{"host": true, "bystander": true}
		for _, id := range ids {
			m[id] = true
		}
		return m
	}
	join := func(s *c11sSess, name, id string) *c11nConn {
		c, err := c11nJoin(port, s, name, id, nc.Key)
		rd.e.R.Eval()
		if err != nil {
			nc.Note = name + ": " + err.Error()
			if strings.Contains(err.Error(), "timeout") {
				rd.suspectStall("nonce case, join of " + name)
			}
			return nil
		}
		nc.Conns = append(nc.Conns, c)
		nc.step("%s joined session %d as %s (client port %d) and read its peer list", name, s.Idx, id, c.LPort)
		return c
	}
	defer func() {
		for _, c := range nc.Conns {
			c.leave("fin")
		}
	}()
	leave := func(c *c11nConn, how string) bool {
		c.leave(how)
		nc.step("%s closed (%s)", c.Name, how)
		if !rd.nonceGate(c) {
			nc.Note = "the server's end of " + c.Name + " did not go away within the watchdog (not reached)"
			return false
		}
		nc.step("server's end of %s gone", c.Name)
		return true
	}
	switch nc.Hist {
	case "reconnect-overlap", "reconnect-after-close":
		a1 := join(s1, "A1", x)
		if a1 == nil {
			return
		}
		if nc.Hist == "reconnect-after-close" {
			a1.leave(nc.Close)
			nc.step("A1 closed (%s)", nc.Close)
		}
		a2 := join(s1, "A2", x)
		if a2 == nil {
			return
		}
		if nc.Hist == "reconnect-overlap" {
			if !rd.noncePoll(nc, s1, "reconnected", []*c11nConn{a2}, nil, known(x)) {
				return
			}
		}
		if !leave(a1, nc.Close) {
			return
		}
		nc.Reached = true
		for k := 0; k < 2; k++ { // the stale handler has finished: the reconnected peer is still there
			if !rd.noncePoll(nc, s1, "after-stale-connection-left", []*c11nConn{a2}, []*c11nConn{a1}, known(x)) {
				return
			}
		}
		if leave(a2, "fin") {
			rd.noncePoll(nc, s1, "all-left", nil, []*c11nConn{a1, a2}, known(x))
		}
	case "two-peers/first-leaves", "two-peers/second-leaves":
		a := join(s1, "A", x)
		if a == nil {
			return
		}
		b := join(s1, "B", y)
		if b == nil {
			return
		}
		if !rd.noncePoll(nc, s1, "both-connected", []*c11nConn{a, b}, nil, known(x, y)) {
			return
		}
		leaver, stayer := a, b
		if nc.Hist == "two-peers/second-leaves" {
			leaver, stayer = b, a
		}
		if !leave(leaver, nc.Close) {
			return
		}
		nc.Reached = true
		for k := 0; k < 2; k++ {
			if !rd.noncePoll(nc, s1, "after-one-left", []*c11nConn{stayer}, []*c11nConn{leaver}, known(x, y)) {
				return
			}
		}
		if leave(stayer, "fin") {
			rd.noncePoll(nc, s1, "all-left", nil, []*c11nConn{a, b}, known(x, y))
		}
	case "two-sessions", "two-sessions-same-id":
		s2 := nc.sess[1]
		yid := y
		if nc.Hist == "two-sessions-same-id" {
			yid = x
		}
		a := join(s1, "A", x)
		if a == nil {
			return
		}
		b := join(s2, "B", yid)
		if b == nil {
			return
		}
		if !rd.noncePoll(nc, s1, "both-connected", []*c11nConn{a}, nil, known(x)) || !rd.noncePoll(nc, s2, "both-connected", []*c11nConn{b}, nil, known(yid)) {
			return
		}
		if !leave(a, nc.Close) {
			return
		}
		nc.Reached = true
		if !rd.noncePoll(nc, s2, "after-other-session-left", []*c11nConn{b}, nil, known(yid)) || !rd.noncePoll(nc, s1, "after-one-left", nil, []*c11nConn{a}, known(x)) ||
			!rd.noncePoll(nc, s2, "after-other-session-left", []*c11nConn{b}, nil, known(yid)) {
			return
		}
		if leave(b, "fin") {
			rd.noncePoll(nc, s2, "all-left", nil, []*c11nConn{b}, known(yid))
		}
	}
}

// runNonce: the round. Sessions are set up first (rd.sess is not synchronised), the cases run on 6 workers.
func (rd *c11sRound) runNonce() {
	var cases []*c11nCase
	closes := []string{"fin", "rst", "wsclose"}
	n := 0
	for _, h := range c11nHists {
		for _, cl := range closes {
			n++
			nc := &c11nCase{N: n, Hist: h, Close: cl, KeyKind: "random-per-case"}
			if (n+int(rd.cfg.Seed%3))%3 == 0 {
				nc.KeyKind, nc.Key = "rfc-sample", c11nRFCSampleKey
			} else {
				k := make([]byte, 16)
				for i := range k {
					k[i] = byte(rd.rng.Intn(256))
				}
				nc.Key = base64.StdEncoding.EncodeToString(k)
			}
			cases = append(cases, nc)
		}
	}
	for _, nc := range cases {
		ns := 1
		if strings.HasPrefix(nc.Hist, "two-sessions") {
			ns = 2
		}
		for k := 0; k < ns; k++ {
			s, err := rd.newSession("hosted")
			if err != nil {
				if !rd.suspectStall("session setup") {
					rd.inconcl("session setup (nonce round): %v", err)
				}
				return
			}
			nc.sess = append(nc.sess, s)
		}
	}
	for i := len(cases) - 1; i > 0; i-- {
		j := rd.rng.Intn(i + 1)
		cases[i], cases[j] = cases[j], cases[i]
	}
	vk.ParallelDo(len(cases), 6, func(i int) {
		if rd.aborted.Load() {
			return
		}
		rd.runNonceCase(cases[i])
	})
	sampled := false
	for _, nc := range cases {
		rd.agg.count("nonce_cases_executed", 1)
		rd.nonceConns += len(nc.Conns)
		if nc.Reached {
			rd.nonceConnsReached += len(nc.Conns)
		}
		if !nc.Reached {
			rd.agg.count("nonce_cases_not_reached", 1)
			continue
		}
		rd.agg.count("nonce_cases_reached", 1)
		rd.agg.count("nonce_cases_reached:"+nc.Hist, 1)
		rd.agg.count("nonce_cases_reached:close:"+nc.Close, 1)
		rd.agg.count("nonce_cases_reached:key:"+nc.KeyKind, 1)
		rd.e.R.Distinct(fmt.Sprintf("serv|%s|same-handshake|%s|%s|%s", rd.cfg.Name, nc.Hist, nc.Close, nc.KeyKind))
		if !sampled {
			sampled = true
			rd.e.R.Sample(map[string]any{"server_config": rd.cfg.Name, "nonce_case": nc})
		}
	}
	// the stable peers of every session stayed connected while connections with equal handshake fields came and went
	for _, s := range rd.sess {
		for id, c := range s.stable() {
			if ended, err := c.ReadEnded(); ended {
				if rd.nonceServerGone() {
					continue
				}
				rd.e.R.Violate("serv:uninvolved-peer-disconnected:same-handshake", fmt.Sprintf("the connection of the %s, which only stayed connected while connections with equal handshake fields came and went, was ended by the server", id),
					rd.caseSpec(map[string]any{"session": s.Idx}), map[string]any{"read_error": fmt.Sprint(err)})
			} else {
				rd.agg.count("uninvolved_peers_still_connected", 1)
			}
		}
	}
}
