//go:build verif

package main

// C11, server stage – the reader-behaviour dimension of a connection.
//
// Every client of c11_serv.go either reads what the server sends or is gone. A
// third behaviour exists in the field: a peer whose process is frozen or whose
// link is dead while the TCP connection stays up. It stays CONNECTED and stops
// READING (zero window). As soon as enough traffic has been routed to it, the
// server-side write of that connection blocks – inside the hub's writer goroutine
// (messages addressed / broadcast to it) or inside the connection's own handler
// (answers to its own messages) – and stays blocked for as long as the peer
// stays. Whatever the server holds across that write (the connection's write
// mutex, and anything that waits for it) is held for that long.
//
// The non-reading peer is crossed with every other event of C11's quantifier, in
// every round kind of the stage:
//
//	stall point   stalled-unread      upgrade request sent, never reads a byte
//	              stalled-listed      reads up to its peer list, then never again
//	              stalled-own-errors  reads up to its peer list, then sends messages to unknown
//	                                  addressees (the answers quote the ~48 KB name) and reads none
//	                                  of the answers: the HANDLER's own write blocks
//	fill          addressed | broadcast (by the session's sender, hub writer blocks) | own-errors
//	event         stalled     nothing else happens (other sessions must be served)
//	              reconnect   a second connection under the SAME id (any class of c11_serv.go:
//	                          healthy, or vanishing at a handshake point) replaces the blocked one
//	              churn       joins / leaves at every disconnect point / re-used ids / broadcasts
//	                          of the listing round in the same session
//	              slots       3 non-readers hold the 3 receiver slots, then go
//	              expiry      the session expires (hub.CloseSession) with blocked non-readers in it
//	              departure   the non-reader finally disappears (FIN / RST) while the write is blocked
//
// Oracle ("never ... deadlock the server or the handler of an uninvolved peer"),
// bounded progress with a canary, after every event:
//   - a join into a BRAND-NEW session on the same server is upgraded and receives
//     its peer list. Two independent attempts, each with the generous client-step
//     watchdog, must both fail, while /health of the same process answers before
//     and after (the process is alive and scheduled) – then the hub stopped
//     serving; anything less is inconclusive.
//   - the sender of the non-reader's own session, who only stayed connected, still
//     gets its addressed messages answered (its handler is being served), and the
//     non-reader – connected, server-side socket ESTABLISHED, never replaced, in a
//     session that never emptied – is not answered with peer_not_found.
// After the non-readers left, the ordinary quiescence oracle of c11_serv.go
// judges them like every other departed peer (delisted, unroutable, slots freed).
//
// "The server-side write is blocked" is established from logical observations
// only (it classifies which cases reached their point, never a verdict): the
// flood was processed by the server (an in-order marker answer on the flooding
// connection), the bytes that must still be written exceed what the kernel holds
// for the connection (/proc/net/tcp: server tx_queue + client rx_queue), and
// that amount is unchanged between two polls.

import (
	"bufio"
	"encoding/binary"
	"encoding/json"
	"fmt"
	"net"
	"net/http"
	"os"
	"strconv"
	"strings"
	"sync"
	"sync/atomic"
	"syscall"
	"time"

	vk "github.com/sheerbytes/sheerbytes/internal/verifkit"
	"github.com/sheerbytes/sheerbytes/pkg/protocol"
)

const (
	c11sStallMsg     = 48 * 1024 // payload bytes of one flood message (server limit: 64 KiB per message)
	c11sStallBatch   = 6
	c11sStallMaxMsgs = 192
	c11sHubQueue     = 256 // the hub's per-connection queue: the first 256 messages routed to a connection cannot have been dropped
)

var c11sStallPoints = []string{"stalled-unread", "stalled-listed", "stalled-own-errors"}

// c11sStallInfo is the part of a case that only non-readers have (evidence / replay).
type c11sStallInfo struct {
	Fill       string `json:"fill"`  // addressed | broadcast | own-errors
	Event      string `json:"event"` // churn | reconnect | slots | expiry
	LeaveAfter int    `json:"leaves_after_n_churn_cases,omitempty"`
	FloodMsgs  int    `json:"flood_messages_processed_by_server,omitempty"`
	Held       int    `json:"bytes_held_by_kernel,omitempty"`
	ServerRxQ  int    `json:"server_side_unread_input_bytes,omitempty"`
	Blocked    bool   `json:"server_write_blocked"`
	Overflow   bool   `json:"then_more_messages_than_the_hub_queues,omitempty"` // planned: > 256 further messages are routed to it while blocked
	Overflowed bool   `json:"hub_queue_overflowed,omitempty"`
}

type c11sStaller struct {
	vc     *c11sCase
	info   *c11sStallInfo
	sess   *c11sSess
	second *c11sCase // the connection that comes under the same id while this one is blocked (event reconnect)

	tc *net.TCPConn
	br *bufio.Reader

	ready, release, gone chan struct{}
	relOnce              sync.Once
	freed                atomic.Bool
}

func (st *c11sStaller) key() string { return "nonreader/" + st.vc.Point + "/" + st.info.Fill }

func (st *c11sStaller) free() { st.relOnce.Do(func() { st.freed.Store(true); close(st.release) }) }

// newStaller registers a non-reader (and, for event reconnect, the second connection under its id) with the session.
func (rd *c11sRound) newStaller(s *c11sSess, id, point, closeKind, fill, event string, second *c11sClass) *c11sStaller {
	idc := "fresh"
	if second != nil {
		idc = "reuse"
	}
	vc := &c11sCase{Point: point, Close: closeKind, Role: "receiver", ID: id, IDCls: idc}
	vc.Stall = &c11sStallInfo{Fill: fill, Event: event}
	st := &c11sStaller{vc: vc, info: vc.Stall, sess: s, ready: make(chan struct{}), release: make(chan struct{}), gone: make(chan struct{})}
	s.addExtra(vc)
	if second != nil {
		st.second = &c11sCase{Point: second.Point, Close: second.Close, Role: "receiver", ID: id, IDCls: "reuse"}
		s.addExtra(st.second)
	}
	rd.stallMu2.Lock()
	rd.stallers = append(rd.stallers, st)
	rd.stallMu2.Unlock()
	return st
}

func c11sBigEnv(to string, n int) []byte {
	b, _ := json.Marshal(protocol.Envelope{V: protocol.ProtocolVersion, Type: protocol.TypeOffer, MsgID: protocol.NewMsgID(), To: to,
		Payload: json.RawMessage(`{"sdp":"` + strings.Repeat("x", n) + `"}`)})
	return b
}

// ---------------------------------------------------------------------------
// kernel queues of one connection (both ends are on this machine)

type c11sQueues struct {
	srvTx, srvRx, srvState int // the server's end: bytes written and not yet acknowledged / received and not yet read; TCP state
	cliRx                  int // the client's end: received and not read
	srvSeen, cliSeen       bool
}

// c11sDiagOne asks the kernel (NETLINK_SOCK_DIAG, exact lookup – no walk over the socket table) for one TCP socket
// local 127.0.0.1:lport <-> 127.0.0.1:rport. found=false, ok=true: no such socket.
func c11sDiagOne(lport, rport int) (state, rq, wq int, found, ok bool) {
	fd, err := syscall.Socket(syscall.AF_NETLINK, syscall.SOCK_RAW|syscall.SOCK_CLOEXEC, 4 /* NETLINK_SOCK_DIAG */)
	if err != nil {
		return
	}
	defer syscall.Close(fd)
	tv := syscall.Timeval{Sec: 2}
	_ = syscall.SetsockoptTimeval(fd, syscall.SOL_SOCKET, syscall.SO_RCVTIMEO, &tv)
	try := func(family byte) (int, int, int, bool, bool) {
		req := make([]byte, 16+56)
		binary.LittleEndian.PutUint32(req[0:], uint32(len(req)))
		binary.LittleEndian.PutUint16(req[4:], 20) // SOCK_DIAG_BY_FAMILY
		binary.LittleEndian.PutUint16(req[6:], syscall.NLM_F_REQUEST)
		binary.LittleEndian.PutUint32(req[8:], 1)
		r := req[16:]
		r[0], r[1] = family, syscall.IPPROTO_TCP
		binary.LittleEndian.PutUint32(r[4:], 0xffffffff) // all states
		binary.BigEndian.PutUint16(r[8:], uint16(lport))
		binary.BigEndian.PutUint16(r[10:], uint16(rport))
		lo := []byte{127, 0, 0, 1}
		if family == syscall.AF_INET {
			copy(r[12:], lo)
			copy(r[28:], lo)
		} else {
			copy(r[12:], []byte{0, 0, 0, 0, 0, 0, 0, 0, 0, 0, 0xff, 0xff, 127, 0, 0, 1})
			copy(r[28:], []byte{0, 0, 0, 0, 0, 0, 0, 0, 0, 0, 0xff, 0xff, 127, 0, 0, 1})
		}
		for i := 48; i < 56; i++ {
			r[i] = 0xff // INET_DIAG_NOCOOKIE
		}
		if err := syscall.Sendto(fd, req, 0, &syscall.SockaddrNetlink{Family: syscall.AF_NETLINK}); err != nil {
			return 0, 0, 0, false, false
		}
		buf := make([]byte, 8192)
		n, _, err := syscall.Recvfrom(fd, buf, 0)
		if err != nil || n < 16 {
			return 0, 0, 0, false, false
		}
		typ := binary.LittleEndian.Uint16(buf[4:])
		switch typ {
		case syscall.NLMSG_ERROR:
			if n >= 20 {
				if e := int32(binary.LittleEndian.Uint32(buf[16:])); e == -int32(syscall.ENOENT) {
					return 0, 0, 0, false, true
				}
			}
			return 0, 0, 0, false, false
		case 20:
			if n < 16+72 {
				return 0, 0, 0, false, false
			}
			m := buf[16:]
			return int(m[1]), int(binary.LittleEndian.Uint32(m[56:])), int(binary.LittleEndian.Uint32(m[60:])), true, true
		}
		return 0, 0, 0, false, false
	}
	okAny := false
	for _, fam := range []byte{syscall.AF_INET, syscall.AF_INET6} {
		st, r, w, f, o := try(fam)
		okAny = okAny || o
		if f {
			return st, r, w, true, true
		}
	}
	return 0, 0, 0, false, okAny
}

var c11sDiagBroken atomic.Bool

// c11sSockQueues: the kernel's view of both ends of one client connection; by exact netlink lookups, by reading
// /proc/net/tcp* when those are not available.
func c11sSockQueues(servPort, cliPort int) (q c11sQueues, ok bool) {
	if !c11sDiagBroken.Load() {
		st, rq, wq, f1, ok1 := c11sDiagOne(servPort, cliPort)
		_, crq, _, f2, ok2 := c11sDiagOne(cliPort, servPort)
		if ok1 && ok2 {
			if f1 {
				q.srvTx, q.srvRx, q.srvState, q.srvSeen = wq, rq, st, true
			}
			if f2 {
				q.cliRx, q.cliSeen = crq, true
			}
			return q, true
		}
		c11sDiagBroken.Store(true)
	}
	return c11sSockQueuesProc(servPort, cliPort)
}

func c11sSockQueuesProc(servPort, cliPort int) (q c11sQueues, ok bool) {
	for _, f := range []string{"/proc/net/tcp", "/proc/net/tcp6"} {
		data, err := os.ReadFile(f)
		if err != nil {
			continue
		}
		ok = true
		for _, line := range strings.Split(string(data), "\n")[1:] {
			fs := strings.Fields(line)
			if len(fs) < 5 {
				continue
			}
			li, ri, qi := strings.LastIndex(fs[1], ":"), strings.LastIndex(fs[2], ":"), strings.Index(fs[4], ":")
			if li < 0 || ri < 0 || qi < 0 {
				continue
			}
			lp, e1 := strconv.ParseInt(fs[1][li+1:], 16, 32)
			rp, e2 := strconv.ParseInt(fs[2][ri+1:], 16, 32)
			st, e3 := strconv.ParseInt(fs[3], 16, 32)
			tx, e4 := strconv.ParseInt(fs[4][:qi], 16, 64)
			rx, e5 := strconv.ParseInt(fs[4][qi+1:], 16, 64)
			if e1 != nil || e2 != nil || e3 != nil || e4 != nil || e5 != nil {
				continue
			}
			switch {
			case int(lp) == servPort && int(rp) == cliPort:
				q.srvTx, q.srvRx, q.srvState, q.srvSeen = int(tx), int(rx), int(st), true
			case int(lp) == cliPort && int(rp) == servPort:
				q.cliRx, q.cliSeen = int(rx), true
			}
		}
	}
	return q, ok
}

// ---------------------------------------------------------------------------
// one non-reader

// stallConnect goes as far as the stall point and never reads again afterwards.
func (rd *c11sRound) stallConnect(st *c11sStaller) bool {
	vc := st.vc
	d := net.Dialer{Timeout: c11sIOWait, Control: func(_, _ string, rc syscall.RawConn) error {
		// a small receive buffer: the zero window is reached after a few KB instead of a few hundred; and the MSS of a
		// real network path instead of loopback's 64 KB (the server's send buffer is sized in segments: with loopback's
		// MSS it would take ~3 MB per connection to fill it)
		return rc.Control(func(fd uintptr) {
			_ = syscall.SetsockoptInt(int(fd), syscall.SOL_SOCKET, syscall.SO_RCVBUF, 4096)
			_ = syscall.SetsockoptInt(int(fd), syscall.IPPROTO_TCP, syscall.TCP_MAXSEG, 1400)
		})
	}}
	c, err := d.Dial("tcp", "127.0.0.1:"+strconv.Itoa(rd.srv.Port))
	if err != nil {
		vc.Note = "dial: " + err.Error()
		return false
	}
	st.tc = c.(*net.TCPConn)
	st.br = bufio.NewReaderSize(st.tc, 512)
	vc.LPort = st.tc.LocalAddr().(*net.TCPAddr).Port
	_ = st.tc.SetDeadline(time.Now().Add(c11sIOWait))
	defer func() { _ = st.tc.SetDeadline(time.Time{}) }()
	if _, err = st.tc.Write(c11sUpgradeRequest(rd.srv.Port, st.sess.Join, vc.ID, vc.Role)); err != nil {
		vc.Note = "write request: " + err.Error()
		return false
	}
	if vc.Point == "stalled-unread" {
		return true // whether it was admitted shows when traffic is addressed to it
	}
	resp, err := http.ReadResponse(st.br, nil)
	if err != nil {
		vc.Note = "read response: " + err.Error()
		return false
	}
	vc.Status = resp.StatusCode
	if resp.StatusCode != http.StatusSwitchingProtocols {
		vc.Note = fmt.Sprintf("refused: http %d", resp.StatusCode)
		return false
	}
	r := &c11sRaw{tc: st.tc, br: st.br}
	for {
		op, payload, err := r.readFrame()
		if err != nil {
			vc.Note = "waiting for the peer list: " + err.Error()
			rd.afterCase(vc)
			return false
		}
		var env protocol.Envelope
		if op == 1 && json.Unmarshal(payload, &env) == nil && env.Type == protocol.TypePeerList {
			return true
		}
	}
}

// stallBlocked polls the kernel queues until they show a blocked server-side write (see the file comment).
// again=true: the queues are at rest but more traffic is needed.
func (rd *c11sRound) stallBlocked(st *c11sStaller) (blocked, again bool) {
	prev := -1
	for t0 := time.Now(); time.Since(t0) < 4*time.Second; time.Sleep(15 * time.Millisecond) {
		q, ok := c11sSockQueues(rd.srv.Port, st.vc.LPort)
		if !ok || !q.cliSeen {
			st.vc.Note = "kernel queues of the connection not readable"
			return false, false
		}
		if !q.srvSeen || q.srvState != 1 {
			st.vc.Note = fmt.Sprintf("the server's end of the connection is not established (state %d)", q.srvState)
			return false, false
		}
		held := q.srvTx + q.cliRx
		if held > 0 && held == prev {
			st.info.Held, st.info.ServerRxQ = held, q.srvRx
			if st.info.Fill == "own-errors" {
				// the handler stopped reading its input although input is waiting: it sits in the write of an answer
				if q.srvRx > 0 {
					return true, false
				}
			} else {
				routed := st.info.FloodMsgs
				if routed > c11sHubQueue {
					routed = c11sHubQueue
				}
				if routed*c11sStallMsg > held+2*c11sStallMsg {
					return true, false
				}
				return false, true
			}
		}
		prev = held
	}
	return false, false
}

// stallFill routes traffic to the non-reader until the server-side write is blocked.
func (rd *c11sRound) stallFill(st *c11sStaller) {
	vc, info := st.vc, st.info
	if info.Fill == "own-errors" {
		// the writes of the client itself may block once the handler stopped reading: done by a goroutine that ends with the socket
		tc := st.tc
		big := "nobody-" + strings.Repeat("n", c11sStallMsg)
		go func() {
			for i := 0; i < 48; i++ {
				if _, err := tc.Write(c11sFrame(1, c11sEnvJSON(protocol.TypeOffer, big))); err != nil {
					return
				}
			}
		}()
		info.Blocked, _ = rd.stallBlocked(st)
		return
	}
	flooder := st.sess.host
	if flooder == nil {
		vc.Note = "no sender in the session to route traffic"
		return
	}
	to := vc.ID
	if info.Fill == "broadcast" {
		to = ""
	}
	// the server registers the peer some time after the request was written: wait (bounded, no verdict) until its id is routable
	for t0, k := time.Now(), 0; ; k++ {
		nf, ok := c11sRouteProbe(flooder, []string{vc.ID}, fmt.Sprintf("nobody-reg-%s-%d", vc.ID, k))
		if !ok {
			vc.Note = "registration probe not answered"
			rd.suspectStall("a non-reader's registration probe on the session's sender was not answered")
			return
		}
		if !nf[vc.ID] {
			break
		}
		if time.Since(t0) > 5*time.Second {
			vc.Note = "not registered with the hub (join refused or not served)"
			return
		}
		time.Sleep(5 * time.Millisecond)
	}
	for n := 0; info.FloodMsgs < c11sStallMaxMsgs; n++ {
		for i := 0; i < c11sStallBatch; i++ {
			if err := flooder.SendText(c11sBigEnv(to, c11sStallMsg)); err != nil {
				vc.Note = "flood: " + err.Error()
				return
			}
		}
		// in-order marker: when it is answered the server has routed everything before it; also probes the id itself
		nf, ok := c11sRouteProbe(flooder, []string{vc.ID}, fmt.Sprintf("nobody-flood-%s-%d", vc.ID, n))
		if !ok {
			vc.Note = "flood marker not answered"
			rd.suspectStall("a non-reader's flood marker on the session's sender was not answered")
			return
		}
		if nf[vc.ID] {
			vc.Note = "no longer registered with the hub during the flood"
			return
		}
		info.FloodMsgs += c11sStallBatch
		blocked, again := rd.stallBlocked(st)
		if blocked {
			info.Blocked = true
			vc.Note = ""
			return
		}
		if !again {
			return
		}
	}
	vc.Note = "server-side write not blocked after the whole flood"
}

// stallOverflow: the connection's writer is blocked, so nothing leaves the hub's queue for it (256 entries); route more
// small messages to it than the queue holds. From then on every Broadcast / SendTo that meets it takes the queue-full path.
func (rd *c11sRound) stallOverflow(st *c11sStaller) {
	flooder := st.sess.host
	if flooder == nil {
		return
	}
	to := st.vc.ID
	if st.info.Fill == "broadcast" {
		to = ""
	}
	for i := 0; i < c11sHubQueue+48; i++ {
		if flooder.SendText(c11sEnvJSON(protocol.TypeOffer, to)) != nil {
			return
		}
	}
	if _, ok := c11sRouteProbe(flooder, nil, "nobody-overflow-"+st.vc.ID); ok {
		st.info.Overflowed = true
		rd.agg.count("nonreaders_with_hub_queue_overflowed", 1)
		rd.agg.count("nonreader_overflowed_event:"+st.info.Event, 1)
	}
}

// runStaller is the life of one non-reader: connect, stop reading, get flooded, stay, go.
func (rd *c11sRound) runStaller(st *c11sStaller) {
	defer close(st.gone)
	ok := !rd.aborted.Load() && rd.stallConnect(st)
	if ok && !rd.aborted.Load() {
		rd.stallFill(st)
		st.vc.Reached = st.info.Blocked
		if st.info.Blocked && st.info.Overflow && !rd.aborted.Load() {
			rd.stallOverflow(st)
		}
	}
	rd.agg.count("nonreaders_started", 1)
	if st.info.Blocked {
		rd.agg.count("nonreaders_with_server_write_blocked", 1)
		rd.agg.count("nonreader_blocked:"+st.vc.Point, 1)
		rd.agg.count("nonreader_blocked_fill:"+st.info.Fill, 1)
		rd.agg.count("nonreader_blocked_event:"+st.info.Event, 1)
		rd.agg.count("nonreader_blocked_round:"+rd.cfg.Kind, 1)
		rd.agg.count("nonreader_kernel_bytes_held_total", st.info.Held)
	}
	close(st.ready)
	<-st.release
	if st.tc != nil {
		if d := st.vc.Delay; d > 0 {
			time.Sleep(time.Duration(d) * time.Microsecond)
		}
		if st.vc.Close == "rst" {
			_ = st.tc.SetLinger(0)
		}
		_ = st.tc.Close()
	}
	st.vc.ClosedAt = vk.MonoNow()
}

// startStallers runs all registered non-readers that have not been started yet and waits until each is blocked (or gave up).
func (rd *c11sRound) startStallers() {
	rd.stallMu2.Lock()
	sts := append([]*c11sStaller{}, rd.stallers[rd.stallersStarted:]...)
	rd.stallersStarted = len(rd.stallers)
	rd.stallMu2.Unlock()
	sem := make(chan struct{}, 6)
	for _, st := range sts {
		go func(st *c11sStaller) {
			sem <- struct{}{}
			go func() { <-st.ready; <-sem }()
			rd.runStaller(st)
		}(st)
	}
	for _, st := range sts {
		<-st.ready
	}
}

// releaseStallers lets the non-readers selected by pick go and waits until their sockets are closed.
func (rd *c11sRound) releaseStallers(pick func(*c11sStaller) bool) {
	rd.stallMu2.Lock()
	sts := append([]*c11sStaller{}, rd.stallers[:rd.stallersStarted]...)
	rd.stallMu2.Unlock()
	for _, st := range sts {
		if pick == nil || pick(st) {
			st.free()
		}
	}
	for _, st := range sts {
		if pick == nil || pick(st) {
			<-st.gone
		}
	}
}

// churnTick is called after every churn case: non-readers whose turn it is leave in the middle of the churn.
func (rd *c11sRound) churnTick() {
	n := int(rd.churnDone.Add(1))
	rd.stallMu2.Lock()
	defer rd.stallMu2.Unlock()
	for _, st := range rd.stallers[:rd.stallersStarted] {
		if la := st.info.LeaveAfter; la > 0 && la <= n {
			st.free()
		}
	}
}

// ---------------------------------------------------------------------------
// bounded progress of the uninvolved

func (rd *c11sRound) healthOK() bool {
	hc := &http.Client{Timeout: 5 * time.Second}
	resp, err := hc.Get(rd.srv.URL + "/health")
	if err != nil {
		return false
	}
	_ = resp.Body.Close()
	return resp.StatusCode == http.StatusOK
}

// freshJoin: a client that has nothing to do with any existing session – new session, join, peer list.
// A note that starts with "watchdog:" means the step was still waiting when its watchdog expired (the only kind of
// failure that counts towards "not served"); any other failure is an error of the environment.
func (rd *c11sRound) freshJoin(tag string) (served bool, note string) {
	rs, err := vk.CreateSessionRaw(rd.srv.URL, "")
	if err != nil || rs.JoinCode == "" {
		return false, fmt.Sprintf("POST /session: %v (http %d)", err, rs.Status)
	}
	t0 := time.Now()
	c, err := vk.DialWS(vk.WSURL(rd.srv.URL, rs.JoinCode, "canary-"+tag, "receiver"), c11sIOWait, nil)
	if err != nil {
		if c.HTTPStatus == 0 && time.Since(t0) >= c11sIOWait-time.Second {
			return false, "watchdog: upgrade request not answered: " + err.Error()
		}
		return false, fmt.Sprintf("join not upgraded: http %d %v", c.HTTPStatus, err)
	}
	defer c.Close(false)
	if _, ok := c.WaitType(protocol.TypePeerList, c11sIOWait); !ok {
		if ended, rerr := c.ReadEnded(); ended {
			return false, fmt.Sprintf("connection ended before the peer list: %v", rerr)
		}
		return false, "watchdog: upgraded (101) but no peer list"
	}
	return true, ""
}

// progress decides, after an event of a non-reader's history, whether clients that have nothing to do with it are
// still served. Returns false when the round is over (hub stopped serving: reported; or no verdict possible).
func (rd *c11sRound) progress(event string, st *c11sStaller) bool {
	if rd.aborted.Load() || c11sServStalled.Load() {
		return false
	}
	cls := "nonreaders"
	if st != nil {
		cls = st.key()
	}
	h0 := rd.healthOK()
	type res struct {
		ok   bool
		note string
	}
	seq := rd.probeSeq.Add(1)
	try := func(tag string) chan res {
		ch := make(chan res, 1)
		go func() { ok, n := rd.freshJoin(fmt.Sprintf("%d-%s", seq, tag)); ch <- res{ok, n} }()
		return ch
	}
	a := try("a")
	var ra, rb res
	select {
	case ra = <-a:
		if !ra.ok { // failed at once (refused, not timed out): a second attempt after it
			rb = <-try("b")
		}
	case <-time.After(2 * time.Second):
		// slow: a second, independent attempt runs beside the first
		b := try("b")
		ra = <-a
		rb = <-b
	}
	if ra.ok {
		rd.agg.count("progress_probes_served", 1)
		rd.agg.count("progress_probes_served:"+event, 1)
		if st != nil && st.info.Blocked {
			rd.agg.count("progress_probes_served_with_blocked_nonreader:"+event, 1)
		}
		if st != nil {
			rd.sameSessionServed(event, st)
		}
		return !rd.aborted.Load()
	}
	if rb.ok {
		rd.agg.count("progress_probes_served_on_second_attempt", 1)
		return true
	}
	h1 := rd.healthOK()
	if !rd.srv.Alive() {
		return false // the crash clause reports it (serverHealth)
	}
	if !h0 || !h1 || !strings.HasPrefix(ra.note, "watchdog:") || !strings.HasPrefix(rb.note, "watchdog:") {
		rd.inconcl("after %s of %s: a join into a brand-new session was not served (%s / %s) but not both attempts ended by their watchdog or /health did not answer either (before=%v after=%v); no verdict", event, cls, ra.note, rb.note, h0, h1)
		rd.aborted.Store(true)
		return false
	}
	rd.aborted.Store(true)
	c11sServStalled.Store(true)
	spec := map[string]any{"event": event, "history": "a peer that stays connected and stops reading (" + cls + "), traffic routed to it until the server-side write blocks, then: " + event}
	if st != nil {
		spec["non_reader"] = st.vc
		if st.second != nil {
			spec["second_connection_under_the_same_id"] = st.second
		}
		spec["session_kind"] = st.sess.Kind
	}
	rd.e.R.Violate("serv:hub-stops-serving:"+cls+"+"+event,
		"two independent joins into brand-new sessions (clients that have nothing to do with the non-reading peer or its session) were not served within the watchdog while /health of the same process answered before and after: the hub no longer serves uninvolved peers",
		rd.caseSpec(spec), map[string]any{"first_attempt": ra.note, "second_attempt": rb.note, "nonreaders_of_the_round": rd.stallerCases(), "server_log_tail": rd.srv.LogTail(3000)})
	return false
}

func (rd *c11sRound) stallerCases() []*c11sCase {
	rd.stallMu2.Lock()
	defer rd.stallMu2.Unlock()
	var out []*c11sCase
	for _, st := range rd.stallers {
		out = append(out, st.vc)
	}
	return out
}

// sameSessionServed: the sender of the non-reader's session only stayed connected; its handler must still answer, and
// the non-reader itself is connected, hence routable. Judged only after the fresh-session canary was served.
func (rd *c11sRound) sameSessionServed(event string, st *c11sStaller) bool {
	if st == nil || st.sess.host == nil || !st.info.Blocked {
		return true
	}
	host := st.sess.host
	if ended, _ := host.ReadEnded(); ended {
		return true // judged by the round's own oracle (uninvolved-peer-disconnected) where it applies
	}
	nf, ok, sent := c11sRouteProbeSent(host, []string{st.vc.ID}, fmt.Sprintf("nobody-progress-%s-%d", st.vc.ID, rd.probeSeq.Add(1)))
	if !ok {
		if ended, _ := host.ReadEnded(); ended || !rd.srv.Alive() {
			return true
		}
		if !sent {
			// the probe could not even be written: the sender's connection is over (e.g. its session expired a moment ago and the
			// client's reader has not seen the end yet) - not an unanswered probe
			rd.agg.count("sender_probe_not_written_connection_over", 1)
			return true
		}
		// the canary was served a moment ago; confirm that it still is, so that the machine is not the reason
		if served, _ := rd.freshJoin(fmt.Sprintf("%d-s", rd.probeSeq.Add(1))); !served || !rd.healthOK() {
			rd.inconcl("after %s of %s: the sender's probe was not answered and the canary is not served either; no verdict here", event, st.key())
			return true
		}
		rd.e.R.Violate("serv:uninvolved-handler-not-served:"+st.key()+"+"+event,
			"the sender of the session, which only stayed connected, gets no answer to an addressed message to an unknown id within the watchdog while a join into a brand-new session on the same server is served: its handler is stuck",
			rd.caseSpec(map[string]any{"event": event, "non_reader": st.vc, "session_kind": st.sess.Kind}), map[string]any{"server_log_tail": rd.srv.LogTail(3000)})
		return true
	}
	rd.agg.count("senders_of_a_nonreaders_session_answered", 1)
	if st.second != nil && event != "stalled" {
		return true // replaced meanwhile: which connection owns the id depends on how far the second one got
	}
	rd.agg.count("connected_nonreaders_probed", 1)
	if !nf[st.vc.ID] {
		return true
	}
	// answered with peer_not_found: once more, with the state of the server's end of the connection read before and after
	q0, ok0 := c11sSockQueues(rd.srv.Port, st.vc.LPort)
	nf, ok = c11sRouteProbe(host, []string{st.vc.ID}, fmt.Sprintf("nobody-progress-%s-%d", st.vc.ID, rd.probeSeq.Add(1)))
	q1, ok1 := c11sSockQueues(rd.srv.Port, st.vc.LPort)
	if ok && nf[st.vc.ID] && ok0 && ok1 && q0.srvSeen && q1.srvSeen && q0.srvState == 1 && q1.srvState == 1 && !st.freed.Load() {
		rd.e.R.Violate("serv:connected-peer-not-routable:"+st.key(),
			"a peer that is connected (the server's end of its connection is ESTABLISHED before and after the probe, it was never replaced, its session never emptied) but does not read is answered with peer_not_found",
			rd.caseSpec(map[string]any{"event": event, "non_reader": st.vc, "session_kind": st.sess.Kind}), map[string]any{"server_log_tail": rd.srv.LogTail(3000)})
	}
	return true
}

// runReconnects: for every non-reader of event "reconnect", a second connection under the same id goes through its own
// class (c11sVanish) while the first one is blocked; progress is checked after each.
func (rd *c11sRound) runReconnects() bool {
	rd.stallMu2.Lock()
	sts := append([]*c11sStaller{}, rd.stallers[:rd.stallersStarted]...)
	rd.stallMu2.Unlock()
	for _, st := range sts {
		if st.second == nil || st.second.LPort != 0 || st.second.Note != "" {
			continue
		}
		if rd.aborted.Load() {
			return false
		}
		// the second connection goes through its class; when that takes long (it may be the first one not to be served)
		// the canaries are asked beside it
		done := make(chan struct{})
		go func() { defer close(done); c11sVanish(rd.srv.Port, st.sess.Join, "host", st.second) }()
		select {
		case <-done:
		case <-time.After(2 * time.Second):
		}
		rd.agg.count("reconnects_under_a_nonreaders_id", 1)
		if st.info.Blocked {
			rd.agg.count("reconnects_over_a_blocked_nonreader", 1)
			rd.agg.count("reconnects_over_a_blocked_nonreader:"+st.second.class().String(), 1)
		}
		ok := rd.progress("reconnect", st)
		<-done
		if !ok {
			return false
		}
		rd.afterCase(st.second)
	}
	return true
}

// stallPlan adds the non-readers of one session: one per (stall point, close) that only stays during the churn
// (some leave in the middle of it), and nRe whose id is taken over by a second connection.
func (rd *c11sRound) stallPlan(s *c11sSess, id func() string, event string, points []string, nRe, churnJobs int) {
	classes := c11sClasses()
	fixed := []c11sClass{{"joined", "fin"}, {"request-sent", "fin"}, {"peer-list-read", "rst"}, {"upgraded-unread", "rst"}, {"after-send", "wsclose"}, {"request-sent", "rst"}}
	fill := func(point string) string {
		switch {
		case point == "stalled-own-errors":
			return "own-errors"
		case rd.rng.Intn(3) == 0:
			return "broadcast"
		}
		return "addressed"
	}
	k := 0
	for _, p := range points {
		for _, cl := range []string{"fin", "rst"} {
			st := rd.newStaller(s, id(), p, cl, fill(p), event, nil)
			if churnJobs > 0 && k%2 == 0 {
				st.info.LeaveAfter = 1 + rd.rng.Intn(churnJobs)
			}
			if rd.rng.Intn(3) == 0 {
				st.vc.Delay = []int{20, 200, 1000, 5000}[rd.rng.Intn(4)]
			}
			st.info.Overflow = s.host != nil && k%3 == 1
			k++
		}
	}
	for i := 0; i < nRe; i++ {
		p := points[(i+int(rd.cfg.Seed%3))%len(points)]
		sc := fixed[(i+int(rd.cfg.Seed%uint64(len(fixed))))%len(fixed)]
		if i >= 2 && rd.rng.Intn(2) == 0 {
			sc = classes[rd.rng.Intn(len(classes))]
		}
		st := rd.newStaller(s, id(), p, []string{"fin", "rst"}[i%2], fill(p), "reconnect", &sc)
		st.info.Overflow = s.host != nil && i%2 == 1
	}
}

// progressAll: one canary for the uninvolved, then the sender of every session that holds a blocked non-reader.
func (rd *c11sRound) progressAll(event string) bool {
	if !rd.progress(event, nil) {
		return false
	}
	rd.stallMu2.Lock()
	sts := append([]*c11sStaller{}, rd.stallers[:rd.stallersStarted]...)
	rd.stallMu2.Unlock()
	for _, st := range sts {
		if st.info.Blocked && !st.freed.Load() && !rd.aborted.Load() {
			rd.sameSessionServed(event, st)
		}
	}
	return !rd.aborted.Load()
}

// expiredWithNonReaders counts (coverage only) the sessions whose expiry the server reported while a blocked non-reader was still in them.
func (rd *c11sRound) expiredWithNonReaders() {
	txt := rd.srv.LogText()
	rd.stallMu2.Lock()
	defer rd.stallMu2.Unlock()
	seen := map[int]bool{}
	for _, st := range rd.stallers[:rd.stallersStarted] {
		if st.info.Blocked && !st.freed.Load() && !seen[st.sess.Idx] && strings.Contains(txt, "session expired session_id="+st.sess.SID+" ") {
			seen[st.sess.Idx] = true
			rd.agg.count("sessions_expired_with_a_blocked_nonreader", 1)
		}
	}
}
