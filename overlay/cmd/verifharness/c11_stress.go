//go:build verif

package main

// C11 child process: one seeded stress of the real peers.Hub with perturbation
// at the four hub hook points. Every hub call is bracketed by call/return
// timestamps of one monotonic clock; panics are recovered per operation.
// The recorded history of each round is judged by c11_oracle.go.

import (
	"encoding/json"
	"fmt"
	"os"
	"runtime"
	"runtime/debug"
	"sort"
	"strings"
	"sync"
	"sync/atomic"
	"time"

	"github.com/sheerbytes/sheerbytes/internal/peers"
	"github.com/sheerbytes/sheerbytes/internal/verifhook"
	vk "github.com/sheerbytes/sheerbytes/internal/verifkit"
	"github.com/sheerbytes/sheerbytes/pkg/protocol"
)

const (
	c11Add = iota
	c11Remove
	c11Close
	c11List
	c11Bcast
	c11BExcept
	c11SendTo
	c11NKinds
)

var c11KindName = [c11NKinds]string{"Add", "remove", "CloseSession", "List", "Broadcast", "BroadcastExcept", "SendTo"}

// group name used in finding keys
var c11KindGroup = [c11NKinds]string{"add", "remove", "closesession", "list", "broadcast", "broadcast", "sendto"}

var c11HookNames = [4]string{"hub.broadcast.afterCopy", "hub.remove.afterUnlink", "hub.remove.beforeGC", "hub.close.afterUnlink"}

const (
	c11SharedPeers = 3
	c11GhostPeer   = 30000
	c11ConnStride  = 1 << 22
)

// c11Spec fully determines the operation scripts of one stress (pure function of tier, seed).
type c11Spec struct {
	ID           string `json:"id"`
	Seed         uint64 `json:"seed"`
	Sessions     int    `json:"sessions"`
	Workers      int    `json:"workers"`
	Rounds       int    `json:"rounds"`
	OpsPerWorker int    `json:"ops_per_worker_per_round"`
	Mix          string `json:"mix"`
	Profile      string `json:"hook_profile"`
	HookMaxUs    int    `json:"hook_max_us"`
	StallS       int    `json:"stall_window_s"`
}

type c11Listed struct{ peer, role string }

// c11Op is one call/return record.
type c11Op struct {
	kind uint8
	w    uint8
	sess int8
	pan  uint8 // 0 = returned normally, else panic class index + 1
	ok   bool  // SendTo result
	wstop bool // remove: the connection's writer had already stopped on a send error
	peer int32 // peer index, -1 none
	conn int32 // global connection index, -1 none
	call int64
	ret  int64
	hk   [2]int64 // hook hit times (remove: afterUnlink, beforeGC; broadcast: afterCopy; close: afterUnlink)
	list []c11Listed
}

type c11Live struct {
	idx       int32
	sess      int
	peer      int
	remove    func()
	closed    atomic.Bool
	delivered atomic.Int64
	failAfter int64
}

func (lc *c11Live) writerStopped() bool {
	return lc.failAfter > 0 && lc.delivered.Load() >= lc.failAfter
}

type c11Worker struct {
	id       int
	st       *c11Stress
	rng      *vk.Rng
	hookRng  *vk.Rng
	ops      []c11Op
	cur      *c11Op
	live     []*c11Live
	nextSeq  int32
	inflight atomic.Int32  // kind+1 while inside a hub call
	count    atomic.Uint64 // completed operations
}

type c11Viol struct {
	Key    string `json:"key"`
	What   string `json:"what"`
	Case   any    `json:"case,omitempty"`
	Detail any    `json:"detail,omitempty"`
}

// c11Result is what the child hands back to the parent.
type c11Result struct {
	Spec          c11Spec          `json:"spec"`
	Ops           map[string]int   `json:"ops"`
	Overlaps      map[string]int   `json:"overlaps"` // "A|B" -> overlapping pairs on the same session
	Windows       map[string]int   `json:"windows"`  // "E/window>L" -> count
	HookHits      map[string]int64 `json:"hook_hits"`
	Counters      map[string]int   `json:"counters"`
	Panics        map[string]int   `json:"panics"`        // finding key -> count
	PanicOverlap  map[string]int   `json:"panic_overlap"` // "Broadcast<remove" -> count
	PanicSites    map[string]int   `json:"panic_sites"`
	ViolCounts    map[string]int   `json:"violation_counts"`
	Violations    []c11Viol        `json:"violations"`
	Inconclusive  []string         `json:"inconclusive"`
	Samples       []any            `json:"samples"`
	RoundsDone    int              `json:"rounds_done"`
	Stalled       bool             `json:"stalled"`
	WallS         float64          `json:"wall_s"`
	OpsPerSec     float64          `json:"ops_per_sec"`
	ForeignHooks  int64            `json:"foreign_hook_hits"`
	GoroutinesEnd int              `json:"goroutines_at_end"`
}

func newC11Result(spec c11Spec) *c11Result {
	return &c11Result{Spec: spec, Ops: map[string]int{}, Overlaps: map[string]int{}, Windows: map[string]int{},
		HookHits: map[string]int64{}, Counters: map[string]int{}, Panics: map[string]int{}, PanicOverlap: map[string]int{},
		PanicSites: map[string]int{}, ViolCounts: map[string]int{}, Violations: []c11Viol{}, Inconclusive: []string{}, Samples: []any{}}
}

func (r *c11Result) violate(key, what string, cs, detail any) {
	r.ViolCounts[key]++
	if r.ViolCounts[key] > 3 || len(r.Violations) >= 30 {
		return
	}
	r.Violations = append(r.Violations, c11Viol{Key: key, What: what, Case: cs, Detail: detail})
}

type c11PanicSample struct {
	key   string
	op    c11Op
	msg   string
	site  string
	stack string
}

type c11Stress struct {
	spec    c11Spec
	hub     *peers.Hub
	t0      time.Time
	workers []*c11Worker // workers[spec.Workers] is the main goroutine's pseudo-worker (quiescent probes)
	byGoid  map[uint64]*c11Worker
	sessIDs []string
	env     protocol.Envelope

	hookHits     [4]atomic.Int64
	foreignHooks atomic.Int64
	closeFnCalls atomic.Int64
	delivered    atomic.Int64
	writerStops  atomic.Int64
	canary       atomic.Int64
	machineStalls atomic.Int64

	panMu      sync.Mutex
	panSamples []c11PanicSample
	panSeen    map[string]int

	resMu sync.Mutex
	res   *c11Result
	out   string
	done  atomic.Bool

	lastParked int
}

func (st *c11Stress) now() int64 { return int64(time.Since(st.t0)) + 1 }

func c11Goid() uint64 {
	var buf [48]byte
	n := runtime.Stack(buf[:], false)
	var id uint64
	for i := 10; i < n; i++ { // skip "goroutine "
		ch := buf[i]
		if ch < '0' || ch > '9' {
			break
		}
		id = id*10 + uint64(ch-'0')
	}
	return id
}

func c11PeerName(p int) string {
	switch {
	case p < 0:
		return ""
	case p < c11SharedPeers:
		return string(rune('A'+p)) + "-shared"
	case p == c11GhostPeer:
		return "ghost"
	default:
		return fmt.Sprintf("probe-w%d", p-c11SharedPeers)
	}
}

func c11ConnID(idx int32) string {
	return fmt.Sprintf("w%d.%d", idx/c11ConnStride, idx%c11ConnStride)
}

func c11ParseConnID(s string) int32 {
	var w, n int
	if _, err := fmt.Sscanf(s, "w%d.%d", &w, &n); err != nil || w < 0 || n < 0 || n >= c11ConnStride {
		return -1
	}
	return int32(w*c11ConnStride + n)
}

var c11PanicClasses = []string{"send-on-closed-channel", "close-of-closed-channel", "assignment-to-nil-map", "nil-dereference", "index-out-of-range", "other"}

func c11ClassifyPanic(p any) int {
	msg := fmt.Sprint(p)
	switch {
	case strings.Contains(msg, "send on closed channel"):
		return 0
	case strings.Contains(msg, "close of closed channel"):
		return 1
	case strings.Contains(msg, "nil map"):
		return 2
	case strings.Contains(msg, "nil pointer"):
		return 3
	case strings.Contains(msg, "out of range"):
		return 4
	}
	return 5
}

// c11PanicKey derives the finding key from the operation kind that panicked and the panic class.
func c11PanicKey(kind uint8, class int) string {
	if class <= 1 {
		return c11KindGroup[kind] + "-vs-close:" + c11PanicClasses[class]
	}
	return c11KindGroup[kind] + ":panic:" + c11PanicClasses[class]
}

// c11HubSite returns the innermost hub.go frame of a stack ("(*Hub).Broadcast hub.go:233").
func c11HubSite(stack string) string {
	lines := strings.Split(stack, "\n")
	for i := 0; i+1 < len(lines); i++ {
		if strings.Contains(lines[i+1], "/internal/peers/hub.go:") {
			fn := strings.TrimSpace(lines[i])
			if j := strings.LastIndex(fn, "/peers."); j >= 0 {
				fn = fn[j+7:]
			}
			if j := strings.Index(fn, "("); j > 0 && !strings.HasPrefix(fn, "(") {
				fn = fn[:j]
			} else if strings.HasPrefix(fn, "(") {
				if j := strings.Index(fn[1:], "("); j > 0 {
					fn = fn[:j+1]
				}
			}
			loc := strings.TrimSpace(lines[i+1])
			if j := strings.Index(loc, "hub.go:"); j >= 0 {
				loc = loc[j:]
				if k := strings.IndexByte(loc, ' '); k > 0 {
					loc = loc[:k]
				}
			}
			return fn + " " + loc
		}
	}
	return "no hub.go frame"
}

// do runs one hub call bracketed by call/return records; a panic is recovered and recorded.
func (w *c11Worker) do(kind int, sess int, peer int, conn int32, fn func(r *c11Op)) *c11Op {
	w.ops = append(w.ops, c11Op{kind: uint8(kind), w: uint8(w.id), sess: int8(sess), peer: int32(peer), conn: conn})
	r := &w.ops[len(w.ops)-1]
	w.cur = r
	w.inflight.Store(int32(kind) + 1)
	r.call = w.st.now()
	func() {
		defer func() {
			if p := recover(); p != nil {
				cl := c11ClassifyPanic(p)
				r.pan = uint8(cl + 1)
				w.st.notePanic(r, cl, fmt.Sprint(p))
			}
		}()
		fn(r)
	}()
	r.ret = w.st.now()
	w.cur = nil
	w.inflight.Store(0)
	w.count.Add(1)
	return r
}

// c11CallerSite returns the innermost hub.go frame of the (panicking) stack, cheaply.
func c11CallerSite() string {
	var pcs [32]uintptr
	n := runtime.Callers(3, pcs[:])
	fr := runtime.CallersFrames(pcs[:n])
	for {
		f, more := fr.Next()
		if strings.HasSuffix(f.File, "/internal/peers/hub.go") {
			fn := f.Function
			if j := strings.LastIndex(fn, "/peers."); j >= 0 {
				fn = fn[j+7:]
			}
			return fmt.Sprintf("%s hub.go:%d", fn, f.Line)
		}
		if !more {
			break
		}
	}
	return "no hub.go frame"
}

// notePanic runs inside the deferred recover of the panicking operation.
func (st *c11Stress) notePanic(r *c11Op, class int, msg string) {
	key := c11PanicKey(r.kind, class)
	site := c11CallerSite()
	st.panMu.Lock()
	st.panSeen[key]++
	st.panSeen["site:"+c11KindName[r.kind]+" @ "+site]++
	if st.panSeen[key] <= 2 {
		st.panSamples = append(st.panSamples, c11PanicSample{key: key, op: *r, msg: msg, site: site, stack: string(debug.Stack())})
	}
	st.panMu.Unlock()
}

// hook returns the callback of one hub hook point: records the hit time in the
// caller's current operation record and applies the seeded perturbation.
func (st *c11Stress) hook(hidx, slot int) verifhook.Func {
	return func(ev verifhook.Event) {
		w := st.byGoid[c11Goid()]
		if w == nil {
			st.foreignHooks.Add(1)
			return
		}
		st.hookHits[hidx].Add(1)
		if r := w.cur; r != nil && r.hk[slot] == 0 {
			r.hk[slot] = st.now()
		}
		w.perturb(hidx)
	}
}

func (w *c11Worker) perturb(hidx int) {
	sp := &w.st.spec
	x := w.hookRng.U64()
	yield := func(n int) {
		for i := 0; i < n; i++ {
			runtime.Gosched()
		}
	}
	sleep := func(maxUs int) {
		if maxUs <= 0 {
			maxUs = 1
		}
		time.Sleep(time.Duration(1+(x>>16)%uint64(maxUs)) * time.Microsecond)
	}
	switch {
	case sp.Profile == "none":
		return
	case sp.Profile == "yield":
		yield(int(x % 5)) // 0..4
	case sp.Profile == "sleep":
		if x%8 == 0 {
			sleep(sp.HookMaxUs)
		} else {
			yield(int(x % 4))
		}
	case strings.HasPrefix(sp.Profile, "target:"):
		if c11HookNames[hidx] == sp.Profile[len("target:"):] {
			if x%3 == 0 {
				sleep(sp.HookMaxUs)
			} else {
				yield(int(1 + x%6))
			}
		} else {
			yield(int(x % 3))
		}
	}
}

type c11Mix struct {
	w       [c11NKinds + 1]int // weights per kind; last = probe sequence
	maxLive int
}

var c11Mixes = map[string]c11Mix{
	"balanced": {[c11NKinds + 1]int{16, 14, 2, 10, 16, 12, 18, 4}, 4},
	"churn":    {[c11NKinds + 1]int{26, 24, 5, 6, 14, 8, 12, 3}, 3},
	"sparse":   {[c11NKinds + 1]int{22, 22, 3, 8, 16, 8, 14, 5}, 1},
	"bcast":    {[c11NKinds + 1]int{14, 13, 2, 4, 34, 20, 8, 2}, 3},
}

func (w *c11Worker) opAdd(sess, peer int) *c11Live {
	st := w.st
	idx := int32(w.id*c11ConnStride) + w.nextSeq
	w.nextSeq++
	lc := &c11Live{idx: idx, sess: sess, peer: peer}
	if w.rng.Intn(8) == 0 {
		lc.failAfter = int64(1 + w.rng.Intn(4))
	}
	cid := c11ConnID(idx)
	p := peers.Peer{PeerID: c11PeerName(peer), Role: cid, ConnID: cid}
	send := func(env protocol.Envelope) error {
		n := lc.delivered.Add(1)
		st.delivered.Add(1)
		if lc.failAfter > 0 && n >= lc.failAfter {
			st.writerStops.Add(1)
			return fmt.Errorf("c11: writer stops")
		}
		return nil
	}
	closeFn := func() {
		lc.closed.Store(true)
		st.closeFnCalls.Add(1)
	}
	r := w.do(c11Add, sess, peer, idx, func(r *c11Op) {
		lc.remove = st.hub.Add(st.sessIDs[sess], p, send, closeFn)
	})
	if r.pan != 0 || lc.remove == nil {
		return nil
	}
	w.live = append(w.live, lc)
	return lc
}

func (w *c11Worker) opRemove(i int) {
	lc := w.live[i]
	w.live[i] = w.live[len(w.live)-1]
	w.live = w.live[:len(w.live)-1]
	w.do(c11Remove, lc.sess, lc.peer, lc.idx, func(r *c11Op) { lc.remove() }).wstop = lc.writerStopped()
	if w.rng.Intn(16) == 0 { // idempotence: the handler's deferred remove after a replacement / CloseSession
		w.do(c11Remove, lc.sess, lc.peer, lc.idx, func(r *c11Op) { lc.remove() })
	}
}

func (w *c11Worker) opSendTo(sess, peer int) *c11Op {
	st := w.st
	return w.do(c11SendTo, sess, peer, -1, func(r *c11Op) {
		r.ok = st.hub.SendTo(st.sessIDs[sess], c11PeerName(peer), st.env)
	})
}

func (w *c11Worker) opList(sess int) *c11Op {
	st := w.st
	return w.do(c11List, sess, -1, -1, func(r *c11Op) {
		l := st.hub.List(st.sessIDs[sess])
		if len(l) > 0 {
			r.list = make([]c11Listed, len(l))
			for i, p := range l {
				r.list[i] = c11Listed{p.PeerID, p.Role}
			}
		}
	})
}

// step issues one scripted step (1..4 hub operations). The script depends only on
// the worker's own seeded generator and its own set of live connections.
func (w *c11Worker) step(mix *c11Mix, total int) {
	st := w.st
	sess := w.rng.Intn(st.spec.Sessions)
	x := w.rng.Intn(total)
	kind := 0
	for kind = 0; kind <= c11NKinds; kind++ {
		if x < mix.w[kind] {
			break
		}
		x -= mix.w[kind]
	}
	if kind == c11Add && len(w.live) >= mix.maxLive {
		kind = c11Remove
	}
	if kind == c11Remove && len(w.live) == 0 {
		kind = c11Add
	}
	switch kind {
	case c11Add:
		peer := w.rng.Intn(c11SharedPeers)
		if w.rng.Intn(5) == 0 {
			peer = c11SharedPeers + w.id
		}
		w.opAdd(sess, peer)
	case c11Remove:
		w.opRemove(w.rng.Intn(len(w.live)))
	case c11Close:
		w.do(c11Close, sess, -1, -1, func(r *c11Op) { st.hub.CloseSession(st.sessIDs[sess]) })
	case c11List:
		w.opList(sess)
	case c11Bcast:
		w.do(c11Bcast, sess, -1, -1, func(r *c11Op) { st.hub.Broadcast(st.sessIDs[sess], st.env) })
	case c11BExcept:
		peer := w.rng.Intn(c11SharedPeers)
		w.do(c11BExcept, sess, peer, -1, func(r *c11Op) {
			st.hub.BroadcastExcept(st.sessIDs[sess], c11PeerName(peer), st.env)
		})
	case c11SendTo:
		peer := w.rng.Intn(c11SharedPeers)
		switch y := w.rng.Intn(10); {
		case y >= 6 && y <= 8:
			for _, lc := range w.live {
				if lc.sess == sess {
					peer = lc.peer
					break
				}
			}
		case y == 9:
			peer = c11GhostPeer
		}
		w.opSendTo(sess, peer)
	default: // probe sequence on this worker's private peer id: join, be addressed, be listed, leave
		peer := c11SharedPeers + w.id
		lc := w.opAdd(sess, peer)
		w.opSendTo(sess, peer)
		w.opList(sess)
		if lc != nil {
			for i := range w.live {
				if w.live[i] == lc {
					w.opRemove(i)
					break
				}
			}
		}
	}
}

type c11Barrier struct {
	mu    sync.Mutex
	cond  *sync.Cond
	n     int
	count int
	gen   int
}

func newC11Barrier(n int) *c11Barrier {
	b := &c11Barrier{n: n}
	b.cond = sync.NewCond(&b.mu)
	return b
}

func (b *c11Barrier) Wait() {
	b.mu.Lock()
	gen := b.gen
	b.count++
	if b.count == b.n {
		b.count = 0
		b.gen++
		b.cond.Broadcast()
	} else {
		for gen == b.gen {
			b.cond.Wait()
		}
	}
	b.mu.Unlock()
}

func (st *c11Stress) run() {
	sp := st.spec
	mix, ok := c11Mixes[sp.Mix]
	if !ok {
		mix = c11Mixes["balanced"]
	}
	total := 0
	for _, x := range mix.w {
		total += x
	}
	base := vk.NewRng(sp.Seed)
	for i := 0; i <= sp.Workers; i++ {
		w := &c11Worker{id: i, st: st, rng: base.Fork(), hookRng: base.Fork()}
		w.ops = make([]c11Op, 0, sp.OpsPerWorker+64)
		st.workers = append(st.workers, w)
	}
	mainW := st.workers[sp.Workers]
	bar := newC11Barrier(sp.Workers + 1)
	var regMu sync.Mutex
	st.byGoid[c11Goid()] = mainW

	verifhook.Reset()
	verifhook.Set(c11HookNames[0], st.hook(0, 0))
	verifhook.Set(c11HookNames[1], st.hook(1, 0))
	verifhook.Set(c11HookNames[2], st.hook(2, 1))
	verifhook.Set(c11HookNames[3], st.hook(3, 0))

	for i := 0; i < sp.Workers; i++ {
		w := st.workers[i]
		go func() {
			regMu.Lock()
			st.byGoid[c11Goid()] = w
			regMu.Unlock()
			bar.Wait() // registration complete
			for round := 0; round < sp.Rounds; round++ {
				bar.Wait() // round start
				n0 := len(w.ops)
				for len(w.ops)-n0 < sp.OpsPerWorker {
					w.step(&mix, total)
				}
				bar.Wait() // A: no operation in flight, connections still live
				bar.Wait() // A2: quiescent probes and snapshot taken
				for len(w.live) > 0 {
					lc := w.live[len(w.live)-1]
					w.live = w.live[:len(w.live)-1]
					w.do(c11Remove, lc.sess, lc.peer, lc.idx, func(r *c11Op) { lc.remove() }).wstop = lc.writerStopped()
				}
				bar.Wait() // B: all removes returned
				bar.Wait() // C: history judged, logs may be reused
				w.ops = w.ops[:0]
			}
		}()
	}
	bar.Wait()
	go st.monitor()

	startAll := time.Now()
	totalOps := 0
	for round := 0; round < sp.Rounds; round++ {
		bar.Wait() // round start
		bar.Wait() // A
		tA := st.now()
		// quiescent probes: every (session, peer id) addressed, every session listed, with nothing else in flight
		for s := 0; s < sp.Sessions; s++ {
			for p := 0; p < c11SharedPeers+sp.Workers; p++ {
				mainW.opSendTo(s, p)
			}
			mainW.opList(s)
		}
		snapA := st.hub.VerifSnapshot()
		tA2 := st.now()
		bar.Wait() // A2
		bar.Wait() // B
		snapB := st.hub.VerifSnapshot()
		tB := st.now()
		parked, other := c11WriterCensus()
		var all []c11Op
		for _, w := range st.workers {
			all = append(all, w.ops...)
		}
		totalOps += len(all)
		st.resMu.Lock()
		h := newC11History(st, all)
		h.judge(st.res)
		h.checkSnapshot(st.res, "partial", snapA, tA, tA2, round)
		h.checkSnapshot(st.res, "final", snapB, tB, tB, round)
		h.checkWriters(st.res, parked, other, round)
		st.res.RoundsDone = round + 1
		st.res.Counters["quiescence_checks"] += 2
		st.resMu.Unlock()
		mainW.ops = mainW.ops[:0]
		bar.Wait() // C
	}
	st.done.Store(true)
	wall := time.Since(startAll).Seconds()

	// let writer goroutines of closed connections exit, then count what is left
	time.Sleep(50 * time.Millisecond)
	st.resMu.Lock()
	defer st.resMu.Unlock()
	res := st.res
	res.WallS = wall
	if wall > 0 {
		res.OpsPerSec = float64(totalOps) / wall
	}
	res.GoroutinesEnd = runtime.NumGoroutine()
	st.finishResult()
}

// finishResult folds hook counters and panic samples into the result (resMu held).
func (st *c11Stress) finishResult() {
	res := st.res
	for i, n := range c11HookNames {
		res.HookHits[n] = st.hookHits[i].Load()
		res.HookHits["verifhook:"+n] = int64(verifhook.Hits(n))
	}
	res.ForeignHooks = st.foreignHooks.Load()
	res.Counters["machine_stall_episodes_no_verdict"] = int(st.machineStalls.Load())
	res.Counters["writer_goroutines_parked_at_final_quiescence_max"] += 0
	res.Counters["writer_goroutines_leaked"] += 0
	res.Counters["carve_out_remover_window"] += 0
	res.Counters["closeFn_calls"] = int(st.closeFnCalls.Load())
	res.Counters["envelopes_delivered_to_writers"] = int(st.delivered.Load())
	res.Counters["writers_stopped_by_send_error"] = int(st.writerStops.Load())
	st.panMu.Lock()
	for k, n := range st.panSeen {
		if strings.HasPrefix(k, "site:") {
			res.PanicSites[k[5:]] += n
		} else {
			res.Panics[k] += n
		}
	}
	for _, ps := range st.panSamples {
		res.violate(ps.key, fmt.Sprintf("%s panicked (recovered by the worker): %s at %s", c11KindName[ps.op.kind], ps.msg, ps.site),
			map[string]any{"spec": st.spec, "op": st.opJSON(&ps.op)},
			map[string]any{"panic": ps.msg, "site": ps.site, "stack": c11Trunc(ps.stack, 4000)})
	}
	// panics beyond the stored samples still count
	for k, n := range res.Panics {
		if res.ViolCounts[k] < n {
			res.ViolCounts[k] = n
		}
	}
	st.panMu.Unlock()
}

func c11Trunc(s string, n int) string {
	if len(s) > n {
		return s[:n] + "…"
	}
	return s
}

func (st *c11Stress) opJSON(o *c11Op) map[string]any {
	m := map[string]any{"worker": o.w, "op": c11KindName[o.kind], "session": o.sess, "call_ns": o.call, "ret_ns": o.ret}
	if o.peer >= 0 {
		m["peer"] = c11PeerName(int(o.peer))
	}
	if o.conn >= 0 {
		m["conn"] = c11ConnID(o.conn)
	}
	if o.kind == c11SendTo {
		m["result"] = o.ok
	}
	if o.kind == c11List {
		var l []string
		for _, x := range o.list {
			l = append(l, x.peer+"/"+x.role)
		}
		m["result"] = l
	}
	if o.pan != 0 {
		m["panic"] = c11PanicClasses[o.pan-1]
	}
	if o.hk[0] != 0 || o.hk[1] != 0 {
		m["hook_ns"] = o.hk
	}
	return m
}

// monitor decides bounded progress from operation counters: a worker that is
// inside a hub call and whose counter has not advanced for the stall window,
// while the canary (pure harness goroutine) kept running, is a hang.
func (st *c11Stress) monitor() {
	go func() {
		for !st.done.Load() {
			time.Sleep(time.Millisecond)
			st.canary.Add(1)
		}
	}()
	window := time.Duration(st.spec.StallS) * time.Second
	if window <= 0 {
		window = 12 * time.Second
	}
	n := len(st.workers)
	last := make([]uint64, n)
	since := make([]time.Time, n)
	canAt := make([]int64, n)
	for i := range since {
		since[i] = time.Now()
		canAt[i] = st.canary.Load()
	}
	for !st.done.Load() {
		time.Sleep(200 * time.Millisecond)
		now := time.Now()
		for i, w := range st.workers {
			c := w.count.Load()
			if c != last[i] || w.inflight.Load() == 0 {
				last[i] = c
				since[i] = now
				canAt[i] = st.canary.Load()
				continue
			}
			if now.Sub(since[i]) < window {
				continue
			}
			// stalled inside a hub call
			canTicks := st.canary.Load() - canAt[i]
			var kinds []string
			seen := map[string]bool{}
			for _, w2 := range st.workers {
				if k := w2.inflight.Load(); k > 0 && !seen[c11KindName[k-1]] {
					seen[c11KindName[k-1]] = true
					kinds = append(kinds, c11KindName[k-1])
				}
			}
			sort.Strings(kinds)
			buf := make([]byte, 1<<20)
			buf = buf[:runtime.Stack(buf, true)]
			if canTicks < int64(window/time.Millisecond)/20 {
				// the canary (pure harness goroutine) did not run either: the machine or the
				// process was stalled, not the hub. No verdict from this window; keep watching.
				st.machineStalls.Add(1)
				for j := range since {
					since[j] = now
					canAt[j] = st.canary.Load()
				}
				break
			}
			st.resMu.Lock()
			st.res.Stalled = true
			st.res.violate("stall:hub-operations-frozen",
				fmt.Sprintf("worker %d inside %s made no progress for %s (operation counters frozen while the canary goroutine ran %d ticks); hub operations in flight: %v", i, c11KindName[w.inflight.Load()-1], window, canTicks, kinds),
				map[string]any{"spec": st.spec, "in_flight": kinds}, map[string]any{"goroutines": c11Trunc(string(buf), 60000)})
			st.finishResult()
			_ = c11WriteJSON(st.out, st.res)
			os.Exit(0)
		}
	}
}

// c11WriterCensus counts the hub's per-connection writer goroutines (closure of Hub.Add):
// parked = blocked receiving from a send channel that is still open; other = runnable/running
// (about to exit after a close). close() makes every parked receiver runnable before it returns,
// so once every closer has returned a parked writer is one whose channel was never closed.
func c11WriterCensus() (parked, other int) {
	buf := make([]byte, 8<<20)
	for {
		n := runtime.Stack(buf, true)
		if n < len(buf) {
			buf = buf[:n]
			break
		}
		buf = make([]byte, 2*len(buf))
	}
	for _, g := range strings.Split(string(buf), "\n\n") {
		if !strings.Contains(g, "internal/peers.(*Hub).Add.func1") {
			continue
		}
		if strings.Contains(g[:strings.IndexByte(g+"\n", '\n')], "[chan receive") {
			parked++
		} else {
			other++
		}
	}
	return
}

func c11WriteJSON(path string, v any) error {
	data, err := json.Marshal(v)
	if err != nil {
		return err
	}
	if err := os.WriteFile(path+".tmp", data, 0644); err != nil {
		return err
	}
	return os.Rename(path+".tmp", path)
}

// c11ChildMain: verifharness c11child <spec.json> <result.json>
func c11ChildMain(args []string) int {
	if len(args) < 2 {
		fmt.Fprintln(os.Stderr, "usage: c11child <spec.json> <result.json>")
		return 3
	}
	data, err := os.ReadFile(args[0])
	if err != nil {
		fmt.Fprintln(os.Stderr, err)
		return 3
	}
	var sp c11Spec
	if err := json.Unmarshal(data, &sp); err != nil {
		fmt.Fprintln(os.Stderr, err)
		return 3
	}
	debug.SetTraceback("all")
	st := &c11Stress{spec: sp, hub: peers.NewHub(), t0: time.Now(), byGoid: map[uint64]*c11Worker{}, panSeen: map[string]int{},
		res: newC11Result(sp), out: args[1], env: protocol.Envelope{V: 1, Type: "c11", MsgID: "m"}}
	for s := 0; s < sp.Sessions; s++ {
		st.sessIDs = append(st.sessIDs, fmt.Sprintf("sess-%d", s))
	}
	fmt.Fprintf(os.Stderr, "[c11child] %s start: %+v\n", sp.ID, sp)
	st.run()
	if err := c11WriteJSON(args[1], st.res); err != nil {
		fmt.Fprintln(os.Stderr, err)
		return 3
	}
	return 0
}
