//go:build verif

package main

// C12 – admission control of the host.
//
// A real app.SnapshotSender (built through the export shim the way the
// repository's own tests build one) is driven event by event through
// handleEnvelope / cleanup, with a stub transfer function under harness
// control and a real wsclient.Conn to a recording WebSocket endpoint. After
// every event the harness waits for quiescence (hook hit counts and a marker
// round trip through the connection, never sleeps) and compares queue, active
// slots, statuses, running stub transfers and the messages seen at the
// boundary with a small reference model.

import (
	"context"
	"encoding/json"
	"errors"
	"fmt"
	"io"
	"log/slog"
	"net/http"
	"net/http/httptest"
	"os"
	"runtime"
	"runtime/debug"
	"sort"
	"strconv"
	"strings"
	"sync"
	"sync/atomic"
	"time"

	"github.com/gorilla/websocket"
	"github.com/sheerbytes/sheerbytes/internal/app"
	"github.com/sheerbytes/sheerbytes/internal/termio"
	"github.com/sheerbytes/sheerbytes/internal/verifhook"
	vk "github.com/sheerbytes/sheerbytes/internal/verifkit"
	"github.com/sheerbytes/sheerbytes/internal/wsclient"
	"github.com/sheerbytes/sheerbytes/pkg/protocol"
)

func init() { register("c12", runC12) }

// ---------------------------------------------------------------------------
// events and histories

const (
	c12Join    = iota // J  peer_joined for a receiver that is not a member
	c12Accept         // A  manifest_accept from a member (repeatable)
	c12Leave          // L  peer_left for a member
	c12OK             // K  the receiver's running transfer (live context) returns nil
	c12Fail           // F  ... returns an error
	c12Stale          // S  the oldest transfer of the receiver whose context was cancelled returns ctx.Err()
	c12StaleOK        // s  ... returns nil (a cancelled sender can return nil, see C02)
	c12Tick           // T  clock +6 min, then one cleanup() tick (TTL 10 min)
	c12Rejoin         // R  peer_joined for a receiver that is already a member (same peer id reconnects)
)

const c12Letters = "JALKFSsTR"

type c12Ev struct {
	K uint8
	P int8
}

func (e c12Ev) String() string {
	if e.K == c12Tick {
		return "T"
	}
	return string(c12Letters[e.K]) + string(rune('a'+e.P))
}

func c12HistStr(h []c12Ev, sep string) string {
	var sb strings.Builder
	for i, e := range h {
		if i > 0 {
			sb.WriteString(sep)
		}
		sb.WriteString(e.String())
	}
	return sb.String()
}

func c12Parse(s string) []c12Ev {
	var out []c12Ev
	for _, f := range strings.Split(s, ".") {
		if f == "" {
			continue
		}
		if f == "T" {
			out = append(out, c12Ev{K: c12Tick, P: -1})
			continue
		}
		k := strings.IndexByte(c12Letters, f[0])
		out = append(out, c12Ev{K: uint8(k), P: int8(f[1] - 'a')})
	}
	return out
}

// c12Compact is the one-byte-per-event spelling used for the distinct-history set.
func c12Compact(max int, h []c12Ev) string {
	b := make([]byte, 0, len(h)+1)
	b = append(b, byte('0'+max))
	for _, e := range h {
		if e.K == c12Tick {
			b = append(b, 'z')
		} else {
			b = append(b, byte('A'+int(e.K)*c12NRmax+int(e.P)))
		}
	}
	return string(b)
}

// c12Canon renames receivers in order of first appearance (a, b, c).
func c12Canon(h []c12Ev) []c12Ev {
	ren := map[int8]int8{}
	out := make([]c12Ev, len(h))
	for i, e := range h {
		out[i] = e
		if e.P < 0 {
			continue
		}
		if _, ok := ren[e.P]; !ok {
			ren[e.P] = int8(len(ren))
		}
		out[i].P = ren[e.P]
	}
	return out
}

// ---------------------------------------------------------------------------
// reference model (a value type; what the property prescribes)

const (
	c12None = iota
	c12Joined
	c12Queued
	c12Xfer
	c12Idle
)
const (
	c12OutNone = iota
	c12OutOK   // transfer returned nil  -> DONE
	c12OutFail // transfer returned err  -> FAILED
	c12OutLeft // left the session       -> FAILED or DONE
)

const c12NR = 3    // receivers a, b, c of the enumerated / sequential histories
const c12NRmax = 5 // receivers a..e of the concurrent-delivery scenarios (c12_conc.go)

type c12Model struct {
	Max     int
	Seen    int
	Member  [c12NRmax]bool
	Cls     [c12NRmax]uint8
	Out     [c12NRmax]uint8
	Q       [c12NRmax]int8
	QN      int
	Stale   [c12NRmax]uint8 // transfers still unwinding after their context was cancelled
	Reacc   [c12NRmax]bool  // receiver accepted again while such a transfer is still unwinding
	Ticks   int
	Starts  [c12NRmax]int
	LiveCnt int
	// Auto: the stub transfers unwind on their own when their context is cancelled
	// (stub mode real-like): a leave leaves no cancelled transfer behind to be returned by S/s
	Auto bool
}

type c12Alphabet struct {
	StaleOK   bool // include 's'
	Rejoin    bool // include 'R' (hostile: duplicate join)
	Avoid     bool // keep clear of the two known defect triggers (generator choice for long random histories)
	AnyJoinID bool // do not insist on canonical introduction order (used by the shrinker)
	NR        int  // number of receivers (0 = c12NR)
}

func (m *c12Model) inQueue(p int8) bool {
	for i := 0; i < m.QN; i++ {
		if m.Q[i] == p {
			return true
		}
	}
	return false
}

func (m *c12Model) enabled(al c12Alphabet, buf []c12Ev) []c12Ev {
	out := buf[:0]
	nr := int8(c12NR)
	if al.NR > 0 {
		nr = int8(al.NR)
	}
	for p := int8(0); p < nr; p++ {
		if !m.Member[p] {
			if int(p) <= m.Seen || al.AnyJoinID {
				out = append(out, c12Ev{c12Join, p})
			}
		} else {
			if al.Rejoin {
				out = append(out, c12Ev{c12Rejoin, p})
			}
			out = append(out, c12Ev{c12Accept, p}, c12Ev{c12Leave, p})
		}
		if m.Cls[p] == c12Xfer {
			out = append(out, c12Ev{c12OK, p}, c12Ev{c12Fail, p})
		}
		if m.Stale[p] > 0 && !(al.Avoid && m.Reacc[p]) {
			out = append(out, c12Ev{c12Stale, p})
			if al.StaleOK {
				out = append(out, c12Ev{c12StaleOK, p})
			}
		}
	}
	if !(al.Avoid && m.Ticks >= 1) {
		out = append(out, c12Ev{c12Tick, -1})
	}
	return out
}

func (m *c12Model) isEnabled(al c12Alphabet, e c12Ev) bool {
	var buf [40]c12Ev
	for _, x := range m.enabled(al, buf[:]) {
		if x == e {
			return true
		}
	}
	return false
}

func (m *c12Model) dispatch() {
	for m.LiveCnt < m.Max && m.QN > 0 {
		p := m.Q[0]
		copy(m.Q[:], m.Q[1:m.QN])
		m.QN--
		m.Cls[p] = c12Xfer
		m.Starts[p]++
		m.LiveCnt++
	}
}

// apply returns the successor. ignoreReaccept selects the alternative reading
// of "accept again after the transfer ended": the accept is ignored.
func (m c12Model) apply(e c12Ev, ignoreReaccept bool) c12Model {
	p := e.P
	switch e.K {
	case c12Join:
		if int(p) >= m.Seen {
			m.Seen = int(p) + 1
		}
		m.Member[p] = true
		m.Cls[p] = c12Joined
		m.Out[p] = c12OutNone
	case c12Rejoin:
		// a duplicate join notification changes nothing the property talks about:
		// a queued receiver stays queued, a running transfer keeps its slot; a
		// receiver whose transfer had ended is simply "joined" again
		if m.Cls[p] == c12Idle {
			m.Cls[p] = c12Joined
			m.Out[p] = c12OutNone
		}
	case c12Accept:
		enq := false
		switch m.Cls[p] {
		case c12Joined, c12None:
			enq = true
		case c12Idle:
			enq = !ignoreReaccept
		}
		if enq {
			m.Q[m.QN] = p
			m.QN++
			m.Cls[p] = c12Queued
			m.Out[p] = c12OutNone
			if m.Stale[p] > 0 {
				m.Reacc[p] = true
			}
			m.dispatch()
		}
	case c12Leave:
		m.Member[p] = false
		switch m.Cls[p] {
		case c12Xfer:
			if !m.Auto {
				m.Stale[p]++
			}
			m.LiveCnt--
			m.Out[p] = c12OutLeft
		case c12Queued:
			n := 0
			for i := 0; i < m.QN; i++ {
				if m.Q[i] != p {
					m.Q[n] = m.Q[i]
					n++
				}
			}
			m.QN = n
			m.Out[p] = c12OutLeft
		case c12Idle:
			if m.Out[p] != c12OutOK {
				m.Out[p] = c12OutLeft
			}
		default:
			m.Out[p] = c12OutLeft
		}
		m.Cls[p] = c12Idle
		m.dispatch()
	case c12OK, c12Fail:
		m.Cls[p] = c12Idle
		m.Out[p] = c12OutOK
		if e.K == c12Fail {
			m.Out[p] = c12OutFail
		}
		m.LiveCnt--
		m.dispatch()
	case c12Stale, c12StaleOK:
		m.Stale[p]--
		if m.Stale[p] == 0 {
			m.Reacc[p] = false
		}
	case c12Tick:
		m.Ticks++
	}
	return m
}

func (m *c12Model) queueNames() []string {
	out := make([]string, 0, m.QN)
	for i := 0; i < m.QN; i++ {
		out = append(out, string(rune('a'+m.Q[i])))
	}
	return out
}

// ---------------------------------------------------------------------------
// observation and oracle

type c12Run struct {
	Peer           string `json:"peer"`
	Live           bool   `json:"live_context"`
	StartCancelled bool   `json:"started_with_cancelled_context"`
	Seq            int    `json:"seq"`
}

type c12Obs struct {
	Queue     []string          `json:"queue"`
	Active    []string          `json:"active"`
	Status    map[string]string `json:"status"`
	Running   []c12Run          `json:"running_stub_transfers"`
	BadStarts []c12Run          `json:"starts_with_cancelled_context,omitempty"`
	Starts    map[string]int    `json:"stub_starts"`
	TS        map[string]int    `json:"transfer_start_msgs"`
	LastTQPos map[string]int    `json:"last_transfer_queued_position,omitempty"`
	Live      int               `json:"live"`
	// counted by the stub transfer itself at each of its starts (transients included)
	MaxLiveAtStart int      `json:"max_live_transfers_counted_at_a_stub_start"`
	Overshoot      []c12Run `json:"running_set_at_first_start_above_max,omitempty"`
	ClosersCalled  int      `json:"connection_closers_invoked"`
}

type c12Viol struct {
	Kind   string `json:"kind"`
	Peer   string `json:"peer,omitempty"`
	Detail string `json:"detail"`
}

// kinds in priority order (the first present one is the primary kind)
var c12KindOrder = []string{
	"sender-stops-handling-events",
	"running-exceeds-max",
	"start-with-cancelled-context",
	"left-still-queued",
	"left-transfer-not-cancelled",
	"left-slot-not-released",
	"queued-while-slot-free",
	"queue-dropped",
	"queue-extra",
	"queue-duplicate",
	"queue-order",
	"transferstart-not-once-per-start",
	"state-two-or-none",
	"active-set-mismatch",
	"status-mismatch",
}

func c12Has(vs []c12Viol, kind string) bool {
	for _, v := range vs {
		if v.Kind == kind {
			return true
		}
	}
	return false
}

func c12Kinds(vs []c12Viol) []string {
	var out []string
	for _, k := range c12KindOrder {
		if c12Has(vs, k) {
			out = append(out, k)
		}
	}
	return out
}

func c12In(l []string, s string) int {
	n := 0
	for _, x := range l {
		if x == s {
			n++
		}
	}
	return n
}

// c12Check compares one quiescent observation with the model state after the same prefix.
func c12Check(m *c12Model, o *c12Obs) []c12Viol {
	var vs []c12Viol
	add := func(kind, peer, format string, a ...any) {
		vs = append(vs, c12Viol{Kind: kind, Peer: peer, Detail: fmt.Sprintf(format, a...)})
	}
	liveN := map[string]int{}
	for _, r := range o.Running {
		if r.Live {
			liveN[r.Peer]++
		}
	}
	if o.Live > m.Max {
		add("running-exceeds-max", "", "%d stub transfers run with a live context, max-receivers is %d", o.Live, m.Max)
	}
	if len(o.Overshoot) > m.Max {
		add("running-exceeds-max", "", "a stub transfer found %d transfer functions running with a live context when it started (itself included), max-receivers is %d: %v", len(o.Overshoot), m.Max, o.Overshoot)
	}
	for _, r := range o.BadStarts {
		add("start-with-cancelled-context", r.Peer, "transfer #%d for %s was started with an already-cancelled context", r.Seq, r.Peer)
	}
	for p := 0; p < m.Seen; p++ {
		n := string(rune('a' + p))
		if o.TS[n] != o.Starts[n] {
			add("transferstart-not-once-per-start", n, "%d TransferStart messages to %s for %d transfer starts", o.TS[n], n, o.Starts[n])
		}
	}
	for p := 0; p < m.Seen; p++ {
		n := string(rune('a' + p))
		if m.Member[p] {
			continue
		}
		if c12In(o.Queue, n) > 0 {
			add("left-still-queued", n, "%s left the session but is still in the queue %v", n, o.Queue)
		}
		if liveN[n] > 0 {
			add("left-transfer-not-cancelled", n, "%s left the session but %d of its transfers still have a live context", n, liveN[n])
		}
		if c12In(o.Active, n) > 0 {
			add("left-slot-not-released", n, "%s left the session but still holds a slot (active=%v)", n, o.Active)
		}
	}
	if len(o.Queue) > 0 && o.Live < m.Max {
		add("queued-while-slot-free", o.Queue[0], "queue %v while only %d of %d slots carry a live transfer", o.Queue, o.Live, m.Max)
	}
	// queue against the acceptance order kept by the model
	mq := m.queueNames()
	dup := false
	for _, n := range o.Queue {
		if c12In(o.Queue, n) > 1 {
			dup = true
		}
	}
	if dup {
		add("queue-duplicate", "", "queue %v holds a receiver twice", o.Queue)
	}
	sameSet := true
	for _, n := range mq {
		if c12In(o.Queue, n) == 0 {
			sameSet = false
			add("queue-dropped", n, "%s accepted, is still a member and was never started, but is not in the queue %v (expected %v)", n, o.Queue, mq)
		}
	}
	for _, n := range o.Queue {
		if c12In(mq, n) == 0 {
			sameSet = false
			if p := int(n[0] - 'a'); p >= 0 && p < c12NRmax && m.Member[p] {
				add("queue-extra", n, "%s is in the queue %v but should not be (expected %v)", n, o.Queue, mq)
			}
		}
	}
	if sameSet && !dup && strings.Join(mq, ",") != strings.Join(o.Queue, ",") {
		add("queue-order", "", "queue order %v differs from acceptance order %v", o.Queue, mq)
	}
	// one state per receiver
	for p := 0; p < m.Seen; p++ {
		n := string(rune('a' + p))
		st, has := o.Status[n]
		inQ := c12In(o.Queue, n) > 0
		inA := c12In(o.Active, n) > 0
		switch {
		case has && (st == app.ReceiverStatusQueued) != inQ:
			add("state-two-or-none", n, "%s has status %s but queue membership is %v", n, st, inQ)
		case has && (st == app.ReceiverStatusTransferring) != inA:
			add("state-two-or-none", n, "%s has status %s but slot ownership is %v", n, st, inA)
		case !has && (inQ || inA):
			add("state-two-or-none", n, "%s has no receiver record but queued=%v slot=%v", n, inQ, inA)
		case inQ && inA:
			add("state-two-or-none", n, "%s is queued and holds a slot", n)
		case liveN[n] > 1:
			add("state-two-or-none", n, "%s has %d transfers running with a live context", n, liveN[n])
		case has && liveN[n] > 0 && st != app.ReceiverStatusTransferring:
			add("state-two-or-none", n, "%s has status %s while its transfer is running with a live context", n, st)
		case has && liveN[n] == 0 && st == app.ReceiverStatusTransferring:
			add("state-two-or-none", n, "%s has status TRANSFERRING but no transfer with a live context is running", n)
		}
		wantX := m.Cls[p] == c12Xfer
		if wantX != (liveN[n] >= 1) || wantX != inA {
			add("active-set-mismatch", n, "%s: model transferring=%v, live stub transfers=%d, holds slot=%v", n, wantX, liveN[n], inA)
		}
		switch m.Cls[p] {
		case c12Queued:
			if !has || st != app.ReceiverStatusQueued {
				add("status-mismatch", n, "%s should be QUEUED, status is %q (record present=%v)", n, st, has)
			}
		case c12Xfer:
			if !has || st != app.ReceiverStatusTransferring {
				add("status-mismatch", n, "%s should be TRANSFERRING, status is %q (record present=%v)", n, st, has)
			}
		case c12Idle:
			if !has {
				break // forgotten by the idle cleanup: allowed
			}
			ok := false
			switch m.Out[p] {
			case c12OutOK:
				ok = st == app.ReceiverStatusDone
			case c12OutFail:
				ok = st == app.ReceiverStatusFailed
			default:
				ok = st == app.ReceiverStatusDone || st == app.ReceiverStatusFailed
			}
			if !ok {
				add("status-mismatch", n, "%s ended with outcome %d (1 ok, 2 failed, 3 left) but status is %s", n, m.Out[p], st)
			}
		}
	}
	return vs
}

// ---------------------------------------------------------------------------
// recording WebSocket endpoint + hook routing (process-global, routed by the
// instance prefix of the peer id: "s<N>.<receiver>")

var (
	c12Insts    sync.Map // id -> *c12Inst
	c12InstSeq  uint64
	c12ConnSeq  int64
	c12Upgrader = websocket.Upgrader{CheckOrigin: func(*http.Request) bool { return true }}
)

func c12InstOf(peer string) (*c12Inst, string) {
	i := strings.IndexByte(peer, '.')
	if i < 0 {
		return nil, ""
	}
	v, ok := c12Insts.Load(peer[:i])
	if !ok {
		return nil, ""
	}
	return v.(*c12Inst), peer[i+1:]
}

func c12Recorder() *httptest.Server {
	return httptest.NewServer(http.HandlerFunc(func(w http.ResponseWriter, r *http.Request) {
		conn, err := c12Upgrader.Upgrade(w, r, nil)
		if err != nil {
			return
		}
		defer conn.Close()
		// developer aid (self-test of the watchdog/redial path): VERIF_C12_TEST_DROPCONN=n makes
		// the endpoint drop every 4th connection after n messages
		dropAfter := 0
		if n, err := strconv.Atoi(os.Getenv("VERIF_C12_TEST_DROPCONN")); err == nil && n > 0 && atomic.AddInt64(&c12ConnSeq, 1)%4 == 1 {
			dropAfter = n
		}
		for nmsg := 1; ; nmsg++ {
			_, msg, err := conn.ReadMessage()
			if err != nil || (dropAfter > 0 && nmsg > dropAfter) {
				return
			}
			var env protocol.Envelope
			if json.Unmarshal(msg, &env) != nil {
				continue
			}
			if in, short := c12InstOf(env.To); in != nil {
				in.onMessage(env, short)
			}
		}
	}))
}

func c12InstallHooks() {
	verifhook.Set("sender.runTransfer.exit", func(ev verifhook.Event) {
		if in, _ := c12InstOf(ev.S); in != nil {
			if g := in.gate.Load(); g != nil {
				g.atExit()
			}
			in.mu.Lock()
			in.exits++
			in.mu.Unlock()
			in.notify()
		}
	})
	verifhook.Set("sender.transfer.returned", func(ev verifhook.Event) {
		if in, _ := c12InstOf(ev.S); in != nil {
			in.mu.Lock()
			in.returned++
			in.mu.Unlock()
			if g := in.gate.Load(); g != nil {
				g.atReturned() // concurrent-delivery bursts park returning transfers here (c12_conc.go)
			}
		}
	})
}

// ---------------------------------------------------------------------------
// one SnapshotSender instance under test

type c12Inv struct {
	peer           string
	ctx            context.Context
	startCancelled bool
	seq            int
	told           bool
	auto           bool  // returned on its own because its context was cancelled (stub mode real-like)
	closer         bool  // registered a connection closer through setTransferCloser
	closerCalls    int32 // atomic: how often the scheduler invoked that closer
	ret            chan error
}

// c12Mode is the behaviour of the stub transfer function (part of the input class of a history).
type c12Mode struct {
	// Closer: 0 = the stub never registers a connection closer (a transfer that is still
	// gathering / probing); 1 = every stub registers one before it reports its start (a transfer
	// past connect_ok, like runICEQUICTransfer after setTransferCloser); 2 = every second one does
	Closer uint8
	// Auto: the stub returns ctx.Err() on its own as soon as its context is cancelled (as the
	// real transfer function does) instead of unwinding only when told
	Auto bool
	// Self: the stub finishes by itself after a few yields (alternately nil / an error, ctx.Err()
	// when cancelled); used by the stress part, where nobody tells transfers when to end
	Self bool
	// Bench: the host was started with --benchmark (SnapshotSenderConfig.Benchmark): every stub
	// creates its receiver's progress row first (initSenderProgress, as runICEQUICTransfer does),
	// runTransfer freezes the row, and the benchmark tick (tickBenchmarks) and the progress
	// renderer's view run next to the event handlers (c12_bench.go)
	Bench bool
}

func (md c12Mode) String() string {
	if md.Bench {
		md.Bench = false
		return md.String() + "+benchmark"
	}
	switch {
	case md.Self:
		return "self-finishing"
	case md.Auto:
		return "real-like"
	case md.Closer == 1:
		return "closer"
	case md.Closer == 2:
		return "closer-mixed"
	}
	return "told"
}

func (md c12Mode) keySuffix() string {
	if md == (c12Mode{}) {
		return ""
	}
	return ":stub=" + md.String()
}

type c12Inst struct {
	id     string
	max    int
	mode   c12Mode
	vs     *app.VerifSender
	conn   *wsclient.Conn
	ctx    context.Context
	cancel context.CancelFunc
	clock  int64 // ns offset, atomic
	msgSeq int

	mu         sync.Mutex
	note       chan struct{}
	dead       bool
	invs       []*c12Inv
	exits      int
	returned   int
	told       int
	tsByPeer   map[string]int
	tsTotal    int
	tsBadField int
	tqTotal    int
	tqLastPos  map[string]int
	tqBadMax   int
	offers     int
	markerSent int
	markerSeen int

	// observed at the stub itself
	startSeq       int32    // atomic: stub invocations so far (closer-mixed decision)
	maxLiveAtStart int      // largest number of stub transfers running with a live context, counted at a stub start (incl. the starting one)
	overshoot      []c12Run // the running set at the first stub start that found more than max
	closerRegs     int
	clockPerturb   int32 // atomic, see c12_conc.go
	clockWaiters   int32 // atomic
	clockArrivals  int32 // atomic
	stressSent     int64 // atomic: envelopes delivered by the stress stream (c12_stress.go)
	burstEnv0      []int64
	burstEnv1      []int64
	gate           atomic.Pointer[c12Gate]

	// watched delivery (c12_watch.go)
	wmu          sync.Mutex
	stuck        string // the delivery that never returned although a canary sender handled the same events
	stuckDump    string
	stallInconcl string // a delivery did not return and the canary did not either: stalled machine
	holdRelease  func() // set while the harness itself holds the progress mutex (c12_directed.go)
	heldBlocked  bool   // a delivery waited for the mutex the harness held
	canary       bool
	noTick       bool
	realFn       func(ctx context.Context, peer string) error
	// benchmark mode (c12_bench.go)
	tickBusy      int32 // atomic
	benchTicks    int64 // atomic: tickBenchmarks calls that returned
	tickInjected  int64 // atomic: ticks started at a clock read of the sender
	tickHeldSeen  int64 // atomic: ... and seen holding the progress mutex before the clock read returned
	tickUnderLock int64 // atomic: ... while the admission mutex was held (the clock was read inside a critical section)
}

var c12Base = time.Date(2026, 1, 1, 0, 0, 0, 0, time.UTC)

const c12Watchdog = 20 * time.Second

// c12Workers histories are in flight at once (each waits on a loopback round trip per event, so more than one per core)
const c12Workers = 32

var c12Logger = slog.New(slog.NewTextHandler(io.Discard, &slog.HandlerOptions{Level: slog.Level(100)}))

func c12NewInst(conn *wsclient.Conn, max int) *c12Inst { return c12NewInstMode(conn, max, c12Mode{}) }

func c12NewInstMode(conn *wsclient.Conn, max int, mode c12Mode) *c12Inst {
	in := &c12Inst{id: "s" + strconv.FormatUint(atomic.AddUint64(&c12InstSeq, 1), 10), max: max, mode: mode, conn: conn,
		note: make(chan struct{}, 1), tsByPeer: map[string]int{}, tqLastPos: map[string]int{}}
	in.ctx, in.cancel = context.WithCancel(context.Background())
	in.vs = app.VerifNewSnapshotSender(app.VerifSenderOpts{
		Logger: c12Logger,
		Now: func() time.Time {
			if cp := atomic.LoadInt32(&in.clockPerturb); cp != 0 {
				in.perturbClock(cp)
			}
			if in.mode.Bench && !in.mode.Self && !in.noTick {
				in.tickAtClockRead()
			}
			return c12Base.Add(time.Duration(atomic.LoadInt64(&in.clock)))
		},
		MaxReceivers: max,
		ReceiverTTL:  10 * time.Minute,
		TransferFn:   in.transferFn,
		Conn:         conn,
		PeerID:       in.id + ".host",
		SessionID:    "sess-" + in.id,
		ManifestID:   "manifest-" + in.id,
		Benchmark:    mode.Bench,
	})
	c12Insts.Store(in.id, in)
	return in
}

func (in *c12Inst) notify() {
	select {
	case in.note <- struct{}{}:
	default:
	}
}

func (in *c12Inst) wait(pred func() bool, d time.Duration) bool {
	deadline := time.Now().Add(d)
	for {
		in.mu.Lock()
		ok := pred()
		in.mu.Unlock()
		if ok {
			return true
		}
		rem := time.Until(deadline)
		if rem <= 0 {
			return false
		}
		t := time.NewTimer(rem)
		select {
		case <-in.note:
		case <-t.C:
		}
		t.Stop()
	}
}

// transferFn is the stub handed to the SnapshotSender: it reports the start
// (with the state of its context) and returns only when told.
func (in *c12Inst) transferFn(ctx context.Context, peer string) error {
	if in.realFn != nil { // the real data phase over fake connections (c12_dumb.go)
		return in.realFn(ctx, peer)
	}
	short := peer
	if i := strings.IndexByte(peer, '.'); i >= 0 {
		short = peer[i+1:]
	}
	inv := &c12Inv{peer: short, ctx: ctx, startCancelled: ctx.Err() != nil, ret: make(chan error, 1)}
	// a transfer past connect_ok has registered its connection closer; done before the start is
	// reported so that the next event of the history finds it in place
	if in.mode.Bench {
		in.vs.InitProgress(peer, 1<<20)
	}
	nth := atomic.AddInt32(&in.startSeq, 1)
	if in.mode.Auto || in.mode.Closer == 1 || ((in.mode.Closer == 2 || in.mode.Self) && nth%2 == 1) {
		inv.closer = true
		in.vs.SetTransferCloser(peer, func() { atomic.AddInt32(&inv.closerCalls, 1) })
	}
	in.mu.Lock()
	if in.dead {
		in.mu.Unlock()
		return errors.New("harness instance torn down")
	}
	inv.seq = len(in.invs)
	in.invs = append(in.invs, inv)
	if inv.closer {
		in.closerRegs++
	}
	// monitor at the stub: how many transfer functions run with a live context right now
	live := 0
	for _, v := range in.invs {
		if !v.told && v.ctx.Err() == nil {
			live++
		}
	}
	if live > in.maxLiveAtStart {
		in.maxLiveAtStart = live
		if live > in.max && in.overshoot == nil {
			for _, v := range in.invs {
				if !v.told && v.ctx.Err() == nil {
					in.overshoot = append(in.overshoot, c12Run{Peer: v.peer, Live: true, Seq: v.seq})
				}
			}
		}
	}
	in.mu.Unlock()
	in.notify()
	if in.mode.Self {
		for k := int32(0); k < nth%4; k++ {
			runtime.Gosched()
		}
		in.mu.Lock()
		inv.told = true
		in.told++
		in.mu.Unlock()
		switch {
		case ctx.Err() != nil:
			return ctx.Err()
		case nth%5 == 4:
			return errors.New("stub transfer failed")
		}
		return nil
	}
	if !in.mode.Auto {
		return <-inv.ret
	}
	select {
	case err := <-inv.ret:
		return err
	case <-ctx.Done():
		in.mu.Lock()
		if inv.told { // told to return at the same moment: the told value wins
			in.mu.Unlock()
			return <-inv.ret
		}
		inv.told, inv.auto = true, true
		in.told++
		in.mu.Unlock()
		in.notify()
		return ctx.Err()
	}
}

// mustHaveExited is the number of stub transfers whose runTransfer has to be over before the
// state is judged: those told to return and, in real-like mode, those whose context was cancelled.
func (in *c12Inst) mustHaveExited() int {
	if !in.mode.Auto {
		return in.told
	}
	n := 0
	for _, v := range in.invs {
		if v.told || v.ctx.Err() != nil {
			n++
		}
	}
	return n
}

func (in *c12Inst) onMessage(env protocol.Envelope, short string) {
	in.mu.Lock()
	switch env.Type {
	case protocol.TypeTransferStart:
		var ts protocol.TransferStart
		_ = env.DecodePayload(&ts)
		if ts.ReceiverPeerID != env.To || ts.SenderPeerID != in.id+".host" || ts.TransferID == "" {
			in.tsBadField++
		}
		in.tsByPeer[short]++
		in.tsTotal++
	case protocol.TypeTransferQueued:
		var tq protocol.TransferQueued
		_ = env.DecodePayload(&tq)
		in.tqTotal++
		in.tqLastPos[short] = tq.Position
		if tq.Max != in.max || tq.ReceiverPeerID != env.To {
			in.tqBadMax++
		}
	case protocol.TypeManifestOffer:
		in.offers++
	case "verif_marker":
		n, _ := strconv.Atoi(env.MsgID)
		if n > in.markerSeen {
			in.markerSeen = n
		}
	}
	in.mu.Unlock()
	in.notify()
}

func (in *c12Inst) full(p int8) string { return in.id + "." + string(rune('a'+p)) }

func (in *c12Inst) envelope(typ string, payload any, from string) protocol.Envelope {
	in.msgSeq++
	env, _ := protocol.NewEnvelope(typ, fmt.Sprintf("%s-%d", in.id, in.msgSeq), payload)
	env.SessionID = "sess-" + in.id
	env.From = from
	return env
}

// pick returns the oldest running (not yet told) invocation of p whose context is live / cancelled.
func (in *c12Inst) pick(p int8, live bool) *c12Inv {
	name := string(rune('a' + p))
	in.mu.Lock()
	defer in.mu.Unlock()
	for _, inv := range in.invs {
		if !inv.told && inv.peer == name && (inv.ctx.Err() == nil) == live {
			return inv
		}
	}
	return nil
}

func (in *c12Inst) tell(inv *c12Inv, err error) {
	in.mu.Lock()
	inv.told = true
	in.told++
	in.mu.Unlock()
	inv.ret <- err
}

// do executes one event against the real sender; false = the event is not executable in the real state.
func (in *c12Inst) do(e c12Ev) bool {
	if e.K != c12Tick {
		atomic.AddInt64(&in.clock, int64(time.Second))
	}
	switch e.K {
	case c12Join, c12Rejoin:
		env := in.envelope(protocol.TypePeerJoined,
			protocol.PeerJoined{Peer: protocol.PeerInfo{PeerID: in.full(e.P), Role: "receiver"}}, "server")
		in.call("join", func() { in.vs.HandleEnvelope(in.ctx, env) })
	case c12Accept:
		env := in.envelope(protocol.TypeManifestAccept,
			protocol.ManifestAccept{ManifestID: "manifest-" + in.id, Mode: "all"}, in.full(e.P))
		in.call("accept", func() { in.vs.HandleEnvelope(in.ctx, env) })
	case c12Leave:
		env := in.envelope(protocol.TypePeerLeft, protocol.PeerLeft{PeerID: in.full(e.P)}, "server")
		in.call("leave", func() { in.vs.HandleEnvelope(in.ctx, env) })
	case c12OK, c12Fail:
		inv := in.pick(e.P, true)
		if inv == nil {
			return false
		}
		if e.K == c12OK {
			in.tell(inv, nil)
		} else {
			in.tell(inv, errors.New("stub transfer failed"))
		}
	case c12Stale, c12StaleOK:
		inv := in.pick(e.P, false)
		if inv == nil {
			return false
		}
		if e.K == c12StaleOK {
			in.tell(inv, nil)
		} else {
			in.tell(inv, inv.ctx.Err())
		}
	case c12Tick:
		atomic.AddInt64(&in.clock, int64(6*time.Minute))
		in.call("cleanup-tick", func() { in.vs.Cleanup() })
	}
	return true
}

// quiesce waits until nothing is in flight: every transfer told to return has
// left runTransfer (hook count), everything sent so far has reached the
// recording endpoint (marker round trip through the same FIFO connection) and
// every launched runTransfer goroutine has reported its start to the stub.
func (in *c12Inst) quiesce() string {
	if h := in.halted(); h != "" {
		return h
	}
	if !in.wait(func() bool { return in.exits >= in.mustHaveExited() }, c12Watchdog) {
		return "sender.runTransfer.exit hits stayed below the number of transfers told to return"
	}
	in.mu.Lock()
	in.markerSent++
	n := in.markerSent
	in.mu.Unlock()
	mk := protocol.Envelope{V: protocol.ProtocolVersion, Type: "verif_marker", MsgID: strconv.Itoa(n), To: in.id + ".#"}
	if err := in.conn.Send(mk); err != nil {
		return "marker send failed: " + err.Error()
	}
	if !in.wait(func() bool { return in.markerSeen >= n }, c12Watchdog) {
		return "marker did not come back through the recording endpoint"
	}
	if !in.wait(func() bool { return len(in.invs) >= in.tsTotal }, c12Watchdog) {
		return "a TransferStart was sent but the stub transfer never started"
	}
	// slots whose goroutine has not reached the stub yet (only possible when no
	// TransferStart was sent for the launch): bounded grace, then the oracle decides
	if in.mode.Self {
		return "" // transfers come and go on their own: the caller loops until a round sees no new start
	}
	snap, ok := in.snapshot()
	if !ok {
		return in.halted()
	}
	in.wait(func() bool {
		for _, a := range snap.Active {
			_, short := c12InstOf(a)
			found := false
			for _, inv := range in.invs {
				if !inv.told && inv.peer == short {
					found = true
				}
			}
			if !found {
				return false
			}
		}
		return true
	}, 2*time.Second)
	return ""
}

func (in *c12Inst) observe(sinceSeq int) c12Obs {
	snap, _ := in.snapshot() // a snapshot that never returns is a stuck sender: the callers ask in.stuckWhat()
	strip := func(l []string) []string {
		out := make([]string, 0, len(l))
		for _, s := range l {
			if i := strings.IndexByte(s, '.'); i >= 0 {
				s = s[i+1:]
			}
			out = append(out, s)
		}
		return out
	}
	o := c12Obs{Queue: strip(snap.Queue), Active: strip(snap.Active), Status: map[string]string{},
		Starts: map[string]int{}, TS: map[string]int{}, LastTQPos: map[string]int{}}
	for k, v := range snap.Status {
		if i := strings.IndexByte(k, '.'); i >= 0 {
			k = k[i+1:]
		}
		o.Status[k] = v
	}
	in.mu.Lock()
	for _, inv := range in.invs {
		o.Starts[inv.peer]++
		r := c12Run{Peer: inv.peer, Live: inv.ctx.Err() == nil, StartCancelled: inv.startCancelled, Seq: inv.seq}
		if inv.startCancelled && inv.seq >= sinceSeq {
			o.BadStarts = append(o.BadStarts, r)
		}
		if !inv.told {
			o.Running = append(o.Running, r)
			if r.Live {
				o.Live++
			}
		}
	}
	for _, inv := range in.invs {
		if atomic.LoadInt32(&inv.closerCalls) > 0 {
			o.ClosersCalled++
		}
	}
	o.MaxLiveAtStart = in.maxLiveAtStart
	o.Overshoot = append([]c12Run{}, in.overshoot...)
	for k, v := range in.tsByPeer {
		o.TS[k] = v
	}
	for k, v := range in.tqLastPos {
		o.LastTQPos[k] = v
	}
	in.mu.Unlock()
	return o
}

// teardown releases every pending stub transfer and forgets the instance; the
// goroutines unwind on their own (hooks and messages of a forgotten instance are dropped).
func (in *c12Inst) teardown() {
	c12Insts.Delete(in.id)
	in.mu.Lock()
	in.dead = true
	var pend []*c12Inv
	for _, inv := range in.invs {
		if !inv.told {
			inv.told = true
			pend = append(pend, inv)
		}
	}
	in.mu.Unlock()
	in.cancel()
	for _, inv := range pend {
		inv.ret <- errors.New("harness teardown")
	}
}

// ---------------------------------------------------------------------------
// running one history

type c12Step struct {
	Event string    `json:"event"`
	Obs   c12Obs    `json:"observed"`
	Model string    `json:"model"`
	Viols []c12Viol `json:"violations,omitempty"`
}

type c12Result struct {
	Mode          c12Mode
	Closers       int // stub transfers that registered a connection closer
	ClosersCalled int // ... whose closer the scheduler invoked
	AutoRet       int // stub transfers that unwound on their own after cancellation
	Max           int
	Hist          []c12Ev
	FailAt        int // length of the first refuting prefix (0 = none)
	Viols         []c12Viol
	Obs           *c12Obs
	ModelStr      string
	Executed      int
	Truncated     bool
	Inconcl       string
	Starts        int
	TS            int
	TQ            int
	Offers        int
	MaxLive       int
	TQStale       int
	TSBad         int
	TQBad         int
	Exits         int
	Trace         []c12Step
	Stuck         string // the delivery that never returned (watched delivery, c12_watch.go)
	StuckDump     string
	Skipped       bool // not run: too many senders had already stopped handling events
	BenchTicks    [4]int64
}

func (m *c12Model) String() string {
	var sb strings.Builder
	fmt.Fprintf(&sb, "max=%d queue=%v", m.Max, m.queueNames())
	cls := []string{"-", "joined", "queued", "transferring", "ended"}
	for p := 0; p < m.Seen; p++ {
		fmt.Fprintf(&sb, " %c=%s", 'a'+p, cls[m.Cls[p]])
		if !m.Member[p] {
			sb.WriteString("(left)")
		}
		if m.Stale[p] > 0 {
			fmt.Fprintf(&sb, "+%dunwinding", m.Stale[p])
		}
	}
	return sb.String()
}

type c12Worker struct {
	conn *wsclient.Conn
	url  string
	mode c12Mode // stub behaviour of the histories run through this worker (set by whoever holds the worker)
}

// run drives one history. cont=true keeps going after a refuting prefix (probe mode).
// A run that hit the quiescence watchdog (stalled machine) is repeated on a fresh
// sender up to two times; only a run that reached quiescence after every event is judged.
func (w *c12Worker) run(max int, hist []c12Ev, cont, trace bool) c12Result {
	var r c12Result
	for attempt := 0; attempt < 3; attempt++ {
		if c12Abandoned() {
			return c12Result{Max: max, Hist: hist, Mode: w.mode, Skipped: true}
		}
		if atomic.LoadInt64(&c12WatchdogRetries) > c12WatchdogBudget {
			return c12Result{Max: max, Hist: hist, Mode: w.mode, Inconcl: "exploration abandoned: quiescence watchdog fired too often (stalled machine or a sender that no longer settles)"}
		}
		r = w.runOnce(max, hist, cont, trace)
		if r.Inconcl == "" {
			break
		}
		atomic.AddInt64(&c12WatchdogRetries, 1)
		vk.Logf("watchdog (attempt %d): %s", attempt+1, r.Inconcl)
		// wsclient.Conn stops writing for good after one write error or missed write
		// deadline (and may still accept envelopes into its buffer): after a watchdog
		// hit the worker continues on a fresh connection
		if c, err := wsclient.Dial(context.Background(), w.url, c12Logger); err == nil {
			old := w.conn
			w.conn = c
			go func() { _ = old.Close() }()
		} else {
			r.Inconcl += "; redial failed: " + err.Error()
			break
		}
	}
	return r
}

var c12WatchdogRetries int64

// c12WatchdogBudget bounds the time a run can lose to the watchdog (each hit costs up to 20 s on one of 32 workers).
const c12WatchdogBudget = 64

func (w *c12Worker) runOnce(max int, hist []c12Ev, cont, trace bool) c12Result {
	res := c12Result{Max: max, Hist: hist, Mode: w.mode}
	in := c12NewInstMode(w.conn, max, w.mode)
	defer in.teardown()
	m := c12Model{Max: max, Auto: w.mode.Auto}
	seenInvs := 0
	for i, e := range hist {
		if !in.do(e) {
			res.Truncated = true
			break
		}
		res.Executed++
		if what := in.stuckWhat(); what != "" {
			c12StuckResult(in, &res, i, e, what, &m)
			break
		}
		if why := in.quiesce(); why != "" {
			if what := in.stuckWhat(); what != "" {
				c12StuckResult(in, &res, i, e, what, &m)
				break
			}
			res.Inconcl = fmt.Sprintf("max=%d %s after event %d (%s): %s", max, c12HistStr(hist, "."), i+1, e, why)
			break
		}
		o := in.observe(seenInvs)
		if what := in.stuckWhat(); what != "" {
			c12StuckResult(in, &res, i, e, what, &m)
			break
		}
		in.mu.Lock()
		seenInvs = len(in.invs)
		in.mu.Unlock()
		if o.Live > res.MaxLive {
			res.MaxLive = o.Live
		}
		m2 := m.apply(e, false)
		vs := c12Check(&m2, &o)
		if len(vs) > 0 && e.K == c12Accept && m.Cls[e.P] == c12Idle {
			m3 := m.apply(e, true)
			if alt := c12Check(&m3, &o); len(alt) == 0 {
				m2, vs = m3, nil
			}
		}
		m = m2
		if len(vs) == 0 {
			for j, n := range o.Queue {
				if pos, ok := o.LastTQPos[n]; !ok || pos != j+1 {
					res.TQStale++
				}
			}
		}
		if trace {
			res.Trace = append(res.Trace, c12Step{Event: e.String(), Obs: o, Model: m.String(), Viols: vs})
		}
		if len(vs) > 0 && res.FailAt == 0 {
			res.FailAt = i + 1
			res.Viols = vs
			oc := o
			res.Obs = &oc
			res.ModelStr = m.String()
			if !cont {
				break
			}
		}
	}
	in.mu.Lock()
	res.Starts, res.TS, res.TQ, res.Offers = len(in.invs), in.tsTotal, in.tqTotal, in.offers
	res.TSBad, res.TQBad, res.Exits = in.tsBadField, in.tqBadMax, in.exits
	res.Closers = in.closerRegs
	for _, inv := range in.invs {
		if atomic.LoadInt32(&inv.closerCalls) > 0 {
			res.ClosersCalled++
		}
		if inv.auto {
			res.AutoRet++
		}
	}
	if in.maxLiveAtStart > res.MaxLive {
		res.MaxLive = in.maxLiveAtStart
	}
	in.mu.Unlock()
	res.BenchTicks = [4]int64{atomic.LoadInt64(&in.benchTicks), atomic.LoadInt64(&in.tickInjected), atomic.LoadInt64(&in.tickHeldSeen), atomic.LoadInt64(&in.tickUnderLock)}
	return res
}

// ---------------------------------------------------------------------------
// exploration

type c12Failure struct {
	Mode   c12Mode
	Max    int
	Prefix []c12Ev
	Kind   string
	Res    c12Result
	Source string
}

type c12Explorer struct {
	e    *Env
	pool chan *c12Worker

	runs, events, starts, ts, tq, offers, exits int64
	pruned, truncated, tqStale, tsBad, tqBad    int64
	shrinkRuns                                  int64
	closers, closersCalled, autoRet             int64
	maxLive                                     [4]int32
	benchTicks                                  [4]int64

	mu    sync.Mutex
	fails map[string]*c12Failure
}

func (x *c12Explorer) with(fn func(w *c12Worker)) { x.withMode(c12Mode{}, fn) }

func (x *c12Explorer) withMode(mode c12Mode, fn func(w *c12Worker)) {
	w := <-x.pool
	w.mode = mode
	defer func() { w.mode = c12Mode{}; x.pool <- w }()
	fn(w)
}

// account books one executed history.
func (x *c12Explorer) account(r *c12Result, source string) {
	e := x.e
	if r.Skipped {
		atomic.AddInt64(&c12SkippedAfterStuck, 1)
		return
	}
	e.R.Eval()
	atomic.AddInt64(&x.runs, 1)
	for k := range r.BenchTicks {
		atomic.AddInt64(&x.benchTicks[k], r.BenchTicks[k])
	}
	atomic.AddInt64(&x.events, int64(r.Executed))
	atomic.AddInt64(&x.starts, int64(r.Starts))
	atomic.AddInt64(&x.ts, int64(r.TS))
	atomic.AddInt64(&x.tq, int64(r.TQ))
	atomic.AddInt64(&x.offers, int64(r.Offers))
	atomic.AddInt64(&x.exits, int64(r.Exits))
	atomic.AddInt64(&x.tqStale, int64(r.TQStale))
	atomic.AddInt64(&x.tsBad, int64(r.TSBad))
	atomic.AddInt64(&x.tqBad, int64(r.TQBad))
	atomic.AddInt64(&x.closers, int64(r.Closers))
	atomic.AddInt64(&x.closersCalled, int64(r.ClosersCalled))
	atomic.AddInt64(&x.autoRet, int64(r.AutoRet))
	if r.Truncated {
		atomic.AddInt64(&x.truncated, 1)
	}
	for {
		old := atomic.LoadInt32(&x.maxLive[r.Max])
		if int32(r.MaxLive) <= old || atomic.CompareAndSwapInt32(&x.maxLive[r.Max], old, int32(r.MaxLive)) {
			break
		}
	}
	if r.Inconcl != "" {
		e.R.Inconcl(r.Inconcl)
		return
	}
	e.R.Count("histories:" + source)
	if r.Starts > 0 {
		done := r.Hist
		if r.FailAt > 0 {
			done = r.Hist[:r.FailAt]
		} else if r.Executed < len(done) {
			done = done[:r.Executed]
		}
		e.R.Distinct(c12Compact(r.Max, done) + r.Mode.keySuffix())
	}
	if r.FailAt > 0 && r.Stuck != "" {
		// no shrinking (every re-run would sit out the watchdog again): keyed by the kind of the
		// event that was never handled, the role of its receiver and the configuration
		pre := r.Hist[:r.FailAt]
		key := fmt.Sprintf("history:sender-stops-handling-events:%s%s", r.Stuck, r.Mode.keySuffix())
		e.R.Violate(key,
			fmt.Sprintf("max-receivers=%d, stub mode %s, history %s: %s", r.Max, r.Mode, c12HistStr(pre, "."), r.Viols[0].Detail),
			map[string]any{"max": r.Max, "history": c12HistStr(pre, "."), "source": source, "stub_mode": r.Mode.String(), "never_returned": r.Stuck},
			map[string]any{"violations": r.Viols, "model_before_the_event": r.ModelStr, "goroutines_inside_the_sender": r.StuckDump})
		return
	}
	if r.FailAt > 0 {
		pre := r.Hist[:r.FailAt]
		kinds := c12Kinds(r.Viols)
		report := []string{kinds[0]}
		if kinds[0] != "start-with-cancelled-context" && c12Has(r.Viols, "start-with-cancelled-context") {
			report = append(report, "start-with-cancelled-context")
		}
		x.mu.Lock()
		for _, k := range report {
			key := fmt.Sprintf("%d:%s:%s%s", r.Max, c12HistStr(pre, ""), k, r.Mode.keySuffix())
			if _, ok := x.fails[key]; !ok {
				x.fails[key] = &c12Failure{Mode: r.Mode, Max: r.Max, Prefix: append([]c12Ev{}, pre...), Kind: k, Res: *r, Source: source}
			}
		}
		x.mu.Unlock()
	}
}

// exhaustive enumerates every well-formed history of exactly length L (whose
// prefixes are all the shorter ones) up to receiver renaming; a history is cut
// at its first refuting prefix and that prefix is not extended further.
func (x *c12Explorer) exhaustive(max, L int) (leaves int64) {
	return x.exhaustiveMode(max, L, c12Mode{})
}

func (x *c12Explorer) exhaustiveMode(max, L int, mode c12Mode) (leaves int64) {
	al := c12Alphabet{}
	type unit struct {
		m c12Model
		h []c12Ev
	}
	var units []unit
	unitLen := 4
	if L < unitLen {
		unitLen = L
	}
	var gen func(m c12Model, h []c12Ev)
	gen = func(m c12Model, h []c12Ev) {
		if len(h) == unitLen {
			units = append(units, unit{m, append([]c12Ev{}, h...)})
			return
		}
		var buf [40]c12Ev
		for _, e := range append([]c12Ev{}, m.enabled(al, buf[:])...) {
			gen(m.apply(e, false), append(h, e))
		}
	}
	gen(c12Model{Max: max, Auto: mode.Auto}, nil)
	src := fmt.Sprintf("exhaustive-max%d-len%d", max, L)
	if mode != (c12Mode{}) {
		src = fmt.Sprintf("exhaustive-stub-%s-max%d-len%d", mode, max, L)
	}
	var total int64
	vk.ParallelDo(len(units), c12Workers, func(i int) {
		x.withMode(mode, func(w *c12Worker) {
			var dfs func(m c12Model, h []c12Ev) int
			dfs = func(m c12Model, h []c12Ev) int {
				if len(h) == L {
					r := w.run(max, h, false, false)
					x.account(&r, src)
					atomic.AddInt64(&total, 1)
					return r.FailAt
				}
				var buf [40]c12Ev
				evs := append([]c12Ev{}, m.enabled(al, buf[:])...)
				for j, e := range evs {
					k := dfs(m.apply(e, false), append(h, e))
					if k != 0 && k <= len(h) {
						atomic.AddInt64(&x.pruned, int64(len(evs)-j-1))
						return k
					}
				}
				return 0
			}
			u := units[i]
			dfs(u.m, append(make([]c12Ev, 0, L), u.h...))
		})
	})
	return total
}

type c12Case struct {
	Max   int
	Hist  []c12Ev
	Class string
	Mode  c12Mode
}

var c12Weights = [...]int{c12Join: 3, c12Accept: 4, c12Leave: 2, c12OK: 2, c12Fail: 1, c12Stale: 2, c12StaleOK: 1, c12Tick: 1, c12Rejoin: 1}

func c12Random(r *vk.Rng, max, length int, al c12Alphabet) []c12Ev {
	m := c12Model{Max: max}
	h := make([]c12Ev, 0, length)
	var buf [40]c12Ev
	for len(h) < length {
		evs := m.enabled(al, buf[:])
		tot := 0
		for _, e := range evs {
			tot += c12Weights[e.K]
		}
		pick := r.Intn(tot)
		var e c12Ev
		for _, c := range evs {
			pick -= c12Weights[c.K]
			if pick < 0 {
				e = c
				break
			}
		}
		h = append(h, e)
		m = m.apply(e, false)
	}
	return h
}

// shrink removes events (one at a time, then pairs) while a violation of the
// same kind remains; the result is cut at its first refuting prefix.
func (x *c12Explorer) shrink(w *c12Worker, f *c12Failure) (min []c12Ev, last c12Result) {
	cur := append([]c12Ev{}, f.Prefix...)
	last = f.Res
	al := c12Alphabet{StaleOK: true, Rejoin: true, AnyJoinID: true}
	w.mode = f.Mode
	defer func() { w.mode = c12Mode{} }()
	// with stubs that unwind on their own, the scheduler is entered from two goroutines
	// at once after a leave: a failure there depends on the schedule, so a candidate is
	// given several runs before it is taken to pass
	reps := 1
	if f.Mode.Auto {
		reps = 40
	}
	try := func(cand []c12Ev) bool {
		m := c12Model{Max: f.Max, Auto: f.Mode.Auto}
		for _, e := range cand {
			if !m.isEnabled(al, e) {
				return false
			}
			m = m.apply(e, false)
		}
		for k := 0; k < reps; k++ {
			r := w.run(f.Max, cand, false, false)
			atomic.AddInt64(&x.shrinkRuns, 1)
			if r.Inconcl == "" && r.FailAt > 0 && c12Has(r.Viols, f.Kind) {
				cur = append([]c12Ev{}, cand[:r.FailAt]...)
				last = r
				return true
			}
		}
		return false
	}
	for changed := true; changed; {
		changed = false
		for i := len(cur) - 2; i >= 0 && !changed; i-- {
			changed = try(append(append([]c12Ev{}, cur[:i]...), cur[i+1:]...))
		}
		for i := len(cur) - 2; i >= 1 && !changed; i-- {
			for j := i - 1; j >= 0 && !changed; j-- {
				cand := append([]c12Ev{}, cur[:j]...)
				cand = append(cand, cur[j+1:i]...)
				cand = append(cand, cur[i+1:]...)
				changed = try(cand)
			}
		}
	}
	return cur, last
}

// c12Explains reports whether the minimal failing history min is contained in
// the refuting prefix f as a subsequence (under some renaming of receivers)
// ending in f's last event: then min is a valid shrink result of f.
func c12Explains(min, f []c12Ev) bool {
	perms := [][3]int8{{0, 1, 2}, {0, 2, 1}, {1, 0, 2}, {1, 2, 0}, {2, 0, 1}, {2, 1, 0}}
	for _, pm := range perms {
		ren := func(e c12Ev) c12Ev {
			if e.P >= 0 {
				e.P = pm[e.P]
			}
			return e
		}
		if ren(min[len(min)-1]) != f[len(f)-1] {
			continue
		}
		j := 0
		for i := 0; i < len(f)-1 && j < len(min)-1; i++ {
			if ren(min[j]) == f[i] {
				j++
			}
		}
		if j == len(min)-1 {
			return true
		}
	}
	return false
}

// c12NormalForm gives order variants of one pattern the same spelling: a join
// commutes with the events of other receivers, so every join is moved as late as
// possible (right before the joining receiver's next event); then receivers are
// renamed in order of appearance.
func c12NormalForm(h []c12Ev) []c12Ev {
	out := append([]c12Ev{}, h...)
	for i := len(out) - 2; i >= 0; i-- {
		if out[i].K != c12Join {
			continue
		}
		for j := i; j+1 < len(out) && out[j+1].P != out[j].P; j++ {
			out[j], out[j+1] = out[j+1], out[j]
		}
	}
	return c12Canon(out)
}

// c12Key derives the finding key from the SHAPE of the minimal failing history.
func c12Key(max int, min []c12Ev, kind string, viols []c12Viol) (key, class string) {
	canon := c12Canon(min)
	shape := c12HistStr(canon, ".")
	last := canon[len(canon)-1]
	hasRejoin := false
	for _, e := range canon {
		if e.K == c12Rejoin {
			hasRejoin = true
		}
	}
	// "a stale return of a transfer whose receiver left and re-accepted":
	// the last event returns the oldest cancelled transfer of p; that transfer was
	// cancelled by a leave of p, and p accepted again (was enqueued) after that leave.
	staleReaccept := false
	if last.K == c12Stale || last.K == c12StaleOK {
		m := c12Model{Max: max}
		var cancelledAt []int // per stale transfer of p (FIFO): index of the leave that cancelled it
		reacceptAfter := -1
		for i, e := range canon[:len(canon)-1] {
			before := m
			m = m.apply(e, false)
			if e.P != last.P {
				continue
			}
			switch e.K {
			case c12Leave:
				if before.Cls[e.P] == c12Xfer {
					cancelledAt = append(cancelledAt, i)
				}
			case c12Stale, c12StaleOK:
				if len(cancelledAt) > 0 {
					cancelledAt = cancelledAt[1:]
				}
			case c12Accept:
				if before.Cls[e.P] != m.Cls[e.P] { // the accept enqueued (or started) p
					reacceptAfter = i
				}
			}
		}
		if len(cancelledAt) > 0 && reacceptAfter > cancelledAt[0] {
			staleReaccept = true
		}
	}
	switch {
	case hasRejoin:
		return "history:duplicate-join", "a receiver that is already a member joins again (same peer id reconnects without leaving)"
	case staleReaccept && kind == "start-with-cancelled-context":
		other := false
		for _, v := range viols {
			if v.Kind == kind && v.Peer != string(rune('a'+last.P)) {
				other = true
			}
		}
		if other {
			return "history:start-with-cancelled-context", "stale return after leave+re-accept hands its cancelled context to the next queued receiver"
		}
	case staleReaccept && (kind == "state-two-or-none" || kind == "active-set-mismatch" || kind == "status-mismatch"):
		return "history:leave-reaccept-stale-return", "stale return of a transfer whose receiver left and re-accepted overwrites the new incarnation's bookkeeping"
	case last.K == c12Tick && kind == "queue-dropped":
		return "history:cleanup-drops-queued-receiver", "idle cleanup forgets a receiver that is still waiting in the queue"
	}
	return fmt.Sprintf("history:%s:max%d:%s", kind, max, c12HistStr(c12NormalForm(min), ".")), "minimal failing pattern " + shape
}

// ---------------------------------------------------------------------------

func runC12(e *Env) {
	// the sender prints "transfer failed" through termio's stderr writer, which
	// captures os.Stderr once: point it at /dev/null for that moment
	if dn, err := os.OpenFile(os.DevNull, os.O_WRONLY, 0); err == nil {
		orig, origOut := os.Stderr, os.Stdout
		os.Stderr, os.Stdout = dn, dn // stdout: the benchmark summary line of every sender in benchmark mode
		termio.Init()
		os.Stderr, os.Stdout = orig, origOut
	}
	// thousands of tiny short-lived senders per second: collect less often, within a memory cap
	defer debug.SetGCPercent(debug.SetGCPercent(400))
	defer debug.SetMemoryLimit(debug.SetMemoryLimit(3 << 30))
	verifhook.Reset()
	c12InstallHooks()
	defer verifhook.Reset()

	srv := c12Recorder()
	defer srv.Close()
	wsURL := "ws" + strings.TrimPrefix(srv.URL, "http")
	x := &c12Explorer{e: e, pool: make(chan *c12Worker, c12Workers), fails: map[string]*c12Failure{}}
	var workers []*c12Worker
	for i := 0; i < c12Workers; i++ {
		c, err := wsclient.Dial(context.Background(), wsURL, c12Logger)
		if err != nil {
			e.R.Inconcl("cannot connect the real wsclient.Conn to the recording endpoint: " + err.Error())
			e.R.Require(false, "no WebSocket connection")
			return
		}
		w := &c12Worker{conn: c, url: wsURL}
		workers = append(workers, w)
		x.pool <- w
	}
	defer func() {
		for _, w := range workers {
			c := w.conn
			go func() { _ = c.Close() }()
		}
	}()

	if len(e.Args) > 0 && e.Args[0] == "count" { // developer aid: size of the enumerated spaces
		for _, ml := range [][2]int{{1, 5}, {2, 5}, {3, 5}, {1, 6}, {2, 6}, {3, 6}, {1, 7}, {2, 7}, {3, 7}, {1, 8}, {2, 8}, {3, 8}, {1, 9}, {2, 9}} {
			var cnt func(m c12Model, d int) int64
			cnt = func(m c12Model, d int) int64 {
				if d == ml[1] {
					return 1
				}
				var buf [40]c12Ev
				var n int64
				for _, ev := range append([]c12Ev{}, m.enabled(c12Alphabet{}, buf[:])...) {
					n += cnt(m.apply(ev, false), d+1)
				}
				return n
			}
			vk.Logf("max=%d len=%d histories=%d", ml[0], ml[1], cnt(c12Model{Max: ml[0]}, 0))
		}
		return
	}

	if (len(e.Args) > 0 && e.Args[0] == "wire") || os.Getenv("VERIF_C12_ONLY") == "wire" { // developer aid: the wire-delivery part alone
		wst := x.wire(vk.NewRng(e.Seed^vk.HashStr("c12wire"+e.Tier)), e.Pick(72, 720))
		vk.Logf("wire delivery: %+v", *wst)
		e.R.Require(wst.Cases > 0, "wire delivery ran nothing")
		return
	}

	rng := vk.NewRng(e.Seed ^ vk.HashStr("c12"+e.Tier))
	t0 := time.Now()

	// 1. directed histories: the design probes (§7) and the cleanup case, run in
	// probe mode (all prefixes recorded) and as ordinary cases
	type probe struct {
		Max  int
		Hist string
		What string
	}
	probes := []probe{
		{1, "Ja.Aa.La.Ja.Aa.Sa.Jb.Ab", "design probe 1: leave, re-accept, first transfer returns late, then b accepts"},
		{1, "Ja.Aa.La.Ja.Aa.Jb.Ab.Sa", "design probe 2: the late return happens while b is queued"},
		{1, "Ja.Aa.La.Sa.Ja.Aa.Jb.Ab.Ka", "control: the late return happens before the re-accept"},
		{1, "Ja.Aa.Jb.Ab.T.T.Ka", "queued receiver across two idle-cleanup ticks (12 min, TTL 10 min)"},
		{2, "Ja.Aa.Jb.Ab.Jc.Ac.Lb.Ka.Sb", "control: max=2, leave of a running receiver, queue hand-over"},
		{2, "Ja.Aa.Ra.Aa.Jb.Ab", "duplicate join: a (already transferring) joins again and accepts again, then b accepts"},
	}
	var probeOut []map[string]any
	x.with(func(w *c12Worker) {
		for _, p := range probes {
			r := w.run(p.Max, c12Parse(p.Hist), true, true)
			var steps []map[string]any
			for _, s := range r.Trace {
				var kinds []string
				for _, k := range c12Kinds(s.Viols) {
					kinds = append(kinds, k)
				}
				steps = append(steps, map[string]any{"event": s.Event, "queue": s.Obs.Queue, "active": s.Obs.Active,
					"status": s.Obs.Status, "running": s.Obs.Running, "live": s.Obs.Live, "refuted_by": kinds})
			}
			probeOut = append(probeOut, map[string]any{"max": p.Max, "history": p.Hist, "what": p.What,
				"first_refuting_prefix": r.FailAt, "max_live_seen": r.MaxLive, "steps": steps})
			r2 := w.run(p.Max, c12Parse(p.Hist), false, false)
			x.account(&r2, "directed")
		}
	})
	e.R.SetExtra("design_probes", probeOut)

	// 1b. directed families outside the exhaustive alphabet (see c12_directed.go)
	nd := x.directedContinuations(e.Pick(2, 3))
	sr, ssamples := x.directedStalledReturns(e.Pick(12, 80))
	e.R.SetExtra("directed_stale_continuations", nd)
	e.R.SetExtra("directed_stalled_return_runs", sr)
	e.R.SetExtra("directed_stalled_return_samples", ssamples)

	// 2. exhaustive bounded enumeration
	type bound struct{ Max, Len int }
	var bounds []bound
	switch {
	case e.Race && !e.Thorough():
		bounds = []bound{{1, 6}, {2, 6}}
	case e.Race:
		bounds = []bound{{1, 7}, {2, 7}, {3, 7}}
	case e.Thorough():
		bounds = []bound{{1, 8}, {2, 8}, {3, 8}, {1, 9}}
	default:
		bounds = []bound{{1, 7}, {2, 7}, {3, 7}}
	}
	exh := map[string]int64{}
	for _, b := range bounds {
		n := x.exhaustive(b.Max, b.Len)
		exh[fmt.Sprintf("max%d-len%d", b.Max, b.Len)] = n
		vk.Logf("exhaustive max=%d len=%d: %d histories run (%.1fs)", b.Max, b.Len, n, time.Since(t0).Seconds())
	}

	// 3. random histories (pure function of tier and seed)
	nRand, rlen := 6000, 9
	if e.Thorough() {
		nRand, rlen = 60000, 12
	}
	if e.Race {
		nRand /= 4
	}
	seen := map[string]bool{}
	var cases []c12Case
	for i := 0; i < nRand; i++ {
		max := 1 + i%3
		if !e.Thorough() && i%4 != 3 { // quick: max 1 is enumerated, sample mostly 2 and 3
			max = 2 + i%2
		}
		var al c12Alphabet
		class := ""
		switch i % 10 {
		case 0:
			al, class = c12Alphabet{StaleOK: true, Rejoin: true}, "duplicate-join"
		case 1, 2, 3, 4:
			al, class = c12Alphabet{StaleOK: true}, "free"
		default:
			al, class = c12Alphabet{StaleOK: true, Avoid: true}, "avoid-known"
		}
		h := c12Random(rng, max, rlen, al)
		k := strconv.Itoa(max) + c12HistStr(h, "")
		if seen[k] {
			e.R.Count("random_duplicates_skipped")
			continue
		}
		seen[k] = true
		// the stub transfers of a third of the random histories register a connection closer
		// (all of them / every second one), as a transfer past connect_ok does
		cases = append(cases, c12Case{Max: max, Hist: h, Class: class, Mode: c12Mode{Closer: uint8((i / 10) % 3)}})
	}
	vk.ParallelDo(len(cases), c12Workers, func(i int) {
		x.withMode(cases[i].Mode, func(w *c12Worker) {
			c := cases[i]
			trace := i < 6
			r := w.run(c.Max, c.Hist, false, trace)
			x.account(&r, "random-"+c.Class)
			if trace && r.Inconcl == "" {
				var steps []string
				for _, s := range r.Trace {
					steps = append(steps, fmt.Sprintf("%s -> queue=%v active=%v live=%d status=%v", s.Event, s.Obs.Queue, s.Obs.Active, s.Obs.Live, s.Obs.Status))
				}
				e.R.Sample(map[string]any{"max": c.Max, "class": c.Class, "history": c12HistStr(c.Hist, "."),
					"first_refuting_prefix": r.FailAt, "starts": r.Starts, "transfer_start_msgs": r.TS,
					"transfer_queued_msgs": r.TQ, "steps": steps})
			}
		})
	})
	vk.Logf("random: %d histories of length %d (%.1fs)", len(cases), rlen, time.Since(t0).Seconds())

	// 3b. the same bounded enumeration with stub transfers that behave like a transfer past
	// connect_ok: "closer" registers a connection closer through setTransferCloser before it
	// reports its start; "real-like" does that and also unwinds on its own as soon as its context
	// is cancelled (so a leave of a served receiver makes the read loop and the unwinding
	// transfer goroutine enter the scheduler at the same time)
	type mbound struct {
		Mode     c12Mode
		Max, Len int
	}
	var mbounds []mbound
	for _, md := range []c12Mode{{Closer: 1}, {Auto: true}} {
		for _, b := range bounds {
			l := b.Len - 1
			if e.Thorough() && !e.Race && b.Len == 9 {
				continue
			}
			if e.Thorough() && !e.Race {
				l = 7
			}
			mbounds = append(mbounds, mbound{md, b.Max, l})
		}
	}
	exhMode := map[string]int64{}
	for _, b := range mbounds {
		n := x.exhaustiveMode(b.Max, b.Len, b.Mode)
		exhMode[fmt.Sprintf("stub-%s-max%d-len%d", b.Mode, b.Max, b.Len)] = n
	}
	vk.Logf("stub-mode enumerations: %v (%.1fs)", exhMode, time.Since(t0).Seconds())

	// 3c. concurrent deliveries (c12_conc.go)
	nConc, concReps := 6000, 12
	if e.Thorough() {
		nConc, concReps = 60000, 120
	}
	if e.Race {
		nConc, concReps = nConc/3, concReps/3
	}
	cst := x.concurrent(rng, nConc, concReps)
	vk.Logf("concurrent: %d histories, %d bursts, %d fully overlapped (%.1fs)", cst.Cases, cst.Bursts, cst.Overlapped, time.Since(t0).Seconds())

	// 3d. stress streams (c12_stress.go)
	nStreams, nEnv := 192, 4000
	if e.Thorough() {
		nStreams, nEnv = 1920, 4000
	}
	if e.Race {
		nStreams /= 8 // the stream is CPU-bound and about ten times slower under the race detector
	}
	sst := x.stress(rng, nStreams, nEnv, false)
	vk.Logf("stress: %d streams, %d envelopes, %d transfer starts (%.1fs)", sst.Streams, sst.Envelopes, sst.Starts, time.Since(t0).Seconds())

	// 3e. benchmark / progress-table configuration (c12_bench.go): sequential histories with a
	// benchmark tick + renderer frame started at every clock read of the sender, and stress
	// streams with a free-running tick. Own generator: the case lists of the parts above do not
	// depend on it.
	brng := vk.NewRng(e.Seed ^ vk.HashStr("c12bench"+e.Tier))
	nBench, benchLen, nBenchStreams := 1500, 9, nStreams/4
	if e.Thorough() {
		nBench, benchLen = 15000, 12
	}
	if e.Race {
		nBench /= 4
	}
	var benchProbes []string
	for _, p := range probes {
		benchProbes = append(benchProbes, p.Hist)
	}
	benchProbes = append(benchProbes, "Ja.Aa.Jb.Ab.La.Kb", "Ja.Aa.Jb.Ab.Jc.Ac.Lb.La.Kc", "Ja.Aa.La.Ja.Aa.Fa.T", "Ja.Aa.Jb.Ab.Fa.Lb.T.T")
	bst := x.benchHistories(brng, nBench, benchLen, benchProbes)
	bsst := x.stress(brng, nBenchStreams, nEnv, true)
	// 3f. the real raw multi-connection data phase over fake connections (c12_dumb.go)
	dst := x.realDumb(vk.NewRng(e.Seed^vk.HashStr("c12dumb"+e.Tier)), e.Pick(2, 10))
	vk.Logf("real-dumb: %d cases, %d bytes through the real data pump (%.1fs)", dst.Cases, dst.Bytes, time.Since(t0).Seconds())
	// 3g. bursts of envelopes through the real wsclient.Conn.ReadLoop behind a held handler call (c12_wire.go)
	nWire := 72
	if e.Thorough() {
		nWire = 720
	}
	if e.Race {
		nWire /= 3
	}
	wst := x.wire(vk.NewRng(e.Seed^vk.HashStr("c12wire"+e.Tier)), nWire)
	vk.Logf("wire delivery: %d cases, %d bursts, %d envelopes, %d bursts written completely behind a held handler call (%.1fs)", wst.Cases, wst.Bursts, wst.Envelopes, wst.BehindHeld, time.Since(t0).Seconds())
	vk.Logf("benchmark mode: %d histories (%v), ticks %v; %d stress streams, %d ticks (%.1fs)", bst.Histories, bst.ByMode, x.benchTicks, bsst.Streams, bsst.BenchTicks, time.Since(t0).Seconds())

	// 4. refuting prefixes: shrink, key by the minimal shape, report
	var fl []*c12Failure
	for _, f := range x.fails {
		fl = append(fl, f)
	}
	sort.Slice(fl, func(i, j int) bool {
		if len(fl[i].Prefix) != len(fl[j].Prefix) {
			return len(fl[i].Prefix) < len(fl[j].Prefix)
		}
		return c12HistStr(fl[i].Prefix, "")+fl[i].Kind < c12HistStr(fl[j].Prefix, "")+fl[j].Kind
	})
	byKey := map[string]int{}
	minimal := map[string]map[string]int{}
	type minRec struct {
		Mode       c12Mode
		Max        int
		Kind       string
		Min        []c12Ev
		Key, Class string
		Last       c12Result
	}
	var minima []minRec
	explained := 0
	var kmu sync.Mutex
	report := func(f *c12Failure, mr minRec) {
		minStr := c12HistStr(mr.Min, ".")
		kmu.Lock()
		byKey[mr.Key]++
		if minimal[mr.Key] == nil {
			minimal[mr.Key] = map[string]int{}
		}
		minimal[mr.Key][fmt.Sprintf("max%d:%s", f.Max, minStr)]++
		kmu.Unlock()
		var what []string
		for _, v := range mr.Last.Viols {
			what = append(what, v.Kind+": "+v.Detail)
		}
		e.R.Violate(mr.Key,
			fmt.Sprintf("max-receivers=%d, minimal history %s (%s): %s", f.Max, minStr, mr.Class, strings.Join(what, "; ")),
			map[string]any{"max": f.Max, "minimal_history": minStr, "found_in": c12HistStr(f.Prefix, "."), "source": f.Source, "kind": f.Kind, "stub_mode": f.Mode.String()},
			map[string]any{"violations": mr.Last.Viols, "observed": mr.Last.Obs, "model_expects": mr.Last.ModelStr, "class": mr.Class})
	}
	// shortest first, one length at a time: a refuting prefix that contains an
	// already established minimal history of the same kind (same max) is
	// attributed to it without re-running; everything else is shrunk
	for lo := 0; lo < len(fl); {
		hi := lo
		for hi < len(fl) && len(fl[hi].Prefix) == len(fl[lo].Prefix) {
			hi++
		}
		var todo []*c12Failure
		for _, f := range fl[lo:hi] {
			done := false
			for _, mr := range minima {
				if mr.Mode == f.Mode && mr.Max == f.Max && mr.Kind == f.Kind && c12Explains(mr.Min, f.Prefix) {
					report(f, mr)
					explained++
					done = true
					break
				}
			}
			if !done {
				todo = append(todo, f)
			}
		}
		found := make([]minRec, len(todo))
		vk.ParallelDo(len(todo), c12Workers, func(i int) {
			x.with(func(w *c12Worker) {
				f := todo[i]
				min, last := x.shrink(w, f)
				key, class := c12Key(f.Max, min, f.Kind, last.Viols)
				if f.Mode != (c12Mode{}) {
					key += f.Mode.keySuffix()
					class += "; stub transfers in mode " + f.Mode.String()
				}
				found[i] = minRec{Mode: f.Mode, Max: f.Max, Kind: f.Kind, Min: c12Canon(min), Key: key, Class: class, Last: last}
				report(f, found[i])
			})
		})
		for _, mr := range found {
			dup := false
			for _, o := range minima {
				if o.Mode == mr.Mode && o.Max == mr.Max && o.Kind == mr.Kind && c12HistStr(o.Min, "") == c12HistStr(mr.Min, "") {
					dup = true
				}
			}
			if !dup {
				minima = append(minima, mr)
			}
		}
		lo = hi
	}
	x.reportConc(cst)
	e.R.SetExtra("refuting_prefixes_attributed_to_an_established_minimal_history", explained)
	e.R.SetExtra("refuting_prefixes_shrunk_by_rerunning", len(fl)-explained)
	keyMin := map[string][]string{}
	for k, mm := range minimal {
		for s := range mm {
			keyMin[k] = append(keyMin[k], s)
		}
		sort.Strings(keyMin[k])
		if len(keyMin[k]) > 12 {
			keyMin[k] = keyMin[k][:12]
		}
	}

	var bs []string
	for _, b := range bounds {
		bs = append(bs, fmt.Sprintf("max-receivers=%d: every history of length %d (and so every shorter one)", b.Max, b.Len))
	}
	e.R.SetExtra("exhaustive_bound", strings.Join(bs, "; ")+"; over events J A L K F S T, receivers {a,b,c} up to renaming, membership-consistent; a history is cut at its first refuting prefix and that prefix is not extended")
	e.R.Rule = "histories over receivers {a,b,c} of J(oin) A(ccept, repeatable) L(eave) K(transfer returns nil) F(transfer returns error) S/s(transfer whose context was cancelled returns late with error/nil) T(clock +6 min and one idle-cleanup tick, TTL 10 min), membership-consistent (join only for non-members, accept/leave only for members, returns only for running transfers), for max-receivers 1..3, each on a fresh real SnapshotSender driven through handleEnvelope/cleanup with a stub transfer function and a real wsclient.Conn to a recording endpoint; after EVERY event: quiescence by sender.runTransfer.exit hit count + marker round trip + stub start count, then comparison with the reference model. Exhaustive part (" + strings.Join(bs, "; ") + "): every such history up to receiver renaming; a history is cut at its first refuting prefix, which is not extended. Random part: weighted random walks (classes free / avoid-known / duplicate-join, the last adds R = join of a receiver that is already a member). A history counts as distinct non-trivial when it reached quiescence after every executed event and started >= 1 transfer; distinct by (max, event string up to the cut, stub mode). Stub modes: told (default; no connection closer, returns when told), closer / closer-mixed (registers a closer through setTransferCloser before reporting its start), real-like (closer + returns by itself once cancelled); the enumeration is repeated one event shorter in modes closer and real-like. Concurrent part: histories over up to five receivers whose steps are single events or bursts (<= 1 envelope, <= 1 cleanup tick, transfer returns; one goroutine each, released together), random and a directed full-house family; a burst counts when it reached quiescence, distinct by (max, burst shape = event letters with the receiver's role before the burst, receivers waiting 0/1/2+, stub mode). Stress part: streams of back-to-back envelopes against self-finishing transfers, distinct by (max, stream seed). Benchmark configuration: the same sequential histories (random walks + directed probes) and stress streams against a sender built with benchmark = true whose stubs create their receiver's progress row; a benchmark tick + renderer frame is started at the sender's clock reads (sequential) or runs freely (stress); distinct as above with +benchmark in the stub mode / stream key. Real-dumb part: max-receivers 1-2 served receivers + 1-2 waiting, the real sendDumbDataMulti over 2-4 gated fake connections per receiver, one part failing (open-stream / header-write / first / later data block) while its siblings are mid-transfer; distinct by (max, connections, failure kind, waiting, failing receiver, failing part, blocks per part); a case counts when every receiver's transfer function has returned and the final state was read. Wire-delivery part: the host wired as RunSnapshotSender wires it (real wsclient.Conn, conn.ReadLoop with a callback entering handleEnvelope); the endpoint writes bursts of 12..264 envelopes (join / accept / repeated accept / ICE candidate message / leave; receivers join once and never come back) while the handler call for the first envelope of the burst is held; judged at quiescence after each burst and after each step of the final drain against the state the WRITTEN order gives; families accept-train, accept-then-leave, random; distinct by (family, max, burst sizes, case seed). Every call into the sender is watched (c12_watch.go)."
	e.R.SetExtra("histories_run", atomic.LoadInt64(&x.runs))
	e.R.SetExtra("events_executed_and_checked", atomic.LoadInt64(&x.events))
	e.R.SetExtra("stub_transfer_starts_observed", atomic.LoadInt64(&x.starts))
	e.R.SetExtra("transfer_start_msgs_at_endpoint", atomic.LoadInt64(&x.ts))
	e.R.SetExtra("transfer_queued_msgs_at_endpoint", atomic.LoadInt64(&x.tq))
	e.R.SetExtra("manifest_offer_msgs_at_endpoint", atomic.LoadInt64(&x.offers))
	e.R.SetExtra("runTransfer_exit_hook_hits_attributed", atomic.LoadInt64(&x.exits))
	e.R.SetExtra("hook_hits_process", verifhook.AllHits())
	e.R.SetExtra("max_concurrent_live_transfers_by_max_receivers", map[string]int32{"1": x.maxLive[1], "2": x.maxLive[2], "3": x.maxLive[3]})
	e.R.SetExtra("exhaustive_bounds_histories_run", exh)
	e.R.SetExtra("exhaustive_subtrees_not_extended_after_refuting_prefix", atomic.LoadInt64(&x.pruned))
	e.R.SetExtra("histories_cut_because_event_not_executable", atomic.LoadInt64(&x.truncated))
	e.R.SetExtra("random_histories", map[string]int{"count": len(cases), "length": rlen})
	e.R.SetExtra("distinct_refuting_prefixes", len(fl))
	e.R.SetExtra("shrink_runs", atomic.LoadInt64(&x.shrinkRuns))
	e.R.SetExtra("refuting_prefixes_by_key", byKey)
	e.R.SetExtra("minimal_histories_by_key", keyMin)
	e.R.SetExtra("diagnostic_last_TransferQueued_position_not_current", atomic.LoadInt64(&x.tqStale))
	e.R.SetExtra("diagnostic_TransferStart_field_mismatch", atomic.LoadInt64(&x.tsBad))
	e.R.SetExtra("diagnostic_TransferQueued_field_mismatch", atomic.LoadInt64(&x.tqBad))
	e.R.SetExtra("exhaustive_bounds_histories_run_by_stub_mode", exhMode)
	e.R.SetExtra("stub_transfers_that_registered_a_connection_closer", atomic.LoadInt64(&x.closers))
	e.R.SetExtra("stub_transfers_whose_closer_was_invoked_by_the_scheduler", atomic.LoadInt64(&x.closersCalled))
	e.R.SetExtra("stub_transfers_that_unwound_on_their_own_after_cancellation", atomic.LoadInt64(&x.autoRet))
	e.R.SetExtra("concurrent_histories_run", cst.Cases)
	e.R.SetExtra("concurrent_bursts_checked", cst.Bursts)
	e.R.SetExtra("concurrent_bursts_fully_overlapped_per_call_return_records", cst.Overlapped)
	e.R.SetExtra("concurrent_histories_cut_because_step_not_executable", cst.Truncated)
	e.R.SetExtra("concurrent_leaves_of_a_served_receiver_with_self_unwinding_transfer", cst.ConcLeaves)
	e.R.SetExtra("concurrent_histories_by_family_and_stub_mode", cst.ByFamily)
	e.R.SetExtra("concurrent_bursts_by_gomaxprocs", cst.ByProcs)
	e.R.SetExtra("concurrent_bursts_by_schedule_class", cst.ByOpt)
	e.R.SetExtra("concurrent_max_live_transfers_by_max_receivers", map[string]int32{"1": cst.MaxLive[1], "2": cst.MaxLive[2], "3": cst.MaxLive[3]})
	e.R.SetExtra("concurrent_refuted_steps_by_key", cst.FailCount)
	e.R.SetExtra("concurrent_refuted_steps_by_schedule_class", cst.FailByOpt)
	e.R.SetExtra("stress_streams", sst.Streams)
	e.R.SetExtra("stress_envelopes_delivered", sst.Envelopes)
	e.R.SetExtra("stress_transfer_starts", sst.Starts)
	e.R.SetExtra("stress_leaves", map[string]int64{"all": sst.Leaves, "found_a_running_transfer_of_the_leaver": sst.LeavesOfRun, "connection_closers_invoked": sst.ClosersHit})
	e.R.SetExtra("stress_cleanup_ticks", sst.Ticks)
	e.R.SetExtra("stress_max_live_transfers_counted_at_a_stub_start_by_max_receivers", map[string]int32{"1": sst.MaxLive[1], "2": sst.MaxLive[2], "3": sst.MaxLive[3]})
	e.R.SetExtra("stress_streams_refuted_by_key", sst.FailCount)
	e.R.SetExtra("benchmark_mode_histories_by_stub_mode", bst.ByMode)
	e.R.SetExtra("benchmark_mode_ticks", map[string]int64{"tickBenchmarks_calls_returned": x.benchTicks[0], "started_at_a_clock_read_of_the_sender": x.benchTicks[1],
		"seen_holding_the_progress_mutex_before_the_clock_read_returned": x.benchTicks[2], "started_while_the_admission_mutex_was_held": x.benchTicks[3]})
	e.R.SetExtra("benchmark_mode_stress", map[string]int64{"streams": bsst.Streams, "envelopes": bsst.Envelopes, "transfer_starts": bsst.Starts, "benchmark_ticks": bsst.BenchTicks, "leaves_that_found_a_running_transfer": bsst.LeavesOfRun})
	e.R.SetExtra("benchmark_mode_stress_streams_refuted_by_key", bsst.FailCount)
	e.R.SetExtra("real_dumb_cases_by_class", dst.ByClass)
	e.R.SetExtra("real_dumb", map[string]int64{"cases": dst.Cases, "bytes_written_by_the_real_data_pump_on_fake_connections": dst.Bytes, "cases_in_which_the_next_queued_receiver_was_started_after_a_part_failure": dst.NextStarted})
	e.R.SetExtra("wire_delivery", map[string]int64{"cases": wst.Cases, "bursts": wst.Bursts, "envelopes_written_by_the_endpoint_and_handled": wst.Envelopes,
		"bursts_completely_written_while_the_first_handler_call_was_held": wst.BehindHeld, "handler_calls_begun_while_an_earlier_one_was_held": wst.BegunWhileHeld,
		"max_handler_calls_in_flight": int64(wst.MaxInCall), "transfer_starts": wst.Starts, "leaves_of_a_waiting_receiver_inside_a_burst": wst.LeavesOfWaiting,
		"leaves_of_a_served_receiver_inside_a_burst": wst.LeavesOfServed, "drain_steps_checked": wst.DrainSteps, "receivers_waiting_after_the_bursts": wst.Waiting})
	e.R.SetExtra("wire_delivery_cases_by_family", wst.ByFamily)
	e.R.SetExtra("wire_delivery_bursts_by_size", wst.BySize)
	e.R.SetExtra("wire_delivery_cases_refuted_by_key", wst.FailCount)
	e.R.SetExtra("watched_calls_into_the_sender", atomic.LoadInt64(&c12WatchedCalls))
	e.R.SetExtra("watched_calls_canary_runs", atomic.LoadInt64(&c12CanaryRuns))
	e.R.SetExtra("senders_that_stopped_handling_events", atomic.LoadInt64(&c12StuckCount))
	e.R.SetExtra("cases_not_run_after_that_many_senders_stopped_handling_events", atomic.LoadInt64(&c12SkippedAfterStuck))
	e.R.SetExtra("deliveries_that_waited_for_the_progress_mutex_held_by_the_harness", atomic.LoadInt64(&c12HeldBlocked))
	e.R.SetExtra("watchdog_hits_retried", atomic.LoadInt64(&c12WatchdogRetries))
	e.R.SetExtra("wall_s_harness", time.Since(t0).Seconds())

	e.R.Require(atomic.LoadInt64(&c12WatchdogRetries) <= c12WatchdogBudget, "quiescence watchdog fired too often; exploration abandoned")
	e.R.Require(e.R.Counter("inconclusive") == 0, fmt.Sprintf("%d histories never reached quiescence in three attempts on fresh senders (while others did): no verdict for them", e.R.Counter("inconclusive")))
	e.R.Require(atomic.LoadInt64(&x.runs) >= int64(len(cases)), "fewer histories run than generated")
	e.R.Require(atomic.LoadInt64(&x.starts) > 0 && atomic.LoadInt64(&x.ts) > 0, "no transfer start / no TransferStart message observed")
	e.R.Require(atomic.LoadInt64(&x.exits) > 0, "hook sender.runTransfer.exit never hit")
	e.R.Require(atomic.LoadInt64(&x.tq) > 0, "no TransferQueued message observed")
	for m := 1; m <= 3; m++ {
		e.R.Require(x.maxLive[m] >= int32(m), fmt.Sprintf("max-receivers=%d: never saw %d transfers running at once (saw %d)", m, m, x.maxLive[m]))
	}
	for _, b := range bounds {
		e.R.Require(exh[fmt.Sprintf("max%d-len%d", b.Max, b.Len)] > 0, "exhaustive part ran nothing")
	}
	for k, n := range exhMode {
		e.R.Require(n > 0, "stub-mode enumeration "+k+" ran nothing")
	}
	e.R.Require(atomic.LoadInt64(&x.closers) > 0 && atomic.LoadInt64(&x.closersCalled) > 0, "no stub transfer registered a connection closer that the scheduler then invoked (leave of a receiver served by a transfer past connect_ok never exercised)")
	e.R.Require(atomic.LoadInt64(&x.autoRet) > 0, "no self-unwinding stub transfer was ever cancelled")
	e.R.Require(cst.Bursts >= int64(nConc/4), fmt.Sprintf("only %d concurrent bursts reached quiescence", cst.Bursts))
	e.R.Require(cst.Overlapped*10 >= cst.Bursts, fmt.Sprintf("only %d of %d bursts overlapped completely per the call/return records: the deliveries were not concurrent", cst.Overlapped, cst.Bursts))
	e.R.Require(cst.ConcLeaves > 0, "no leave of a served receiver with a self-unwinding transfer")
	for m := 1; m <= 3; m++ {
		e.R.Require(cst.MaxLive[m] >= int32(m), fmt.Sprintf("concurrent part, max-receivers=%d: never saw %d transfers running at once", m, m))
	}
	e.R.Require(sst.Streams >= int64(nStreams*3/4) && sst.Starts >= sst.Streams*100, fmt.Sprintf("stress part: %d of %d streams reached a verdict, %d transfer starts", sst.Streams, nStreams, sst.Starts))
	e.R.Require(sst.LeavesOfRun > 0, "stress part: no leave ever found a running transfer of the leaver")
	for m := 1; m <= 3; m++ {
		e.R.Require(sst.MaxLive[m] >= int32(m), fmt.Sprintf("stress part, max-receivers=%d: never saw %d transfers running at once", m, m))
	}
	e.R.Require(atomic.LoadInt64(&c12SkippedAfterStuck) == 0, fmt.Sprintf("%d cases were not run because %d senders had stopped handling events", atomic.LoadInt64(&c12SkippedAfterStuck), atomic.LoadInt64(&c12StuckCount)))
	e.R.Require(e.R.Counter("directed_stalled_return_not_constructible") == 0, "the parked-bookkeeping scenario could not be built: an event handler waited for the progress mutex")
	e.R.Require(e.R.Counter("histories:benchmark-random") >= nBench/2 && e.R.Counter("histories:benchmark-directed") > 0, "benchmark mode: too few histories reached a verdict")
	e.R.Require(x.benchTicks[3] >= int64(nBench) && x.benchTicks[2] > 0, fmt.Sprintf("benchmark mode: only %d benchmark ticks were started while an event handler held the admission mutex (%d seen holding the progress mutex)", x.benchTicks[3], x.benchTicks[2]))
	e.R.Require(dst.Cases >= 30 && dst.NextStarted >= 20 && dst.Bytes > 0, fmt.Sprintf("real-dumb part: %d cases reached a verdict, %d with a part failure followed by the start of the next receiver", dst.Cases, dst.NextStarted))
	for _, md := range []string{"told+benchmark", "closer+benchmark", "real-like+benchmark", "closer-mixed+benchmark"} {
		e.R.Require(bst.ByMode[md] > 0, "benchmark mode did not run stub mode "+md)
	}
	e.R.Require(bsst.Streams >= int64(nBenchStreams*3/4) && bsst.BenchTicks >= bsst.Streams*100 && bsst.LeavesOfRun > 0, fmt.Sprintf("benchmark-mode stress: %d of %d streams reached a verdict, %d benchmark ticks", bsst.Streams, nBenchStreams, bsst.BenchTicks))
	e.R.Require(wst.Cases >= int64(nWire*3/4) && wst.ByFamily["accept-train"] > 0 && wst.ByFamily["accept-then-leave"] > 0 && wst.ByFamily["random"] >= nWire/2,
		fmt.Sprintf("wire delivery: only %d cases reached a verdict (by family %v)", wst.Cases, wst.ByFamily))
	e.R.Require(wst.BehindHeld*2 >= wst.Bursts && wst.BehindHeld > 0, fmt.Sprintf("wire delivery: only %d of %d bursts were written completely while the first handler call was held", wst.BehindHeld, wst.Bursts))
	for _, sc := range []string{"<=16", "17-64", "65-128", ">128"} {
		e.R.Require(wst.BySize[sc] > 0, "wire delivery: no burst of size "+sc+" envelopes")
	}
	e.R.Require(wst.LeavesOfWaiting > 0 && wst.LeavesOfServed > 0 && wst.Waiting > 0 && wst.DrainSteps > 0, "wire delivery: no leave of a waiting / of a served receiver inside a burst, or nobody waiting after the bursts, or no drain")
	for _, md := range []string{"told", "closer", "real-like"} {
		e.R.Require(cst.ByFamily["full-house/stub="+md] > 0 && cst.ByFamily["random/stub="+md] > 0, "concurrent part did not run stub mode "+md)
	}
}
