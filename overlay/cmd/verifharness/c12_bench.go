//go:build verif

package main

// C12, benchmark / progress-table configuration (`thru host --benchmark`).
//
// RunSnapshotSender starts, next to the read loop, a 1 Hz benchmark loop
// (startBenchmarkLoop -> tickBenchmarks) and the progress renderer (senderView per
// frame); runICEQUICTransfer creates the receiver's progress row first thing and
// runTransfer freezes it. Neither goroutine is part of the event alphabet, but both
// take the progress-table locks and the admission lock. Here the sender is built
// with Benchmark = true, every stub transfer creates its receiver's row
// (initSenderProgress) before it reports its start, and
//
//   - sequential histories (random walks, the design probes; stub modes told /
//     closer / real-like) run under the full reference-model oracle while a
//     benchmark tick + one renderer frame are started at every clock read of the
//     sender (the clock seam: handlers read the clock inside their critical
//     section). The clock read returns once the tick has been seen holding the
//     progress mutex (or has finished): the tick then meets the handler exactly
//     where the handler holds the admission lock;
//   - stress streams (c12_stress.go) run with a free-running tick goroutine.
//
// Oracle: the one of the sequential / stress part, plus the watched-delivery rule
// (c12_watch.go): a sender that never returns from an event is a violation.

import (
	"fmt"
	"runtime"
	"sync/atomic"
	"time"

	vk "github.com/sheerbytes/sheerbytes/internal/verifkit"
)

// tickAtClockRead is called from the sender's clock (fake clock seam) in benchmark mode.
func (in *c12Inst) tickAtClockRead() {
	if !atomic.CompareAndSwapInt32(&in.tickBusy, 0, 1) {
		return
	}
	atomic.AddInt64(&in.tickInjected, 1)
	under := in.vs.AdmissionHeld()
	if under {
		atomic.AddInt64(&in.tickUnderLock, 1)
	}
	now := c12Base.Add(time.Duration(atomic.LoadInt64(&in.clock)))
	go func() {
		in.vs.TickBenchmarks(now)
		atomic.AddInt64(&in.benchTicks, 1)
		in.vs.RenderView()
		atomic.StoreInt32(&in.tickBusy, 0)
	}()
	for k := 0; k < 400; k++ {
		if in.vs.ProgressHeld() {
			atomic.AddInt64(&in.tickHeldSeen, 1)
			return
		}
		if atomic.LoadInt32(&in.tickBusy) == 0 {
			return
		}
		runtime.Gosched()
	}
}

type c12BenchStats struct {
	Histories int
	ByMode    map[string]int
}

// benchHistories runs sequential histories against senders in benchmark mode.
func (x *c12Explorer) benchHistories(rng *vk.Rng, n, length int, probes []string) *c12BenchStats {
	st := &c12BenchStats{ByMode: map[string]int{}}
	var cases []c12Case
	modes := []c12Mode{{Bench: true}, {Bench: true, Closer: 1}, {Bench: true, Auto: true}, {Bench: true, Closer: 2}}
	for i, p := range probes {
		cases = append(cases, c12Case{Max: 1 + i%2, Hist: c12Parse(p), Class: "directed", Mode: modes[i%len(modes)]})
	}
	seen := map[string]bool{}
	for i := 0; i < n; i++ {
		max := 1 + i%3
		al := c12Alphabet{StaleOK: true, Avoid: i%3 != 0}
		md := modes[(i/3)%len(modes)]
		if md.Auto {
			al.StaleOK = false
		}
		h := c12Random(rng, max, length, al)
		k := fmt.Sprintf("%d%s%s", max, c12HistStr(h, ""), md)
		if seen[k] {
			continue
		}
		seen[k] = true
		cases = append(cases, c12Case{Max: max, Hist: h, Class: "random", Mode: md})
	}
	vk.ParallelDo(len(cases), c12Workers, func(i int) {
		x.withMode(cases[i].Mode, func(w *c12Worker) {
			c := cases[i]
			r := w.run(c.Max, c.Hist, false, false)
			x.account(&r, "benchmark-"+c.Class)
		})
	})
	for _, c := range cases {
		st.Histories++
		st.ByMode[c.Mode.String()]++
	}
	return st
}
