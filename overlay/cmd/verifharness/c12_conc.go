//go:build verif

package main

// C12, concurrent deliveries.
//
// In the application the scheduler of the SnapshotSender is entered from several
// goroutines: the WebSocket read loop (peer_joined / manifest_accept / peer_left,
// one envelope at a time), every transfer goroutine when its transfer function
// returns (runTransfer -> maybeStartTransfers), and the cleanup ticker. The
// histories of c12.go deliver one event after another and wait for quiescence
// in between. Here a history is a sequence of STEPS; a step is either one event
// or a BURST: at most one envelope event, at most one cleanup tick and any number
// of transfer returns, each delivered from its own goroutine and released
// together. After every step the harness waits for quiescence (same rule as
// c12.go) and the observation - slots, queue, statuses, and above all the stub
// transfer functions actually running with a live context, counted at quiescence
// and by each stub at its own start - must agree with the reference model after
// SOME order of the events of the burst (a set of candidate model states is
// carried along). The invariants that need no model (running <= max, nothing
// queued while a slot is free, one state per receiver, a leaver cancelled) are
// part of the same comparison, so they are required under every order.
//
// Schedules are varied, never judged: release through a barrier at the
// sender.transfer.returned hook (all returning transfers are parked right in
// front of runTransfer's bookkeeping and let go together with the envelope
// goroutine) or without it (the returns race from inside the stub), seeded
// per-element spin delays, three fake-clock behaviours (plain; yield at every
// clock read; rendezvous: a clock reader waits a bounded number of yields for a
// second reader), GOMAXPROCS 16 / 4 / 2, plain and -race build.

import (
	"context"
	"errors"
	"fmt"
	"runtime"
	"sort"
	"strings"
	"sync"
	"sync/atomic"
	"time"

	vk "github.com/sheerbytes/sheerbytes/internal/verifkit"
	"github.com/sheerbytes/sheerbytes/internal/wsclient"
	"github.com/sheerbytes/sheerbytes/pkg/protocol"
)

func wsclientRedial(w *c12Worker) (*wsclient.Conn, error) {
	return wsclient.Dial(context.Background(), w.url, c12Logger)
}

// ---------------------------------------------------------------------------
// gate at sender.transfer.returned and the fake-clock perturbation

type c12Gate struct {
	want   int32
	parked int32
	armed  int32 // everybody is in position: stop yielding, busy-wait for open (a few microseconds)
	open   int32
	delays []int32 // spin iterations after the release, by order of arrival at the gate
	t0     []int64 // under mu: moments at which a returning transfer went on into runTransfer's bookkeeping
	t1     []int64 // under mu: moments at which a runTransfer was over
	mu     sync.Mutex
}

var c12SpinSink int32

func c12Spin(n int32) {
	var local int32
	for i := int32(0); i < n; i++ {
		atomic.AddInt32(&local, 1)
	}
	if local < 0 {
		atomic.AddInt32(&c12SpinSink, 1)
	}
}

// waitOpen parks the caller until the burst is released (bounded: the coordinator always opens):
// yielding until everybody is in position, then a short busy-wait so that all participants
// that are on a processor at that moment leave within nanoseconds of each other.
func (g *c12Gate) waitOpen() {
	for i := 0; atomic.LoadInt32(&g.open) == 0 && i < 200_000_000; i++ {
		if atomic.LoadInt32(&g.armed) != 0 {
			for k := 0; k < 20000 && atomic.LoadInt32(&g.open) == 0; k++ {
			}
			continue
		}
		runtime.Gosched()
	}
}

// atReturned is called from the sender.transfer.returned hook (transfer goroutine, no lock held).
func (g *c12Gate) atReturned() {
	if atomic.LoadInt32(&g.open) == 0 && atomic.LoadInt32(&g.want) > 0 {
		idx := atomic.AddInt32(&g.parked, 1) - 1
		g.waitOpen()
		if int(idx) < len(g.delays) {
			c12Spin(g.delays[idx])
		}
	}
	t := time.Now().UnixNano()
	g.mu.Lock()
	g.t0 = append(g.t0, t)
	g.mu.Unlock()
}

func (g *c12Gate) atExit() {
	t := time.Now().UnixNano()
	g.mu.Lock()
	g.t1 = append(g.t1, t)
	g.mu.Unlock()
}

// perturbClock runs inside the sender's injected clock (s.now): 1 = yield, 2 = rendezvous.
func (in *c12Inst) perturbClock(cp int32) {
	switch cp {
	case 1:
		runtime.Gosched()
	case 2:
		a := atomic.AddInt32(&in.clockArrivals, 1)
		if atomic.AddInt32(&in.clockWaiters, 1) == 1 {
			for i := 0; i < 300 && atomic.LoadInt32(&in.clockArrivals) == a; i++ {
				runtime.Gosched()
			}
		}
		atomic.AddInt32(&in.clockWaiters, -1)
	}
}

// ---------------------------------------------------------------------------
// one burst against the real sender

type c12BurstOpt struct {
	Gate   bool    // park the returning transfers at sender.transfer.returned and release everything together
	Clock  int32   // 0 plain, 1 yield, 2 rendezvous
	Delays []int32 // spin iterations per element after the release
}

func (o c12BurstOpt) String() string {
	g := "none"
	if o.Gate {
		g = "hook"
	}
	return fmt.Sprintf("gate=%s clock=%s", g, [...]string{"plain", "yield", "rendezvous"}[o.Clock])
}

type c12BurstOut struct {
	NotExecutable bool
	Inconcl       string
	FullOverlap   bool // every element had begun before the first one was over
	Elements      int
}

// burst delivers the events of one step concurrently. The caller quiesces afterwards and then
// calls endBurst.
func (in *c12Inst) burst(els []c12Ev, opt c12BurstOpt) (out c12BurstOut) {
	atomic.AddInt64(&in.clock, int64(time.Second))
	type action struct {
		env  *protocol.Envelope
		tick bool
		inv  *c12Inv
		err  error
	}
	var acts []action
	picked := map[*c12Inv]bool{}
	pickDistinct := func(p int8, live bool) *c12Inv {
		name := string(rune('a' + p))
		in.mu.Lock()
		defer in.mu.Unlock()
		for _, inv := range in.invs {
			if !inv.told && !picked[inv] && inv.peer == name && (inv.ctx.Err() == nil) == live {
				picked[inv] = true
				return inv
			}
		}
		return nil
	}
	nRet := 0
	for _, e := range els {
		switch e.K {
		case c12Join, c12Rejoin:
			env := in.envelope(protocol.TypePeerJoined, protocol.PeerJoined{Peer: protocol.PeerInfo{PeerID: in.full(e.P), Role: "receiver"}}, "server")
			acts = append(acts, action{env: &env})
		case c12Accept:
			env := in.envelope(protocol.TypeManifestAccept, protocol.ManifestAccept{ManifestID: "manifest-" + in.id, Mode: "all"}, in.full(e.P))
			acts = append(acts, action{env: &env})
		case c12Leave:
			env := in.envelope(protocol.TypePeerLeft, protocol.PeerLeft{PeerID: in.full(e.P)}, "server")
			acts = append(acts, action{env: &env})
		case c12Tick:
			atomic.AddInt64(&in.clock, int64(6*time.Minute))
			acts = append(acts, action{tick: true})
		case c12OK, c12Fail:
			inv := pickDistinct(e.P, true)
			if inv == nil {
				out.NotExecutable = true
				return
			}
			a := action{inv: inv}
			if e.K == c12Fail {
				a.err = errors.New("stub transfer failed")
			}
			acts = append(acts, a)
			nRet++
		case c12Stale, c12StaleOK:
			inv := pickDistinct(e.P, false)
			if inv == nil {
				out.NotExecutable = true
				return
			}
			a := action{inv: inv}
			if e.K == c12Stale {
				a.err = inv.ctx.Err()
			}
			acts = append(acts, a)
			nRet++
		}
	}
	out.Elements = len(acts)

	g := &c12Gate{}
	if opt.Gate {
		g.want = int32(nRet)
	}
	delay := func(i int) int32 {
		if i < len(opt.Delays) {
			return opt.Delays[i]
		}
		return 0
	}
	for i, a := range acts {
		if a.inv != nil {
			g.delays = append(g.delays, delay(i))
		}
	}
	in.gate.Store(g)
	atomic.StoreInt32(&in.clockPerturb, opt.Clock)

	var ready int32
	var wg sync.WaitGroup
	var tmu sync.Mutex
	var t0s, t1s []int64
	launched := 0
	for i, a := range acts {
		if a.inv != nil && opt.Gate {
			// gated return: told now, parks in front of runTransfer's bookkeeping
			in.tell(a.inv, a.err)
			continue
		}
		launched++
		wg.Add(1)
		go func(i int, a action) {
			defer wg.Done()
			atomic.AddInt32(&ready, 1)
			g.waitOpen()
			c12Spin(delay(i))
			t0 := time.Now().UnixNano()
			switch {
			case a.env != nil:
				in.call("envelope-in-burst", func() { in.vs.HandleEnvelope(in.ctx, *a.env) })
			case a.tick:
				in.call("cleanup-tick-in-burst", func() { in.vs.Cleanup() })
			case a.inv != nil:
				in.tell(a.inv, a.err) // un-gated return: t0/t1 of the bookkeeping are taken by the hooks
				return
			}
			t1 := time.Now().UnixNano()
			tmu.Lock()
			t0s, t1s = append(t0s, t0), append(t1s, t1)
			tmu.Unlock()
		}(i, a)
	}
	// everybody in position?
	deadline := time.Now().Add(c12Watchdog)
	for atomic.LoadInt32(&ready) < int32(launched) || (opt.Gate && atomic.LoadInt32(&g.parked) < int32(nRet)) {
		if time.Now().After(deadline) {
			out.Inconcl = fmt.Sprintf("burst: %d of %d goroutines ready, %d of %d returning transfers parked at sender.transfer.returned", atomic.LoadInt32(&ready), launched, atomic.LoadInt32(&g.parked), nRet)
			break
		}
		runtime.Gosched()
	}
	atomic.StoreInt32(&g.armed, 1)
	c12Spin(400)
	atomic.StoreInt32(&g.open, 1)
	wg.Wait()
	in.burstEnv0, in.burstEnv1 = t0s, t1s
	return out
}

// endBurst is called at quiescence after a burst: switches the perturbation off and
// evaluates the call/return records.
func (in *c12Inst) endBurst(out *c12BurstOut) {
	atomic.StoreInt32(&in.clockPerturb, 0)
	g := in.gate.Swap(nil)
	if g == nil {
		return
	}
	g.mu.Lock()
	t0 := append(append([]int64{}, g.t0...), in.burstEnv0...)
	t1 := append(append([]int64{}, g.t1...), in.burstEnv1...)
	g.mu.Unlock()
	if len(t0) >= 2 && len(t0) == len(t1) {
		maxStart, minEnd := t0[0], t1[0]
		for _, t := range t0 {
			if t > maxStart {
				maxStart = t
			}
		}
		for _, t := range t1 {
			if t < minEnd {
				minEnd = t
			}
		}
		out.FullOverlap = maxStart < minEnd
	}
}

// ---------------------------------------------------------------------------
// model side: a burst element applied to a candidate state

var c12AnyAlphabet = c12Alphabet{StaleOK: true, Rejoin: true, AnyJoinID: true, NR: c12NRmax}

// c12ApplyEl applies one element in the candidate state m; a return of a transfer that was live
// before the burst is a late return if the receiver's leave was ordered before it.
func c12ApplyEl(m c12Model, e c12Ev, ignoreReaccept bool) (c12Model, bool) {
	p := e.P
	switch e.K {
	case c12OK, c12Fail:
		switch {
		case m.Cls[p] == c12Xfer:
			return m.apply(e, false), true
		case m.Auto:
			return m, true // it had already unwound (or unwinds with the told value): nothing the model tracks
		case m.Stale[p] > 0:
			k := uint8(c12Stale)
			if e.K == c12OK {
				k = c12StaleOK
			}
			return m.apply(c12Ev{K: k, P: p}, false), true
		}
		return m, false
	case c12Stale, c12StaleOK:
		if m.Stale[p] == 0 {
			return m, false
		}
	case c12Join:
		if m.Member[p] {
			return m, false
		}
	case c12Accept, c12Leave, c12Rejoin:
		if !m.Member[p] {
			return m, false
		}
	}
	return m.apply(e, ignoreReaccept), true
}

func c12Perms(n int) [][]int {
	var out [][]int
	var rec func(cur []int, used uint)
	rec = func(cur []int, used uint) {
		if len(cur) == n {
			out = append(out, append([]int{}, cur...))
			return
		}
		for i := 0; i < n; i++ {
			if used&(1<<uint(i)) == 0 {
				rec(append(cur, i), used|1<<uint(i))
			}
		}
	}
	rec(nil, 0)
	return out
}

var c12PermTab = [][][]int{nil, c12Perms(1), c12Perms(2), c12Perms(3), c12Perms(4)}

// c12Successors: every model state reachable from a candidate by some order of the step's events.
func c12Successors(cands []c12Model, step []c12Ev) []c12Model {
	seen := map[c12Model]bool{}
	var out []c12Model
	add := func(m c12Model) {
		if !seen[m] {
			seen[m] = true
			out = append(out, m)
		}
	}
	for _, c := range cands {
		for _, perm := range c12PermTab[len(step)] {
			// the accept alternative (accept after an ended transfer: enqueue again / ignore)
			for alt := 0; alt < 2; alt++ {
				m, ok, usedAlt := c, true, false
				for _, i := range perm {
					e := step[i]
					ign := alt == 1 && e.K == c12Accept && m.Cls[e.P] == c12Idle
					if ign {
						usedAlt = true
					}
					if m, ok = c12ApplyEl(m, e, ign); !ok {
						break
					}
				}
				if ok && (alt == 0 || usedAlt) {
					add(m)
				}
			}
		}
	}
	return out
}

// c12Shape names the class of a step: event letters with the role of their receiver before the
// step (x transferring, q queued, j joined, i ended, n not a member, +u: has a cancelled transfer
// still unwinding) and an index that tells equal receivers from different ones.
func c12Shape(m *c12Model, step []c12Ev) string {
	idx := append([]c12Ev{}, step...)
	sort.SliceStable(idx, func(i, j int) bool { return idx[i].K < idx[j].K })
	ren := map[int8]int{}
	var parts []string
	for _, e := range idx {
		if e.K == c12Tick {
			parts = append(parts, "T")
			continue
		}
		if _, ok := ren[e.P]; !ok {
			ren[e.P] = len(ren) + 1
		}
		role := "n"
		if m.Member[e.P] {
			role = [...]string{"n", "j", "q", "x", "i"}[m.Cls[e.P]]
		}
		if e.K == c12Stale || e.K == c12StaleOK {
			role = "u"
		}
		parts = append(parts, fmt.Sprintf("%c%s%d", c12Letters[e.K], role, ren[e.P]))
	}
	return strings.Join(parts, "|")
}

// ---------------------------------------------------------------------------
// concurrent histories

type c12ConcCase struct {
	Max    int
	NR     int
	Mode   c12Mode
	Steps  [][]c12Ev
	Opts   []c12BurstOpt // per step (used for bursts)
	Family string
}

func c12StepsStr(steps [][]c12Ev) string {
	var parts []string
	for _, st := range steps {
		if len(st) == 1 {
			parts = append(parts, st[0].String())
		} else {
			parts = append(parts, "{"+c12HistStr(st, "|")+"}")
		}
	}
	return strings.Join(parts, ".")
}

type c12ConcResult struct {
	Case        *c12ConcCase
	Executed    int
	Truncated   bool
	Inconcl     string
	Bursts      int
	Overlapped  int
	Shapes      []string // distinct-case keys of the bursts that reached quiescence
	FailAt      int
	FailShape   string
	FailQueue   int
	Viols       []c12Viol
	Obs         *c12Obs
	ModelStr    string
	Starts, TS  int
	MaxLive     int
	Closers     int
	ClosersHit  int
	AutoRet     int
	Exits       int
	ConcLeaves  int // real-like mode: leaves of a receiver being served (its transfer unwinds while the read loop re-dispatches)
	OptsAtFail  string
	CandsAtFail int
	Skipped     bool // not run: too many senders had already stopped handling events
}

func (w *c12Worker) runConc(c *c12ConcCase) c12ConcResult {
	var r c12ConcResult
	for attempt := 0; attempt < 3; attempt++ {
		if c12Abandoned() {
			return c12ConcResult{Case: c, Skipped: true}
		}
		if atomic.LoadInt64(&c12WatchdogRetries) > c12WatchdogBudget {
			return c12ConcResult{Case: c, Inconcl: "exploration abandoned: quiescence watchdog fired too often"}
		}
		r = w.runConcOnce(c)
		if r.Inconcl == "" {
			break
		}
		atomic.AddInt64(&c12WatchdogRetries, 1)
		vk.Logf("watchdog (concurrent, attempt %d): %s", attempt+1, r.Inconcl)
		if cn, err := wsclientRedial(w); err != nil {
			r.Inconcl += "; redial failed: " + err.Error()
			break
		} else {
			old := w.conn
			w.conn = cn
			go func() { _ = old.Close() }()
		}
	}
	return r
}

func (w *c12Worker) runConcOnce(c *c12ConcCase) c12ConcResult {
	res := c12ConcResult{Case: c}
	in := c12NewInstMode(w.conn, c.Max, c.Mode)
	defer in.teardown()
	cands := []c12Model{{Max: c.Max, Auto: c.Mode.Auto}}
	seenInvs := 0
	for i, step := range c.Steps {
		shape := c12Shape(&cands[0], step)
		qlen := cands[0].QN
		var bo c12BurstOut
		isBurst := len(step) > 1
		if isBurst {
			bo = in.burst(step, c.Opts[i])
			if bo.NotExecutable {
				in.endBurst(&bo)
				res.Truncated = true
				break
			}
			if c12Abandoned() && in.stuckWhat() == "" {
				// another sender's canary verdict came in while this burst waited: do not start more
				in.endBurst(&bo)
				res.Truncated = true
				break
			}
		} else {
			if c.Mode.Auto && step[0].K == c12Leave && cands[0].Cls[step[0].P] == c12Xfer {
				res.ConcLeaves++
				atomic.StoreInt32(&in.clockPerturb, c.Opts[i].Clock)
			}
			if !in.do(step[0]) {
				atomic.StoreInt32(&in.clockPerturb, 0)
				res.Truncated = true
				break
			}
		}
		res.Executed++
		why := bo.Inconcl
		if why == "" {
			why = in.quiesce()
		}
		if what := in.stuckWhat(); what != "" {
			if isBurst {
				in.endBurst(&bo)
			}
			atomic.StoreInt32(&in.clockPerturb, 0)
			res.FailAt = i + 1
			res.FailShape, res.FailQueue = shape, qlen
			in.wmu.Lock()
			dump := in.stuckDump
			in.wmu.Unlock()
			res.Viols = []c12Viol{{Kind: "sender-stops-handling-events", Detail: fmt.Sprintf("%s had not returned after %s and still had not %s later, while a fresh sender of the same configuration went through join, accept, cleanup tick, leave and a state snapshot in between: the sender no longer handles events. Goroutines inside the sender:\n%s", what, c12DeliverWatchdog, c12DeliverWatchdog/2, dump)}}
			res.ModelStr = cands[0].String()
			res.OptsAtFail = c.Opts[i].String()
			break
		}
		if isBurst {
			in.endBurst(&bo)
		} else {
			atomic.StoreInt32(&in.clockPerturb, 0)
		}
		if why != "" {
			res.Inconcl = fmt.Sprintf("max=%d %s after step %d: %s", c.Max, c12StepsStr(c.Steps), i+1, why)
			break
		}
		o := in.observe(seenInvs)
		in.mu.Lock()
		seenInvs = len(in.invs)
		in.mu.Unlock()
		if o.Live > res.MaxLive {
			res.MaxLive = o.Live
		}
		if o.MaxLiveAtStart > res.MaxLive {
			res.MaxLive = o.MaxLiveAtStart
		}
		if isBurst && len(o.BadStarts) > 0 {
			// a receiver that was started and left within the same burst may find its context
			// cancelled before its stub runs: that is the order "started, then left", not a
			// transfer born with somebody else's cancelled context
			kept := o.BadStarts[:0]
			for _, b := range o.BadStarts {
				leftNow := false
				for _, e := range step {
					if e.K == c12Leave && string(rune('a'+e.P)) == b.Peer {
						leftNow = true
					}
				}
				if !leftNow {
					kept = append(kept, b)
				}
			}
			o.BadStarts = kept
		}
		next := c12Successors(cands, step)
		if len(next) == 0 {
			// the event is not enabled in any candidate state (the real sender and the generator's
			// order of an earlier burst disagree on what is possible next): the history ends here
			res.Truncated = true
			res.Executed--
			break
		}
		var pass []c12Model
		var best []c12Viol
		var bestM c12Model
		for k := range next {
			vs := c12Check(&next[k], &o)
			if len(vs) == 0 {
				pass = append(pass, next[k])
			} else if best == nil || len(vs) < len(best) {
				best, bestM = vs, next[k]
			}
		}
		if isBurst {
			res.Bursts++
			if bo.FullOverlap {
				res.Overlapped++
			}
		}
		if isBurst || (c.Mode.Auto && step[0].K == c12Leave && strings.Contains(shape, "x")) {
			res.Shapes = append(res.Shapes, fmt.Sprintf("conc:max%d:%s:q%d:%s", c.Max, shape, minInt(qlen, 2), c.Mode))
		}
		if len(pass) == 0 {
			res.FailAt = i + 1
			res.FailShape, res.FailQueue = shape, qlen
			res.Viols = best
			oc := o
			res.Obs = &oc
			res.ModelStr = bestM.String()
			res.OptsAtFail = c.Opts[i].String()
			res.CandsAtFail = len(next)
			break
		}
		cands = pass
	}
	in.mu.Lock()
	res.Starts, res.TS, res.Exits = len(in.invs), in.tsTotal, in.exits
	res.Closers = in.closerRegs
	for _, inv := range in.invs {
		if atomic.LoadInt32(&inv.closerCalls) > 0 {
			res.ClosersHit++
		}
		if inv.auto {
			res.AutoRet++
		}
	}
	in.mu.Unlock()
	return res
}

func minInt(a, b int) int {
	if a < b {
		return a
	}
	return b
}

// ---------------------------------------------------------------------------
// generators (pure functions of tier and seed)

var c12ConcWeights = [...]int{c12Join: 4, c12Accept: 5, c12Leave: 2, c12OK: 2, c12Fail: 1, c12Stale: 2, c12StaleOK: 1, c12Tick: 1, c12Rejoin: 0}

func c12RandOpt(r *vk.Rng, n int) c12BurstOpt {
	o := c12BurstOpt{Gate: r.Intn(3) != 0, Clock: int32(r.Intn(3))}
	for i := 0; i < n; i++ {
		d := int32(0)
		switch r.Intn(3) {
		case 1:
			d = int32(r.Intn(200))
		case 2:
			d = int32(r.Intn(3000))
		}
		o.Delays = append(o.Delays, d)
	}
	return o
}

func c12RandomConc(r *vk.Rng, max, nr, nsteps int, mode c12Mode) *c12ConcCase {
	c := &c12ConcCase{Max: max, NR: nr, Mode: mode, Family: "random"}
	al := c12Alphabet{StaleOK: !mode.Auto, NR: nr}
	m := c12Model{Max: max, Auto: mode.Auto}
	var buf [40]c12Ev
	pickW := func(evs []c12Ev) c12Ev {
		tot := 0
		for _, e := range evs {
			tot += c12ConcWeights[e.K]
		}
		k := r.Intn(tot)
		for _, e := range evs {
			k -= c12ConcWeights[e.K]
			if k < 0 {
				return e
			}
		}
		return evs[0]
	}
	for len(c.Steps) < nsteps {
		evs := append([]c12Ev{}, m.enabled(al, buf[:])...)
		var envs, rets []c12Ev
		retSeen := map[[2]int8]bool{}
		for _, e := range evs {
			switch e.K {
			case c12Join, c12Accept, c12Leave:
				envs = append(envs, e)
			case c12OK, c12Fail, c12Stale, c12StaleOK:
				rets = append(rets, e)
			}
		}
		var step []c12Ev
		if len(c.Steps) >= 2 && r.Intn(100) < 40 {
			takeRet := func() bool {
				for tries := 0; tries < 8 && len(rets) > 0; tries++ {
					e := rets[r.Intn(len(rets))]
					cls := [2]int8{e.P, 0}
					if e.K == c12Stale || e.K == c12StaleOK {
						cls[1] = 1
					}
					if !retSeen[cls] {
						retSeen[cls] = true
						step = append(step, e)
						return true
					}
				}
				return false
			}
			takeEnv := func() bool {
				if len(envs) == 0 {
					return false
				}
				step = append(step, pickW(envs))
				return true
			}
			switch k := r.Intn(100); {
			case k < 50:
				takeEnv()
				takeRet()
			case k < 65:
				takeRet()
				takeRet()
			case k < 80:
				takeEnv()
				takeRet()
				takeRet()
			case k < 88:
				step = append(step, c12Ev{K: c12Tick, P: -1})
				takeRet()
			case k < 95:
				step = append(step, c12Ev{K: c12Tick, P: -1})
				takeEnv()
				takeRet()
			default:
				step = append(step, c12Ev{K: c12Tick, P: -1})
				takeEnv()
			}
		}
		if len(step) < 2 {
			step = []c12Ev{pickW(evs)}
		}
		// the generator continues along one order: envelope, tick, returns
		ord := append([]c12Ev{}, step...)
		sort.SliceStable(ord, func(i, j int) bool {
			rank := func(e c12Ev) int {
				switch e.K {
				case c12Join, c12Accept, c12Leave:
					return 0
				case c12Tick:
					return 1
				}
				return 2
			}
			return rank(ord[i]) < rank(ord[j])
		})
		ok := true
		m2 := m
		for _, e := range ord {
			if m2, ok = c12ApplyEl(m2, e, false); !ok {
				break
			}
		}
		if !ok {
			continue
		}
		m = m2
		c.Steps = append(c.Steps, step)
		c.Opts = append(c.Opts, c12RandOpt(r, len(step)))
	}
	return c
}

// c12FullHouse builds the directed family: all slots busy, two receivers waiting, one more has
// joined; then one burst out of a fixed list of pair / triple shapes, then the rest is drained.
func c12FullHouse(r *vk.Rng, max int, mode c12Mode, burst string) *c12ConcCase {
	c := &c12ConcCase{Max: max, NR: max + 3, Mode: mode, Family: "full-house"}
	if c.NR > c12NRmax {
		c.NR = c12NRmax
	}
	seq := func(e c12Ev) {
		c.Steps = append(c.Steps, []c12Ev{e})
		c.Opts = append(c.Opts, c12BurstOpt{Clock: int32(r.Intn(3))})
	}
	n := int8(c.NR)
	for p := int8(0); p < n; p++ {
		seq(c12Ev{c12Join, p})
	}
	waiting := n - 1 // the last one has only joined
	for p := int8(0); p < waiting; p++ {
		seq(c12Ev{c12Accept, p})
	}
	x1, x2 := int8(0), int8(max-1) // receivers being served (x2 == x1 for max 1)
	q1, j := int8(max), int8(n-1)  // first waiting receiver, the joined one
	if int(q1) >= int(waiting) {   // max 3 with 5 receivers: one waiting receiver only
		q1 = waiting - 1
	}
	var st []c12Ev
	switch burst {
	case "return+accept":
		st = []c12Ev{{c12OK, x1}, {c12Accept, j}}
	case "fail+accept":
		st = []c12Ev{{c12Fail, x1}, {c12Accept, j}}
	case "return+leave-of-served":
		st = []c12Ev{{c12OK, x1}, {c12Leave, x2}}
	case "return+leave-of-waiting":
		st = []c12Ev{{c12OK, x1}, {c12Leave, q1}}
	case "leave-of-served":
		st = []c12Ev{{c12Leave, x1}}
	case "two-returns":
		st = []c12Ev{{c12OK, x1}, {c12Fail, x2}}
	case "two-returns+accept":
		st = []c12Ev{{c12OK, x1}, {c12Fail, x2}, {c12Accept, j}}
	case "return+tick":
		st = []c12Ev{{c12OK, x1}, {c12Tick, -1}}
	case "leave+late-return":
		// the served receiver leaves first (its transfer keeps unwinding), then the late return races with an accept
		seq(c12Ev{c12Leave, x1})
		st = []c12Ev{{c12Stale, x1}, {c12Accept, j}}
	}
	// drop duplicates (max 1: x1 == x2)
	var uniq []c12Ev
	for _, e := range st {
		dup := false
		for _, u := range uniq {
			if u.P == e.P && (u.K == e.K || (u.K <= c12Fail && u.K >= c12OK && e.K <= c12Fail && e.K >= c12OK)) {
				dup = true
			}
		}
		if !dup {
			uniq = append(uniq, e)
		}
	}
	c.Steps = append(c.Steps, uniq)
	c.Opts = append(c.Opts, c12RandOpt(r, len(uniq)))
	return c
}

var c12FullHouseBursts = []string{"return+accept", "fail+accept", "return+leave-of-served", "return+leave-of-waiting",
	"leave-of-served", "two-returns", "two-returns+accept", "return+tick", "leave+late-return"}

// ---------------------------------------------------------------------------

type c12ConcStats struct {
	Cases, Bursts, Overlapped, Truncated, ConcLeaves int64
	ByFamily                                         map[string]int
	ByProcs                                          map[string]int
	ByOpt                                            map[string]int
	MaxLive                                          [4]int32
	Fails                                            map[string]*c12ConcResult
	FailCount                                        map[string]int
	FailByOpt                                        map[string]int
}

// concurrent runs the concurrent-delivery part; n random histories plus reps x the directed family.
func (x *c12Explorer) concurrent(rng *vk.Rng, nRandom, reps int) *c12ConcStats {
	e := x.e
	st := &c12ConcStats{ByFamily: map[string]int{}, ByProcs: map[string]int{}, ByOpt: map[string]int{}, Fails: map[string]*c12ConcResult{}, FailCount: map[string]int{}, FailByOpt: map[string]int{}}
	modes := []c12Mode{{}, {Closer: 1}, {Auto: true}, {Closer: 2}}
	var cases []*c12ConcCase
	for rep := 0; rep < reps; rep++ {
		for max := 1; max <= 3; max++ {
			for _, md := range modes[:3] {
				for _, b := range c12FullHouseBursts {
					if md.Auto && b == "leave+late-return" {
						continue // no late returns to deliver: the transfer unwinds by itself
					}
					if !md.Auto && b == "leave-of-served" {
						continue // a single event: part of the sequential exploration
					}
					cases = append(cases, c12FullHouse(rng, max, md, b))
				}
			}
		}
	}
	for i := 0; i < nRandom; i++ {
		max := 1 + i%3
		nr := max + 2
		if i%2 == 1 && nr < c12NRmax {
			nr++
		}
		cases = append(cases, c12RandomConc(rng, max, nr, 8+rng.Intn(6), modes[i%len(modes)]))
	}
	// three GOMAXPROCS settings, interleaved case lists so that each sees every family
	procsOf := func(i int) int {
		switch i % 8 {
		case 0, 1:
			return 4
		case 2:
			return 2
		}
		return 0
	}
	orig := runtime.GOMAXPROCS(0)
	defer runtime.GOMAXPROCS(orig)
	var mu sync.Mutex
	for _, procs := range []int{0, 4, 2} {
		var idx []int
		for i := range cases {
			if procsOf(i) == procs {
				idx = append(idx, i)
			}
		}
		p := orig
		if procs > 0 && procs < orig {
			p = procs
		}
		runtime.GOMAXPROCS(p)
		workers := p // a burst has up to four participants plus the coordinator: fewer histories in flight than for the sequential parts
		if workers < 6 {
			workers = 6
		}
		vk.ParallelDo(len(idx), workers, func(k int) {
			x.withMode(c12Mode{}, func(w *c12Worker) {
				c := cases[idx[k]]
				r := w.runConc(c)
				if r.Skipped {
					atomic.AddInt64(&c12SkippedAfterStuck, 1)
					return
				}
				e.R.Eval()
				if r.Inconcl != "" {
					e.R.Inconcl(r.Inconcl)
					return
				}
				atomic.AddInt64(&st.Cases, 1)
				atomic.AddInt64(&st.Bursts, int64(r.Bursts))
				atomic.AddInt64(&st.Overlapped, int64(r.Overlapped))
				atomic.AddInt64(&st.ConcLeaves, int64(r.ConcLeaves))
				atomic.AddInt64(&x.events, int64(r.Executed))
				atomic.AddInt64(&x.starts, int64(r.Starts))
				atomic.AddInt64(&x.ts, int64(r.TS))
				atomic.AddInt64(&x.exits, int64(r.Exits))
				atomic.AddInt64(&x.closers, int64(r.Closers))
				atomic.AddInt64(&x.closersCalled, int64(r.ClosersHit))
				atomic.AddInt64(&x.autoRet, int64(r.AutoRet))
				if r.Truncated {
					atomic.AddInt64(&st.Truncated, 1)
				}
				for {
					old := atomic.LoadInt32(&st.MaxLive[c.Max])
					if int32(r.MaxLive) <= old || atomic.CompareAndSwapInt32(&st.MaxLive[c.Max], old, int32(r.MaxLive)) {
						break
					}
				}
				for _, s := range r.Shapes {
					e.R.Distinct(s)
				}
				mu.Lock()
				st.ByFamily[c.Family+"/stub="+c.Mode.String()]++
				st.ByProcs[fmt.Sprintf("GOMAXPROCS=%d", p)] += r.Bursts
				for i, s := range c.Steps {
					if len(s) > 1 && i < r.Executed {
						st.ByOpt[c.Opts[i].String()]++
					}
				}
				if r.FailAt > 0 {
					kind := c12Kinds(r.Viols)[0]
					key := fmt.Sprintf("concurrent:%s:max%d:%s%s", kind, c.Max, r.FailShape, c.Mode.keySuffix())
					st.FailCount[key]++
					st.FailByOpt[fmt.Sprintf("%s GOMAXPROCS=%d", r.OptsAtFail, p)]++
					if st.Fails[key] == nil {
						rc := r
						st.Fails[key] = &rc
					}
				}
				mu.Unlock()
			})
		})
	}
	runtime.GOMAXPROCS(orig)
	return st
}

// reportConc turns the refuted steps into violations: per violation kind the most frequent
// step shapes (at most 6 per kind; all keys with their counts are in the evidence).
func (x *c12Explorer) reportConc(st *c12ConcStats) {
	e := x.e
	byKind := map[string][]string{}
	for k := range st.Fails {
		kind := strings.SplitN(k, ":", 3)[1]
		byKind[kind] = append(byKind[kind], k)
	}
	var keys []string
	for _, ks := range byKind {
		sort.Slice(ks, func(i, j int) bool {
			if st.FailCount[ks[i]] != st.FailCount[ks[j]] {
				return st.FailCount[ks[i]] > st.FailCount[ks[j]]
			}
			return ks[i] < ks[j]
		})
		if len(ks) > 6 {
			ks = ks[:6]
		}
		keys = append(keys, ks...)
	}
	sort.Strings(keys)
	for _, k := range keys {
		r := st.Fails[k]
		var what []string
		for _, v := range r.Viols {
			what = append(what, v.Kind+": "+v.Detail)
		}
		e.R.Violate(k,
			fmt.Sprintf("max-receivers=%d, stub mode %s, history %s: after step %d (%s, receivers waiting before it: %d) no order of its events explains the observation: %s",
				r.Case.Max, r.Case.Mode, c12StepsStr(r.Case.Steps[:r.FailAt]), r.FailAt, r.FailShape, r.FailQueue, strings.Join(what, "; ")),
			map[string]any{"max": r.Case.Max, "stub_mode": r.Case.Mode.String(), "steps": c12StepsStr(r.Case.Steps[:r.FailAt]), "family": r.Case.Family,
				"failing_step_shape": r.FailShape, "schedule_of_failing_step": r.OptsAtFail, "times_seen_this_run": st.FailCount[k]},
			map[string]any{"violations": r.Viols, "observed": r.Obs, "closest_model_state": r.ModelStr, "candidate_orders_tried": r.CandsAtFail})
	}
}
