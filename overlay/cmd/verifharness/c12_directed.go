//go:build verif

package main

import (
	"errors"
	"fmt"
	"sync"
	"sync/atomic"
	"time"

	vk "github.com/sheerbytes/sheerbytes/internal/verifkit"
)

// Directed families for C12 that the exhaustive enumeration (events delivered
// one at a time at quiescence, alphabet without late nil returns) does not
// contain:
//
//  1. continuations (depth <= 3, late nil returns included) of the
//     leave/re-accept prefixes, i.e. histories in which a cancelled transfer of
//     a receiver is still unwinding while the same peer id is queued or
//     transferring again;
//  2. a failing transfer whose end-of-transfer bookkeeping is parked between
//     its two critical sections (the sender's progress mutex is held by the
//     harness) while leave / join / accept events for the same receiver are
//     handled, and is then released.

func (x *c12Explorer) directedContinuations(depth int) int {
	al := c12Alphabet{StaleOK: true}
	type pf struct {
		max int
		h   string
	}
	prefixes := []pf{
		{1, "Ja.Aa.La.Ja.Aa"},
		{1, "Ja.Aa.Jb.Ab.La.Ja.Aa"},
		{2, "Ja.Aa.Jb.Ab.La.Ja.Aa"},
		{2, "Ja.Aa.Jb.Ab.Jc.Ac.La.Ja.Aa"},
		{1, "Ja.Aa.Jb.Ab.La.Lb.Ja.Aa.Jb.Ab"},
	}
	var all []c12Case
	for _, p := range prefixes {
		h0 := c12Parse(p.h)
		m := c12Model{Max: p.max}
		ok := true
		for _, e := range h0 {
			if !m.isEnabled(c12Alphabet{StaleOK: true, Rejoin: true, AnyJoinID: true}, e) {
				ok = false
				break
			}
			m = m.apply(e, false)
		}
		if !ok {
			continue
		}
		var dfs func(m c12Model, h []c12Ev, d int)
		dfs = func(m c12Model, h []c12Ev, d int) {
			if d == 0 {
				all = append(all, c12Case{Max: p.max, Hist: append([]c12Ev{}, h...), Class: "directed-stale"})
				return
			}
			var buf [40]c12Ev
			evs := append([]c12Ev{}, m.enabled(al, buf[:])...)
			if len(evs) == 0 {
				all = append(all, c12Case{Max: p.max, Hist: append([]c12Ev{}, h...), Class: "directed-stale"})
				return
			}
			for _, e := range evs {
				dfs(m.apply(e, false), append(h, e), d-1)
			}
		}
		dfs(m, append([]c12Ev{}, h0...), depth)
	}
	vk.ParallelDo(len(all), c12Workers, func(i int) {
		x.with(func(w *c12Worker) {
			r := w.run(all[i].Max, all[i].Hist, false, false)
			x.account(&r, "directed-stale-continuations")
		})
	})
	return len(all)
}

// stalledReturn runs the parked-bookkeeping scenario once and reports what it saw.
type c12StallObs struct {
	Variant   string   `json:"variant"`
	Max       int      `json:"max"`
	Live      int      `json:"live_transfers"`
	Queue     []string `json:"queue"`
	Active    []string `json:"active"`
	Status    map[string]string
	Problem   string `json:"problem,omitempty"`
	Inconcl   string `json:"inconclusive,omitempty"`
	SlotOfNew bool   `json:"new_transfer_still_has_slot"`
	// the scenario could not be built: a delivery waited for the progress mutex the harness held
	NotConstructible bool   `json:"not_constructible,omitempty"`
	Stuck            string `json:"sender_stopped_handling_events,omitempty"`
	StuckDump        string `json:"goroutines_inside_the_sender,omitempty"`
	Skipped          bool   `json:"-"`
}

func (x *c12Explorer) stalledReturn(w *c12Worker, variant string) c12StallObs {
	out := c12StallObs{Variant: variant, Max: 1}
	if c12Abandoned() {
		out.Skipped = true
		return out
	}
	t0 := time.Now()
	lap := func(what string) {
		if d := time.Since(t0); d > 2*time.Second {
			vk.Logf("stalledReturn(%s): %s at %.1fs", variant, what, d.Seconds())
		}
	}
	in := c12NewInst(w.conn, 1)
	defer in.teardown()
	// stuck: the watched-delivery rule (c12_watch.go) has a verdict for this sender
	stuck := func() bool {
		if what := in.stuckWhat(); what != "" {
			out.Stuck = what
			in.wmu.Lock()
			out.StuckDump = in.stuckDump
			in.wmu.Unlock()
			return true
		}
		return false
	}
	step := func(e c12Ev) bool {
		in.do(e)
		if q := in.quiesce(); q != "" {
			if !stuck() {
				out.Inconcl = q
			}
			return false
		}
		return true
	}
	a, b := int8(0), int8(1)
	if !step(c12Ev{K: c12Join, P: a}) || !step(c12Ev{K: c12Accept, P: a}) {
		return out
	}
	inv := in.pick(a, true)
	if inv == nil {
		out.Inconcl = "first transfer of a did not start"
		return out
	}
	lap("first transfer running")
	releaseRaw := in.vs.HoldProgress()
	var relOnce sync.Once
	release := func() { relOnce.Do(releaseRaw) }
	in.wmu.Lock()
	in.holdRelease = release // a delivery that waits for this mutex gets it after a grace period (c12_watch.go)
	in.wmu.Unlock()
	released := false
	defer func() {
		if !released {
			release()
		}
	}()
	blocked := func() bool {
		in.wmu.Lock()
		defer in.wmu.Unlock()
		return in.heldBlocked
	}
	in.tell(inv, errors.New("stub transfer failed"))
	// wait until runTransfer has gone through its first critical section (status FAILED) and is parked in setSenderStage
	okParked := false
	deadline := time.Now().Add(c12Watchdog)
	for time.Now().Before(deadline) {
		in.mu.Lock()
		ret := in.returned >= in.told
		in.mu.Unlock()
		if ret {
			snap, ok := in.snapshot()
			if !ok {
				break
			}
			if snap.Status[in.full(a)] == "FAILED" {
				okParked = true
				break
			}
		}
		time.Sleep(200 * time.Microsecond)
	}
	if stuck() {
		return out
	}
	if blocked() {
		out.NotConstructible = true
		return out
	}
	if !okParked {
		out.Inconcl = "the failing transfer never returned into runTransfer"
		return out
	}
	lap("parked")
	// while it is parked: the receiver leaves, joins again and accepts again
	in.do(c12Ev{K: c12Leave, P: a})
	in.do(c12Ev{K: c12Join, P: a})
	in.do(c12Ev{K: c12Accept, P: a})
	if variant == "b-accepts-while-parked" {
		in.do(c12Ev{K: c12Join, P: b})
		in.do(c12Ev{K: c12Accept, P: b})
	}
	if stuck() {
		return out
	}
	if blocked() {
		// the event handlers of this tree take the progress mutex: the window cannot be held open
		out.NotConstructible = true
		return out
	}
	// the second transfer of a must be running now
	if !in.wait(func() bool {
		n := 0
		for _, v := range in.invs {
			if !v.told && v.peer == "a" {
				n++
			}
		}
		return n >= 1
	}, c12Watchdog) {
		out.Inconcl = "second transfer of a did not start while the first one's bookkeeping was parked"
		return out
	}
	lap("second transfer running")
	release()
	released = true
	in.wmu.Lock()
	in.holdRelease = nil
	in.wmu.Unlock()
	if q := in.quiesce(); q != "" {
		if !stuck() {
			out.Inconcl = q
		}
		return out
	}
	if variant != "b-accepts-while-parked" {
		if !step(c12Ev{K: c12Join, P: b}) || !step(c12Ev{K: c12Accept, P: b}) {
			return out
		}
	}
	lap("final quiescence")
	o := in.observe(0)
	if stuck() {
		return out
	}
	out.Live, out.Queue, out.Active, out.Status = o.Live, o.Queue, o.Active, o.Status
	for _, s := range o.Active {
		if s == "a" {
			out.SlotOfNew = true
		}
	}
	switch {
	case o.Live > 1:
		out.Problem = fmt.Sprintf("running-exceeds-max: %d live transfers with max-receivers 1", o.Live)
	case !out.SlotOfNew:
		out.Problem = "active-set-mismatch: the running second transfer of a has no slot (it can no longer be cancelled or counted)"
	case len(o.Queue) != 1 || o.Queue[0] != "b":
		out.Problem = fmt.Sprintf("queue-mismatch: b accepted while the only slot was busy but the queue is %v", o.Queue)
	}
	return out
}

func (x *c12Explorer) directedStalledReturns(n int) (runs int, samples []c12StallObs) {
	type res struct{ o c12StallObs }
	outs := make([]c12StallObs, n)
	vk.ParallelDo(n, 8, func(i int) {
		x.with(func(w *c12Worker) {
			v := "b-accepts-after-release"
			if i%2 == 1 {
				v = "b-accepts-while-parked"
			}
			outs[i] = x.stalledReturn(w, v)
		})
	})
	for i, o := range outs {
		if o.Skipped {
			atomic.AddInt64(&c12SkippedAfterStuck, 1)
			continue
		}
		x.e.R.Eval()
		if o.Stuck != "" {
			x.e.R.Violate("history:stalled-failing-return:sender-stops-handling-events:"+o.Stuck,
				"a failing transfer's bookkeeping was parked between its two critical sections while its receiver left, re-joined and re-accepted; the sender then stopped handling events ("+o.Stuck+" never returned although a fresh sender handled the same kinds of events promptly)",
				map[string]any{"variant": o.Variant, "events": "Ja Aa [F parked] La Ja Aa [release] Jb Ab", "max": 1}, o)
			continue
		}
		if o.NotConstructible {
			x.e.R.Count("directed_stalled_return_not_constructible")
			continue
		}
		if o.Inconcl != "" {
			x.e.R.Inconcl("stalled-return scenario: " + o.Inconcl)
			continue
		}
		runs++
		x.e.R.Distinct("stalled-failing-return/" + o.Variant)
		x.e.R.Count("histories:directed-stalled-return")
		if o.Problem != "" {
			kind := o.Problem
			if j := len(kind); j > 0 {
				for k := 0; k < len(kind); k++ {
					if kind[k] == ':' {
						kind = kind[:k]
						break
					}
				}
			}
			x.e.R.Violate("history:stalled-failing-return:"+kind,
				"a failing transfer's bookkeeping was parked between its two critical sections while its receiver left, re-joined and re-accepted: "+o.Problem,
				map[string]any{"variant": o.Variant, "events": "Ja Aa [F parked] La Ja Aa [release] Jb Ab", "max": 1}, o)
		}
		if i < 2 {
			samples = append(samples, o)
		}
	}
	return runs, samples
}
