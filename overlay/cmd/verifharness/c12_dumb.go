//go:build verif

package main

// C12, real transfer work: the raw multi-connection data phase
// (`thru host --dumb --dumb-connections N`, N >= 2).
//
// The scheduler equates "the transfer function returned" with "this transfer no
// longer uses the host": runTransfer frees the slot and starts the next queued
// receiver. Whether the transfer FUNCTIONS keep that contract is invisible to a
// stub. Here the function handed to the scheduler registers a connection closer
// (as runICEQUICTransfer does after connect_ok) and then runs the REAL
// sendDumbDataMulti over N fake transfer.Conn objects per receiver. The fake
// streams record every Write (receiver, part, bytes) in one sequence-numbered log
// together with the starts and returns of the transfer functions; data writes
// park at a gate the harness opens, and one part of one receiver can fail
// (OpenStream error, write error in the header, at the first or a later data
// block) - a path loss or receiver-side reset of one of the connections.
//
// History: M = max-receivers receivers are served, 1-2 more have accepted and wait.
// One part of a served receiver fails while its other parts are mid-transfer. The
// gates of the remaining parts are opened one block at a time; when the receiver's
// transfer function has returned and the scheduler has started the next receiver,
// they are opened completely.
//
// Oracle, observed at the connections (order-free, evaluated on the log): at every
// start of a transfer function, the receivers whose function is running plus the
// receivers whose function HAS RETURNED but on whose connections bytes are written
// after that start must not exceed max-receivers (raw transfer work for receiver a
// still streaming while b is being served = two simultaneous transfers with max 1).
// Bytes written by a function that is still unwinding after its receiver left are
// not judged here (as in the stub parts: cancelled = context done).
//
// The grace periods below only decide how long the harness waits before it opens a
// gate; they cannot produce a verdict (a tree that returns early is caught when its
// return comes before the gates are open, otherwise the case counts as not
// discriminating and is reported as such).

import (
	"context"
	"errors"
	"fmt"
	"net"
	"sync"
	"sync/atomic"
	"time"

	"github.com/sheerbytes/sheerbytes/internal/app"
	"github.com/sheerbytes/sheerbytes/internal/transfer"
	vk "github.com/sheerbytes/sheerbytes/internal/verifkit"
)

const c12DumbBlock = 1 << 20 // dumbCopyBufferSize: one Write of the data pump

type c12DumbCase struct {
	Max      int    `json:"max"`
	Conns    int    `json:"connections"`
	Waiting  int    `json:"waiting_receivers"`
	FailRecv int    `json:"failing_receiver"` // index among the served ones
	FailPart int    `json:"failing_part"`
	FailKind string `json:"fail_kind"` // open-stream | header-write | first-data-block | later-data-block | none
	Blocks   int    `json:"data_blocks_per_part"`
}

func (c c12DumbCase) class() string {
	return fmt.Sprintf("max%d:conns%d:part-%s-error", c.Max, c.Conns, c.FailKind)
}

type c12DumbEv struct {
	Seq  int    `json:"seq"`
	Kind string `json:"kind"` // fn-start fn-return open close write part-error
	Recv string `json:"receiver"`
	Part int    `json:"part,omitempty"`
	N    int    `json:"bytes,omitempty"`
}

type c12DumbPart struct {
	recv        string
	idx         int
	fail        string
	gated       bool
	allow       int // data writes the gate lets through
	open        bool
	parked      bool
	opened      bool
	closed      bool
	failed      bool
	writes      int
	dataWrites  int
	bytes       int64
	cancelledAt int // OpenStream saw a cancelled context
}

type c12Dumb struct {
	in   *c12Inst
	c    c12DumbCase
	size int64

	mu      sync.Mutex
	cond    *sync.Cond
	seq     int
	log     []c12DumbEv
	parts   map[string][]*c12DumbPart
	started map[string]int
	retd    map[string]int
	reterr  map[string]string
	dead    bool
}

func (d *c12Dumb) ev(kind, recv string, part, n int) int {
	d.seq++
	d.log = append(d.log, c12DumbEv{Seq: d.seq, Kind: kind, Recv: recv, Part: part, N: n})
	return d.seq
}

// waitSiblings (d.mu held): the part fails while the receiver's other parts are mid-transfer
// (parked at their gates), not before they have opened their streams.
func (d *c12Dumb) waitSiblings(p *c12DumbPart) {
	for !d.dead {
		ok := true
		for _, q := range d.parts[p.recv] {
			if q != p && !q.parked && !q.closed {
				ok = false
			}
		}
		if ok {
			return
		}
		d.cond.Wait()
	}
}

type c12FakeConn struct {
	d *c12Dumb
	p *c12DumbPart
}

type c12FakeStream struct {
	d *c12Dumb
	p *c12DumbPart
}

func (c *c12FakeConn) OpenStream(ctx context.Context) (transfer.Stream, error) {
	d, p := c.d, c.p
	d.mu.Lock()
	defer d.mu.Unlock()
	defer d.cond.Broadcast()
	defer d.in.notify()
	if err := ctx.Err(); err != nil {
		p.cancelledAt = d.ev("open-cancelled", p.recv, p.idx, 0)
		p.closed = true
		return nil, err
	}
	if p.fail == "open-stream" {
		d.waitSiblings(p)
		p.failed, p.closed = true, true
		d.ev("part-error", p.recv, p.idx, 0)
		return nil, errors.New("fake connection: stream refused")
	}
	p.opened = true
	d.ev("open", p.recv, p.idx, 0)
	return &c12FakeStream{d: d, p: p}, nil
}

func (c *c12FakeConn) AcceptStream(ctx context.Context) (transfer.Stream, error) {
	return nil, errors.New("fake connection: no incoming streams")
}
func (c *c12FakeConn) RemoteAddr() net.Addr { return &net.UDPAddr{IP: net.IPv4(127, 0, 0, 1), Port: 9} }
func (c *c12FakeConn) Close() error         { return nil }

func (s *c12FakeStream) Read(b []byte) (int, error) { return 0, errors.New("fake stream: nothing to read") }

func (s *c12FakeStream) Close() error {
	d, p := s.d, s.p
	d.mu.Lock()
	if !p.closed {
		p.closed = true
		d.ev("close", p.recv, p.idx, 0)
	}
	d.mu.Unlock()
	d.cond.Broadcast()
	d.in.notify()
	return nil
}

func (s *c12FakeStream) Write(b []byte) (int, error) {
	d, p := s.d, s.p
	d.mu.Lock()
	defer d.mu.Unlock()
	p.writes++
	data := len(b) >= 64<<10
	if data {
		p.dataWrites++
	}
	failNow := false
	switch p.fail {
	case "header-write":
		failNow = p.writes == 2
	case "first-data-block":
		failNow = data && p.dataWrites == 1
	case "later-data-block":
		failNow = data && p.dataWrites == 2
	}
	if failNow {
		d.waitSiblings(p)
		p.failed = true
		d.ev("part-error", p.recv, p.idx, 0)
		d.cond.Broadcast()
		d.in.notify()
		return 0, errors.New("fake connection: reset by peer")
	}
	if data && p.gated {
		for !p.open && p.allow == 0 && !d.dead {
			p.parked = true
			d.cond.Broadcast()
			d.in.notify()
			d.cond.Wait()
		}
		p.parked = false
		if p.allow > 0 {
			p.allow--
		}
	}
	p.bytes += int64(len(b))
	d.ev("write", p.recv, p.idx, len(b))
	d.in.notify()
	return len(b), nil
}

// realFn is what the scheduler runs in a slot.
func (d *c12Dumb) realFn(ctx context.Context, peer string) error {
	_, short := c12InstOf(peer)
	if short == "" {
		return errors.New("harness instance torn down")
	}
	d.in.vs.SetTransferCloser(peer, func() {})
	d.mu.Lock()
	parts := d.parts[short]
	conns := make([]transfer.Conn, len(parts))
	for i, p := range parts {
		conns[i] = &c12FakeConn{d: d, p: p}
	}
	d.started[short]++
	d.ev("fn-start", short, 0, 0)
	d.mu.Unlock()
	d.in.notify()
	err := d.in.vs.VerifSendDumbDataMulti(ctx, peer, conns, "mem.bin", d.size)
	d.mu.Lock()
	d.retd[short]++
	if err != nil {
		d.reterr[short] = "error"
	} else {
		d.reterr[short] = "nil"
	}
	d.ev("fn-return", short, 0, 0)
	d.mu.Unlock()
	d.in.notify()
	return err
}

type c12DumbOut struct {
	Case          c12DumbCase
	Skipped       bool
	Inconcl       string
	Stuck         string
	StuckDump     string
	Problem       string // violation kind
	Detail        string
	Log           []c12DumbEv
	Bytes         int64
	ReturnedEarly bool // the failing receiver's function returned while other parts of it were still in flight
	NextStarted   bool
	LateBytes     int64
	Statuses      map[string]string
}

func (w *c12Worker) dumbOnce(c c12DumbCase) (out c12DumbOut) {
	out.Case = c
	if c12Abandoned() {
		out.Skipped = true
		return
	}
	in := c12NewInstMode(w.conn, c.Max, c12Mode{})
	d := &c12Dumb{in: in, c: c, size: int64(c.Conns*c.Blocks) * c12DumbBlock, parts: map[string][]*c12DumbPart{},
		started: map[string]int{}, retd: map[string]int{}, reterr: map[string]string{}}
	d.cond = sync.NewCond(&d.mu)
	in.realFn = d.realFn
	defer func() {
		d.mu.Lock()
		d.dead = true
		out.Log = append([]c12DumbEv{}, d.log...)
		if len(out.Log) > 120 {
			out.Log = out.Log[:120]
		}
		d.mu.Unlock()
		d.cond.Broadcast()
		in.teardown()
	}()
	nr := c.Max + c.Waiting
	name := func(i int) string { return string(rune('a' + i)) }
	failName := "-"
	for i := 0; i < nr; i++ {
		var ps []*c12DumbPart
		for k := 0; k < c.Conns; k++ {
			p := &c12DumbPart{recv: name(i), idx: k + 1, gated: true}
			if c.FailKind != "none" && i == c.FailRecv && k == c.FailPart {
				p.fail, p.gated = c.FailKind, false
				failName = name(i)
			}
			ps = append(ps, p)
		}
		d.parts[name(i)] = ps
	}
	stuck := func() bool {
		if what := in.stuckWhat(); what != "" {
			out.Stuck = what
			in.wmu.Lock()
			out.StuckDump = in.stuckDump
			in.wmu.Unlock()
			return true
		}
		return false
	}
	for i := 0; i < nr; i++ {
		in.do(c12Ev{K: c12Join, P: int8(i)})
		in.do(c12Ev{K: c12Accept, P: int8(i)})
		if h := in.halted(); h != "" {
			if !stuck() {
				out.Inconcl = h
			}
			return
		}
	}
	// waitD: predicate over the connection log (d.mu held inside), woken by in.notify
	waitD := func(pred func() bool, dur time.Duration) bool {
		return in.wait(func() bool {
			d.mu.Lock()
			defer d.mu.Unlock()
			return pred()
		}, dur)
	}
	inPosition := func() bool {
		n := 0
		for i := 0; i < c.Max; i++ {
			if d.started[name(i)] == 0 {
				return false
			}
			n++
			for _, p := range d.parts[name(i)] {
				if p.fail != "" {
					if !p.failed {
						return false
					}
				} else if !p.parked && !p.closed {
					return false
				}
			}
		}
		return n == c.Max
	}
	if !waitD(inPosition, c12Watchdog) {
		out.Inconcl = fmt.Sprintf("real-dumb %s: the served receivers' parts never reached their gates", c.class())
		return
	}
	openAll := func(recv string) {
		d.mu.Lock()
		for _, p := range d.parts[recv] {
			p.open = true
		}
		d.mu.Unlock()
		d.cond.Broadcast()
	}
	next := name(c.Max) // the receiver at the head of the queue
	if failName != "-" {
		returned := func() bool { return d.retd[failName] > 0 }
		inFlight := func() int {
			n := 0
			for _, p := range d.parts[failName] {
				if p.opened && !p.closed {
					n++
				}
			}
			return n
		}
		// the function must not return while parts of it are in flight; give it time to do the wrong thing
		early := waitD(returned, 400*time.Millisecond)
		for step := 0; !early && step < c.Blocks+1; step++ {
			d.mu.Lock()
			left := inFlight()
			for _, p := range d.parts[failName] {
				if p.gated {
					p.allow++
				}
			}
			d.mu.Unlock()
			d.cond.Broadcast()
			if left == 0 {
				break
			}
			early = waitD(func() bool { return returned() && inFlight() > 0 }, 40*time.Millisecond)
		}
		if !waitD(returned, c12Watchdog) {
			openAll(failName)
			if !waitD(returned, c12Watchdog) {
				out.Inconcl = fmt.Sprintf("real-dumb %s: the transfer function of the receiver whose part failed never returned", c.class())
				return
			}
		}
		d.mu.Lock()
		out.ReturnedEarly = inFlight() > 0
		d.mu.Unlock()
		// a slot is free and somebody waits: the scheduler starts the next receiver
		if !waitD(func() bool { return d.started[next] > 0 }, c12Watchdog) {
			if !stuck() {
				out.Inconcl = fmt.Sprintf("real-dumb %s: the next queued receiver was not started after the failed transfer had returned", c.class())
			}
			return
		}
		out.NextStarted = true
		// whatever of the failed transfer is still in flight may run now
		openAll(failName)
		if !waitD(func() bool { return inFlight() == 0 }, c12Watchdog) {
			out.Inconcl = fmt.Sprintf("real-dumb %s: part senders of the failed transfer never ended after their gates were opened", c.class())
			return
		}
	}
	// oracle on the log
	d.mu.Lock()
	{
		running := map[string]bool{}
		retSeq := map[string]int{}
		lastWrite := map[string]int{}
		for _, e := range d.log {
			if e.Kind == "write" {
				lastWrite[e.Recv] = e.Seq
			}
		}
		for _, e := range d.log {
			switch e.Kind {
			case "fn-start":
				running[e.Recv] = true
				work := []string{}
				for r := range running {
					work = append(work, r)
				}
				var late []string
				for r, rs := range retSeq {
					if !running[r] && rs < e.Seq && lastWrite[r] > e.Seq {
						late = append(late, r)
					}
				}
				if len(work)+len(late) > c.Max && out.Problem == "" {
					var lb int64
					for _, w := range d.log {
						if w.Kind == "write" && w.Seq > e.Seq {
							for _, r := range late {
								if w.Recv == r {
									lb += int64(w.N)
								}
							}
						}
					}
					out.LateBytes = lb
					out.Problem = "running-exceeds-max"
					out.Detail = fmt.Sprintf("when the transfer function for receiver %s started (log seq %d) the functions of %v were running and %d bytes were still written afterwards on the connections of %v, whose transfer function had already returned (its slot was handed on): %d simultaneous transfers, max-receivers is %d",
						e.Recv, e.Seq, work, lb, late, len(work)+len(late), c.Max)
				}
			case "fn-return":
				delete(running, e.Recv)
				retSeq[e.Recv] = e.Seq
			}
		}
	}
	d.mu.Unlock()
	// let everything finish: every receiver is served in turn, the real data pump writes size bytes each
	for i := 0; i < nr; i++ {
		openAll(name(i))
	}
	if !waitD(func() bool {
		for i := 0; i < nr; i++ {
			if d.retd[name(i)] == 0 {
				return false
			}
		}
		return true
	}, c12Watchdog) {
		if !stuck() && out.Problem == "" {
			out.Inconcl = fmt.Sprintf("real-dumb %s: not every receiver was served after all gates were open", c.class())
		}
		return
	}
	if !in.wait(func() bool { return in.exits >= nr }, c12Watchdog) {
		if out.Problem == "" {
			out.Inconcl = fmt.Sprintf("real-dumb %s: runTransfer did not finish its bookkeeping", c.class())
		}
		return
	}
	snap, ok := in.snapshot()
	if !ok {
		stuck()
		return
	}
	out.Statuses = map[string]string{}
	d.mu.Lock()
	for i := 0; i < nr; i++ {
		n := name(i)
		st := snap.Status[in.full(int8(i))]
		out.Statuses[n] = st
		var b int64
		for _, p := range d.parts[n] {
			b += p.bytes
		}
		out.Bytes += b
		want := app.ReceiverStatusDone
		if n == failName {
			want = app.ReceiverStatusFailed
		}
		if out.Problem == "" {
			switch {
			case st != want:
				out.Problem = "status-mismatch"
				out.Detail = fmt.Sprintf("receiver %s: its transfer function returned %s but its status is %s (expected %s)", n, d.reterr[n], st, want)
			case d.started[n] != 1:
				out.Problem = "transferstart-not-once-per-start"
				out.Detail = fmt.Sprintf("receiver %s: its transfer function ran %d times", n, d.started[n])
			case n != failName && b < d.size:
				out.Problem = "short-transfer"
				out.Detail = fmt.Sprintf("receiver %s: DONE after %d of %d bytes on its connections", n, b, d.size)
			}
		}
	}
	d.mu.Unlock()
	if out.Problem == "short-transfer" {
		out.Problem, out.Detail = "", "" // not C12's business (recorded in the log only)
	}
	if len(snap.Queue) > 0 || len(snap.Active) > 0 {
		if out.Problem == "" {
			out.Problem = "state-two-or-none"
			out.Detail = fmt.Sprintf("every transfer function has returned but queue=%v active=%v", snap.Queue, snap.Active)
		}
	}
	return
}

type c12DumbStats struct {
	Cases, Discriminating, NextStarted int64
	Bytes                              int64
	ByClass                            map[string]int
}

func (x *c12Explorer) realDumb(rng *vk.Rng, perCell int) *c12DumbStats {
	e := x.e
	st := &c12DumbStats{ByClass: map[string]int{}}
	var cases []c12DumbCase
	for max := 1; max <= 2; max++ {
		for conns := 2; conns <= 4; conns++ {
			for _, kind := range []string{"open-stream", "header-write", "first-data-block", "later-data-block", "none"} {
				n := perCell
				if kind == "none" {
					n = 1
				}
				for k := 0; k < n; k++ {
					cases = append(cases, c12DumbCase{Max: max, Conns: conns, Waiting: 1 + rng.Intn(2), FailRecv: rng.Intn(max),
						FailPart: rng.Intn(conns), FailKind: kind, Blocks: 2 + rng.Intn(2)})
				}
			}
		}
	}
	outs := make([]c12DumbOut, len(cases))
	vk.ParallelDo(len(cases), 12, func(i int) {
		x.with(func(w *c12Worker) {
			for attempt := 0; attempt < 2; attempt++ {
				outs[i] = w.dumbOnce(cases[i])
				if outs[i].Inconcl == "" {
					break
				}
				atomic.AddInt64(&c12WatchdogRetries, 1)
				if cn, err := wsclientRedial(w); err == nil {
					old := w.conn
					w.conn = cn
					go func() { _ = old.Close() }()
				}
			}
		})
	})
	reported := map[string]bool{}
	for i, o := range outs {
		c := cases[i]
		if o.Skipped {
			atomic.AddInt64(&c12SkippedAfterStuck, 1)
			continue
		}
		e.R.Eval()
		if o.Stuck != "" {
			key := "real-dumb:sender-stops-handling-events:" + c.class()
			if !reported[key] {
				reported[key] = true
				e.R.Violate(key, "real sendDumbDataMulti over fake connections: "+o.Stuck+" never returned although a fresh sender handled the same kinds of events promptly", c,
					map[string]any{"goroutines_inside_the_sender": o.StuckDump, "connection_log": o.Log})
			}
			continue
		}
		if o.Inconcl != "" {
			e.R.Inconcl(o.Inconcl)
			continue
		}
		st.Cases++
		st.Bytes += o.Bytes
		st.ByClass[c.class()]++
		if o.NextStarted {
			st.NextStarted++
		}
		e.R.Count("histories:real-dumb")
		e.R.Distinct(fmt.Sprintf("real-dumb:%s:w%d:r%d:p%d:b%d", c.class(), c.Waiting, c.FailRecv, c.FailPart, c.Blocks))
		if i%16 == 0 {
			e.R.Sample(map[string]any{"class": "real sendDumbDataMulti over fake connections", "case": c, "statuses": o.Statuses, "bytes_written_on_all_connections": o.Bytes,
				"function_returned_with_parts_in_flight": o.ReturnedEarly, "log_head": o.Log[:minInt(len(o.Log), 24)]})
		}
		if o.Problem != "" {
			key := fmt.Sprintf("real-dumb:%s:%s", o.Problem, c.class())
			if !reported[key] {
				reported[key] = true
				e.R.Violate(key, fmt.Sprintf("raw multi-connection transfer (--dumb --dumb-connections %d), max-receivers=%d, %d receivers served + %d waiting, part %d of receiver %c fails (%s) while its other parts are mid-transfer: %s",
					c.Conns, c.Max, c.Max, c.Waiting, c.FailPart+1, 'a'+c.FailRecv, c.FailKind, o.Detail), c,
					map[string]any{"connection_log": o.Log, "statuses": o.Statuses, "bytes_written_after_the_next_start_on_connections_of_a_returned_transfer": o.LateBytes})
			}
		}
	}
	return st
}
