//go:build verif

package main

// C12, stress part: many truly concurrent entries into the scheduler.
//
// One goroutine plays the WebSocket read loop and feeds a real SnapshotSender a
// long random stream of peer_joined / manifest_accept / peer_left envelopes for
// five receivers without waiting for anything; the stub transfers finish by
// themselves after a few yields (nil, now and then an error), so that every
// end of a transfer re-enters the scheduler from its own goroutine while the
// read loop is inside it as well; a third goroutine runs cleanup ticks. There
// is no reference model here (no order of the events is known); the oracle is
// what the property demands under every order, observed at the stub itself:
//
//   - at each start a stub counts the transfer functions running with a live
//     context (itself included): never more than max-receivers;
//   - when the delivery of a peer_left has returned, every transfer function of
//     that receiver that was running before the delivery began has a cancelled context;
//   - once the stream has ended and everything has drained (hook counts + marker
//     round trip, as in c12.go): nothing queued while a slot is free, every
//     receiver in exactly one state.
//
// The length of a stream is a number of envelopes (pure function of tier and
// seed), never a duration.

import (
	"fmt"
	"runtime"
	"sync"
	"sync/atomic"
	"time"

	"github.com/sheerbytes/sheerbytes/internal/app"
	vk "github.com/sheerbytes/sheerbytes/internal/verifkit"
	"github.com/sheerbytes/sheerbytes/pkg/protocol"
)

type c12StressOut struct {
	Max, NR     int
	Envelopes   int
	Leaves      int
	LeavesOfRun int // leaves that found a transfer function of the leaver running
	Starts      int
	Exits       int
	MaxLive     int
	Closers     int
	ClosersHit  int
	Ticks       int
	Inconcl     string
	Bench       bool
	BenchTicks  int64
	Skipped     bool
	StuckDump   string
	Viols       []c12Viol
	Obs         *c12Obs
}

func (w *c12Worker) stressOnce(max, nr, nEnv int, seed uint64, bench bool) c12StressOut {
	out := c12StressOut{Max: max, NR: nr, Bench: bench}
	if c12Abandoned() {
		out.Skipped = true
		return out
	}
	in := c12NewInstMode(w.conn, max, c12Mode{Self: true, Bench: bench})
	defer in.teardown()
	r := vk.NewRng(seed)
	add := func(kind, peer, format string, a ...any) {
		if len(out.Viols) < 8 {
			out.Viols = append(out.Viols, c12Viol{Kind: kind, Peer: peer, Detail: fmt.Sprintf(format, a...)})
		}
	}
	stop := make(chan struct{})
	var wg sync.WaitGroup
	wg.Add(1)
	go func() { // cleanupLoop: a tick every so many envelopes of the stream
		defer wg.Done()
		last := int64(0)
		for {
			select {
			case <-stop:
				return
			default:
			}
			if n := atomic.LoadInt64(&in.stressSent); n-last >= 64 {
				last = n
				atomic.AddInt64(&in.clock, int64(6*time.Minute))
				if !in.call("cleanup-tick", func() { in.vs.Cleanup() }) {
					return
				}
				out.Ticks++
			}
			time.Sleep(50 * time.Microsecond)
		}
	}()
	if bench { // startBenchmarkLoop + the progress renderer: a tick and a frame every few envelopes of the stream
		wg.Add(1)
		go func() {
			defer wg.Done()
			last := int64(-1)
			for {
				select {
				case <-stop:
					return
				default:
				}
				if n := atomic.LoadInt64(&in.stressSent); n != last {
					last = n
					if !in.call("benchmark-tick", func() { in.vs.TickBenchmarks(time.Now()); in.vs.RenderView() }) {
						return
					}
					atomic.AddInt64(&in.benchTicks, 1)
				} else {
					runtime.Gosched()
				}
			}
		}()
	}
	member := make([]bool, nr)
	send := func(typ string, payload any, from string) {
		atomic.AddInt64(&in.clock, int64(time.Millisecond))
		env := in.envelope(typ, payload, from)
		what := map[string]string{protocol.TypePeerJoined: "join", protocol.TypeManifestAccept: "accept", protocol.TypePeerLeft: "leave"}[typ]
		in.call(what, func() { in.vs.HandleEnvelope(in.ctx, env) })
		atomic.AddInt64(&in.stressSent, 1)
		out.Envelopes++
	}
	stuck := func() bool {
		what := in.stuckWhat()
		if what == "" {
			return false
		}
		in.wmu.Lock()
		out.StuckDump = in.stuckDump
		in.wmu.Unlock()
		add("sender-stops-handling-events", "", "%s had not returned after %s and still had not %s later, while a fresh sender of the same configuration went through join, accept, cleanup tick, leave and a state snapshot in between (envelope %d of the stream): the sender no longer handles events", what, c12DeliverWatchdog, c12DeliverWatchdog/2, out.Envelopes)
		out.BenchTicks = atomic.LoadInt64(&in.benchTicks)
		return true
	}
	for out.Envelopes < nEnv && in.halted() == "" {
		p := int8(r.Intn(nr))
		switch {
		case !member[p]:
			member[p] = true
			send(protocol.TypePeerJoined, protocol.PeerJoined{Peer: protocol.PeerInfo{PeerID: in.full(p), Role: "receiver"}}, "server")
			send(protocol.TypeManifestAccept, protocol.ManifestAccept{ManifestID: "manifest-" + in.id, Mode: "all"}, in.full(p))
		case r.Intn(100) < 12:
			member[p] = false
			name := string(rune('a' + p))
			in.mu.Lock()
			var before []*c12Inv
			for _, inv := range in.invs {
				if inv.peer == name && !inv.told {
					before = append(before, inv)
				}
			}
			in.mu.Unlock()
			send(protocol.TypePeerLeft, protocol.PeerLeft{PeerID: in.full(p)}, "server")
			out.Leaves++
			if len(before) > 0 {
				out.LeavesOfRun++
			}
			for _, inv := range before {
				if in.halted() != "" {
					break // the delivery of the leave never returned: judged by the watched-delivery rule
				}
				in.mu.Lock()
				told := inv.told
				in.mu.Unlock()
				if !told && inv.ctx.Err() == nil {
					add("left-transfer-not-cancelled", name, "peer_left for %s has been handled but its transfer function #%d (running since before the leave, closer registered: %v) still has a live context", name, inv.seq, inv.closer)
				}
			}
		default:
			send(protocol.TypeManifestAccept, protocol.ManifestAccept{ManifestID: "manifest-" + in.id, Mode: "all"}, in.full(p))
		}
	}
	close(stop)
	if stuck() {
		return out
	}
	wgDone := make(chan struct{})
	go func() { wg.Wait(); close(wgDone) }()
	if !in.watch("cleanup-or-benchmark-tick", wgDone) {
		if !stuck() {
			out.Inconcl = fmt.Sprintf("stress max=%d: %s", max, in.halted())
		}
		return out
	}
	out.BenchTicks = atomic.LoadInt64(&in.benchTicks)
	// drain: the transfers finish by themselves and every end re-dispatches; settled when a
	// full quiescence round saw no new TransferStart
	for round := 0; ; round++ {
		in.mu.Lock()
		ts0, inv0, ex0 := in.tsTotal, len(in.invs), in.exits
		in.mu.Unlock()
		if why := in.quiesce(); why != "" {
			if !stuck() {
				out.Inconcl = fmt.Sprintf("stress max=%d: %s", max, why)
			}
			return out
		}
		in.mu.Lock()
		// nothing moved during a whole round (a TransferStart sent after this round's marker, whose
		// stub started and ended before the marker came back, shows up as a changed start count now
		// and as a changed message count in the next round)
		settled := in.tsTotal == ts0 && len(in.invs) == inv0 && in.exits == ex0 && in.exits >= len(in.invs) && len(in.invs) >= in.tsTotal
		in.mu.Unlock()
		if settled {
			break
		}
		if round > 10000 {
			out.Inconcl = fmt.Sprintf("stress max=%d: the sender kept starting transfers after the stream had ended", max)
			return out
		}
	}
	o := in.observe(0)
	if stuck() {
		return out
	}
	out.Obs = &o
	out.MaxLive = o.MaxLiveAtStart
	if len(o.Overshoot) > max {
		add("running-exceeds-max", "", "a stub transfer found %d transfer functions running with a live context when it started (itself included), max-receivers is %d: %v", len(o.Overshoot), max, o.Overshoot)
	}
	if o.Live > max {
		add("running-exceeds-max", "", "%d stub transfers run with a live context after the drain, max-receivers is %d", o.Live, max)
	}
	if len(o.Queue) > 0 && len(o.Active) < max {
		add("queued-while-slot-free", o.Queue[0], "after the drain: queue %v while %d of %d slots are taken", o.Queue, len(o.Active), max)
	}
	for n, st := range o.Status {
		inQ, inA := c12In(o.Queue, n) > 0, c12In(o.Active, n) > 0
		switch {
		case (st == app.ReceiverStatusQueued) != inQ:
			add("state-two-or-none", n, "after the drain: %s has status %s but queue membership is %v", n, st, inQ)
		case (st == app.ReceiverStatusTransferring) != inA:
			add("state-two-or-none", n, "after the drain: %s has status %s but slot ownership is %v", n, st, inA)
		}
	}
	for _, n := range append(append([]string{}, o.Queue...), o.Active...) {
		if _, ok := o.Status[n]; !ok {
			add("state-two-or-none", n, "after the drain: %s is queued or holds a slot but has no receiver record", n)
		}
	}
	for p := 0; p < nr; p++ {
		n := string(rune('a' + p))
		if o.TS[n] != o.Starts[n] {
			add("transferstart-not-once-per-start", n, "%d TransferStart messages to %s for %d transfer starts", o.TS[n], n, o.Starts[n])
		}
	}
	in.mu.Lock()
	out.Starts, out.Exits, out.Closers = len(in.invs), in.exits, in.closerRegs
	for _, inv := range in.invs {
		if atomic.LoadInt32(&inv.closerCalls) > 0 {
			out.ClosersHit++
		}
	}
	in.mu.Unlock()
	return out
}

type c12StressStats struct {
	Streams, Envelopes, Starts, Leaves, LeavesOfRun, Ticks, ClosersHit, BenchTicks int64
	MaxLive                                                            [4]int32
	FailCount                                                          map[string]int
}

func (x *c12Explorer) stress(rng *vk.Rng, streams, nEnv int, bench bool) *c12StressStats {
	e := x.e
	st := &c12StressStats{FailCount: map[string]int{}}
	seeds := make([]uint64, streams)
	for i := range seeds {
		seeds[i] = rng.U64()
	}
	var mu sync.Mutex
	first := map[string]c12StressOut{}
	vk.ParallelDo(streams, 8, func(i int) {
		x.withMode(c12Mode{}, func(w *c12Worker) {
			max := 1 + i%3
			var o c12StressOut
			for attempt := 0; attempt < 2; attempt++ {
				o = w.stressOnce(max, c12NRmax, nEnv, seeds[i], bench)
				if o.Inconcl == "" {
					break
				}
				atomic.AddInt64(&c12WatchdogRetries, 1)
				if cn, err := wsclientRedial(w); err == nil {
					old := w.conn
					w.conn = cn
					go func() { _ = old.Close() }()
				}
			}
			if o.Skipped {
				atomic.AddInt64(&c12SkippedAfterStuck, 1)
				return
			}
			e.R.Eval()
			if o.Inconcl != "" {
				e.R.Inconcl(o.Inconcl)
				return
			}
			atomic.AddInt64(&st.Streams, 1)
			atomic.AddInt64(&st.BenchTicks, o.BenchTicks)
			atomic.AddInt64(&st.Envelopes, int64(o.Envelopes))
			atomic.AddInt64(&st.Starts, int64(o.Starts))
			atomic.AddInt64(&st.Leaves, int64(o.Leaves))
			atomic.AddInt64(&st.LeavesOfRun, int64(o.LeavesOfRun))
			atomic.AddInt64(&st.Ticks, int64(o.Ticks))
			atomic.AddInt64(&st.ClosersHit, int64(o.ClosersHit))
			atomic.AddInt64(&x.starts, int64(o.Starts))
			atomic.AddInt64(&x.exits, int64(o.Exits))
			for {
				old := atomic.LoadInt32(&st.MaxLive[max])
				if int32(o.MaxLive) <= old || atomic.CompareAndSwapInt32(&st.MaxLive[max], old, int32(o.MaxLive)) {
					break
				}
			}
			cfg := ""
			if bench {
				cfg = ":benchmark"
			}
			e.R.Distinct(fmt.Sprintf("stress%s:max%d:seed%x", cfg, max, seeds[i]))
			e.R.Count("histories:stress" + cfg)
			mu.Lock()
			seen := map[string]bool{}
			for _, v := range o.Viols {
				key := fmt.Sprintf("stress:%s:max%d", v.Kind, max)
				if bench {
					key += ":benchmark"
				}
				if seen[key] {
					continue
				}
				seen[key] = true
				st.FailCount[key]++
				if _, ok := first[key]; !ok {
					first[key] = o
				}
			}
			mu.Unlock()
		})
	})
	for key, o := range first {
		var what []string
		for _, v := range o.Viols {
			what = append(what, v.Kind+": "+v.Detail)
		}
		e.R.Violate(key,
			fmt.Sprintf("max-receivers=%d, %d envelopes (join/accept/leave for %d receivers) delivered back to back by one goroutine while self-finishing stub transfers end on their own goroutines and a third goroutine runs cleanup ticks: %s",
				o.Max, o.Envelopes, o.NR, fmt.Sprint(what)),
			map[string]any{"max": o.Max, "receivers": o.NR, "envelopes": o.Envelopes, "class": "stress stream, stub mode self-finishing", "streams_with_this_key": st.FailCount[key]},
			map[string]any{"violations": o.Viols, "state_after_drain": o.Obs, "transfer_starts": o.Starts, "benchmark_mode": o.Bench, "benchmark_ticks": o.BenchTicks, "goroutines_inside_the_sender": o.StuckDump})
	}
	return st
}
