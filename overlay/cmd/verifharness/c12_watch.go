//go:build verif

package main

// C12, watched delivery.
//
// Every entry of the harness into the sender that can block inside the sender
// (an envelope through handleEnvelope, a cleanup tick, the state snapshot) runs
// on its own goroutine and is watched: the harness itself never sits in a call
// that the tree under test may never return from.
//
// Verdict (bounded-progress rule of DESIGN.md §1, all three conjuncts):
//   (i)   the call has not returned after the watchdog W;
//   (ii)  it still has not returned W/2 later;
//   (iii) in between, a canary - a fresh sender of the same configuration, without
//         the concurrent benchmark tick - went through join, accept, a second
//         receiver's join and accept, the same kind of call and a snapshot, each
//         within W (the machine is not stalled).
// Then the sender has stopped handling events: violation
// `…:sender-stops-handling-events:…` with the stacks of the goroutines inside the
// sender. If the canary does not get through either, the case is inconclusive.
//
// After c12StuckLimit such senders the remaining histories are not run (each would
// sit out the watchdog again); the stage ends within minutes whatever the tree does.

import (
	"fmt"
	"runtime"
	"strings"
	"sync/atomic"
	"time"

	"github.com/sheerbytes/sheerbytes/internal/app"
)

const (
	c12DeliverWatchdog = 8 * time.Second
	c12HoldGrace       = 2 * time.Second
	c12StuckLimit      = 6
)

var (
	c12StuckCount        int64 // senders that stopped handling events (canary fine)
	c12SkippedAfterStuck int64 // histories / streams not run after c12StuckLimit of them
	c12WatchedCalls      int64
	c12CanaryRuns        int64
	c12HeldBlocked       int64
)

func c12Abandoned() bool { return atomic.LoadInt64(&c12StuckCount) >= c12StuckLimit }

// halted: non-empty when the instance must not be driven any further.
func (in *c12Inst) halted() string {
	in.wmu.Lock()
	defer in.wmu.Unlock()
	switch {
	case in.stuck != "":
		return "the sender stopped handling events (" + in.stuck + " never returned)"
	case in.stallInconcl != "":
		return in.stallInconcl
	}
	return ""
}

func (in *c12Inst) stuckWhat() string {
	in.wmu.Lock()
	defer in.wmu.Unlock()
	return in.stuck
}

// call runs fn (an entry into the sender) on its own goroutine and watches it.
func (in *c12Inst) call(what string, fn func()) bool {
	if in.halted() != "" {
		return false
	}
	atomic.AddInt64(&c12WatchedCalls, 1)
	done := make(chan struct{})
	go func() {
		defer close(done)
		fn()
	}()
	return in.watch(what, done)
}

func c12WaitDone(done <-chan struct{}, d time.Duration) bool {
	select {
	case <-done:
		return true
	default:
	}
	t := time.NewTimer(d)
	defer t.Stop()
	select {
	case <-done:
		return true
	case <-t.C:
		return false
	}
}

// watch waits for done under the bounded-progress rule.
func (in *c12Inst) watch(what string, done <-chan struct{}) bool {
	in.wmu.Lock()
	hold := in.holdRelease
	in.wmu.Unlock()
	if hold != nil {
		// the harness itself holds the progress mutex (parked-bookkeeping scenario): a delivery
		// that waits for it is not stuck, the scenario just cannot be built on this tree
		if c12WaitDone(done, c12HoldGrace) {
			return true
		}
		in.wmu.Lock()
		in.holdRelease = nil
		in.heldBlocked = true
		in.wmu.Unlock()
		atomic.AddInt64(&c12HeldBlocked, 1)
		hold()
	}
	if c12WaitDone(done, c12DeliverWatchdog) {
		return true
	}
	if in.canary {
		in.wmu.Lock()
		in.stallInconcl = "canary sender: " + what + " did not return within the watchdog"
		in.wmu.Unlock()
		return false
	}
	atomic.AddInt64(&c12CanaryRuns, 1)
	canaryOK := c12Canary(in, what)
	if c12WaitDone(done, c12DeliverWatchdog/2) {
		return true // slow, not stuck
	}
	in.wmu.Lock()
	defer in.wmu.Unlock()
	if !canaryOK {
		in.stallInconcl = what + " did not return within the watchdog and a canary sender did not get through the same events either (stalled machine)"
		return false
	}
	if in.stuck == "" { // (the stress part watches from two goroutines)
		in.stuck = what
		in.stuckDump = c12SenderStacks()
		atomic.AddInt64(&c12StuckCount, 1)
	}
	return false
}

// c12Canary: a fresh sender of the same configuration handles the same kinds of events promptly.
func c12Canary(in *c12Inst, what string) bool {
	cn := c12NewInstMode(in.conn, in.max, in.mode)
	cn.canary, cn.noTick = true, true
	defer cn.teardown()
	a, b := int8(0), int8(1)
	for _, e := range []c12Ev{{K: c12Join, P: a}, {K: c12Accept, P: a}, {K: c12Join, P: b}, {K: c12Accept, P: b}, {K: c12Tick}, {K: c12Leave, P: a}, {K: c12Leave, P: b}} {
		cn.do(e)
		if cn.halted() != "" {
			return false
		}
	}
	if cn.mode.Bench {
		if !cn.call("benchmark-tick", func() { cn.vs.TickBenchmarks(time.Now()); cn.vs.RenderView() }) {
			return false
		}
	}
	_, ok := cn.snapshot()
	return ok && cn.halted() == ""
}

// snapshot is VerifSender.Snapshot (takes the admission mutex) under the watch.
func (in *c12Inst) snapshot() (snap app.VerifSenderSnapshot, ok bool) {
	ch := make(chan app.VerifSenderSnapshot, 1)
	ok = in.call("state-snapshot", func() { ch <- in.vs.Snapshot() })
	if ok {
		snap = <-ch
	}
	return snap, ok
}

// c12SenderStacks returns the stacks of the goroutines that are inside SnapshotSender methods.
func c12SenderStacks() string {
	buf := make([]byte, 8<<20)
	buf = buf[:runtime.Stack(buf, true)]
	var keep []string
	for _, g := range strings.Split(string(buf), "\n\n") {
		if !strings.Contains(g, "app.(*SnapshotSender).") {
			continue
		}
		if !strings.Contains(g, "sync.Mutex") && !strings.Contains(g, "semacquire") && !strings.Contains(g, "sync.(*Mutex)") {
			continue
		}
		if len(g) > 1800 {
			g = g[:1800] + " …"
		}
		keep = append(keep, g)
		if len(keep) >= 8 {
			break
		}
	}
	return strings.Join(keep, "\n\n")
}

// c12StuckResult turns "the delivery of event i never returned" into the refuting prefix of a history.
func c12StuckResult(in *c12Inst, res *c12Result, i int, e c12Ev, what string, before *c12Model) {
	res.FailAt = i + 1
	role := ""
	if e.K != c12Tick && int(e.P) < len(before.Cls) {
		role = "-of-" + []string{"unknown", "joined", "queued", "served", "ended"}[before.Cls[e.P]] + "-receiver"
	}
	res.Stuck = what + role
	if what == "state-snapshot" {
		res.Stuck = "state-snapshot-after-" + e.String()[:1]
	}
	in.wmu.Lock()
	res.StuckDump = in.stuckDump
	in.wmu.Unlock()
	res.ModelStr = before.String()
	res.Viols = []c12Viol{{Kind: "sender-stops-handling-events", Peer: string(rune('a' + e.P)),
		Detail: fmt.Sprintf("the delivery of event %d (%s; call: %s) had not returned after %s and still had not %s later, while a fresh sender of the same configuration went through join, accept, accept of a second receiver, cleanup tick, two leaves and a state snapshot in between: the sender no longer handles events (nothing queued will ever be started, no leaver's slot released)",
			i+1, e, what, c12DeliverWatchdog, c12DeliverWatchdog/2)}}
}
