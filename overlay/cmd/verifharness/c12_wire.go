//go:build verif

package main

// C12, wire delivery: bursts of signalling envelopes through the real read loop.
//
// Every other part of the check hands envelopes to handleEnvelope itself, one at a
// time. In the application they arrive through wsclient.Conn.ReadLoop, which calls
// the handler for every envelope it reads - and the property's "order they accepted"
// and "a receiver that leaves" are about the order in which the signalling server
// WROTE accept / peer_left, which is only the order the scheduler sees as long as the
// transport wrapper hands envelopes over in that order, one after the other.
//
// Here the host is wired the way RunSnapshotSender wires it: one real wsclient.Conn
// (dialled to an endpoint of the harness), conn.ReadLoop(ctx, callback) with the
// callback entering handleEnvelope, the same connection used for sending. The
// endpoint writes a BURST of envelopes (joins, accepts, repeated accepts, ICE
// candidate messages, leaves; 12 .. 264 of them) while the handler call for the first
// envelope of the burst is held at its entry (a handler that takes its time: terminal
// refresh, a full send queue, lock contention). Then the call is let go, the harness
// waits until every envelope of the burst has been handled (count of returned handler
// calls), reaches quiescence as the sequential parts do and compares queue, active
// slots, live stub transfers, starts per receiver and statuses with a reference model
// that consumed the burst IN THE ORDER IT WAS WRITTEN. A case is 1-3 such bursts on one
// sender followed by a drain (the served transfers are told to return one by one; the
// order in which the waiting receivers are started is the order of their accepts).
//
// Receivers join once, accept (possibly repeatedly), leave at most once and never
// come back, so the expected state is a function of the written order alone (stub
// transfers return only when told; none is told inside a burst).
//
// Timing: how long the harness keeps the first handler call held after the burst has
// been written (c12WireGrace, extended while further handler calls keep beginning)
// decides only whether a transport that hands envelopes over out of order gets the
// chance to do so, never a verdict. A burst whose handler calls do not all return
// within the watchdog is inconclusive.

import (
	"context"
	"encoding/json"
	"fmt"
	"net/http"
	"net/http/httptest"
	"sort"
	"strconv"
	"strings"
	"sync"
	"sync/atomic"
	"time"

	"github.com/gorilla/websocket"
	vk "github.com/sheerbytes/sheerbytes/internal/verifkit"
	"github.com/sheerbytes/sheerbytes/internal/wsclient"
	"github.com/sheerbytes/sheerbytes/pkg/protocol"
)

const (
	c12WireGrace    = 120 * time.Millisecond // the held call is kept at least this long after the burst was written
	c12WireGraceMax = 600 * time.Millisecond // ... and at most this long, while further handler calls keep beginning
	c12WireWriteMax = 2 * time.Second        // a burst that does not fit the socket buffers is finished after the release
)

// ---------------------------------------------------------------------------
// written-order reference model

type c12WireEv struct {
	K byte   // 'J' join, 'A' accept, 'L' leave, 'N' ICE candidate message of the receiver
	P string // receiver (short name)
}

type c12WireModel struct {
	max     int
	queue   []string
	active  map[string]bool
	left    map[string]bool
	joined  map[string]bool
	done    map[string]bool
	started map[string]int
	order   []string // receivers in the order they were started
}

func c12NewWireModel(max int) *c12WireModel {
	return &c12WireModel{max: max, active: map[string]bool{}, left: map[string]bool{}, joined: map[string]bool{}, done: map[string]bool{}, started: map[string]int{}}
}

func (m *c12WireModel) dispatch() {
	for len(m.active) < m.max && len(m.queue) > 0 {
		p := m.queue[0]
		m.queue = m.queue[1:]
		m.active[p] = true
		m.started[p]++
		m.order = append(m.order, p)
	}
}

func (m *c12WireModel) apply(e c12WireEv) {
	switch e.K {
	case 'J':
		m.joined[e.P] = true
	case 'A':
		if m.active[e.P] || c12In(m.queue, e.P) > 0 {
			return
		}
		m.queue = append(m.queue, e.P)
		m.dispatch()
	case 'L':
		q := m.queue[:0:0]
		for _, p := range m.queue {
			if p != e.P {
				q = append(q, p)
			}
		}
		m.queue = q
		delete(m.active, e.P)
		m.left[e.P] = true
		m.dispatch()
	case 'K': // the served transfer of P returned nil (drain)
		delete(m.active, e.P)
		m.done[e.P] = true
		m.dispatch()
	}
}

func (m *c12WireModel) activeNames() []string {
	var out []string
	for p := range m.active {
		out = append(out, p)
	}
	sort.Strings(out)
	return out
}

// c12WireCheck compares a quiescent observation with the model after the written order.
func c12WireCheck(m *c12WireModel, o *c12Obs) []c12Viol {
	var vs []c12Viol
	add := func(kind, peer, format string, a ...any) {
		vs = append(vs, c12Viol{Kind: kind, Peer: peer, Detail: fmt.Sprintf(format, a...)})
	}
	live := map[string]int{}
	nlive := 0
	for _, r := range o.Running {
		if r.Live {
			live[r.Peer]++
			nlive++
		}
	}
	if nlive > m.max {
		add("running-exceeds-max", "", "%d stub transfers run with a live context, max-receivers is %d", nlive, m.max)
	}
	for _, p := range o.Queue {
		if m.left[p] {
			add("left-still-queued", p, "%s left (its peer_left was written after its accept) and is still in the queue %v", p, o.Queue)
		}
	}
	for _, p := range o.Active {
		if m.left[p] {
			add("left-slot-not-released", p, "%s left (its peer_left was written after its accept) and still holds a slot; active %v", p, o.Active)
		}
	}
	for p, n := range live {
		if m.left[p] && n > 0 {
			add("left-transfer-not-cancelled", p, "%s left and a transfer function of it still runs with a live context", p)
		}
	}
	if len(o.Active) < m.max && len(o.Queue) > 0 {
		add("queued-while-slot-free", "", "%d of %d slots busy while %v wait", len(o.Active), m.max, o.Queue)
	}
	for _, p := range o.Active {
		if !m.left[p] && !m.active[p] {
			add("served-out-of-turn", p, "%s holds a slot although, in the order the envelopes were written, %v are served and %v wait before it; active %v", p, m.activeNames(), m.queue, o.Active)
		}
	}
	for p, n := range o.Starts {
		if n > m.started[p] && !m.left[p] && !c12Has(vs, "served-out-of-turn") {
			add("served-out-of-turn", p, "%s was started %d time(s); in the order the envelopes were written it is started %d time(s) by now (start order expected %v)", p, n, m.started[p], m.order)
		}
		if n > m.started[p] && m.left[p] && !c12Has(vs, "left-slot-not-released") {
			add("left-receiver-started", p, "%s was started %d time(s) although it left while waiting (expected %d starts)", p, n, m.started[p])
		}
	}
	same := len(o.Queue) == len(m.queue)
	if same {
		for i := range o.Queue {
			if o.Queue[i] != m.queue[i] {
				same = false
			}
		}
	}
	if !same {
		a, b := append([]string{}, o.Queue...), append([]string{}, m.queue...)
		sort.Strings(a)
		sort.Strings(b)
		if strings.Join(a, ",") == strings.Join(b, ",") {
			add("queue-order", "", "queue %v, acceptance order of those still waiting %v", o.Queue, m.queue)
		} else if !c12Has(vs, "left-still-queued") {
			add("queue-mismatch", "", "queue %v, expected (accepted, not left, not served; in acceptance order) %v", o.Queue, m.queue)
		}
	}
	for p := range m.active {
		if c12In(o.Active, p) == 0 {
			add("active-set-mismatch", p, "%s accepted before those served now and neither left nor finished, but holds no slot; active %v, expected %v", p, o.Active, m.activeNames())
		} else if live[p] != 1 {
			add("active-set-mismatch", p, "%s holds a slot and %d transfer functions of it run with a live context", p, live[p])
		}
	}
	for _, p := range o.Queue {
		if c12In(o.Active, p) > 0 || c12In(o.Queue, p) > 1 {
			add("state-two-or-none", p, "%s is in the queue %v and active %v", p, o.Queue, o.Active)
		}
	}
	if len(vs) == 0 {
		for _, p := range m.queue {
			if o.Status[p] != "QUEUED" {
				add("status-mismatch", p, "%s waits and has status %q", p, o.Status[p])
			}
		}
		for p := range m.active {
			if o.Status[p] != "TRANSFERRING" {
				add("status-mismatch", p, "%s is served and has status %q", p, o.Status[p])
			}
		}
		for p := range m.done {
			if o.Status[p] != "DONE" {
				add("status-mismatch", p, "the transfer of %s returned nil and its status is %q", p, o.Status[p])
			}
		}
	}
	return vs
}

var c12WireKindOrder = []string{"running-exceeds-max", "left-still-queued", "left-transfer-not-cancelled", "left-slot-not-released",
	"left-receiver-started", "served-out-of-turn", "queued-while-slot-free", "queue-order", "queue-mismatch", "state-two-or-none", "active-set-mismatch", "status-mismatch"}

// ---------------------------------------------------------------------------
// the endpoint (signalling server side of the host's connection)

type c12WireEnd struct {
	sc    *websocket.Conn
	ready chan struct{}
}

var c12WireEnds sync.Map // case id -> *c12WireEnd

func c12WireServer() *httptest.Server {
	return httptest.NewServer(http.HandlerFunc(func(w http.ResponseWriter, r *http.Request) {
		v, ok := c12WireEnds.Load(r.URL.Query().Get("w"))
		if !ok {
			http.Error(w, "unknown case", http.StatusBadRequest)
			return
		}
		end := v.(*c12WireEnd)
		conn, err := c12Upgrader.Upgrade(w, r, nil)
		if err != nil {
			return
		}
		defer conn.Close()
		end.sc = conn
		close(end.ready)
		for {
			_, msg, err := conn.ReadMessage()
			if err != nil {
				return
			}
			var env protocol.Envelope
			if json.Unmarshal(msg, &env) != nil {
				continue
			}
			if in, short := c12InstOf(env.To); in != nil {
				in.onMessage(env, short)
			}
		}
	}))
}

// ---------------------------------------------------------------------------
// one case

type c12WireCase struct {
	Max    int           `json:"max"`
	Family string        `json:"family"`
	Seed   uint64        `json:"seed"`
	Bursts [][]c12WireEv `json:"-"`
}

func (c *c12WireCase) sizes() []int {
	var s []int
	for _, b := range c.Bursts {
		s = append(s, len(b))
	}
	return s
}

func c12WireStr(b []c12WireEv) string {
	var sb strings.Builder
	for i, e := range b {
		if i > 0 {
			sb.WriteByte('.')
		}
		sb.WriteByte(e.K)
		sb.WriteString(e.P)
	}
	return sb.String()
}

type c12WireOut struct {
	Case    *c12WireCase
	Inconcl string
	Skipped bool
	Viols   []c12Viol
	FailAt  string // "burst 2 of 3" / "drain step 4"
	Obs     c12Obs
	Expect  map[string]any
	Handled []string // the order in which the handler calls of the failing burst began

	Envelopes        int
	BurstsRun        int
	Starts           int
	Exits            int
	BehindHeld       int // bursts completely written while the first handler call was held
	BegunWhileHeld   int // handler calls that began while an earlier one was held
	MaxInCall        int
	LeavesOfWaiting  int
	LeavesOfServed   int
	DrainSteps       int
	MaxLive          int
	QueueAfterBursts int
}

type c12WireRun struct {
	in *c12Inst

	mu       sync.Mutex
	holdID   string
	hold     chan struct{}
	heldSeen chan struct{}
	inCall   int
	maxCall  int
	began    int
	returned int
	whileHld int
	order    []string
	note     chan struct{}
}

func (wr *c12WireRun) ping() {
	select {
	case wr.note <- struct{}{}:
	default:
	}
}

// onEnv is the ReadLoop callback: the application's is `s.handleEnvelope(ctx, env)`.
func (wr *c12WireRun) onEnv(env protocol.Envelope) {
	wr.mu.Lock()
	wr.inCall++
	if wr.inCall > wr.maxCall {
		wr.maxCall = wr.inCall
	}
	wr.began++
	wr.order = append(wr.order, env.MsgID)
	var hold chan struct{}
	if wr.hold != nil {
		if env.MsgID == wr.holdID {
			hold = wr.hold
			close(wr.heldSeen)
		} else {
			wr.whileHld++
		}
	}
	wr.mu.Unlock()
	wr.ping()
	if hold != nil {
		<-hold
	}
	wr.in.vs.HandleEnvelope(wr.in.ctx, env)
	wr.mu.Lock()
	wr.inCall--
	wr.returned++
	wr.mu.Unlock()
	wr.ping()
}

func (wr *c12WireRun) waitFor(pred func() bool, d time.Duration) bool {
	deadline := time.Now().Add(d)
	for {
		wr.mu.Lock()
		ok := pred()
		wr.mu.Unlock()
		if ok {
			return true
		}
		rem := time.Until(deadline)
		if rem <= 0 {
			return false
		}
		t := time.NewTimer(rem)
		select {
		case <-wr.note:
		case <-t.C:
		}
		t.Stop()
	}
}

func c12WireOnce(url string, c *c12WireCase) (out c12WireOut) {
	out.Case = c
	if c12Abandoned() {
		out.Skipped = true
		return
	}
	id := "w" + strconv.FormatUint(atomic.AddUint64(&c12InstSeq, 1), 10)
	end := &c12WireEnd{ready: make(chan struct{})}
	c12WireEnds.Store(id, end)
	defer c12WireEnds.Delete(id)
	conn, err := wsclient.Dial(context.Background(), url+"?w="+id, c12Logger)
	if err != nil {
		out.Inconcl = "wire: cannot dial the endpoint: " + err.Error()
		return
	}
	select {
	case <-end.ready:
	case <-time.After(c12Watchdog):
		out.Inconcl = "wire: the endpoint never saw the host's connection"
		return
	}
	in := c12NewInstMode(conn, c.Max, c12Mode{})
	wr := &c12WireRun{in: in, note: make(chan struct{}, 1)}
	loopDone := make(chan struct{})
	go func() {
		defer close(loopDone)
		_ = conn.ReadLoop(in.ctx, wr.onEnv)
	}()
	defer func() {
		in.teardown() // cancels in.ctx: ReadLoop closes the connection and returns
		wr.mu.Lock()
		if wr.hold != nil {
			close(wr.hold)
			wr.hold = nil
		}
		wr.mu.Unlock()
	}()

	m := c12NewWireModel(c.Max)
	sent := 0
	fail := func(where string, vs []c12Viol, o c12Obs, first int) {
		out.Viols, out.FailAt, out.Obs = vs, where, o
		out.Expect = map[string]any{"queue": append([]string{}, m.queue...), "active": m.activeNames(), "start_order": append([]string{}, m.order...)}
		wr.mu.Lock()
		if first < len(wr.order) {
			out.Handled = append([]string{}, wr.order[first:]...)
		}
		wr.mu.Unlock()
	}
	finish := func() {
		wr.mu.Lock()
		out.BegunWhileHeld, out.MaxInCall = wr.whileHld, wr.maxCall
		wr.mu.Unlock()
		in.mu.Lock()
		out.Starts, out.Exits, out.MaxLive = len(in.invs), in.exits, in.maxLiveAtStart
		in.mu.Unlock()
	}
	defer finish()

	for bi, burst := range c.Bursts {
		envs := make([]protocol.Envelope, len(burst))
		for i, e := range burst {
			full := in.id + "." + e.P
			switch e.K {
			case 'J':
				envs[i] = in.envelope(protocol.TypePeerJoined, protocol.PeerJoined{Peer: protocol.PeerInfo{PeerID: full, Role: "receiver"}}, "server")
			case 'A':
				envs[i] = in.envelope(protocol.TypeManifestAccept, protocol.ManifestAccept{ManifestID: "manifest-" + in.id, Mode: "all"}, full)
			case 'L':
				envs[i] = in.envelope(protocol.TypePeerLeft, protocol.PeerLeft{PeerID: full}, "server")
			default:
				envs[i] = in.envelope(protocol.TypeIceCandidate, map[string]string{"candidate": "candidate:1 1 udp 1 127.0.0.1 9 typ host"}, full)
			}
			envs[i].MsgID = fmt.Sprintf("%d:%d:%c%s", bi+1, i+1, e.K, e.P)
			if e.K == 'L' {
				if c12In(m.queue, e.P) > 0 {
					out.LeavesOfWaiting++
				} else if m.active[e.P] {
					out.LeavesOfServed++
				}
			}
			m.apply(e)
		}
		atomic.AddInt64(&in.clock, int64(time.Second))
		wr.mu.Lock()
		first := len(wr.order)
		wr.holdID, wr.hold, wr.heldSeen = envs[0].MsgID, make(chan struct{}), make(chan struct{})
		heldSeen := wr.heldSeen
		wr.mu.Unlock()
		written := make(chan error, 1)
		go func() {
			for _, env := range envs {
				b, _ := json.Marshal(env)
				_ = end.sc.SetWriteDeadline(time.Now().Add(2 * c12Watchdog))
				if err := end.sc.WriteMessage(websocket.TextMessage, b); err != nil {
					written <- err
					return
				}
			}
			written <- nil
		}()
		sent += len(envs)
		out.Envelopes = sent
		out.BurstsRun = bi + 1
		release := func() {
			wr.mu.Lock()
			if wr.hold != nil {
				close(wr.hold)
				wr.hold = nil
			}
			wr.mu.Unlock()
		}
		select {
		case <-heldSeen:
		case <-time.After(c12Watchdog):
			release()
			out.Inconcl = fmt.Sprintf("wire: the handler was not called for the first envelope of burst %d within the watchdog", bi+1)
			return
		}
		// the burst is written while that call is held ...
		var werr error
		wdone := false
		select {
		case werr = <-written:
			wdone = true
			if werr == nil {
				out.BehindHeld++
			}
		case <-time.After(c12WireWriteMax):
		}
		// ... and the call stays held a little longer: a transport that does not keep handler
		// calls in sequence hands the rest of the burst over now (sensitivity only)
		t0 := time.Now()
		for {
			wr.mu.Lock()
			n := wr.whileHld
			wr.mu.Unlock()
			time.Sleep(c12WireGrace / 4)
			wr.mu.Lock()
			grew := wr.whileHld > n
			wr.mu.Unlock()
			el := time.Since(t0)
			if el >= c12WireGraceMax || (el >= c12WireGrace && !grew) {
				break
			}
		}
		release()
		if !wdone {
			select {
			case werr = <-written:
			case <-time.After(c12Watchdog):
				out.Inconcl = fmt.Sprintf("wire: burst %d could not be written to the host's connection within the watchdog", bi+1)
				return
			}
		}
		if werr != nil {
			out.Inconcl = fmt.Sprintf("wire: writing burst %d failed: %v", bi+1, werr)
			return
		}
		if !wr.waitFor(func() bool { return wr.returned >= sent }, c12Watchdog) {
			wr.mu.Lock()
			r := wr.returned
			wr.mu.Unlock()
			out.Inconcl = fmt.Sprintf("wire: %d of the %d envelopes written so far were handled within the watchdog (burst %d)", r, sent, bi+1)
			return
		}
		if why := in.quiesce(); why != "" {
			out.Inconcl = fmt.Sprintf("wire: no quiescence after burst %d: %s", bi+1, why)
			return
		}
		o := in.observe(0)
		if in.halted() != "" {
			out.Inconcl = "wire: " + in.halted()
			return
		}
		if vs := c12WireCheck(m, &o); len(vs) > 0 {
			fail(fmt.Sprintf("burst %d of %d (%d envelopes)", bi+1, len(c.Bursts), len(burst)), vs, o, first)
			return
		}
	}
	out.QueueAfterBursts = len(m.queue)

	// drain: the served transfers return one by one; who is started next is decided by the acceptance order
	for step := 1; len(m.active) > 0 && step <= 400; step++ {
		var p string
		for _, q := range m.order { // the longest-running one first
			if m.active[q] {
				p = q
				break
			}
		}
		var inv *c12Inv
		in.mu.Lock()
		for _, v := range in.invs {
			if !v.told && v.peer == p && v.ctx.Err() == nil {
				inv = v
				break
			}
		}
		in.mu.Unlock()
		if inv == nil {
			out.Inconcl = "wire: drain: the served receiver " + p + " has no running stub transfer"
			return
		}
		atomic.AddInt64(&in.clock, int64(time.Second))
		in.tell(inv, nil)
		m.apply(c12WireEv{K: 'K', P: p})
		if why := in.quiesce(); why != "" {
			out.Inconcl = fmt.Sprintf("wire: no quiescence at drain step %d: %s", step, why)
			return
		}
		o := in.observe(0)
		if in.halted() != "" {
			out.Inconcl = "wire: " + in.halted()
			return
		}
		out.DrainSteps = step
		if vs := c12WireCheck(m, &o); len(vs) > 0 {
			fail(fmt.Sprintf("drain step %d (transfer of %s returned nil)", step, p), vs, o, len(wr.order))
			return
		}
	}
	return
}

// ---------------------------------------------------------------------------
// generator

func c12WireName(i int) string { return fmt.Sprintf("r%02d", i) }

// c12WireRandom: a random walk of n envelopes continuing the membership state st
// (0 unknown, 1 joined, 2 accepted, 3 left per receiver index).
func c12WireRandom(r *vk.Rng, n int, st *[]int8) []c12WireEv {
	var out []c12WireEv
	for len(out) < n {
		var joined, accepted []int
		for i, s := range *st {
			switch s {
			case 1:
				joined = append(joined, i)
			case 2:
				accepted = append(accepted, i)
			}
		}
		switch k := r.Intn(12); {
		case k < 3 || len(joined)+len(accepted) == 0:
			*st = append(*st, 1)
			out = append(out, c12WireEv{'J', c12WireName(len(*st) - 1)})
		case k < 7 && len(joined) > 0:
			i := joined[r.Intn(len(joined))]
			(*st)[i] = 2
			out = append(out, c12WireEv{'A', c12WireName(i)})
		case k < 8 && len(accepted) > 0:
			out = append(out, c12WireEv{'A', c12WireName(accepted[r.Intn(len(accepted))])})
		case k < 10 && len(accepted) > 0:
			out = append(out, c12WireEv{'N', c12WireName(accepted[r.Intn(len(accepted))])})
		case len(accepted) > 0 && (k == 10 || len(joined) == 0):
			i := accepted[r.Intn(len(accepted))]
			(*st)[i] = 3
			out = append(out, c12WireEv{'L', c12WireName(i)})
		case len(joined) > 0:
			i := joined[r.Intn(len(joined))]
			(*st)[i] = 3
			out = append(out, c12WireEv{'L', c12WireName(i)})
		}
	}
	return out
}

var c12WireSizes = []int{12, 24, 40, 72, 136, 264}

func c12WireSizeClass(n int) string {
	switch {
	case n <= 16:
		return "<=16"
	case n <= 64:
		return "17-64"
	case n <= 128:
		return "65-128"
	}
	return ">128"
}

func c12WireCases(rng *vk.Rng, nRandom int) []*c12WireCase {
	var cases []*c12WireCase
	// directed: a train of accepts written back to back (everybody joined in the burst before)
	for _, n := range []int{24, 72, 264} {
		for max := 1; max <= 3; max += 2 {
			var js, as []c12WireEv
			for i := 0; i < n; i++ {
				js = append(js, c12WireEv{'J', c12WireName(i)})
				as = append(as, c12WireEv{'A', c12WireName(i)})
			}
			cases = append(cases, &c12WireCase{Max: max, Family: "accept-train", Bursts: [][]c12WireEv{js, as}})
		}
	}
	// directed: a receiver accepts and, some envelopes of other receivers later, leaves - while
	// waiting (max 1) or while served; then everybody else leaves too
	for _, gap := range []int{4, 20, 60, 200} {
		for max := 1; max <= 2; max++ {
			b := []c12WireEv{{'J', "r00"}, {'A', "r00"}, {'J', "r01"}, {'A', "r01"}}
			ghost := "r01"
			if max == 2 {
				ghost = "r00"
			}
			for i := 0; i < gap; i++ {
				p := c12WireName(2 + i/2)
				if i%2 == 0 {
					b = append(b, c12WireEv{'J', p})
				} else {
					b = append(b, c12WireEv{'A', p})
				}
			}
			b = append(b, c12WireEv{'L', ghost})
			for i := 0; i < 6; i++ {
				b = append(b, c12WireEv{'N', "r02"})
			}
			cases = append(cases, &c12WireCase{Max: max, Family: "accept-then-leave", Bursts: [][]c12WireEv{b}})
		}
	}
	for i := 0; i < nRandom; i++ {
		r := rng.Fork()
		c := &c12WireCase{Max: 1 + i%3, Family: "random", Seed: r.U64()}
		var st []int8
		nb := 1 + i%3
		for b := 0; b < nb; b++ {
			n := c12WireSizes[(i/3+b)%len(c12WireSizes)]
			if nb == 3 && n > 136 {
				n = 40
			}
			c.Bursts = append(c.Bursts, c12WireRandom(r, n, &st))
		}
		cases = append(cases, c)
	}
	return cases
}

// ---------------------------------------------------------------------------
// driver

type c12WireStats struct {
	Cases, Bursts, Envelopes, Starts, BehindHeld, BegunWhileHeld int64
	LeavesOfWaiting, LeavesOfServed, DrainSteps, Waiting          int64
	MaxInCall                                                     int32
	ByFamily, BySize, FailCount                                   map[string]int
}

func (x *c12Explorer) wire(rng *vk.Rng, nRandom int) *c12WireStats {
	e := x.e
	st := &c12WireStats{ByFamily: map[string]int{}, BySize: map[string]int{}, FailCount: map[string]int{}}
	srv := c12WireServer()
	defer srv.Close()
	url := "ws" + strings.TrimPrefix(srv.URL, "http")
	cases := c12WireCases(rng, nRandom)
	var mu sync.Mutex
	first := map[string]c12WireOut{}
	sampled := 0
	vk.ParallelDo(len(cases), 12, func(i int) {
		c := cases[i]
		var o c12WireOut
		for attempt := 0; attempt < 2; attempt++ {
			o = c12WireOnce(url, c)
			if o.Inconcl == "" {
				break
			}
			atomic.AddInt64(&c12WatchdogRetries, 1)
			vk.Logf("wire (attempt %d): %s", attempt+1, o.Inconcl)
		}
		if o.Skipped {
			atomic.AddInt64(&c12SkippedAfterStuck, 1)
			return
		}
		e.R.Eval()
		if o.Inconcl != "" {
			e.R.Inconcl(o.Inconcl)
			return
		}
		atomic.AddInt64(&st.Cases, 1)
		atomic.AddInt64(&st.Bursts, int64(o.BurstsRun))
		atomic.AddInt64(&st.Envelopes, int64(o.Envelopes))
		atomic.AddInt64(&st.Starts, int64(o.Starts))
		atomic.AddInt64(&st.BehindHeld, int64(o.BehindHeld))
		atomic.AddInt64(&st.BegunWhileHeld, int64(o.BegunWhileHeld))
		atomic.AddInt64(&st.LeavesOfWaiting, int64(o.LeavesOfWaiting))
		atomic.AddInt64(&st.LeavesOfServed, int64(o.LeavesOfServed))
		atomic.AddInt64(&st.DrainSteps, int64(o.DrainSteps))
		atomic.AddInt64(&st.Waiting, int64(o.QueueAfterBursts))
		atomic.AddInt64(&x.starts, int64(o.Starts))
		atomic.AddInt64(&x.exits, int64(o.Exits))
		for {
			old := atomic.LoadInt32(&st.MaxInCall)
			if int32(o.MaxInCall) <= old || atomic.CompareAndSwapInt32(&st.MaxInCall, old, int32(o.MaxInCall)) {
				break
			}
		}
		e.R.Distinct(fmt.Sprintf("wire:%s:max%d:bursts%v:seed%x", c.Family, c.Max, c.sizes(), c.Seed))
		e.R.Count("histories:wire-" + c.Family)
		mu.Lock()
		defer mu.Unlock()
		st.ByFamily[c.Family]++
		for _, b := range c.Bursts {
			st.BySize[c12WireSizeClass(len(b))]++
		}
		if sampled < 2 && c.Family == "random" && len(o.Viols) == 0 {
			sampled++
			var bs []string
			for _, b := range c.Bursts {
				bs = append(bs, c12WireStr(b))
			}
			e.R.Sample(map[string]any{"class": "wire delivery", "max": c.Max, "bursts_as_written": bs, "transfer_starts": o.Starts, "drain_steps": o.DrainSteps,
				"bursts_completely_written_while_first_handler_call_held": o.BehindHeld, "max_handler_calls_in_flight": o.MaxInCall})
		}
		for _, k := range c12WireKindOrder {
			if !c12Has(o.Viols, k) {
				continue
			}
			key := fmt.Sprintf("wire-burst:%s:max%d", k, c.Max)
			st.FailCount[key]++
			if _, ok := first[key]; !ok {
				first[key] = o
			}
			break // one key per case: its primary kind
		}
	})
	for key, o := range first {
		var what []string
		for _, v := range o.Viols {
			what = append(what, v.Kind+": "+v.Detail)
		}
		var bs []string
		for _, b := range o.Case.Bursts {
			bs = append(bs, c12WireStr(b))
		}
		e.R.Violate(key,
			fmt.Sprintf("max-receivers=%d, envelopes written to the host's signalling connection in bursts of %v (family %s) while the handler call for the first envelope of each burst was held, delivered by the real wsclient.Conn.ReadLoop; at %s the state differs from what the written order gives: %s",
				o.Case.Max, o.Case.sizes(), o.Case.Family, o.FailAt, strings.Join(what, "; ")),
			map[string]any{"max": o.Case.Max, "family": o.Case.Family, "seed": fmt.Sprintf("%x", o.Case.Seed), "bursts_as_written": bs, "class": "wire delivery: burst behind a held handler call", "cases_with_this_key": st.FailCount[key]},
			map[string]any{"violations": o.Viols, "observed": o.Obs, "expected_from_written_order": o.Expect, "failed_at": o.FailAt,
				"order_in_which_handler_calls_began": o.Handled, "handler_calls_begun_while_an_earlier_one_was_held": o.BegunWhileHeld, "max_handler_calls_in_flight": o.MaxInCall})
	}
	return st
}
