//go:build verif

package main

// C13 – the manifest describes exactly what will be read, once, deterministically.
//
// Generated directory trees are materialised on disk, the real
// manifest.ScanPaths / manifest.Scan and the real path resolver of the host
// (app.buildPathResolver) are run on generated path lists, and the result is
// judged against an independent ReadDir+Lstat walk written here.
//
// Every case carries exactly ONE special feature class (c13Case.Class) so that
// a failure is attributable; the finding key is that class (plus the oracle
// clause when the failing clause is not the one the class is about).
//
// How the given paths are SPELLED ('.', '..', 'x/..', trailing slashes, relative,
// through links, '/') in combination with base-name collisions is driven by
// c13_spell.go in child processes (classes "spell:*"), with the oracle of this file.
//
// Cases the oracle accepts and that consist of plain entries only are then
// taken through a HISTORY (c13_history.go): the one scanned manifest serves
// k >= 2 real transfers and must stay the manifest that was scanned and
// announced; keys "history:<form>/<clause>".

import (
	"encoding/json"
	"fmt"
	"os"
	"path/filepath"
	"reflect"
	"sort"
	"strings"
	"sync"
	"syscall"
	"time"

	"github.com/sheerbytes/sheerbytes/internal/app"
	vk "github.com/sheerbytes/sheerbytes/internal/verifkit"
	"github.com/sheerbytes/sheerbytes/pkg/manifest"
)

func init() { register("c13", runC13) }

// ---------------------------------------------------------------- case model

type c13Node struct {
	Kind   string `json:"k"`           // dir | file | symlink | fifo | socket | hardlink
	Rel    string `json:"p"`           // relative to the case base directory
	Size   int    `json:"n,omitempty"` // file size
	Target string `json:"t,omitempty"` // symlink target string ({B} = base) / hardlink source rel
	Salt   int    `json:"s,omitempty"` // shifts the byte pattern of a file, so that two files differ from the first byte on
}

type c13Case struct {
	ID    string    `json:"id"`
	Class string    `json:"class"` // the one special feature of this case (finding-key style)
	Mode  string    `json:"mode"`  // scanpaths (ScanPaths + buildPathResolver) | scan (Scan + root join)
	Nodes []c13Node `json:"nodes"`
	Paths []string  `json:"paths"`         // {B}/… absolute, or relative to Cwd
	Cwd   string    `json:"cwd,omitempty"` // relative to base; set => run serially after chdir
	// spelled-path cases (c13_spell.go, classes "spell:*", run in child processes)
	Spell   string `json:"spell,omitempty"`   // template of the spelling of the first hosted directory, e.g. "S/..@D"
	Collide bool   `json:"collide,omitempty"` // another given path carries the base name the spelled one denotes
	// alias cases (c13_alias.go, classes "alias:*"): where the odd name and the entry it would alias were put
	Alias string `json:"alias,omitempty"`
}

var c13PlainPool = []string{"a", "b", "c", "d", "f", "x", "y", "a.txt", "a-b", "a.b", "a b", "a+b", "a!", "a#",
	"a0", "aa", "A", "B.md", "Z", "_u", "readme", "0", "1", "10", "2", "lib", "src", "data.bin", "x.tar.gz",
	"x-1", "x.1", "x_1", "-dash", ".hidden", "..data"}
var c13UniPool = []string{"\u00e9", "e\u0301", "日本語", "файл", "😀.bin", "na\u00efve file", "ß", "Ω", "a\u200bb",
	"中 文", "ｆｕｌｌ", "ñ.txt", "Ünï cödé", "한글", "עברית", "\u00e9-x", "日本語.txt"}
var c13OrdPool = []string{"1_x", "2_x", "1_a", "2_a", "3_x", "10_x", "1_", "_1", "1_1_x", "x", "a", "2_1_x"}
var c13Sizes = []int{0, 0, 1, 2, 17, 100, 255, 256, 1000, 4096, 5000}

// c13B builds the node list of a case.
type c13B struct {
	r     *vk.Rng
	nodes []c13Node
	used  map[string]bool
	pool  []string
	seq   int
}

func (b *c13B) add(n c13Node) { b.nodes = append(b.nodes, n); b.used[n.Rel] = true }

// name returns a name not yet used in parent.
func (b *c13B) name(parent string) string {
	for t := 0; t < 20; t++ {
		n := b.pool[b.r.Intn(len(b.pool))]
		if !b.used[parent+"/"+n] {
			return n
		}
	}
	b.seq++
	return fmt.Sprintf("%s%d", b.pool[b.r.Intn(len(b.pool))], 100+b.seq)
}

// nameNot returns a name not yet used in parent and different from the avoided ones.
func (b *c13B) nameNot(parent string, avoid ...string) string {
	for {
		n := b.name(parent)
		ok := true
		for _, a := range avoid {
			if a == n {
				ok = false
			}
		}
		if ok {
			return n
		}
	}
}

func (b *c13B) dir(rel string) string {
	if !b.used[rel] {
		b.add(c13Node{Kind: "dir", Rel: rel})
	}
	return rel
}

func (b *c13B) file(rel string, size int) string {
	b.add(c13Node{Kind: "file", Rel: rel, Size: size})
	return rel
}

func (b *c13B) parent(i int) string { return b.dir(fmt.Sprintf("p%d", i)) }

// rootDir creates p<i>/<base> as a directory (base "" = fresh name).
func (b *c13B) rootDir(i int, base string) string {
	p := b.parent(i)
	if base == "" {
		base = b.name(p)
	}
	return b.dir(p + "/" + base)
}

func (b *c13B) rootFile(i int, base string) string {
	p := b.parent(i)
	if base == "" {
		base = b.name(p)
	}
	return b.file(p+"/"+base, c13Sizes[b.r.Intn(len(c13Sizes))])
}

// fill puts random files and directories beneath parent. A directory often gets
// a sibling file whose name extends the directory name with a character that
// sorts before '/', so full-path order differs from walk order.
func (b *c13B) fill(parent string, depth int) {
	k := 1 + b.r.Intn(5)
	for i := 0; i < k; i++ {
		n := b.name(parent)
		if depth > 0 && b.r.Intn(3) == 0 {
			d := b.dir(parent + "/" + n)
			if b.r.Intn(4) != 0 {
				b.fill(d, depth-1)
			}
			if b.r.Bool() {
				sib := parent + "/" + n + []string{".txt", "-x", " 1", "+", "!"}[b.r.Intn(5)]
				if !b.used[sib] {
					b.file(sib, c13Sizes[b.r.Intn(len(c13Sizes))])
				}
			}
			continue
		}
		b.file(parent+"/"+n, c13Sizes[b.r.Intn(len(c13Sizes))])
	}
}

// anyDir returns a random directory at or beneath root.
func (b *c13B) anyDir(root string) string {
	var ds []string
	for _, n := range b.nodes {
		if n.Kind == "dir" && (n.Rel == root || strings.HasPrefix(n.Rel, root+"/")) {
			ds = append(ds, n.Rel)
		}
	}
	return ds[b.r.Intn(len(ds))]
}

func c13P(rel string) string { return "{B}/" + rel }

// classes: weight > 0 = bulk class (expected clean), weight 0 = sampled class
// (a fixed small number of witnesses per run), serial = needs chdir.
type c13ClassDef struct {
	Key     string
	Weight  int
	SampleQ int
	SampleT int
	Serial  bool
	// Primary: the oracle clauses this class is about; a failure of one of them
	// gets the bare class key, any other clause gets key "<class>/<clause>".
	Primary []string
	// Spell: generated by c13SpellGen and executed in child processes (one
	// working directory per case); SampleQ/SampleT cases per run.
	Spell bool
	// Alias: a failure of clause k is reported under key Alias[k] (the input
	// reaches an already recorded class of the oracle by another route).
	Alias map[string]string
}

var c13Classes = []c13ClassDef{
	{Key: "tree:nested", Weight: 6},
	{Key: "tree:empty-dirs", Weight: 2},
	{Key: "tree:single-file", Weight: 2},
	{Key: "tree:unicode", Weight: 3},
	{Key: "tree:hardlink", Weight: 1},
	{Key: "tree:ordinal-looking-names", Weight: 2},
	{Key: "paths:multi-distinct", Weight: 4},
	{Key: "paths:dup-basename", Weight: 5},
	{Key: "paths:same-path-twice", Weight: 2},
	{Key: "paths:path-and-subdir", Weight: 3},
	{Key: "paths:trailing-slash", Weight: 2},
	{Key: "paths:dot-segments", Weight: 2},
	{Key: "entry:fifo", Weight: 1, Primary: []string{"special-size"}},
	{Key: "entry:socket", Weight: 1, Primary: []string{"special-size"}},
	{Key: "entry:chardev", Weight: 1, Primary: []string{"special-size"}},
	{Key: "paths:symlink-file-root", Weight: 1, Primary: []string{"special-size"}},
	{Key: "paths:dot", SampleQ: 8, SampleT: 120, Serial: true},
	{Key: "paths:relative", SampleQ: 8, SampleT: 120, Serial: true},
	{Key: "entry:symlink-file", SampleQ: 4, SampleT: 16, Primary: []string{"special-size"}},
	{Key: "entry:symlink-dir", SampleQ: 4, SampleT: 16, Primary: []string{"special-size"}},
	{Key: "entry:symlink-dangling", SampleQ: 4, SampleT: 16, Primary: []string{"special-size"}},
	{Key: "entry:symlink-loop", SampleQ: 4, SampleT: 16, Primary: []string{"special-size"}},
	{Key: "paths:symlink-dir-root", SampleQ: 4, SampleT: 16, Primary: []string{"missing"}},
	{Key: "paths:symlink-dangling-root", SampleQ: 3, SampleT: 10},
	{Key: "paths:literal-ordinal-prefix", SampleQ: 5, SampleT: 20,
		Primary: []string{"distinct", "resolve", "kind", "size", "origin", "missing", "extra"}},
	// how the hosted paths are SPELLED, combined with base-name collisions (c13_spell.go)
	{Key: "spell:dot", SampleQ: 40, SampleT: 1200, Spell: true},
	{Key: "spell:dotdot", SampleQ: 40, SampleT: 1200, Spell: true},
	{Key: "spell:sub-dotdot", SampleQ: 48, SampleT: 1200, Spell: true},
	{Key: "spell:trailing-dot", SampleQ: 40, SampleT: 1200, Spell: true},
	{Key: "spell:relative", SampleQ: 66, SampleT: 1320, Spell: true},
	{Key: "spell:absolute", SampleQ: 48, SampleT: 1200, Spell: true},
	{Key: "spell:via-symlinked-parent", SampleQ: 42, SampleT: 840, Spell: true},
	// '.' in a working directory that was entered through a link: filepath.Abs
	// yields the link, i.e. the recorded paths:symlink-dir-root input
	{Key: "spell:symlinked-cwd", SampleQ: 12, SampleT: 48, Spell: true, Alias: map[string]string{"missing": "paths:symlink-dir-root"}},
	{Key: "spell:fs-root", SampleQ: 8, SampleT: 64, Spell: true},
	// names a layer might normalise, next to the entry they would then alias (c13_alias.go);
	// every clean case also goes through the history stage (real sender, resolver installed)
	{Key: "alias:backslash", SampleQ: 45, SampleT: 550},
	{Key: "alias:whitespace", SampleQ: 70, SampleT: 700},
	{Key: "alias:unicode-forms", SampleQ: 40, SampleT: 550},
	{Key: "alias:case", SampleQ: 25, SampleT: 350},
	{Key: "alias:trailing-dot", SampleQ: 25, SampleT: 300},
}

func c13Def(key string) c13ClassDef {
	for _, d := range c13Classes {
		if d.Key == key {
			return d
		}
	}
	return c13ClassDef{Key: key}
}

// c13Gen builds one case of the class; a pure function of (id, class, rng state).
func c13Gen(id int, class string, r *vk.Rng) c13Case {
	c := c13Case{ID: fmt.Sprintf("c13-%05d", id), Class: class, Mode: "scanpaths"}
	b := &c13B{r: r, used: map[string]bool{}, pool: c13PlainPool}
	scanOK := false // class also makes sense for manifest.Scan(single root)
	treeWithEntry := func() string {
		root := b.rootDir(0, "")
		b.file(root+"/"+b.name(root), c13Sizes[r.Intn(len(c13Sizes))])
		b.fill(root, 2)
		return root
	}
	switch class {
	case "tree:nested":
		root := b.rootDir(0, "")
		b.fill(root, 3)
		c.Paths = []string{c13P(root)}
		scanOK = true
	case "tree:empty-dirs":
		root := b.rootDir(0, "")
		switch r.Intn(3) {
		case 0: // completely empty root
		case 1: // directories only
			for i, d := 0, root; i < 1+r.Intn(4); i++ {
				d = b.dir(d + "/" + b.name(d))
				if r.Bool() {
					b.dir(root + "/" + b.name(root))
				}
			}
		default:
			b.fill(root, 2)
			for i := 0; i < 1+r.Intn(3); i++ {
				d := b.anyDir(root)
				b.dir(d + "/" + b.name(d))
			}
		}
		c.Paths = []string{c13P(root)}
		scanOK = true
	case "tree:single-file":
		n := 1
		if r.Intn(3) == 0 {
			n = 2 + r.Intn(2)
		}
		seen := map[string]bool{}
		for i := 0; i < n; i++ {
			var base string
			for {
				base = b.pool[r.Intn(len(b.pool))]
				if !seen[base] {
					break
				}
			}
			seen[base] = true
			c.Paths = append(c.Paths, c13P(b.rootFile(i, base)))
		}
		scanOK = n == 1
	case "tree:unicode":
		b.pool = c13UniPool
		root := b.rootDir(0, "")
		b.fill(root, 2)
		c.Paths = []string{c13P(root)}
		scanOK = true
	case "tree:hardlink":
		root := treeWithEntry()
		var files []string
		for _, n := range b.nodes {
			if n.Kind == "file" {
				files = append(files, n.Rel)
			}
		}
		for i := 0; i < 1+r.Intn(3); i++ {
			d := b.anyDir(root)
			b.add(c13Node{Kind: "hardlink", Rel: d + "/" + b.name(d), Target: files[r.Intn(len(files))]})
		}
		c.Paths = []string{c13P(root)}
		scanOK = true
	case "tree:ordinal-looking-names":
		// names that look like the tool's own disambiguation prefixes, but no
		// two given paths share a base name, so no prefix is ever generated
		b.pool = c13OrdPool
		root := b.rootDir(0, c13OrdPool[r.Intn(6)])
		b.fill(root, 2)
		c.Paths = []string{c13P(root)}
		if r.Bool() {
			base := c13OrdPool[r.Intn(6)]
			if !strings.HasSuffix(root, "/"+base) {
				other := b.rootDir(1, base)
				b.fill(other, 1)
				c.Paths = append(c.Paths, c13P(other))
			}
		}
		scanOK = len(c.Paths) == 1
	case "paths:multi-distinct":
		n := 2 + r.Intn(4)
		seen := map[string]bool{}
		for i := 0; i < n; i++ {
			var base string
			for {
				base = b.pool[r.Intn(len(b.pool))]
				if !seen[base] {
					break
				}
			}
			seen[base] = true
			if r.Intn(3) == 0 {
				c.Paths = append(c.Paths, c13P(b.rootFile(i, base)))
			} else {
				d := b.rootDir(i, base)
				b.fill(d, 2)
				c.Paths = append(c.Paths, c13P(d))
			}
		}
	case "paths:dup-basename":
		n := 2 + r.Intn(3)
		base := b.pool[r.Intn(len(b.pool))]
		for i := 0; i < n; i++ {
			if r.Intn(3) == 0 {
				c.Paths = append(c.Paths, c13P(b.rootFile(i, base)))
			} else {
				d := b.rootDir(i, base)
				b.fill(d, 2)
				c.Paths = append(c.Paths, c13P(d))
			}
		}
		if r.Bool() { // one more path with a different base name, anywhere in the list
			var other string
			for {
				other = b.pool[r.Intn(len(b.pool))]
				if other != base {
					break
				}
			}
			d := b.rootDir(n, other)
			b.fill(d, 1)
			at := r.Intn(len(c.Paths) + 1)
			c.Paths = append(c.Paths[:at], append([]string{c13P(d)}, c.Paths[at:]...)...)
		}
	case "paths:same-path-twice":
		var p string
		if r.Intn(4) == 0 {
			p = b.rootFile(0, "")
		} else {
			p = b.rootDir(0, "")
			b.fill(p, 2)
		}
		switch r.Intn(3) {
		case 0:
			c.Paths = []string{c13P(p), c13P(p)}
		case 1:
			c.Paths = []string{c13P(p), c13P(p), c13P(p)}
		default:
			base := filepath.Base(p)
			var other string
			for {
				other = b.pool[r.Intn(len(b.pool))]
				if other != base {
					break
				}
			}
			q := b.rootDir(1, other)
			b.fill(q, 1)
			c.Paths = []string{c13P(p), c13P(q), c13P(p)}
		}
	case "paths:path-and-subdir":
		// base names of the given paths differ, or the case would also be a dup-basename case
		root := b.rootDir(0, "")
		b.fill(root, 1)
		sub := b.dir(root + "/" + b.nameNot(root, filepath.Base(root)))
		b.fill(sub, 1)
		f := b.file(sub+"/"+b.nameNot(sub, filepath.Base(root), filepath.Base(sub)), 100+r.Intn(100))
		deeper := b.dir(sub + "/" + b.nameNot(sub, filepath.Base(root), filepath.Base(sub)))
		b.fill(deeper, 1)
		switch r.Intn(4) {
		case 0:
			c.Paths = []string{c13P(root), c13P(sub)}
		case 1:
			c.Paths = []string{c13P(sub), c13P(root)}
		case 2:
			c.Paths = []string{c13P(root), c13P(f)}
		default:
			c.Paths = []string{c13P(root), c13P(sub), c13P(deeper)}
		}
	case "paths:trailing-slash":
		root := b.rootDir(0, "")
		b.fill(root, 2)
		c.Paths = []string{c13P(root) + []string{"/", "//", "///"}[r.Intn(3)]}
		if r.Intn(3) == 0 {
			base := filepath.Base(root)
			var other string
			for {
				other = b.pool[r.Intn(len(b.pool))]
				if other != base {
					break
				}
			}
			q := b.rootDir(1, other)
			b.fill(q, 1)
			c.Paths = append(c.Paths, c13P(q)+"/")
		}
		scanOK = len(c.Paths) == 1
	case "paths:dot-segments":
		root := b.rootDir(0, "")
		b.fill(root, 2)
		base := filepath.Base(root)
		c.Paths = []string{[]string{
			"{B}/p0/./" + base, "{B}/p0/../p0/" + base, "{B}/p0/" + base + "/.", "{B}/p0//" + base, "{B}/./p0/" + base + "/./",
		}[r.Intn(5)]}
		scanOK = true
	case "paths:dot":
		root := b.rootDir(0, "")
		b.fill(root, 2)
		c.Cwd = root
		c.Paths = []string{[]string{".", "./", "./."}[r.Intn(3)]}
		if r.Intn(3) == 0 {
			base := filepath.Base(root)
			var other string
			for {
				other = b.pool[r.Intn(len(b.pool))]
				if other != base {
					break
				}
			}
			q := b.rootDir(1, other)
			b.fill(q, 1)
			c.Paths = append(c.Paths, c13P(q))
		}
		scanOK = len(c.Paths) == 1
	case "paths:relative":
		root := b.rootDir(0, "")
		b.fill(root, 2)
		base := filepath.Base(root)
		c.Cwd = "p0"
		c.Paths = []string{[]string{base, "./" + base, base + "/", "../p0/" + base}[r.Intn(4)]}
		if r.Intn(3) == 0 {
			var other string
			for {
				other = b.pool[r.Intn(len(b.pool))]
				if other != base {
					break
				}
			}
			if r.Bool() {
				q := b.rootDir(1, other)
				b.fill(q, 1)
				c.Paths = append(c.Paths, "../p1/"+other)
			} else {
				b.parent(1)
				b.file("p1/"+other, 300)
				c.Paths = append(c.Paths, "../p1/"+other)
			}
		}
		scanOK = len(c.Paths) == 1
	case "entry:fifo", "entry:socket":
		root := treeWithEntry()
		for i := 0; i < 1+r.Intn(2); i++ {
			d := b.anyDir(root)
			b.add(c13Node{Kind: strings.TrimPrefix(class, "entry:"), Rel: d + "/" + b.name(d)})
		}
		c.Paths = []string{c13P(root)}
		scanOK = true
	case "entry:chardev":
		if r.Bool() {
			root := treeWithEntry()
			c.Paths = []string{c13P(root), "/dev/null"}
			if r.Bool() {
				c.Paths = []string{"/dev/null", c13P(root)}
			}
		} else {
			b.parent(0)
			c.Paths = []string{"/dev/null"}
		}
	case "entry:symlink-file":
		root := treeWithEntry()
		for i := 0; i < 1+r.Intn(2); i++ {
			d := b.anyDir(root)
			tn := b.name(d)
			b.file(d+"/"+tn, 500+r.Intn(3000)) // never as long as the target string
			tgt := tn
			if r.Intn(3) == 0 {
				tgt = "{B}/" + d + "/" + tn
			}
			b.add(c13Node{Kind: "symlink", Rel: d + "/" + b.name(d), Target: tgt})
		}
		c.Paths = []string{c13P(root)}
		scanOK = true
	case "entry:symlink-dir":
		root := treeWithEntry()
		for i := 0; i < 1+r.Intn(2); i++ {
			d := b.anyDir(root)
			var tgt string
			switch r.Intn(3) {
			case 0:
				tgt = "."
			case 1:
				tn := b.name(d)
				sub := b.dir(d + "/" + tn)
				b.file(sub+"/"+b.name(sub), 40)
				tgt = tn
			default:
				tgt = "{B}/" + root
			}
			b.add(c13Node{Kind: "symlink", Rel: d + "/" + b.name(d), Target: tgt})
		}
		c.Paths = []string{c13P(root)}
		scanOK = true
	case "entry:symlink-dangling":
		root := treeWithEntry()
		for i := 0; i < 1+r.Intn(2); i++ {
			d := b.anyDir(root)
			tgt := []string{"nothing-here", "../gone/away", "{B}/nope"}[r.Intn(3)]
			b.add(c13Node{Kind: "symlink", Rel: d + "/" + b.name(d), Target: tgt})
		}
		c.Paths = []string{c13P(root)}
		scanOK = true
	case "entry:symlink-loop":
		root := treeWithEntry()
		d := b.anyDir(root)
		if r.Bool() {
			n := b.name(d)
			b.add(c13Node{Kind: "symlink", Rel: d + "/" + n, Target: n})
		} else {
			n1 := b.name(d)
			b.used[d+"/"+n1] = true
			n2 := b.name(d)
			b.add(c13Node{Kind: "symlink", Rel: d + "/" + n1, Target: n2})
			b.add(c13Node{Kind: "symlink", Rel: d + "/" + n2, Target: n1})
		}
		c.Paths = []string{c13P(root)}
		scanOK = true
	case "paths:symlink-file-root":
		f := b.file(b.parent(0)+"/"+b.name("p0"), 500+r.Intn(3000))
		p1 := b.parent(1)
		tgt := "{B}/" + f
		if r.Bool() {
			tgt = "../" + f
		}
		l := p1 + "/" + b.name(p1)
		b.add(c13Node{Kind: "symlink", Rel: l, Target: tgt})
		c.Paths = []string{c13P(l)}
		scanOK = true
	case "paths:symlink-dir-root":
		d := b.rootDir(0, "")
		b.file(d+"/"+b.name(d), 10+r.Intn(500))
		b.fill(d, 1)
		p1 := b.parent(1)
		tgt := "{B}/" + d
		if r.Bool() {
			tgt = "../" + d
		}
		l := p1 + "/" + b.name(p1)
		b.add(c13Node{Kind: "symlink", Rel: l, Target: tgt})
		c.Paths = []string{c13P(l)}
		scanOK = true
	case "paths:symlink-dangling-root":
		p1 := b.parent(1)
		l := p1 + "/" + b.name(p1)
		b.add(c13Node{Kind: "symlink", Rel: l, Target: []string{"nothing-here", l[3:]}[r.Intn(2)]}) // dangling or self-loop
		c.Paths = []string{c13P(l)}
		if r.Bool() {
			d := b.rootDir(0, "")
			b.fill(d, 1)
			c.Paths = append(c.Paths, c13P(d))
		}
	case "paths:literal-ordinal-prefix":
		// two paths share base name x (so they become 1_x and 2_x) and a third
		// path is literally named 1_x or 2_x
		base := b.pool[r.Intn(len(b.pool))]
		mk := func(i int, name string) string {
			if r.Intn(3) == 0 {
				return c13P(b.rootFile(i, name))
			}
			d := b.rootDir(i, name)
			b.file(d+"/"+b.name(d), 10+r.Intn(500))
			b.fill(d, 1)
			return c13P(d)
		}
		p0, p1 := mk(0, base), mk(1, base)
		lit := mk(2, fmt.Sprintf("%d_%s", 1+r.Intn(2), base))
		switch r.Intn(3) {
		case 0:
			c.Paths = []string{p0, p1, lit}
		case 1:
			c.Paths = []string{lit, p0, p1}
		default:
			c.Paths = []string{p0, lit, p1}
		}
	default:
		panic("c13: unknown class " + class)
	}
	if scanOK && len(c.Paths) == 1 && r.Intn(3) == 0 {
		c.Mode = "scan"
	}
	c.Nodes = b.nodes
	return c
}

// c13Cases builds the case list: a pure function of (tier, seed).
func c13Cases(e *Env) []c13Case {
	// Mix first: vk.NewRng maps seeds that differ by k to the same splitmix stream
	// shifted by k positions, which would make VERIF_SEED=1,3,7 nearly the same run.
	r := vk.NewRng(vk.Mix(e.Seed ^ vk.HashStr("c13"+e.Tier)))
	total := e.Pick(1500, 40000)
	var cases []c13Case
	id := 0
	for _, d := range c13Classes { // sampled classes: fixed number of witnesses
		if d.Weight > 0 || d.Spell || c13IsAlias(d.Key) {
			continue
		}
		for i := 0; i < e.Pick(d.SampleQ, d.SampleT); i++ {
			cases = append(cases, c13Gen(id, d.Key, r.Fork()))
			id++
		}
	}
	wsum := 0
	for _, d := range c13Classes {
		wsum += d.Weight
	}
	for len(cases) < total { // the bulk: classes in which the property is expected to hold
		w := r.Intn(wsum)
		for _, d := range c13Classes {
			if w < d.Weight {
				cases = append(cases, c13Gen(id, d.Key, r.Fork()))
				id++
				break
			}
			w -= d.Weight
		}
	}
	// spelled paths: an own stream, so that the list above is what it always was
	rs := vk.NewRng(vk.Mix(e.Seed ^ vk.HashStr("c13spell"+e.Tier)))
	sid := 0
	for _, d := range c13Classes {
		if !d.Spell {
			continue
		}
		for k := 0; k < e.Pick(d.SampleQ, d.SampleT); k++ {
			cases = append(cases, c13SpellGen(sid, d.Key, k, rs.Fork()))
			sid++
		}
	}
	return append(cases, c13AliasCases(e)...)
}

// ---------------------------------------------------------------- materialise

func c13Materialize(base string, nodes []c13Node) error {
	if err := os.MkdirAll(base, 0755); err != nil {
		return err
	}
	for _, n := range nodes {
		p := filepath.Join(base, n.Rel)
		if err := os.MkdirAll(filepath.Dir(p), 0755); err != nil {
			return err
		}
		var err error
		switch n.Kind {
		case "dir":
			err = os.MkdirAll(p, 0755)
		case "file":
			buf := make([]byte, n.Size)
			for i := range buf {
				buf[i] = byte('a' + (i+n.Salt)%23)
			}
			err = os.WriteFile(p, buf, 0644)
		case "symlink":
			err = os.Symlink(strings.ReplaceAll(n.Target, "{B}", base), p)
		case "fifo":
			err = syscall.Mkfifo(p, 0644)
		case "socket":
			err = syscall.Mknod(p, syscall.S_IFSOCK|0644, 0)
		case "hardlink":
			err = os.Link(filepath.Join(base, n.Target), p)
		default:
			err = fmt.Errorf("unknown node kind %q", n.Kind)
		}
		if err != nil {
			return fmt.Errorf("%s %s: %w", n.Kind, n.Rel, err)
		}
	}
	// Distinct whole-second mtimes on everything that is not a link: the mtime
	// recorded in a manifest item then identifies the entry it was taken from.
	for i, n := range nodes {
		if n.Kind == "symlink" {
			continue
		}
		t := time.Unix(1500000000+int64(i)*11, 0)
		if err := os.Chtimes(filepath.Join(base, n.Rel), t, t); err != nil {
			return err
		}
	}
	return nil
}

// ---------------------------------------------------------------- oracle

type c13Ino struct{ Dev, Ino uint64 }

func c13InoOf(fi os.FileInfo) c13Ino {
	st := fi.Sys().(*syscall.Stat_t)
	return c13Ino{uint64(st.Dev), uint64(st.Ino)}
}

type c13Fail struct {
	Clause string `json:"clause"`
	Msg    string `json:"msg"`
}

type c13Obs struct {
	Files    int            `json:"files_walked"`
	Dirs     int            `json:"dirs_walked"`
	Others   int            `json:"other_entries_walked"`
	Lookups  int            `json:"resolver_lookups"`
	Items    int            `json:"items_listed"`
	Special  map[string]int `json:"special_entries_listed,omitempty"`
	Rejected string         `json:"scan_rejected,omitempty"`
	Tops     []string       `json:"top_level_names,omitempty"` // spelled-path cases only
	Fails    []c13Fail      `json:"fails,omitempty"`
}

func (o *c13Obs) fail(clause, format string, a ...any) {
	if len(o.Fails) < 40 {
		o.Fails = append(o.Fails, c13Fail{clause, fmt.Sprintf(format, a...)})
	}
}

const c13ReadCap = 4 << 20

// c13Readable counts the bytes that can be read at p the way the sender opens
// it (open follows links), but non-blocking and with a byte cap so that FIFOs
// and devices cannot hang the check. An entry that cannot be opened or read
// has no readable content (0 bytes).
func c13Readable(p string) (int64, string) {
	fd, err := syscall.Open(p, syscall.O_RDONLY|syscall.O_NONBLOCK|syscall.O_CLOEXEC, 0)
	if err != nil {
		return 0, "open: " + err.Error()
	}
	defer syscall.Close(fd)
	buf := make([]byte, 64<<10)
	var n int64
	for n < c13ReadCap {
		k, err := syscall.Read(fd, buf)
		if k > 0 {
			n += int64(k)
		}
		if err == syscall.EINTR {
			continue
		}
		if err != nil {
			return n, "read: " + err.Error()
		}
		if k <= 0 {
			break
		}
	}
	return n, ""
}

// c13Walk is the independent walk: ReadDir + Lstat, links are never followed.
func c13Walk(dir string, ef, ed map[c13Ino]int, names map[c13Ino]string, o *c13Obs) error {
	ents, err := os.ReadDir(dir)
	if err != nil {
		return err
	}
	for _, ent := range ents {
		p := dir + "/" + ent.Name()
		lst, err := os.Lstat(p)
		if err != nil {
			return err
		}
		switch {
		case lst.Mode().IsRegular():
			k := c13InoOf(lst)
			ef[k]++
			names[k] = p
			o.Files++
		case lst.IsDir():
			k := c13InoOf(lst)
			ed[k]++
			names[k] = p
			o.Dirs++
			if err := c13Walk(p, ef, ed, names, o); err != nil {
				return err
			}
		default:
			o.Others++
		}
	}
	return nil
}

func c13SpecialKind(p string, lst os.FileInfo) string {
	m := lst.Mode()
	switch {
	case m&os.ModeSymlink != 0:
		st, err := os.Stat(p)
		switch {
		case err == nil && st.IsDir():
			return "symlink-dir"
		case err == nil:
			return "symlink-file"
		case os.IsNotExist(err):
			return "symlink-dangling"
		default:
			return "symlink-loop"
		}
	case m&os.ModeNamedPipe != 0:
		return "fifo"
	case m&os.ModeSocket != 0:
		return "socket"
	case m&os.ModeCharDevice != 0:
		return "chardev"
	case m&os.ModeDevice != 0:
		return "blockdev"
	}
	return "other"
}

type c13Result struct {
	Obs      c13Obs
	Manifest manifest.Manifest
	Setup    string // environment problem: no verdict
}

// c13Check runs the real scan + resolver on the materialised case and applies
// the oracle. cwd is the directory relative paths are meant against.
func c13Check(c c13Case, base, cwd string) c13Result {
	var res c13Result
	o := &res.Obs
	o.Special = map[string]int{}
	paths := make([]string, len(c.Paths))
	roots := make([]string, len(c.Paths)) // what each given path denotes, computed lexically
	for i, p := range c.Paths {
		paths[i] = strings.Replace(p, "{B}", base, 1)
		if filepath.IsAbs(paths[i]) {
			roots[i] = filepath.Clean(paths[i])
		} else {
			roots[i] = filepath.Join(cwd, paths[i])
		}
	}
	allExist := true
	for _, rt := range roots {
		if _, err := os.Stat(rt); err != nil {
			allExist = false
		}
	}

	// --- the code under test
	var (
		m, m2     manifest.Manifest
		err, err2 error
		resolve   func(string) string
	)
	if c.Mode == "scan" {
		m, err = manifest.Scan(paths[0])
		m2, err2 = manifest.Scan(paths[0])
		root := roots[0]
		if st, serr := os.Stat(root); serr == nil && !st.IsDir() {
			root = filepath.Dir(root) // a single file is listed under its base name
		}
		// what SendManifestMultiStream does without a resolver
		resolve = func(rel string) string { return filepath.Join(root, filepath.FromSlash(rel)) }
	} else {
		m, err = manifest.ScanPaths(paths)
		m2, err2 = manifest.ScanPaths(paths)
		var rerr error
		resolve, rerr = app.VerifBuildPathResolver(paths)
		if err == nil && rerr != nil {
			o.fail("resolve", "ScanPaths accepted the paths but buildPathResolver failed: %v", rerr)
			return res
		}
	}
	res.Manifest = m
	if err != nil {
		// the host refuses to start ("failed to scan paths"): no manifest, the
		// property says nothing – unless every given path exists.
		if !allExist {
			o.Rejected = err.Error()
			return res
		}
		o.fail("scan-error", "scan failed although every given path exists: %v", err)
		return res
	}
	o.Items = len(m.Items)

	// --- shape of the list
	seen := map[string]int{}
	for i, it := range m.Items {
		seen[it.RelPath]++
		if seen[it.RelPath] == 2 {
			o.fail("distinct", "rel path %q is listed more than once", it.RelPath)
		}
		if i > 0 && m.Items[i-1].RelPath > it.RelPath {
			o.fail("sorted", "%q is listed before %q", m.Items[i-1].RelPath, it.RelPath)
		}
		bad := it.RelPath == "" || strings.HasPrefix(it.RelPath, "/") || strings.HasSuffix(it.RelPath, "/")
		for _, seg := range strings.Split(it.RelPath, "/") {
			if seg == "" || seg == "." || seg == ".." {
				bad = true
			}
		}
		if bad {
			o.fail("slash", "rel path %q is not a clean forward-slash relative path", it.RelPath)
		}
	}

	if c.Spell != "" {
		tops := map[string]bool{}
		for _, it := range m.Items {
			tops[strings.SplitN(it.RelPath, "/", 2)[0]] = true
		}
		for k := range tops {
			o.Tops = append(o.Tops, k)
		}
		sort.Strings(o.Tops)
	}

	// --- every listed item against the entry it resolves to
	mf, md := map[c13Ino]int{}, map[c13Ino]int{}
	mnames := map[c13Ino]string{}
	rootSet := map[string]bool{}
	for _, rt := range roots {
		rootSet[rt] = true
		// the same directory named without the links on the way to it is the
		// same source (a resolver may canonicalise)
		if real, rerr := filepath.EvalSymlinks(rt); rerr == nil {
			rootSet[real] = true
		}
	}
	topRoot := map[string]string{}
	for _, it := range m.Items {
		p := resolve(it.RelPath)
		o.Lookups++
		if p == "" {
			o.fail("resolve", "resolver has no source path for listed %q", it.RelPath)
			continue
		}
		lst, lerr := os.Lstat(p)
		if lerr != nil {
			o.fail("resolve", "listed %q resolves to %s which does not exist", it.RelPath, p)
			continue
		}
		if c.Mode == "scanpaths" { // the resolver keeps the inner path and maps one top component to one given path
			parts := strings.SplitN(it.RelPath, "/", 2)
			rootOf := p
			if len(parts) == 2 {
				if !strings.HasSuffix(p, "/"+parts[1]) {
					o.fail("origin", "listed %q resolves to %s (inner path not preserved)", it.RelPath, p)
				} else {
					rootOf = p[:len(p)-len(parts[1])-1]
					if rootOf == "" { // the given path is the file-system root
						rootOf = "/"
					}
				}
			}
			if prev, ok := topRoot[parts[0]]; ok && prev != rootOf {
				o.fail("origin", "entries under %q resolve into both %s and %s", parts[0], prev, rootOf)
			}
			topRoot[parts[0]] = rootOf
			if !rootSet[rootOf] {
				o.fail("origin", "listed %q resolves beneath %s which is not one of the given paths", it.RelPath, rootOf)
			}
		}
		switch {
		case lst.Mode().IsRegular():
			k := c13InoOf(lst)
			mf[k]++
			mnames[k] = p
			if it.IsDir {
				o.fail("kind", "%q is listed as a directory but resolves to the regular file %s", it.RelPath, p)
			}
			n, note := c13Readable(p)
			if n != it.Size || lst.Size() != it.Size {
				o.fail("size", "%q listed with size %d, %d bytes readable at %s %s", it.RelPath, it.Size, n, p, note)
			}
			if it.ModTime != lst.ModTime().Unix() {
				o.fail("origin", "%q was listed from an entry with mtime %d but resolves to %s (mtime %d): not the file it came from",
					it.RelPath, it.ModTime, p, lst.ModTime().Unix())
			}
		case lst.IsDir():
			k := c13InoOf(lst)
			md[k]++
			mnames[k] = p
			if !it.IsDir {
				o.fail("kind", "%q is listed as a file but resolves to the directory %s", it.RelPath, p)
			}
			if it.IsDir && it.Size != 0 {
				o.fail("size", "directory %q listed with size %d", it.RelPath, it.Size)
			}
			if it.ModTime != lst.ModTime().Unix() {
				o.fail("origin", "%q was listed from an entry with mtime %d but resolves to %s (mtime %d): not the directory it came from",
					it.RelPath, it.ModTime, p, lst.ModTime().Unix())
			}
		default:
			// not a plain file or directory: it may be listed or not, but never
			// with a size that differs from its readable content
			kind := c13SpecialKind(p, lst)
			o.Special[kind]++
			n, note := c13Readable(p)
			if it.Size != n {
				o.fail("special-size", "%s %q listed with size %d (IsDir=%v) but %d bytes are readable at %s %s",
					kind, it.RelPath, it.Size, it.IsDir, n, p, note)
			}
		}
	}

	// --- independent walk: what lies beneath each given path
	ef, ed, rootDirs := map[c13Ino]int{}, map[c13Ino]int{}, map[c13Ino]int{}
	names := map[c13Ino]string{}
	for _, rt := range roots {
		lst, lerr := os.Lstat(rt)
		if lerr != nil {
			res.Setup = "lstat given path: " + lerr.Error()
			return res
		}
		walkAt := ""
		switch {
		case lst.Mode().IsRegular():
			k := c13InoOf(lst)
			ef[k]++
			names[k] = rt
			o.Files++
		case lst.IsDir():
			rootDirs[c13InoOf(lst)]++
			walkAt = rt
		case lst.Mode()&os.ModeSymlink != 0:
			// a given path that is a link to a directory: the scan itself treats
			// it as a directory, so what lies beneath it is what is shared
			if st, serr := os.Stat(rt); serr == nil && st.IsDir() {
				if real, rerr := filepath.EvalSymlinks(rt); rerr == nil {
					walkAt = real
				}
			}
			o.Others++
		default:
			o.Others++
		}
		if walkAt != "" {
			if werr := c13Walk(walkAt, ef, ed, names, o); werr != nil {
				res.Setup = "independent walk: " + werr.Error()
				return res
			}
		}
	}
	for k, want := range ef {
		if mf[k] < want {
			o.fail("missing", "regular file %s lies beneath the given paths %d time(s) but is listed %d time(s)", names[k], want, mf[k])
		}
	}
	for k, got := range mf {
		if got > ef[k] {
			o.fail("extra", "regular file %s is listed %d time(s) but lies beneath the given paths %d time(s)", mnames[k], got, ef[k])
		}
	}
	for k, want := range ed {
		if md[k] < want {
			o.fail("missing", "directory %s lies beneath the given paths %d time(s) but is listed %d time(s)", names[k], want, md[k])
		}
	}
	for k, got := range md { // a given directory itself may be listed (ScanPaths) or not (Scan)
		if got > ed[k]+rootDirs[k] {
			o.fail("extra", "directory %s is listed %d time(s) but lies beneath the given paths %d time(s)", mnames[k], got, ed[k]+rootDirs[k])
		}
	}

	// --- counts and totals
	var fc, dc int
	var tb int64
	for _, it := range m.Items {
		if it.IsDir {
			dc++
		} else {
			fc++
			tb += it.Size
		}
	}
	if fc != m.FileCount || dc != m.FolderCount || tb != m.TotalBytes {
		o.fail("totals", "FileCount=%d FolderCount=%d TotalBytes=%d but the items give %d files, %d folders, %d bytes",
			m.FileCount, m.FolderCount, m.TotalBytes, fc, dc, tb)
	}

	// --- determinism
	if (err2 != nil) != (err != nil) || !reflect.DeepEqual(m, m2) {
		o.fail("rescan", "a second scan of the unchanged paths differs (err2=%v)", err2)
	}
	return res
}

// ---------------------------------------------------------------- driver

type c13Agg struct {
	Cases    int `json:"cases"`
	ScanMode int `json:"cases_via_Scan"`
	Rejected int `json:"scan_rejected"`
	Files    int `json:"files_walked"`
	Dirs     int `json:"dirs_walked"`
	Others   int `json:"other_entries_walked"`
	Items    int `json:"items_listed"`
	Lookups  int `json:"resolver_lookups"`
	Special  int `json:"special_entries_listed"`
	Failing  int `json:"cases_failing"`
}

func c13Hash(c c13Case) uint64 {
	cc := c
	cc.ID = ""
	data, _ := json.Marshal(cc)
	return vk.HashStr(string(data))
}

func runC13(e *Env) {
	work, err := filepath.Abs(e.Work)
	if err != nil {
		e.R.Inconcl("abs work: " + err.Error())
		e.R.Require(false, "no scratch directory")
		return
	}
	cases := c13Cases(e)
	e.R.Rule = "seeded cases: a directory tree materialised on disk (sort-hostile names, distinct mtimes) plus a path list, each with ONE feature class " +
		"(plain nested / empty dirs / single files / unicode / hard links / ordinal-looking names / several paths / duplicate base names / same path twice / " +
		"path and its subdirectory / trailing slashes / dot segments / '.' and relative paths / FIFO / socket / char device / symlinks to file, directory, nothing, a loop, " +
		"in the tree or as the given path / a path literally named like an ordinal prefix / alias:* = a name some layer might normalise - backslash, leading or trailing white space, " +
		"a Unicode normalisation or compatibility form, upper case, trailing dots - next to the entry it would then alias: as sibling files, alone, as two given paths, as one given path, as sibling directories); real ScanPaths+buildPathResolver (or Scan + root join) vs an independent " +
		"ReadDir+Lstat walk; a case counts when scan, resolver lookups of every item and the walk completed on a non-rejected path list; distinct by (class, mode, tree, path list). " +
		"Spelled paths (classes spell:*, child processes with their own working directory and $PWD, or a chroot): one hosted directory typed as . ./ ./. .. ../ S/.. N/. N/ ./N ../N, " +
		"absolute with trailing slashes or dot segments, below a symlinked parent, as '.' in a directory entered through a link, as / . // in a chroot - each spelling round-robin, " +
		"three rounds of four together with 1..3 other given paths that carry the base name the spelled path denotes (any order, themselves absolute / relative / with trailing slash), " +
		"one round with differently named partners; same oracle; a spelling counts when a case with generated ordinal prefixes and a case without completed. " +
		"History stage: a hash-selected subset of the clean plain-entry cases is scanned once as the host does and that one manifest value is used for 2..3 real " +
		"SendManifestMultiStream/RecvManifestMultiStream transfers (next receiver / resume reconnect into the same directory / concurrent receivers; mock or loopback QUIC); " +
		"after every use: held manifest deep-equal to a pristine copy and to the announced id, manifest read by the receiver equal to it, output tree equal to the source; " +
		"every clean alias:* case is taken through a history as well (the received bytes are the evidence of which file the real sender read for a listed name); " +
		"a history counts when all its uses returned nil on both endpoints; distinct by (form, transport, k, class, mode, case). " +
		"Command-line stage (classes cli:*, c13_cli.go): the real `thru host` binary in a working directory of its own against a real thruserv, given names an argument pre-processor might interpret " +
		"(glob metacharacters, backslash escapes, braces, ~, $VAR, list separators, surrounding white space / quotes, @file, percent escapes, leading dash, size-like tokens, equal base names in unsorted argument order) " +
		"next to the siblings the interpretation would pick up, as file or directory, typed relative / with ./ / absolute, alone or with a partner; the manifest announced to a joining receiver (id, totals, counts, root) " +
		"must be that of the real ScanPaths on the arguments as typed (reference child process, judged by the walk oracle too); a run counts when the announced summary was read; distinct by (class, placement, kind, case). " +
		"Sharing stage (classes shared-resolver:*, c13_shared.go): 2..6 shared paths (distinct base names / equal base names / both, a single file among them) holding the same relative names with other bytes; " +
		"after the walk oracle the host's ONE buildPathResolver value answers a first receiver alone (fixes the source of every file item by size and mtime), then, in blocks repeated until 600 receivers had the loop of another slot advance during their own (a count of events; at least 6, at most 100 blocks), k=2..4 transfer slots released together " +
		"that each serve 200 queued receivers one after the other, every receiver resolving every file item in manifest order as SendManifestMultiStream does at its start, then a receiver alone; every answer must name the item's source (same path or same file); " +
		"finally k real concurrent transfers over the mock transport with that resolver installed, output tree vs the sources; a case counts when its blocks ran; distinct by (root layout, k, case)"

	var mu sync.Mutex
	agg := map[string]*c13Agg{}
	special := map[string]int{}
	failKeys := map[string]int{}
	sampled := map[string]any{}
	aliasPl := map[string]int{} // alias cases judged, by class/placement
	spell := c13NewSpellAgg()
	origWD, _ := os.Getwd()
	hs, hserr := c13NewHistState()
	if hserr != nil {
		e.R.Inconcl("history stage: no loopback QUIC listeners: " + hserr.Error())
	}

	// account books one executed case: coverage, evidence, verdict.
	account := func(c c13Case, base string, res c13Result) {
		o := res.Obs
		if res.Setup != "" {
			e.R.Inconcl(c.ID + " " + res.Setup)
			return
		}
		mu.Lock()
		a := agg[c.Class]
		if a == nil {
			a = &c13Agg{}
			agg[c.Class] = a
		}
		a.Cases++
		if c.Mode == "scan" {
			a.ScanMode++
		}
		a.Files += o.Files
		a.Dirs += o.Dirs
		a.Others += o.Others
		a.Items += o.Items
		a.Lookups += o.Lookups
		for k, n := range o.Special {
			a.Special += n
			special[k] += n
		}
		if o.Rejected != "" {
			a.Rejected++
		}
		if len(o.Fails) > 0 {
			a.Failing++
		}
		if _, ok := sampled[c.Class]; !ok && o.Rejected == "" && (c.Spell == "" || c.Collide) {
			sampled[c.Class] = map[string]any{"case": c, "observed": o}
		}
		mu.Unlock()

		if o.Rejected != "" {
			e.R.NoVerd() // the host refuses such a path list; no manifest to judge
			e.R.Count("scan_rejected")
			return
		}
		e.R.Distinct(fmt.Sprintf("%s/%s/%016x", c.Class, c.Mode, c13Hash(c)))
		e.R.CountN("files_walked", o.Files)
		e.R.CountN("dirs_walked", o.Dirs)
		e.R.CountN("resolver_lookups", o.Lookups)
		e.R.CountN("items_listed", o.Items)
		if c.Spell != "" {
			c13SpellAccount(e, spell, c, o)
		}
		if c.Alias != "" {
			mu.Lock()
			aliasPl[c.Class+"/"+c.Alias]++
			mu.Unlock()
			e.R.Count("alias_cases_judged")
		}
		if len(o.Fails) == 0 {
			// the history dimension (c13_history.go): the same scanned manifest
			// used for k >= 2 real transfers
			if h, ok := c13HistPlan(e, c); ok {
				c13RunHistory(e, hs, c, base, h)
			}
			return
		}
		// key = input class; clauses the class is not about get their own key
		def := c13Def(c.Class)
		prim := map[string]bool{}
		for _, p := range def.Primary {
			prim[p] = true
		}
		byKey := map[string][]c13Fail{}
		var order []string
		for _, f := range o.Fails {
			k := c.Class
			if alias, ok := def.Alias[f.Clause]; ok {
				k = alias
			} else if !prim[f.Clause] {
				k = c.Class + "/" + f.Clause
			}
			if _, ok := byKey[k]; !ok {
				order = append(order, k)
			}
			byKey[k] = append(byKey[k], f)
		}
		items := res.Manifest.Items
		if len(items) > 60 {
			items = items[:60]
		}
		for _, k := range order {
			fs := byKey[k]
			mu.Lock()
			failKeys[k]++
			mu.Unlock()
			e.R.Violate(k, fmt.Sprintf("[%s via %s] %s (%d failing clause instance(s) in this case)", c.Class, c.Mode, fs[0].Msg, len(fs)),
				c, map[string]any{"fails": fs, "items": items, "base": base, "observed": o})
		}
	}

	runOne := func(c c13Case, chdir bool) {
		base := filepath.Join(work, c.ID)
		defer os.RemoveAll(base)
		e.R.Eval()
		if err := c13Materialize(base, c.Nodes); err != nil {
			e.R.Inconcl(c.ID + " materialize: " + err.Error())
			return
		}
		cwd := origWD
		if chdir {
			cwd = filepath.Join(base, c.Cwd)
			if err := os.Chdir(cwd); err != nil {
				e.R.Inconcl(c.ID + " chdir: " + err.Error())
				return
			}
			defer os.Chdir(origWD)
		}
		account(c, base, c13Check(c, base, cwd))
	}

	var par, ser, spelled []c13Case
	for _, c := range cases {
		if c.Spell != "" {
			spelled = append(spelled, c)
		} else if c.Cwd != "" {
			ser = append(ser, c)
		} else {
			par = append(par, c)
		}
	}
	// spelled paths: child processes, each with its own working directory
	spellDone := make(chan struct{})
	go func() {
		defer close(spellDone)
		c13RunSpelled(e, work, spelled, account)
	}()
	// the path list as it travels through the real command line (c13_cli.go):
	// real `thru host` processes, each with its own working directory
	cliDone := make(chan struct{})
	go func() {
		defer close(cliDone)
		c13RunCLI(e, work, account)
	}()
	vk.ParallelDo(len(par), 16, func(i int) { runOne(par[i], false) })
	for _, c := range ser { // relative paths need the process working directory: one at a time
		runOne(c, true)
	}
	<-spellDone
	<-cliDone
	// the sharing dimension (c13_shared.go): the host's ONE resolver answering several receivers
	// at the same time; run when nothing else in this process competes for the processors
	shared := c13RunShared(e, work)

	// samples: real cases with what was observed, clean classes first
	for _, k := range []string{"paths:dup-basename", "spell:dot", "paths:same-path-twice", "entry:fifo", "spell:sub-dotdot", "paths:path-and-subdir",
		"tree:unicode", "alias:whitespace", "alias:backslash", "paths:literal-ordinal-prefix", "paths:dot", "entry:symlink-file"} {
		if s, ok := sampled[k]; ok {
			e.R.Sample(s)
		}
	}

	classes := make([]string, 0, len(agg))
	for k := range agg {
		classes = append(classes, k)
	}
	sort.Strings(classes)
	tot := c13Agg{}
	for _, k := range classes {
		a := agg[k]
		tot.Cases += a.Cases
		tot.ScanMode += a.ScanMode
		tot.Rejected += a.Rejected
		tot.Files += a.Files
		tot.Dirs += a.Dirs
		tot.Others += a.Others
		tot.Items += a.Items
		tot.Lookups += a.Lookups
		tot.Special += a.Special
		tot.Failing += a.Failing
	}
	e.R.SetExtra("per_feature_class", agg)
	e.R.SetExtra("totals", tot)
	e.R.SetExtra("special_entries_listed_by_kind", special)
	e.R.SetExtra("failing_cases_by_key", failKeys)
	e.R.SetExtra("alias_cases_by_class_and_placement", aliasPl)
	vk.Logf("c13: %d cases (%d via Scan, %d rejected), walked %d files %d dirs %d other, %d items listed, %d resolver lookups, failing keys %v",
		tot.Cases, tot.ScanMode, tot.Rejected, tot.Files, tot.Dirs, tot.Others, tot.Items, tot.Lookups, failKeys)

	// a run that observed too little is not "held"
	for _, d := range c13Classes {
		a := agg[d.Key]
		n := 0
		if a != nil {
			n = a.Cases
		}
		need := 1
		if d.Weight > 0 {
			need = e.Pick(15, 400)
		}
		if d.Spell {
			need = e.Pick(d.SampleQ, d.SampleT) * 3 / 4
		}
		if c13IsAlias(d.Key) {
			need = e.Pick(d.SampleQ, d.SampleT) * 3 / 4
			for _, pl := range c13AliasPlacements {
				e.R.Require(aliasPl[d.Key+"/"+pl] > 0, fmt.Sprintf("feature class %s: no case with placement %s was judged", d.Key, pl))
			}
		}
		e.R.Require(n >= need, fmt.Sprintf("feature class %s: only %d case(s) completed, need %d", d.Key, n, need))
	}
	e.R.Require(tot.Lookups >= e.Pick(8000, 200000), fmt.Sprintf("only %d resolver lookups", tot.Lookups))
	e.R.Require(tot.Files >= e.Pick(5000, 150000), fmt.Sprintf("only %d files walked", tot.Files))
	e.R.Require(tot.ScanMode >= e.Pick(100, 3000), fmt.Sprintf("only %d cases through manifest.Scan", tot.ScanMode))
	e.R.Require(special["fifo"] > 0 && special["symlink-file"] > 0, "no FIFO / symlink entry was ever listed: special-entry clause not exercised")
	c13SpellFinish(e, spell)
	c13HistFinish(e, hs)
	c13SharedFinish(e, shared)
}
