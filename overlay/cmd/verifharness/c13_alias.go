//go:build verif

package main

// C13, the ALIAS dimension of the name quantifier: names that some layer of the
// tool might "normalise" (separator rewriting, white-space trimming, Unicode
// normalisation, case folding, Windows-style trailing dots) are put NEXT TO the
// entry they would alias after such a normalisation. On Linux every such name
// is an ordinary, distinct name: a backslash, a trailing blank, a combining
// accent are plain bytes of a file name. So the manifest must list both entries
// under distinct rel paths, each resolving to its own source with its own size
// (oracle of c13.go), and the SENDER must read each of them from its own source
// (history stage, c13_history.go: every clean alias case is taken through real
// transfers with the host's resolver installed and the received bytes judged).
//
// A pair is (X, Y): X the odd name, Y the relative path a normaliser would map
// X to ("" = no clean path exists). The two files always differ in their first
// byte and Y is at least as long as X, so that reading the first Size(X) bytes
// of Y instead of X is neither a short read nor the same bytes.
//
// Placements (round-robin, so every run has all of them in every class):
//   siblings     one shared directory holds file X and file Y
//   alone        one shared directory holds file X, no Y
//   given-pair   the given paths are p0/X (file or directory) and p1/Y
//   given-alone  the single given path is p0/X (file or directory)
//   dir-pair     one shared directory holds directories X and Y with equally named files

import (
	"fmt"
	"strings"

	vk "github.com/sheerbytes/sheerbytes/internal/verifkit"
)

type c13AliasPair struct{ X, Y string }

var c13AliasPlacements = []string{"siblings", "alone", "given-pair", "given-alone", "dir-pair"}

var c13AliasPairs = map[string][]c13AliasPair{
	// '\' is an ordinary name character on Unix
	"alias:backslash": {
		{`a\b`, "a/b"}, {`x\y.txt`, "x/y.txt"}, {`a\b\c`, "a/b/c"}, {`\lead`, ""}, {`dir\sub\f.bin`, "dir/sub/f.bin"},
		{`trail\`, ""}, {`a\\b`, ""}, {`C:\data\f`, "C:/data/f"}, {`..\x`, ""}, {`日本\語`, "日本/語"}, {`a b\c d`, "a b/c d"},
	},
	// trailing (0..8), leading, both: every character unicode.IsSpace accepts is a name byte
	"alias:whitespace": {
		{"notes.txt ", "notes.txt"}, {"a\t", "a"}, {"line\n", "line"}, {"nb\u00a0", "nb"}, {" lead", "lead"},
		{"wide\u3000", "wide"}, {"two  ", "two"}, {" both ", "both"}, {"cr\r", "cr"}, {"\tlead.txt", "lead.txt"},
		{"em\u2003", "em"}, {"nel\u0085", "nel"}, {"\u00a0x\u3000", "x"}, {"f.bin \t\n", "f.bin"},
	},
	// the same text in two normalisation forms (NFC/NFD, compatibility forms)
	"alias:unicode-forms": {
		{"e\u0301", "\u00e9"}, {"\u00e9.txt", "e\u0301.txt"}, {"n\u0303.txt", "\u00f1.txt"}, {"A\u030a", "\u00c5"}, {"\u212b", "\u00c5"},
		{"\u1112\u1161\u11ab", "\ud55c"}, {"\uff46\uff55\uff4c\uff4c", "full"}, {"\ufb01le", "file"}, {"U\u0308ni co\u0308de", "\u00dcni c\u00f6de"},
		{"\u30cf\u309a", "\u30d1"}, {"a\u200bb", "ab"},
	},
	// case is significant on Linux: two distinct entries
	"alias:case": {
		{"README", "readme"}, {"A.TXT", "a.txt"}, {"Data.Bin", "data.bin"}, {"STRASSE", "stra\u00dfe"}, {"\u0130", "i"}, {"\u03a9", "\u03c9"}, {"SRC", "src"},
	},
	// Windows drops trailing dots (and blanks); on Unix they are part of the name
	"alias:trailing-dot": {
		{"a.", "a"}, {"x..", "x"}, {"dir.", "dir"}, {"f.txt.", "f.txt"}, {"...", ""}, {"a. ", "a"},
	},
}

func c13IsAlias(class string) bool { return strings.HasPrefix(class, "alias:") }

var c13AliasSizes = []int{1, 2, 17, 100, 1000, 4096, 5000}

// c13AliasGen builds case k of an alias class: placement k%5, pair chosen by
// (k/5, placement, off) so that a run covers the pairs evenly; off and all
// sizes come from the seeded stream.
func c13AliasGen(id int, class string, k, off int, r *vk.Rng) c13Case {
	c := c13Case{ID: fmt.Sprintf("c13a-%04d", id), Class: class, Mode: "scanpaths"}
	b := &c13B{r: r, used: map[string]bool{}, pool: c13PlainPool}
	pairs := c13AliasPairs[class]
	pl := c13AliasPlacements[k%len(c13AliasPlacements)]
	j := k / len(c13AliasPlacements)
	pair := pairs[(off+j+3*(k%len(c13AliasPlacements)))%len(pairs)]
	if pair.Y == "" {
		switch pl { // no clean path the name could alias: the name alone
		case "siblings", "dir-pair":
			pl = "alone"
		case "given-pair":
			pl = "given-alone"
		}
	}
	sx := c13AliasSizes[r.Intn(len(c13AliasSizes))]
	sy := sx + []int{0, 1, 100}[r.Intn(3)]
	fileX := func(rel string) { b.add(c13Node{Kind: "file", Rel: rel, Size: sx, Salt: 5}) }
	fileY := func(rel string) { b.add(c13Node{Kind: "file", Rel: rel, Size: sy, Salt: 11}) }
	mkdirs := func(root, rel string) { // the directories on the way to root/rel
		parts := strings.Split(rel, "/")
		for i := 1; i < len(parts); i++ {
			b.dir(root + "/" + strings.Join(parts[:i], "/"))
		}
	}
	plainRoot := func(i int) string { // a shared directory with an ordinary name that no pair uses
		return b.rootDir(i, []string{"share", "docs", "out-1", "tree"}[r.Intn(4)])
	}
	extra := func(root string) { // ordinary neighbours
		for i := 0; i < r.Intn(3); i++ {
			n := fmt.Sprintf("n%d.dat", i)
			b.file(root+"/"+n, c13Sizes[r.Intn(len(c13Sizes))])
		}
	}
	scanOK := false
	asDir := r.Bool()
	switch pl {
	case "siblings":
		root := plainRoot(0)
		extra(root)
		mkdirs(root, pair.Y)
		fileX(root + "/" + pair.X)
		fileY(root + "/" + pair.Y)
		c.Paths = []string{c13P(root)}
		scanOK = true
	case "alone":
		root := plainRoot(0)
		extra(root)
		fileX(root + "/" + pair.X)
		c.Paths = []string{c13P(root)}
		scanOK = true
	case "dir-pair":
		root := plainRoot(0)
		extra(root)
		dx := b.dir(root + "/" + pair.X)
		mkdirs(root, pair.Y)
		dy := b.dir(root + "/" + pair.Y)
		fileX(dx + "/f.bin")
		fileY(dy + "/f.bin")
		if r.Bool() {
			b.file(dx+"/g", 40)
			b.file(dy+"/g", 41)
		}
		c.Paths = []string{c13P(root)}
		scanOK = true
	case "given-alone":
		p0 := b.parent(0)
		if asDir {
			d := b.dir(p0 + "/" + pair.X)
			fileX(d + "/f.bin")
			extra(d)
		} else {
			fileX(p0 + "/" + pair.X)
		}
		c.Paths = []string{c13P(p0 + "/" + pair.X)}
		scanOK = true
	case "given-pair":
		p0, p1 := b.parent(0), b.parent(1)
		ysegs := strings.SplitN(pair.Y, "/", 2)
		if len(ysegs) == 2 { // X is a file; Y is a given directory holding the rest of the path
			fileX(p0 + "/" + pair.X)
			b.dir(p1 + "/" + ysegs[0])
			mkdirs(p1, pair.Y)
			fileY(p1 + "/" + pair.Y)
		} else if asDir {
			dx, dy := b.dir(p0+"/"+pair.X), b.dir(p1+"/"+pair.Y)
			fileX(dx + "/f.bin")
			fileY(dy + "/f.bin")
		} else {
			fileX(p0 + "/" + pair.X)
			fileY(p1 + "/" + pair.Y)
		}
		c.Paths = []string{c13P(p0 + "/" + pair.X), c13P(p1 + "/" + ysegs[0])}
		if r.Bool() {
			c.Paths[0], c.Paths[1] = c.Paths[1], c.Paths[0]
		}
	}
	if scanOK && j%3 == 2 {
		c.Mode = "scan"
	}
	c.Alias = pl
	c.Nodes = b.nodes
	return c
}

// c13AliasCases appends the alias cases: an own stream, so that the other
// case lists are what they always were.
func c13AliasCases(e *Env) []c13Case {
	r := vk.NewRng(vk.Mix(e.Seed ^ vk.HashStr("c13alias"+e.Tier)))
	var cases []c13Case
	id := 0
	for _, d := range c13Classes {
		if !c13IsAlias(d.Key) {
			continue
		}
		off := r.Intn(len(c13AliasPairs[d.Key]))
		for k := 0; k < e.Pick(d.SampleQ, d.SampleT); k++ {
			cases = append(cases, c13AliasGen(id, d.Key, k, off, r.Fork()))
			id++
		}
	}
	return cases
}

// c13TrimmedSibling reports whether the case holds a listed FILE whose name ends
// in white space next to a file with the trimmed name that is at least as long:
// the input on which a sender that trims the resolved path reads other bytes
// and nobody notices.
func c13TrimmedSibling(c c13Case) bool {
	files := map[string]int{}
	for _, n := range c.Nodes {
		if n.Kind == "file" {
			files[n.Rel] = n.Size
		}
	}
	for rel, sz := range files {
		t := strings.TrimSpace(rel)
		if t != rel && strings.HasPrefix(rel, t) {
			if s2, ok := files[t]; ok && s2 >= sz {
				return true
			}
		}
	}
	return false
}
