//go:build verif

package main

// c13_cli.go: the path list as it travels through the real command line.
//
// Every other stage of C13 starts at manifest.ScanPaths / buildPathResolver
// with a path list the harness made. The property speaks about "any set of
// paths to share", and the paths a user shares are the positional arguments of
// `thru host`: a layer above the library (internal/cli/sender.Run, then
// app.RunSnapshotSender) decides which strings reach the scanner. This stage
// drives that layer as it is shipped: the real `thru` binary is started as
// `thru host <args…>` in a working directory of its own against a real
// thruserv, a recording WebSocket client joins the session as a receiver, and
// the manifest the host ANNOUNCES for the session (protocol.ManifestOffer:
// id = hash over the whole manifest, totals, counts, root name) is the
// observation.
//
// Oracle: the announced manifest must be the manifest of the arguments AS
// TYPED. The reference is the real manifest.ScanPaths on exactly those
// strings in the same working directory (a child process of the harness,
// because the working directory is process-global), which is itself judged by
// the independent walk of c13Check (every clause of the scan oracle applies
// to these trees too, under the class key). "Scanning the same unchanged
// paths again yields the same manifest and identifiers" makes identifier
// equality a fair demand; nothing is demanded when the reference scan rejects
// the path list or when the host does not get as far as a join code.
//
// Input dimension: names that an argument pre-processor might INTERPRET rather
// than pass on - glob metacharacters, backslash escapes, braces, '~', $VAR and
// %VAR%, list separators, surrounding white space or quotes, '@file', percent
// escapes, a leading dash, tokens that look like sizes or booleans - each next
// to the NEIGHBOURHOOD that makes the interpretation visible (the siblings the
// name would match / split into / expand to, with other sizes and bytes; $HOME
// and $V set to such siblings), as a file or as a directory, typed relative,
// with './', absolute, alone or with an ordinary partner; plus several
// arguments with equal base names in non-lexical order, and ordinary names as
// the control class.

import (
	"encoding/json"
	"flag"
	"fmt"
	"os"
	"os/exec"
	"path/filepath"
	"sort"
	"strings"
	"sync"
	"syscall"
	"time"

	"github.com/sheerbytes/sheerbytes/internal/app"
	vk "github.com/sheerbytes/sheerbytes/internal/verifkit"
	"github.com/sheerbytes/sheerbytes/pkg/protocol"
)

func init() { childCommands["c13cliref"] = c13CLIRefChild }

// ---------------------------------------------------------------- cases

// one name to give on the command line and the entries of the same directory
// that the name would denote if some layer interpreted it
type c13CLIPat struct {
	Given string
	Sibs  []string
}

var c13CLIClasses = []string{
	"cli:plain", "cli:glob-bracket", "cli:glob-question", "cli:glob-star", "cli:glob-backslash", "cli:brace",
	"cli:tilde", "cli:env-var", "cli:list-separator", "cli:whitespace", "cli:quotes", "cli:at-file",
	"cli:percent-escape", "cli:leading-dash", "cli:token-like", "cli:arg-order",
}

var c13CLIPats = map[string][]c13CLIPat{
	"cli:plain":          {{"plain.txt", []string{"other.txt"}}, {"dir", []string{"dir2"}}, {"a-b.c", []string{"a-b"}}},
	"cli:glob-bracket":   {{"notes[1].txt", []string{"notes1.txt"}}, {"photos [2019]", []string{"photos 2", "photos 9"}}, {"[a-c]x", []string{"bx"}}, {"x[!a]", []string{"xb"}}, {"[[]", []string{"["}}, {"v[1-3].bin", []string{"v2.bin", "v3.bin"}}},
	"cli:glob-question":  {{"draft?.md", []string{"draft2.md"}}, {"What now?", []string{"What nowX", "What now!"}}, {"?", []string{"a", "b"}}, {"??.d", []string{"xy.d"}}},
	"cli:glob-star":      {{"a*b", []string{"axxb", "ab"}}, {"*.iso", []string{"x.iso", "y.iso"}}, {"*", []string{"q", "r"}}, {"log*", []string{"log1", "log.old"}}},
	"cli:glob-backslash": {{`a\*b`, []string{"a*b"}}, {`x\[1]`, []string{"x[1]"}}, {`b\?`, []string{"b?"}}, {`c\\*`, []string{`c\z`}}},
	"cli:brace":          {{"{a,b}.txt", []string{"a.txt", "b.txt"}}, {"x{1..3}", []string{"x1", "x2", "x3"}}, {"{p}", []string{"p"}}},
	"cli:tilde":          {{"~", []string{"home/inhome"}}, {"~/x", []string{"home/x"}}, {"~root", []string{"root"}}, {"~+", []string{"home/y"}}},
	"cli:env-var":        {{"$HOME", []string{"home/x"}}, {"${V}", []string{"val"}}, {"%V%", []string{"val"}}, {"$V.txt", []string{"val.txt"}}, {"$(V)", []string{"val"}}},
	"cli:list-separator": {{"a,b", []string{"a", "b"}}, {"x;y", []string{"x", "y"}}, {"p:q", []string{"p", "q"}}, {"m|n", []string{"m", "n"}}},
	"cli:whitespace":     {{" a", []string{"a"}}, {"a ", []string{"a"}}, {"a\t", []string{"a"}}, {"a b", []string{"a", "b"}}, {"a\nb", []string{"a", "b"}}},
	"cli:quotes":         {{`"a"`, []string{"a"}}, {`'a'`, []string{"a"}}, {"`a`", []string{"a"}}, {`a"b`, []string{"ab"}}},
	"cli:at-file":        {{"@list", []string{"list"}}, {"@", []string{"x"}}, {"@x.rsp", []string{"x.rsp"}}},
	"cli:percent-escape": {{"a%20b", []string{"a b"}}, {"a+b", []string{"a b"}}, {"%61", []string{"a"}}, {"a%2Fb", []string{"a/b"}}},
	"cli:leading-dash":   {{"-", []string{"x"}}, {"-x", []string{"x"}}, {"-1", []string{"1"}}, {"-n=3", []string{"n"}}},
	"cli:token-like":     {{"1G", []string{"1"}}, {"4", []string{"04"}}, {"true", []string{"false"}}, {"10M", []string{"10"}}, {"http:", []string{"http"}}},
}

// how the given name is typed and what else is given
var c13CLIPlacements = []string{"relative", "relative+partner", "dot-slash", "absolute", "partner+relative", "absolute+partner"}

var c13CLISizes = []int{1, 2, 17, 100, 255, 1000, 4096, 5000}

type c13CLICase struct {
	C     c13Case  `json:"case"`
	Place string   `json:"placement"`
	Kind  string   `json:"given_kind"` // file | dir
	Given []string `json:"given_names"`
	Env   []string `json:"env"` // HOME / V as set for the host, {B} = case base
}

// c13CLIGen: one case; everything lives in {B}/D, which is also the working
// directory of the host. A pure function of (id, class, k, rng state).
func c13CLIGen(id int, class string, k int, r *vk.Rng) c13CLICase {
	cc := c13CLICase{}
	c := &cc.C
	c.ID = fmt.Sprintf("c13cli-%04d", id)
	c.Class = class
	c.Mode = "scanpaths"
	c.Cwd = "D"
	cc.Env = []string{"HOME={B}/D/home", "V=val"}
	seen := map[string]bool{}
	salt := 0
	sizeAt := r.Intn(len(c13CLISizes))
	nextSize := func() int { sizeAt++; return c13CLISizes[sizeAt%len(c13CLISizes)] }
	addDir := func(rel string) {
		if !seen[rel] {
			seen[rel] = true
			c.Nodes = append(c.Nodes, c13Node{Kind: "dir", Rel: rel})
		}
	}
	addParents := func(rel string) {
		parts := strings.Split(rel, "/")
		for i := 1; i < len(parts); i++ {
			addDir(strings.Join(parts[:i], "/"))
		}
	}
	addFile := func(rel string) {
		if seen[rel] {
			return
		}
		addParents(rel)
		seen[rel] = true
		salt += 3
		c.Nodes = append(c.Nodes, c13Node{Kind: "file", Rel: rel, Size: nextSize(), Salt: salt})
	}
	// an entry named rel: a file, or a directory with a file, a sub-directory and a file in it
	addEntry := func(rel, kind string) {
		if kind == "file" {
			addFile(rel)
			return
		}
		addParents(rel)
		addDir(rel)
		addFile(rel + "/f0")
		addDir(rel + "/s")
		addFile(rel + "/s/f1")
	}
	addDir("D")
	addEntry("D/home", "dir")

	if class == "cli:arg-order" {
		// equal base names given in an order that is not the sorted one: the ordinal
		// prefixes follow the argument order, so a layer that sorts, reverses or
		// de-duplicates the arguments changes the manifest
		orders := [][]string{{"b", "a"}, {"c", "a", "b"}, {"z", "m", "a"}, {"b", "a", "c"}}
		ord := orders[k%len(orders)]
		name := []string{"x", "same.txt", "n"}[(k/len(orders))%3]
		cc.Kind = []string{"file", "dir"}[(k/2)%2]
		cc.Place = []string{"relative", "absolute", "dot-slash"}[k%3]
		for _, d := range ord {
			addEntry("D/"+d+"/"+name, cc.Kind)
			cc.Given = append(cc.Given, d+"/"+name)
		}
		for _, g := range cc.Given {
			switch cc.Place {
			case "absolute":
				c.Paths = append(c.Paths, "{B}/D/"+g)
			case "dot-slash":
				c.Paths = append(c.Paths, "./"+g)
			default:
				c.Paths = append(c.Paths, g)
			}
		}
		return cc
	}

	pats := c13CLIPats[class]
	p := pats[k%len(pats)]
	cc.Place = c13CLIPlacements[(k/len(pats)+k)%len(c13CLIPlacements)]
	cc.Kind = []string{"file", "dir"}[r.Intn(2)]
	addEntry("D/"+p.Given, cc.Kind)
	for _, s := range p.Sibs {
		addEntry("D/"+s, cc.Kind)
	}
	addEntry("D/partner.dat", "file")
	cc.Given = []string{p.Given}
	var arg string
	switch {
	case strings.HasPrefix(cc.Place, "absolute"):
		arg = "{B}/D/" + p.Given
	case cc.Place == "dot-slash":
		arg = "./" + p.Given
	default:
		arg = p.Given
	}
	switch cc.Place {
	case "relative+partner", "absolute+partner":
		c.Paths = []string{arg, "partner.dat"}
		cc.Given = append(cc.Given, "partner.dat")
	case "partner+relative":
		c.Paths = []string{"partner.dat", arg}
		cc.Given = append([]string{"partner.dat"}, cc.Given...)
	default:
		c.Paths = []string{arg}
	}
	return cc
}

func c13CLICases(e *Env) []c13CLICase {
	r := vk.NewRng(e.Seed ^ vk.HashStr("c13cli"+e.Tier))
	per := e.Pick(6, 36)
	var out []c13CLICase
	id := 0
	for _, class := range c13CLIClasses {
		off := r.Intn(1 << 16)
		for i := 0; i < per; i++ {
			out = append(out, c13CLIGen(id, class, off+i, r.Fork()))
			id++
		}
	}
	return out
}

// a relative first argument that starts with '-' '-' would be a flag of the
// tool, not a path: such a command line is not a path list at all
func c13CLIIsFlag(arg string) bool { return strings.HasPrefix(arg, "--") || arg == "-h" }

// ---------------------------------------------------------------- reference (child process)

type c13CLIRefIn struct {
	Case c13Case `json:"case"`
	Base string  `json:"base"`
}

type c13CLIRefOut struct {
	Res   c13Result `json:"res"`
	ID    string    `json:"id"`
	IDErr string    `json:"id_err,omitempty"`
	Err   string    `json:"err,omitempty"`
}

// c13CLIRefChild: verifharness c13cliref -in job.json -out out.json
// Runs the real library on the arguments as typed, in the working directory
// the host will have, and the scan oracle on the result.
func c13CLIRefChild(args []string) int {
	fs := flag.NewFlagSet("c13cliref", flag.ExitOnError)
	in := fs.String("in", "", "")
	outp := fs.String("out", "", "")
	_ = fs.Parse(args)
	var job c13CLIRefIn
	data, err := os.ReadFile(*in)
	if err == nil {
		err = json.Unmarshal(data, &job)
	}
	if err != nil {
		fmt.Fprintln(os.Stderr, "c13cliref:", err)
		return 3
	}
	var out c13CLIRefOut
	cwd := filepath.Join(job.Base, job.Case.Cwd)
	os.Setenv("PWD", cwd)
	if err := os.Chdir(cwd); err != nil {
		out.Err = "chdir: " + err.Error()
	} else {
		out.Res = c13Check(job.Case, job.Base, cwd)
		if out.Res.Obs.Rejected == "" && out.Res.Setup == "" {
			id, err := app.VerifHashManifestJSON(out.Res.Manifest)
			out.ID = id
			if err != nil {
				out.IDErr = err.Error()
			}
		}
	}
	data, _ = json.Marshal(out)
	if err := os.WriteFile(*outp, data, 0644); err != nil {
		fmt.Fprintln(os.Stderr, "c13cliref:", err)
		return 3
	}
	return 0
}

// ---------------------------------------------------------------- the real host

type c13CLIHost struct {
	cmd    *exec.Cmd
	log    string
	exited chan struct{}
}

func (h *c13CLIHost) stop() {
	if h.cmd != nil && h.cmd.Process != nil {
		_ = h.cmd.Process.Kill()
		<-h.exited
	}
}

// sharing lines of the host's banner (evidence only, never judged)
func c13CLISharing(log string) []string {
	var out []string
	on := false
	for _, l := range strings.Split(log, "\n") {
		if strings.HasPrefix(l, "Sharing the following paths:") {
			on = true
			continue
		}
		if on {
			if strings.HasPrefix(l, "  - ") {
				out = append(out, strings.TrimPrefix(l, "  - "))
			} else {
				break
			}
		}
	}
	return out
}

func c13CLIJoinCode(log string) string {
	const mark = "=== Join Code: "
	i := strings.Index(log, mark)
	if i < 0 {
		return ""
	}
	rest := log[i+len(mark):]
	j := strings.Index(rest, " ===")
	if j < 0 {
		return ""
	}
	return strings.TrimSpace(rest[:j])
}

type c13CLIAgg struct {
	Cases     int `json:"cases"`
	Judged    int `json:"announced_manifest_judged"`
	Relative  int `json:"judged_typed_relative"`
	Files     int `json:"judged_given_as_file"`
	Dirs      int `json:"judged_given_as_directory"`
	Rejected  int `json:"reference_scan_rejected"`
	NoVerdict int `json:"no_verdict"`
	Failing   int `json:"failing"`
}

// c13RunCLI runs the stage. account is runC13's booking of one scan-oracle
// result (coverage, evidence, verdict under the class key).
func c13RunCLI(e *Env, work string, account func(c13Case, string, c13Result)) {
	cases := c13CLICases(e)
	aggs := map[string]*c13CLIAgg{}
	for _, k := range c13CLIClasses {
		aggs[k] = &c13CLIAgg{}
	}
	var mu sync.Mutex
	var sample any
	finish := func() {
		tot := c13CLIAgg{}
		for _, k := range c13CLIClasses {
			a := aggs[k]
			tot.Cases += a.Cases
			tot.Judged += a.Judged
			tot.Relative += a.Relative
			tot.Files += a.Files
			tot.Dirs += a.Dirs
			tot.Rejected += a.Rejected
			tot.NoVerdict += a.NoVerdict
			tot.Failing += a.Failing
		}
		e.R.SetExtra("cli_stage_per_class", aggs)
		e.R.SetExtra("cli_stage_totals", tot)
		if sample != nil {
			e.R.Sample(sample)
		}
		per := e.Pick(6, 36)
		for _, k := range c13CLIClasses {
			a := aggs[k]
			e.R.Require(a.Judged >= per*2/3, fmt.Sprintf("cli stage, class %s: the announced manifest of only %d real `thru host` run(s) was judged, need %d", k, a.Judged, per*2/3))
			e.R.Require(a.Relative >= 1, fmt.Sprintf("cli stage, class %s: no judged run with the name typed relative to the working directory", k))
		}
		e.R.Require(tot.Files > 0 && tot.Dirs > 0, "cli stage: given entries of both kinds (file, directory) were not both judged")
		vk.Logf("c13 cli: %d real `thru host` runs, %d announced manifests judged (%d typed relative), %d rejected by the reference scan, %d without verdict, %d failing",
			tot.Cases, tot.Judged, tot.Relative, tot.Rejected, tot.NoVerdict, tot.Failing)
	}

	thru := filepath.Join(e.BinDir, "thru")
	servBin := filepath.Join(e.BinDir, "thruserv")
	for _, b := range []string{thru, servBin} {
		if _, err := os.Stat(b); err != nil {
			e.R.Inconcl("cli stage: binary missing: " + b)
			finish()
			return
		}
	}
	cliWork := filepath.Join(work, "cli")
	if err := os.MkdirAll(cliWork, 0755); err != nil {
		e.R.Inconcl("cli stage: " + err.Error())
		finish()
		return
	}
	// every limit that counts requests per address is off: all hosts come from 127.0.0.1
	serv, err := vk.StartServ(servBin, []string{"--session-creates-per-min", "0", "--ws-connects-per-min", "0",
		"--max-sessions", "0", "--max-ws-connections", "0", "--ws-idle-timeout", "0", "--session-timeout", "0"},
		filepath.Join(cliWork, "thruserv.log"))
	if err != nil {
		e.R.Inconcl("cli stage: " + err.Error())
		finish()
		return
	}
	defer serv.Stop()

	const watchdog = 90 * time.Second // environment only: a run that hits it has no verdict

	runOne := func(cc c13CLICase) {
		c := cc.C
		base := filepath.Join(cliWork, c.ID)
		defer os.RemoveAll(base)
		e.R.Eval()
		a := aggs[c.Class]
		mu.Lock()
		a.Cases++
		mu.Unlock()
		noVerdict := func(why string) {
			mu.Lock()
			a.NoVerdict++
			mu.Unlock()
			e.R.Inconcl("cli stage " + c.ID + " [" + c.Class + "]: " + why)
		}
		if err := c13Materialize(base, c.Nodes); err != nil {
			noVerdict("materialize: " + err.Error())
			return
		}
		cwd := filepath.Join(base, c.Cwd)
		args := make([]string, len(c.Paths))
		for i, p := range c.Paths {
			args[i] = strings.Replace(p, "{B}", base, 1)
			if c13CLIIsFlag(args[i]) {
				noVerdict("generator produced a flag-like argument")
				return
			}
		}

		// --- reference: the library on the arguments as typed, judged by the walk
		jobPath := filepath.Join(cliWork, c.ID+".in.json")
		outPath := filepath.Join(cliWork, c.ID+".out.json")
		defer os.Remove(jobPath)
		defer os.Remove(outPath)
		data, _ := json.Marshal(c13CLIRefIn{Case: c, Base: base})
		if err := os.WriteFile(jobPath, data, 0644); err != nil {
			noVerdict(err.Error())
			return
		}
		ref := exec.Command(os.Args[0], "c13cliref", "-in", jobPath, "-out", outPath)
		ref.Dir = cliWork
		ref.SysProcAttr = &syscall.SysProcAttr{Pdeathsig: syscall.SIGKILL}
		if outb, err := ref.CombinedOutput(); err != nil {
			noVerdict(fmt.Sprintf("reference child: %v %s", err, strings.TrimSpace(string(outb))))
			return
		}
		var ro c13CLIRefOut
		data, err := os.ReadFile(outPath)
		if err == nil {
			err = json.Unmarshal(data, &ro)
		}
		if err != nil || ro.Err != "" {
			noVerdict(fmt.Sprintf("reference child answer: %v %s", err, ro.Err))
			return
		}
		account(c, base, ro.Res) // scan oracle on this tree and path list, under the class key
		if ro.Res.Setup != "" {
			mu.Lock()
			a.NoVerdict++
			mu.Unlock()
			return
		}
		if ro.Res.Obs.Rejected != "" {
			mu.Lock()
			a.Rejected++
			mu.Unlock()
			return
		}
		if len(ro.Res.Obs.Fails) > 0 {
			return // already reported: the reference itself is not a manifest to compare with
		}
		if ro.IDErr != "" {
			noVerdict("reference id: " + ro.IDErr)
			return
		}

		// --- the real command line
		logPath := filepath.Join(cliWork, c.ID+".host.log")
		defer os.Remove(logPath)
		lf, err := os.Create(logPath)
		if err != nil {
			noVerdict(err.Error())
			return
		}
		defer lf.Close()
		argv := append([]string{"host"}, args...)
		argv = append(argv, "--server-url", serv.URL, "--stun-server", "stun:127.0.0.1:9")
		cmd := exec.Command(thru, argv...)
		cmd.Dir = cwd
		env := os.Environ()
		env = append(env, "PWD="+cwd, "VERIFHOOK=", "NO_COLOR=1")
		for _, kv := range cc.Env {
			env = append(env, strings.ReplaceAll(kv, "{B}", base))
		}
		cmd.Env = env
		cmd.Stdout = lf
		cmd.Stderr = lf
		cmd.SysProcAttr = &syscall.SysProcAttr{Pdeathsig: syscall.SIGKILL}
		if err := cmd.Start(); err != nil {
			noVerdict("start thru: " + err.Error())
			return
		}
		h := &c13CLIHost{cmd: cmd, log: logPath, exited: make(chan struct{})}
		go func() { _ = cmd.Wait(); close(h.exited) }()
		defer h.stop()

		readLog := func() string { b, _ := os.ReadFile(logPath); return string(b) }
		code := ""
		deadline := time.Now().Add(watchdog)
		for code == "" {
			code = c13CLIJoinCode(readLog())
			if code != "" {
				break
			}
			select {
			case <-h.exited:
				code = c13CLIJoinCode(readLog())
				if code == "" {
					// the host gave up before it announced anything: there is no manifest to judge
					noVerdict("thru host exited before it printed a join code although the library accepts the paths: " + tailStrC13(readLog(), 400))
					return
				}
			case <-time.After(20 * time.Millisecond):
			}
			if time.Now().After(deadline) {
				noVerdict("no join code within the watchdog")
				return
			}
		}
		// The host prints the join code before it connects to the signaling server and it
		// learns about receivers from peer_joined only: a receiver that got in first (its
		// peer_list names no sender) waits for the sender's peer_joined and joins again.
		var rcv vk.WSRecv
		offered := false
		for attempt := 0; attempt < 4 && !offered; attempt++ {
			peer := fmt.Sprintf("c13rcv%08x-%d", vk.HashStr(c.ID)&0xffffffff, attempt)
			ws, err := vk.DialWS(vk.WSURL(serv.URL, code, peer, "receiver"), 30*time.Second, nil)
			if err != nil {
				noVerdict("receiver could not join: " + err.Error())
				return
			}
			pl, ok := ws.WaitType(protocol.TypePeerList, watchdog)
			if !ok {
				ws.Close(false)
				noVerdict("no peer_list within the watchdog")
				return
			}
			var list protocol.PeerList
			_ = pl.Env.DecodePayload(&list)
			senderThere := false
			for _, pi := range list.Peers {
				if pi.Role == "sender" {
					senderThere = true
				}
			}
			if !senderThere {
				_, ok := ws.WaitFor(func(r vk.WSRecv) bool {
					if r.BadJSON || r.Env.Type != protocol.TypePeerJoined {
						return false
					}
					var pj protocol.PeerJoined
					return r.Env.DecodePayload(&pj) == nil && pj.Peer.Role == "sender"
				}, watchdog)
				ws.Close(false)
				e.R.Count("cli_receiver_joined_before_host")
				if !ok {
					noVerdict("the host never connected to the signaling server; host log: " + tailStrC13(readLog(), 400))
					return
				}
				continue
			}
			rcv, offered = ws.WaitType(protocol.TypeManifestOffer, watchdog)
			ws.Close(false)
			if !offered {
				noVerdict("no manifest_offer within the watchdog; host log: " + tailStrC13(readLog(), 400))
				return
			}
		}
		if !offered {
			noVerdict("receiver never found the host connected")
			return
		}
		var offer protocol.ManifestOffer
		if err := rcv.Env.DecodePayload(&offer); err != nil {
			noVerdict("manifest_offer does not decode: " + err.Error())
			return
		}
		got := offer.Summary
		m := ro.Res.Manifest
		want := protocol.ManifestSummary{ManifestID: ro.ID, TotalBytes: m.TotalBytes, FileCount: m.FileCount, FolderCount: m.FolderCount, RootName: m.Root}

		relative := false
		for _, p := range c.Paths {
			if !strings.HasPrefix(p, "{B}") {
				relative = true
			}
		}
		mu.Lock()
		a.Judged++
		if relative {
			a.Relative++
		}
		if cc.Kind == "file" {
			a.Files++
		} else {
			a.Dirs++
		}
		if sample == nil && c.Class != "cli:plain" {
			sample = map[string]any{"cli_case": cc, "args": args, "announced": got, "manifest_of_the_arguments_as_typed": want, "host_says_it_shares": c13CLISharing(readLog())}
		}
		mu.Unlock()
		e.R.Count("cli_announced_manifests_judged")
		e.R.Distinct(fmt.Sprintf("%s/cli/%s/%s/%016x", c.Class, cc.Place, cc.Kind, c13Hash(c)))
		if got == want {
			return
		}
		mu.Lock()
		a.Failing++
		mu.Unlock()
		var diff []string
		if got.ManifestID != want.ManifestID {
			diff = append(diff, "identifier")
		}
		if got.TotalBytes != want.TotalBytes {
			diff = append(diff, fmt.Sprintf("total bytes %d instead of %d", got.TotalBytes, want.TotalBytes))
		}
		if got.FileCount != want.FileCount {
			diff = append(diff, fmt.Sprintf("%d files instead of %d", got.FileCount, want.FileCount))
		}
		if got.FolderCount != want.FolderCount {
			diff = append(diff, fmt.Sprintf("%d folders instead of %d", got.FolderCount, want.FolderCount))
		}
		if got.RootName != want.RootName {
			diff = append(diff, fmt.Sprintf("root %q instead of %q", got.RootName, want.RootName))
		}
		items := m.Items
		if len(items) > 60 {
			items = items[:60]
		}
		var entries []string
		if des, err := os.ReadDir(cwd); err == nil {
			for _, de := range des {
				entries = append(entries, de.Name())
			}
			sort.Strings(entries)
		}
		e.R.Violate(c.Class+"/announced-manifest",
			fmt.Sprintf("[%s, given as %s, typed %s] `thru host` with arguments %q announces a manifest that is not the manifest of these paths (%s)",
				c.Class, cc.Kind, cc.Place, c.Paths, strings.Join(diff, "; ")),
			cc, map[string]any{"args": args, "cwd": cwd, "entries_of_cwd": entries, "announced": got, "manifest_of_the_arguments_as_typed": want,
				"items_of_that_manifest": items, "host_says_it_shares": c13CLISharing(readLog()), "env": cc.Env})
	}

	vk.ParallelDo(len(cases), 8, func(i int) { runOne(cases[i]) })
	finish()
}

func tailStrC13(s string, n int) string {
	s = strings.TrimSpace(s)
	if len(s) > n {
		s = s[len(s)-n:]
	}
	return s
}
