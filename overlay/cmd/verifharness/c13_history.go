//go:build verif

package main

// C13, the history dimension: the manifest must keep describing the tree for
// as long as the host uses it.
//
// The host scans ONCE, computes the identifier it announces (sha256 of the
// manifest JSON, app.hashManifestJSON) and then hands the same manifest value
// to transfer.SendManifestMultiStream for every receiver that joins and for
// every receiver that reconnects to resume (internal/app/snapshot_sender.go).
// c13.go judges the manifest as it comes out of the scan; this file judges it
// over its life: a sampled subset of the clean cases of c13.go (plain entries
// only, so that a real transfer can run) is taken through a HISTORY of k >= 2
// real library transfers (SendManifestMultiStream / RecvManifestMultiStream over
// the repository's mock transport or loopback QUIC) which all use the one
// scanned manifest value, the way the application does:
//
//   next-receiver         k receivers one after the other, fresh output dirs
//   resume-reconnect      k transfers into the same output dir with resume on
//   concurrent-receivers  k receivers at the same time (--max-receivers > 1)
//
// Oracle, after every use (for concurrent-receivers: after all have returned):
//   held-manifest       the manifest the host holds is deep-equal to a pristine
//                       copy taken right after the scan, and still hashes to the
//                       announced identifier
//   announced-manifest  the manifest the receiver was told on the wire is
//                       deep-equal to that pristine copy and hashes to the
//                       announced identifier
//   received-tree       when both endpoints returned nil: the output directory
//                       holds exactly the entries of the pristine manifest with the
//                       bytes of the source files they resolve to
// A transfer that does not complete is not judged by this property (C01..C03
// own that); it is counted and the run is inconclusive if too few completed.

import (
	"context"
	"crypto/sha256"
	"encoding/hex"
	"fmt"
	"io"
	"os"
	"path/filepath"
	"reflect"
	"sort"
	"strings"
	"sync"
	"time"

	"github.com/sheerbytes/sheerbytes/internal/app"
	"github.com/sheerbytes/sheerbytes/internal/transfer"
	vk "github.com/sheerbytes/sheerbytes/internal/verifkit"
	"github.com/sheerbytes/sheerbytes/pkg/manifest"
)

type c13Hist struct {
	Form      string `json:"form"` // next-receiver | resume-reconnect | concurrent-receivers
	Uses      int    `json:"uses"`
	Transport string `json:"transport"` // mock | quic
	Streams   int    `json:"streams"`
	ChunkSize uint32 `json:"cs"`
	Resume    bool   `json:"resume"`
	NoRootDir bool   `json:"norootdir"`
}

var c13HistForms = []string{"next-receiver", "resume-reconnect", "concurrent-receivers"}

// Classes whose trees consist of plain files and directories only and in which
// the scan is expected to be clean: a real transfer of them is a healthy one.
var c13HistEligible = map[string]bool{
	"tree:nested": true, "tree:empty-dirs": true, "tree:single-file": true, "tree:unicode": true,
	"tree:hardlink": true, "tree:ordinal-looking-names": true, "paths:multi-distinct": true,
	"paths:dup-basename": true, "paths:same-path-twice": true, "paths:path-and-subdir": true,
	"paths:trailing-slash": true, "paths:dot-segments": true,
}

// c13HistPlan decides whether case c is taken through a history and which one:
// a pure function of the case (hence of tier and seed).
func c13HistPlan(e *Env, c c13Case) (c13Hist, bool) {
	var h c13Hist
	if c.Cwd != "" || !(c13HistEligible[c.Class] || c13IsAlias(c.Class)) {
		return h, false
	}
	for _, n := range c.Nodes {
		// the wire protocol refuses a ".." segment delimited by '\' on both ends (transfer.validateRelPath,
		// a deliberate defence for Windows peers): such a tree is judged by the scan oracle only
		for _, seg := range strings.FieldsFunc(n.Rel, func(r rune) bool { return r == '/' || r == '\\' }) {
			if seg == ".." {
				return h, false
			}
		}
	}
	r := vk.NewRng(c13Hash(c) ^ vk.HashStr("c13-history"))
	if r.Intn(e.Pick(4, 8)) != 0 && !c13IsAlias(c.Class) { // every alias case: only the real sender shows which file is read for a listed name
		return h, false
	}
	switch x := r.Intn(10); {
	case x < 6:
		h.Form = "next-receiver"
	case x < 8:
		h.Form = "resume-reconnect"
	default:
		h.Form = "concurrent-receivers"
	}
	h.Uses = 2
	if r.Intn(3) == 0 {
		h.Uses = 3
	}
	h.Transport = "mock"
	if r.Intn(4) == 0 {
		h.Transport = "quic"
	}
	h.Streams = []int{1, 2, 4}[r.Intn(3)]
	h.ChunkSize = []uint32{1024, 4096, 65536}[r.Intn(3)]
	h.Resume = h.Form == "resume-reconnect" || r.Intn(3) == 0
	h.NoRootDir = r.Intn(4) == 0
	return h, true
}

type c13HistAgg struct {
	Histories     int `json:"histories"`
	Completed     int `json:"histories_all_uses_completed"`
	Uses          int `json:"uses"`
	UsesCompleted int `json:"uses_both_endpoints_returned_nil"`
	QuicUses      int `json:"uses_completed_over_quic"`
	Announced     int `json:"manifests_received_and_compared"`
	ItemsCompared int `json:"items_compared"`
	DirFirst      int `json:"histories_with_a_directory_listed_before_a_file"`
	NoFiles       int `json:"histories_without_files"`
	Failing       int `json:"histories_failing"`
}

type c13HistState struct {
	lp        *vk.ListenerPool
	mu        sync.Mutex
	agg       map[string]*c13HistAgg
	byClass   map[string]int
	failKeys  map[string]int
	watchdogs int
	incompl   int
	// alias classes: uses completed with the host's resolver installed, by class, and those of them
	// in which a listed file with a trailing-white-space name has a sibling with the trimmed name
	aliasResolved map[string]int
	trimSibling   int
	sample        any
}

func c13NewHistState() (*c13HistState, error) {
	hs := &c13HistState{agg: map[string]*c13HistAgg{}, byClass: map[string]int{}, failKeys: map[string]int{}, aliasResolved: map[string]int{}}
	for _, f := range c13HistForms {
		hs.agg[f] = &c13HistAgg{}
	}
	lp, err := vk.NewListenerPool(8, 5*time.Second)
	if err != nil {
		return hs, err
	}
	hs.lp = lp
	return hs, nil
}

func c13CloneManifest(m manifest.Manifest) manifest.Manifest {
	c := m
	if m.Items != nil {
		c.Items = make([]manifest.FileItem, len(m.Items))
		copy(c.Items, m.Items)
	}
	return c
}

// c13ManifestDiff describes where got departs from want (for the replay file).
func c13ManifestDiff(want, got manifest.Manifest) map[string]any {
	d := map[string]any{"want_items": len(want.Items), "got_items": len(got.Items)}
	if want.Root != got.Root || want.TotalBytes != got.TotalBytes || want.FileCount != got.FileCount || want.FolderCount != got.FolderCount {
		d["header"] = fmt.Sprintf("want root=%q files=%d folders=%d bytes=%d, got root=%q files=%d folders=%d bytes=%d",
			want.Root, want.FileCount, want.FolderCount, want.TotalBytes, got.Root, got.FileCount, got.FolderCount, got.TotalBytes)
	}
	for i := 0; i < len(want.Items) && i < len(got.Items); i++ {
		if want.Items[i] != got.Items[i] {
			d["first_differing_index"] = i
			d["want_item"] = want.Items[i]
			d["got_item"] = got.Items[i]
			break
		}
	}
	var dirs, dup, unsorted int
	seen := map[string]bool{}
	for i, it := range got.Items {
		if it.IsDir {
			dirs++
		}
		if seen[it.RelPath] {
			dup++
		}
		seen[it.RelPath] = true
		if i > 0 && got.Items[i-1].RelPath > it.RelPath {
			unsorted++
		}
	}
	d["got_directories_listed"] = dirs
	d["got_duplicate_rel_paths"] = dup
	d["got_out_of_order_neighbours"] = unsorted
	items := got.Items
	if len(items) > 40 {
		items = items[:40]
	}
	d["got_items_head"] = items
	return d
}

type c13UseOut struct {
	SendErr, RecvErr error
	Got              manifest.Manifest
	Setup            string
	Watchdog         bool
}

func (o c13UseOut) ok() bool {
	return o.Setup == "" && !o.Watchdog && o.SendErr == nil && o.RecvErr == nil
}

// c13Use is one real transfer that uses the host's manifest m (passed by value,
// as the application passes s.manifest).
func c13Use(lp *vk.ListenerPool, h c13Hist, rootPath string, m manifest.Manifest, resolver func(string) string, outDir string) c13UseOut {
	var out c13UseOut
	ctx, cancel := context.WithCancel(context.Background())
	defer cancel()
	var sc, rc transfer.Conn
	switch h.Transport {
	case "mock":
		t1, t2 := transfer.NewMockPair()
		dc, err := t1.Dial(ctx, "peer2")
		if err != nil {
			out.Setup = "mock dial: " + err.Error()
			return out
		}
		ac, err := t2.Accept(ctx)
		if err != nil {
			out.Setup = "mock accept: " + err.Error()
			return out
		}
		sc, rc = dc, ac
	case "quic":
		if lp == nil {
			out.Setup = "no QUIC listener pool"
			return out
		}
		l := lp.Get()
		defer lp.Put(l)
		p, err := l.NewPair(ctx)
		if err != nil {
			out.Setup = "quic pair: " + err.Error()
			return out
		}
		defer p.Close()
		sc, rc = p.Dial, p.Accept
	default:
		out.Setup = "unknown transport " + h.Transport
		return out
	}
	streams, cs := h.Streams, h.ChunkSize
	sopts := transfer.Options{ChunkSize: cs, ParallelFiles: streams, Resume: h.Resume, HashAlg: "crc32c", ResolveFilePath: resolver,
		ParamSource: func() transfer.RuntimeParams { return transfer.RuntimeParams{ChunkSize: cs, ParallelFiles: streams} }}
	ropts := transfer.Options{Resume: h.Resume, NoRootDir: h.NoRootDir, HashAlg: "crc32c", ParallelFiles: streams}

	var mu sync.Mutex
	sdone, rdone := make(chan struct{}), make(chan struct{})
	go func() {
		err := transfer.SendManifestMultiStream(ctx, sc, rootPath, m, sopts)
		mu.Lock()
		out.SendErr = err
		mu.Unlock()
		_ = sc.Close() // the application closes the connection when its transfer function returns
		close(sdone)
	}()
	go func() {
		got, err := transfer.RecvManifestMultiStream(ctx, rc, outDir, ropts)
		mu.Lock()
		out.Got, out.RecvErr = got, err
		mu.Unlock()
		_ = rc.Close()
		close(rdone)
	}()
	timer := time.NewTimer(45 * time.Second)
	defer timer.Stop()
	sd, rd := sdone, rdone
	for sd != nil || rd != nil {
		select {
		case <-sd:
			sd = nil
		case <-rd:
			rd = nil
		case <-timer.C:
			cancel()
			_ = sc.Close()
			_ = rc.Close()
			for _, ch := range []chan struct{}{sdone, rdone} {
				select {
				case <-ch:
				case <-time.After(3 * time.Second):
				}
			}
			mu.Lock()
			defer mu.Unlock()
			return c13UseOut{Watchdog: true, Got: out.Got}
		}
	}
	mu.Lock()
	defer mu.Unlock()
	return out
}

// c13WantTree is the output tree the pristine manifest promises: every item
// under prefix, files with the bytes of the source file the item resolves to.
func c13WantTree(m manifest.Manifest, prefix string, resolve func(string) string) (map[string]vk.DigestEntry, error) {
	want := map[string]vk.DigestEntry{}
	parents := func(rel string) {
		parts := strings.Split(rel, "/")
		for i := 1; i < len(parts); i++ {
			want[strings.Join(parts[:i], "/")] = vk.DigestEntry{Kind: "dir"}
		}
	}
	for _, it := range m.Items {
		rel := prefix + it.RelPath
		parents(rel)
		if it.IsDir {
			want[rel] = vk.DigestEntry{Kind: "dir"}
			continue
		}
		f, err := os.Open(resolve(it.RelPath))
		if err != nil {
			return nil, err
		}
		hsh := sha256.New()
		n, err := io.Copy(hsh, f)
		f.Close()
		if err != nil {
			return nil, err
		}
		want[rel] = vk.DigestEntry{Kind: "file", Size: n, Sum: hex.EncodeToString(hsh.Sum(nil)[:12])}
	}
	return want, nil
}

// c13RunHistory takes the materialised case through history h.
func c13RunHistory(e *Env, hs *c13HistState, c c13Case, base string, h c13Hist) {
	hs.mu.Lock()
	stop := hs.watchdogs >= 3
	hs.mu.Unlock()
	if stop {
		e.R.Inconcl(c.ID + " history skipped: three transfers already ran into the watchdog")
		return
	}
	paths := make([]string, len(c.Paths))
	for i, p := range c.Paths {
		paths[i] = strings.Replace(p, "{B}", base, 1)
	}

	// --- the host: one scan, one identifier, one resolver
	var (
		held     manifest.Manifest
		err      error
		resolver func(string) string // what the host installs as Options.ResolveFilePath
		rootPath = "."
	)
	if c.Mode == "scan" {
		held, err = manifest.Scan(paths[0])
		rootPath = filepath.Clean(paths[0])
		if st, serr := os.Stat(rootPath); serr == nil && !st.IsDir() {
			rootPath = filepath.Dir(rootPath)
		}
	} else {
		held, err = manifest.ScanPaths(paths)
		if err == nil {
			resolver, err = app.VerifBuildPathResolver(paths)
		}
	}
	if err != nil || len(held.Items) == 0 {
		e.R.NoVerd() // nothing a receiver could be sent
		e.R.Count("history_no_manifest")
		return
	}
	resolve := resolver
	if resolve == nil {
		root := rootPath
		resolve = func(rel string) string { return filepath.Join(root, filepath.FromSlash(rel)) }
	}
	pristine := c13CloneManifest(held)
	announcedID, err := app.VerifHashManifestJSON(held)
	if err != nil {
		e.R.Inconcl(c.ID + " history: manifest id: " + err.Error())
		return
	}
	if held.FileCount == 0 {
		// known C03 finding (manifest without files over real QUIC: the receiver
		// loses against the sender's close): not this property's business
		h.Transport = "mock"
	}
	prefix := ""
	if !h.NoRootDir {
		prefix = pristine.Root + "/"
	}
	want, err := c13WantTree(pristine, prefix, resolve)
	if err != nil {
		e.R.Inconcl(c.ID + " history: reading the source tree: " + err.Error())
		return
	}
	dirFirst := false
	sawDir := false
	for _, it := range pristine.Items {
		if it.IsDir {
			sawDir = true
		} else if sawDir {
			dirFirst = true
		}
	}

	outBase := base + "-out"
	defer os.RemoveAll(outBase)
	outDirOf := func(j int) string {
		if h.Form == "resume-reconnect" {
			return filepath.Join(outBase, "r")
		}
		return filepath.Join(outBase, fmt.Sprintf("r%d", j))
	}
	for j := 0; j < h.Uses; j++ {
		if err := os.MkdirAll(outDirOf(j), 0755); err != nil {
			e.R.Inconcl(c.ID + " history: " + err.Error())
			return
		}
	}

	caseSpec := map[string]any{"case": c, "history": h}
	fired := map[string]bool{}
	violate := func(clause, what string, detail map[string]any) {
		key := "history:" + h.Form + "/" + clause
		if c13IsAlias(c.Class) { // the name class is what this history is about
			key += "/" + c.Class
		}
		if fired[key] {
			return
		}
		fired[key] = true
		hs.mu.Lock()
		hs.failKeys[key]++
		hs.mu.Unlock()
		detail["announced_manifest_id"] = announcedID
		detail["base"] = base
		e.R.Violate(key, fmt.Sprintf("[%s, %s via %s, %s] %s", h.Form, c.Class, c.Mode, h.Transport, what), caseSpec, detail)
	}
	var usesOK, quicOK, announced, items int
	watchdog := false

	judgeHeld := func(after string) {
		id, _ := app.VerifHashManifestJSON(held)
		items += len(pristine.Items)
		if !reflect.DeepEqual(held, pristine) || id != announcedID {
			d := c13ManifestDiff(pristine, held)
			d["after"] = after
			d["held_manifest_id_now"] = id
			violate("held-manifest", fmt.Sprintf("%s the manifest the host holds (and hands to the next receiver) is no longer the manifest it scanned and announced: "+
				"%d items (%v directories, %v duplicate rel paths, %v out-of-order neighbours) vs %d items scanned",
				after, len(held.Items), d["got_directories_listed"], d["got_duplicate_rel_paths"], d["got_out_of_order_neighbours"], len(pristine.Items)), d)
		}
	}
	// confirmSource: a use on an alias tree did not complete. Every listed file was just read by the
	// harness at the path the host's resolver returns (c13WantTree), so the manifest and the resolver
	// describe an existing tree. The same manifest is sent twice more over the mock transport (no
	// network, fresh output directories, no resume): once as the host does (SUBJECT: the host's
	// resolver) and once with a resolver that answers, for the same rel paths, the path of a byte-equal
	// copy with an ordinary name (CONTROL). Wire content, receiver and manifest are identical; the
	// only difference is the spelling of the source path handed to the sender. Control completes and
	// subject does not => the sender does not read the listed file from the source it resolves to.
	confirmSource := func(j int, nth string) {
		hm := h
		hm.Transport, hm.Resume = "mock", false
		e.R.Count("history_alias_incomplete_use_confirmations")
		ctlDir := filepath.Join(outBase, fmt.Sprintf("ctl%d-src", j))
		if err := os.MkdirAll(ctlDir, 0755); err != nil {
			return
		}
		ctl := map[string]string{}
		for i, it := range pristine.Items {
			if it.IsDir {
				continue
			}
			data, err := os.ReadFile(resolve(it.RelPath))
			if err != nil {
				return
			}
			ctl[it.RelPath] = filepath.Join(ctlDir, fmt.Sprintf("f%05d.dat", i))
			if err := os.WriteFile(ctl[it.RelPath], data, 0644); err != nil {
				return
			}
		}
		subjOut, ctlOut := filepath.Join(outBase, fmt.Sprintf("subj%d", j)), filepath.Join(outBase, fmt.Sprintf("ctl%d", j))
		_ = os.MkdirAll(subjOut, 0755)
		_ = os.MkdirAll(ctlOut, 0755)
		subj := c13Use(hs.lp, hm, rootPath, c13CloneManifest(pristine), resolver, subjOut)
		if subj.ok() || subj.Watchdog || subj.Setup != "" {
			return // not reproducible without the network / no verdict
		}
		ctrl := c13Use(hs.lp, hm, rootPath, c13CloneManifest(pristine), func(rel string) string { return ctl[rel] }, ctlOut)
		if !ctrl.ok() {
			return // the tree cannot be sent at all (e.g. a name the wire protocol refuses): not this property
		}
		violate("source-not-read", fmt.Sprintf("%s and a repetition over the mock transport did not complete, although every listed file is readable with the listed size at the path "+
			"the host's resolver returns and the same manifest completes when the resolver names byte-equal copies with ordinary names: the sender does not read a listed file from the source it resolves to",
			nth), map[string]any{"use": j + 1, "subject_send_err": fmt.Sprint(subj.SendErr), "subject_recv_err": fmt.Sprint(subj.RecvErr)})
	}
	judgeUse := func(j int, o c13UseOut, outDir string) {
		nth := fmt.Sprintf("use %d of %d", j+1, h.Uses)
		if o.Setup != "" {
			e.R.Inconcl(fmt.Sprintf("%s history %s: %s", c.ID, nth, o.Setup))
			return
		}
		if o.Watchdog {
			watchdog = true
			e.R.Inconcl(fmt.Sprintf("%s history %s (%s): watchdog, transfer did not return within 45 s", c.ID, nth, h.Form))
		}
		if len(o.Got.Items) > 0 || o.RecvErr == nil && !o.Watchdog {
			// the receiver read a manifest from the wire
			announced++
			items += len(pristine.Items)
			id, _ := app.VerifHashManifestJSON(o.Got)
			if !reflect.DeepEqual(o.Got, pristine) || id != announcedID {
				d := c13ManifestDiff(pristine, o.Got)
				d["use"] = j + 1
				d["received_manifest_id"] = id
				violate("announced-manifest", fmt.Sprintf("the receiver of %s was sent a manifest that is not the one the host scanned and announced by id: "+
					"%d items (%v directories, %v duplicate rel paths, %v out-of-order neighbours) vs %d items scanned",
					nth, len(o.Got.Items), d["got_directories_listed"], d["got_duplicate_rel_paths"], d["got_out_of_order_neighbours"], len(pristine.Items)), d)
			}
		}
		if !o.ok() {
			if !o.Watchdog {
				hs.mu.Lock()
				hs.incompl++
				n := hs.incompl
				hs.mu.Unlock()
				if n <= 10 {
					e.R.Inconcl(fmt.Sprintf("%s history %s (%s, %s, %d files): transfer did not complete (send: %v; recv: %v); not judged by this property",
						c.ID, nth, h.Form, h.Transport, pristine.FileCount, o.SendErr, o.RecvErr))
				}
				e.R.Count("history_use_incomplete")
				if c13IsAlias(c.Class) && resolver != nil {
					confirmSource(j, nth)
				}
			}
			return
		}
		usesOK++
		if h.Transport == "quic" {
			quicOK++
		}
		got, derr := vk.Digest(outDir)
		if derr != nil {
			e.R.Inconcl(fmt.Sprintf("%s history %s: digest: %v", c.ID, nth, derr))
			return
		}
		if diff := vk.DiffDigest(want, got); len(diff) > 0 {
			violate("received-tree", fmt.Sprintf("both endpoints of %s returned nil but the output tree is not the tree the scanned manifest describes: %s",
				nth, strings.Join(diff[:min(3, len(diff))], "; ")), map[string]any{"use": j + 1, "diff": diff})
		}
	}

	if h.Form == "concurrent-receivers" {
		outs := make([]c13UseOut, h.Uses)
		var wg sync.WaitGroup
		for j := 0; j < h.Uses; j++ {
			wg.Add(1)
			go func(j int) {
				defer wg.Done()
				outs[j] = c13Use(hs.lp, h, rootPath, held, resolver, outDirOf(j))
			}(j)
		}
		wg.Wait()
		judgeHeld(fmt.Sprintf("after %d concurrent uses", h.Uses))
		for j := range outs {
			judgeUse(j, outs[j], outDirOf(j))
		}
	} else {
		for j := 0; j < h.Uses; j++ {
			o := c13Use(hs.lp, h, rootPath, held, resolver, outDirOf(j))
			judgeHeld(fmt.Sprintf("after use %d of %d", j+1, h.Uses))
			judgeUse(j, o, outDirOf(j))
			if watchdog {
				break
			}
		}
	}

	hs.mu.Lock()
	a := hs.agg[h.Form]
	a.Histories++
	a.Uses += h.Uses
	a.UsesCompleted += usesOK
	a.QuicUses += quicOK
	a.Announced += announced
	a.ItemsCompared += items
	if usesOK == h.Uses {
		a.Completed++
		hs.byClass[c.Class]++
	}
	if c13IsAlias(c.Class) && resolver != nil {
		hs.aliasResolved[c.Class] += usesOK
		if c13TrimmedSibling(c) {
			hs.trimSibling += usesOK
		}
	}
	if dirFirst {
		a.DirFirst++
	}
	if pristine.FileCount == 0 {
		a.NoFiles++
	}
	if len(fired) > 0 {
		a.Failing++
	}
	if watchdog {
		hs.watchdogs++
	}
	if hs.sample == nil && usesOK == h.Uses && dirFirst && h.Uses == 3 {
		hs.sample = map[string]any{"case": c, "history": h, "observed": map[string]any{
			"announced_manifest_id": announcedID, "items": len(pristine.Items), "uses_completed": usesOK,
			"manifests_received_and_compared": announced, "held_manifest_deep_equal_after_every_use": len(fired) == 0}}
	}
	hs.mu.Unlock()

	e.R.EvalN(h.Uses)
	e.R.CountN("history_uses_completed", usesOK)
	if usesOK == h.Uses {
		e.R.Distinct(fmt.Sprintf("history:%s/%s/k%d/%s/%s/%016x", h.Form, h.Transport, h.Uses, c.Class, c.Mode, c13Hash(c)))
	}
}

// c13HistFinish writes what the history stage observed and its minimum
// observation requirements.
func c13HistFinish(e *Env, hs *c13HistState) {
	if hs.lp != nil {
		hs.lp.Close()
	}
	tot := c13HistAgg{}
	for _, f := range c13HistForms {
		a := hs.agg[f]
		tot.Histories += a.Histories
		tot.Completed += a.Completed
		tot.Uses += a.Uses
		tot.UsesCompleted += a.UsesCompleted
		tot.QuicUses += a.QuicUses
		tot.Announced += a.Announced
		tot.ItemsCompared += a.ItemsCompared
		tot.DirFirst += a.DirFirst
		tot.NoFiles += a.NoFiles
		tot.Failing += a.Failing
	}
	classes := make([]string, 0, len(hs.byClass))
	for k := range hs.byClass {
		classes = append(classes, k)
	}
	sort.Strings(classes)
	e.R.SetExtra("history_per_form", hs.agg)
	e.R.SetExtra("history_totals", tot)
	e.R.SetExtra("history_completed_by_feature_class", hs.byClass)
	e.R.SetExtra("history_failing_by_key", hs.failKeys)
	e.R.SetExtra("history_alias_uses_completed_with_resolver_installed", hs.aliasResolved)
	e.R.SetExtra("history_uses_completed_trailing_whitespace_file_next_to_trimmed_name", hs.trimSibling)
	if hs.sample != nil {
		e.R.Sample(hs.sample)
	}
	vk.Logf("c13 history: %d histories (%d completed) of one scanned manifest, %d/%d uses completed (%d over QUIC), %d received manifests compared, "+
		"%d histories with a directory before a file, %d feature classes, failing keys %v",
		tot.Histories, tot.Completed, tot.UsesCompleted, tot.Uses, tot.QuicUses, tot.Announced, tot.DirFirst, len(classes), hs.failKeys)

	need := map[string]int{"next-receiver": e.Pick(60, 900), "resume-reconnect": e.Pick(15, 250), "concurrent-receivers": e.Pick(15, 250)}
	for _, f := range c13HistForms {
		e.R.Require(hs.agg[f].Completed >= need[f], fmt.Sprintf("history %s: only %d histories completed all uses, need %d", f, hs.agg[f].Completed, need[f]))
	}
	e.R.Require(tot.QuicUses >= e.Pick(40, 600), fmt.Sprintf("only %d history uses completed over loopback QUIC", tot.QuicUses))
	e.R.Require(tot.DirFirst >= e.Pick(80, 1200), fmt.Sprintf("only %d histories whose manifest lists a directory before a file", tot.DirFirst))
	e.R.Require(tot.Announced >= e.Pick(250, 4000), fmt.Sprintf("only %d received manifests compared with the scanned one", tot.Announced))
	for _, d := range c13Classes {
		if c13IsAlias(d.Key) {
			n := e.Pick(d.SampleQ, d.SampleT)
			e.R.Require(hs.aliasResolved[d.Key] >= n, fmt.Sprintf("history, %s: only %d uses completed with the host's resolver installed, need %d", d.Key, hs.aliasResolved[d.Key], n))
		}
	}
	e.R.Require(hs.trimSibling >= e.Pick(4, 60), fmt.Sprintf("history: only %d uses completed on a tree with a trailing-white-space file name next to the trimmed name (resolver installed)", hs.trimSibling))
	e.R.Require(len(classes) >= 10, fmt.Sprintf("histories completed in only %d feature classes", len(classes)))
	e.R.Require(tot.UsesCompleted*10 >= tot.Uses*9, fmt.Sprintf("only %d of %d history uses completed", tot.UsesCompleted, tot.Uses))
}
