//go:build verif

package main

// C13, the sharing dimension: ONE resolver serves every receiver of a session.
//
// The host builds its path resolver once (RunSnapshotSender -> buildPathResolver)
// and stores it in the transfer options; every transfer it serves
// (SendManifestMultiStream) copies the options and calls that one function value
// for every file item of the manifest, in manifest order, before it sends
// anything. With --max-receivers > 1 (default 4) several transfers do so at the
// same time. c13.go and c13_history.go call a resolver from one goroutine (or,
// in the concurrent-receivers form, from a few transfers over trees of a handful
// of files); whether "each listed file resolves back to the source file it came
// from" also holds for the answers a receiver gets WHILE other receivers are
// being served was never observed. This file observes it:
//
//   case      2..6 shared paths (directories and single files; distinct base
//             names, equal base names -> ordinal prefixes, or both) which hold
//             the SAME relative names beneath them with different bytes and
//             sizes - the layout in which a lookup answered for the wrong
//             shared path names an existing other file
//   first     the walk oracle of c13.go on the case (c13Check); then the host:
//             one ScanPaths, one buildPathResolver; a first receiver alone
//             (sequential pass in manifest order) fixes, per file item, the
//             source it came from (size and mtime of the entry must be the
//             item's)
//   blocks    the host's k = 2..4 transfer slots (--max-receivers) at the same
//             time: k goroutines released together (all at once, or each starting
//             when the one before it has reached a seeded position of its first
//             loop), each serving a queue of receivers one after the other, each
//             receiver doing what SendManifestMultiStream does at its start
//             (resolve every file item in manifest order) on the shared resolver;
//             then one later receiver alone. Blocks are repeated until a fixed
//             COUNT of receivers had the loop of another slot advance during
//             their own loop (at least 6 blocks, capped)
//   oracle    every answer, of every receiver in every block, names the file
//             the item came from (same path, or os.SameFile); no timing, no
//             error text
//   transfer  finally k real SendManifestMultiStream/RecvManifestMultiStream
//             transfers at the same time with the shared resolver installed
//             (mock transport); both endpoints nil => the output tree must hold
//             the bytes of the sources fixed by the first receiver
//
// Keys: shared-resolver:<root layout>/<concurrent-receivers|later-receiver|
// concurrent-transfers>.

import (
	"fmt"
	"os"
	"path/filepath"
	"runtime"
	"sort"
	"strings"
	"sync"
	"sync/atomic"

	"github.com/sheerbytes/sheerbytes/internal/app"
	vk "github.com/sheerbytes/sheerbytes/internal/verifkit"
	"github.com/sheerbytes/sheerbytes/pkg/manifest"
)

var c13SharedLayouts = []string{"distinct-basenames", "equal-basenames", "mixed-basenames"}

// names for the shared paths: none looks like an ordinal prefix (that is a recorded class of c13.go)
var c13SharedRootPool = []string{"alpha", "bravo", "delta", "gamma", "kappa", "sigma", "project", "backup", "card A", "DCIM", "src", "old.d", "élan", "日本"}

type c13SharedCase struct {
	Case      c13Case `json:"case"`
	Layout    string  `json:"layout"`
	Receivers int     `json:"receivers"`
	Queue     int     `json:"queue"`                           // receivers each slot serves one after the other in a block
	Rounds    int     `json:"interleaved_receivers_asked_for"` // receivers during whose resolve loop the loop of a receiver in another slot advanced
	MaxRounds int     `json:"max_blocks"`                      // the number of blocks after which the case stops asking
	Phase     []int   `json:"phase"`                           // slot j > 0 starts when slot j-1 has made (Phase[j] + 7*block*j) mod #files lookups of its block; every third block all start together
}

func c13SharedGen(e *Env) []c13SharedCase {
	r := vk.NewRng(vk.Mix(e.Seed ^ vk.HashStr("c13-shared"+e.Tier)))
	n := e.Pick(24, 240)
	var out []c13SharedCase
	for id := 0; id < n; id++ {
		layout := c13SharedLayouts[id%len(c13SharedLayouts)]
		c := c13Case{ID: fmt.Sprintf("c13-sh%04d", id), Class: "shared-resolver:" + layout, Mode: "scanpaths"}
		b := &c13B{r: r, used: map[string]bool{}, pool: c13PlainPool}
		roots := 2 + r.Intn(5)
		// the relative names every shared directory holds
		var common []string
		sub := []string{"", "", "sub/", "sub/deep/", "img/", "a b/"}
		for i, k := 0, 6+r.Intn(20); i < k; i++ {
			common = append(common, fmt.Sprintf("%sf%02d.%s", sub[r.Intn(len(sub))], i, []string{"bin", "txt", "jpg"}[r.Intn(3)]))
		}
		equalSizes := r.Intn(3) == 0 // same length, other bytes: the wrong file would be sent and accepted
		perm := r.Intn(len(c13SharedRootPool))
		dupBase := c13SharedRootPool[perm]
		single := ""
		for i := 0; i < roots; i++ {
			base := c13SharedRootPool[(perm+1+i)%len(c13SharedRootPool)]
			switch layout {
			case "equal-basenames":
				base = dupBase
			case "mixed-basenames":
				if i%2 == 0 {
					base = dupBase
				}
			}
			if layout != "equal-basenames" && single == "" && i > 0 && r.Intn(4) == 0 {
				single = base
				c.Paths = append(c.Paths, c13P(b.rootFile(i, base))) // a single file among the shared paths
				continue
			}
			d := b.rootDir(i, base)
			for j, rel := range common {
				if parent := filepath.Dir(rel); parent != "." {
					for p, acc := strings.Split(parent, "/"), d; len(p) > 0; p = p[1:] {
						acc = b.dir(acc + "/" + p[0])
					}
				}
				size := 1 + (j*7+i*13)%40
				if equalSizes {
					size = 1 + j%29
				}
				b.add(c13Node{Kind: "file", Rel: d + "/" + rel, Size: size, Salt: 1 + i})
			}
			if r.Bool() {
				b.fill(d, 1) // plus entries only this shared path has
			}
			c.Paths = append(c.Paths, c13P(d))
		}
		// the order in which the paths are given is not the sorted one
		for i := len(c.Paths) - 1; i > 0; i-- {
			j := r.Intn(i + 1)
			c.Paths[i], c.Paths[j] = c.Paths[j], c.Paths[i]
		}
		c.Nodes = b.nodes
		sc := c13SharedCase{Case: c, Layout: layout, Receivers: 2 + r.Intn(3), Queue: 200, Rounds: 600, MaxRounds: 100}
		if id%4 == 0 {
			sc.Receivers = 4 // the default --max-receivers
		}
		for j := 0; j < sc.Receivers; j++ {
			sc.Phase = append(sc.Phase, r.Intn(1000))
		}
		out = append(out, sc)
	}
	return out
}

type c13SharedAgg struct {
	Cases            int   `json:"cases"`
	Rounds           int   `json:"blocks_of_concurrent_receivers"`
	Passes           int   `json:"receivers_served_concurrently"`
	Lookups          int64 `json:"lookups_by_concurrent_receivers"`
	LaterLookups     int64 `json:"lookups_by_later_receivers"`
	Overlapped       int   `json:"receivers_during_whose_resolve_loop_another_slots_loop_advanced"`
	OverlapReached   int   `json:"cases_that_reached_the_interleaved_receivers_asked_for"`
	OtherRootExists  int   `json:"cases_with_files_under_two_or_more_top_level_names"`
	Transfers        int   `json:"concurrent_real_transfers"`
	TransfersOK      int   `json:"concurrent_real_transfers_both_endpoints_nil"`
	Failing          int   `json:"cases_failing"`
	OrdinalPrefixes  int   `json:"cases_with_generated_ordinal_prefixes"`
	MaxSharedPaths   int   `json:"max_shared_paths"`
	MaxFileItems     int   `json:"max_file_items"`
	Receivers4       int   `json:"cases_with_4_receivers"`
	SingleFileShared int   `json:"cases_with_a_single_file_among_the_shared_paths"`
}

type c13SharedState struct {
	mu       sync.Mutex
	agg      map[string]*c13SharedAgg
	failKeys map[string]int
	sample   any
	// real transfers that ran into the 45 s watchdog of c13Use; after two, the remaining cases skip their transfers
	watchdogs int
}

type c13SharedMiss struct {
	Receiver int    `json:"receiver"`
	Round    int    `json:"round"`
	Rel      string `json:"rel_path"`
	Want     string `json:"source"`
	Got      string `json:"resolved_to"`
	Size     int64  `json:"manifest_size"`
	Readable int64  `json:"bytes_readable_at_resolved_path"`
}

// c13SharedSame: does the answer name the file the item came from?
func c13SharedSame(want, got string, wantInfo os.FileInfo) bool {
	if got == want {
		return true
	}
	if got == "" {
		return false // "not shared": the sender falls back to rootPath/rel, which is not the source
	}
	gi, err := os.Stat(got)
	return err == nil && os.SameFile(wantInfo, gi)
}

func c13RunShared(e *Env, work string) *c13SharedState {
	st := &c13SharedState{agg: map[string]*c13SharedAgg{}, failKeys: map[string]int{}}
	for _, l := range c13SharedLayouts {
		st.agg[l] = &c13SharedAgg{}
	}
	cases := c13SharedGen(e)
	// two cases at a time: the receivers of one case need processors of their own to overlap
	vk.ParallelDo(len(cases), 2, func(i int) { c13SharedOne(e, st, cases[i], work) })
	return st
}

func c13SharedOne(e *Env, st *c13SharedState, sc c13SharedCase, work string) {
	c := sc.Case
	base := filepath.Join(work, c.ID)
	defer os.RemoveAll(base)
	defer os.RemoveAll(base + "-out")
	e.R.Eval()
	if err := c13Materialize(base, c.Nodes); err != nil {
		e.R.Inconcl(c.ID + " materialize: " + err.Error())
		return
	}
	fired := map[string]bool{}
	violate := func(clause, what string, detail map[string]any) {
		key := c.Class + "/" + clause
		if fired[key] {
			return
		}
		fired[key] = true
		st.mu.Lock()
		st.failKeys[key]++
		st.mu.Unlock()
		detail["base"] = base
		e.R.Violate(key, fmt.Sprintf("[%s, %d shared paths, %d receivers] %s", c.Class, len(c.Paths), sc.Receivers, what), sc, detail)
	}

	// --- the scan and a resolver of its own under the walk oracle of c13.go
	res := c13Check(c, base, "/")
	if res.Setup != "" {
		e.R.Inconcl(c.ID + " " + res.Setup)
		return
	}
	if res.Obs.Rejected != "" {
		e.R.Inconcl(c.ID + " shared-resolver case rejected by ScanPaths: " + res.Obs.Rejected)
		return
	}
	if len(res.Obs.Fails) > 0 {
		f := res.Obs.Fails[0]
		violate(f.Clause, f.Msg+fmt.Sprintf(" (%d failing clause instance(s))", len(res.Obs.Fails)), map[string]any{"fails": res.Obs.Fails, "observed": res.Obs})
		return
	}

	// --- the host: one scan, one resolver for the whole session
	paths := make([]string, len(c.Paths))
	for i, p := range c.Paths {
		paths[i] = strings.Replace(p, "{B}", base, 1)
	}
	held, err := manifest.ScanPaths(paths)
	var resolver func(string) string
	if err == nil {
		resolver, err = app.VerifBuildPathResolver(paths)
	}
	if err != nil {
		e.R.Inconcl(c.ID + " shared-resolver host setup: " + err.Error())
		return
	}
	var files []manifest.FileItem
	for _, it := range held.Items {
		if !it.IsDir {
			files = append(files, it)
		}
	}
	if len(files) < 4 {
		e.R.Inconcl(c.ID + " shared-resolver case lists fewer than 4 files")
		return
	}

	// --- the first receiver, alone: which source does each item come from
	ref := make([]string, len(files))
	refInfo := make([]os.FileInfo, len(files))
	for i, it := range files {
		ref[i] = resolver(it.RelPath)
		fi, serr := os.Stat(ref[i])
		if ref[i] == "" || serr != nil || !fi.Mode().IsRegular() || fi.Size() != it.Size || fi.ModTime().Unix() != it.ModTime {
			violate("first-receiver", fmt.Sprintf("served alone, item %q (size %d, mtime %d) resolves to %q, which is not the entry it was taken from (stat: %v)",
				it.RelPath, it.Size, it.ModTime, ref[i], serr), map[string]any{"item": it, "resolved_to": ref[i]})
			return
		}
		refInfo[i] = fi
	}
	// the top-level names (one per shared path) the file items are listed under
	tops := map[string]bool{}
	for _, it := range files {
		if i := strings.IndexByte(it.RelPath, '/'); i >= 0 {
			tops[it.RelPath[:i]] = true
		} else {
			tops[it.RelPath] = true
		}
	}
	ordinals := false
	for t := range tops {
		if strings.HasPrefix(t, "1_") || strings.HasPrefix(t, "2_") {
			ordinals = true
		}
	}
	otherExists := len(tops) >= 2

	// --- k receivers at the same time, then one alone; repeated
	// The host has k transfer slots (--max-receivers); in a block every slot serves sc.Queue queued
	// receivers one after the other, each of them resolving every file item in manifest order through the
	// shared resolver (what SendManifestMultiStream does before it sends anything). The number of blocks
	// follows a COUNT of observed events - receivers during whose resolve loop the loop of a receiver in
	// another slot advanced - never a duration: on a loaded machine the slots may run one after the other,
	// and such a block observes nothing a sequential pass does not.
	var (
		missMu      sync.Mutex
		misses      []c13SharedMiss
		lookups     int64
		later       int64
		passes      int
		interleaved int64
	)
	note := func(j, round, i int, got string) {
		if c13SharedSame(ref[i], got, refInfo[i]) {
			return
		}
		n, _ := c13Readable(got)
		missMu.Lock()
		if len(misses) < 20 {
			misses = append(misses, c13SharedMiss{j, round, files[i].RelPath, ref[i], got, files[i].Size, n})
		}
		missMu.Unlock()
	}
	type slotCtr struct {
		n int64 // lookups made by the slot so far
		_ [56]byte
	}
	k := sc.Receivers
	ctr := make([]slotCtr, k)
	roundsDone := 0
	for block := 0; block < sc.MaxRounds && (interleaved < int64(sc.Rounds) || block < 6); block++ { // at least 6 blocks: both ways of starting a block, several phases
		var arrived int32
		startAt := make([]int64, k)
		for j := range ctr {
			startAt[j] = atomic.LoadInt64(&ctr[j].n)
		}
		var wg sync.WaitGroup
		for j := 0; j < k; j++ {
			wg.Add(1)
			go func(j int) {
				defer wg.Done()
				// all k slots are running before any of them starts (a count, not a duration)
				atomic.AddInt32(&arrived, 1)
				for atomic.LoadInt32(&arrived) < int32(k) {
					runtime.Gosched()
				}
				// two blocks of three: a slot starts when the slot before it has reached a seeded position of
				// its first loop (a logical event), so that the loops are on different shared paths
				if j > 0 && block%3 != 0 {
					at := startAt[j-1] + int64((sc.Phase[j]+7*block*j)%len(files))
					for atomic.LoadInt64(&ctr[j-1].n) < at {
						runtime.Gosched()
					}
				}
				before := make([]int64, k)
				for q := 0; q < sc.Queue; q++ {
					for o := range ctr {
						before[o] = atomic.LoadInt64(&ctr[o].n)
					}
					for i := range files {
						atomic.AddInt64(&ctr[j].n, 1)
						if got := resolver(files[i].RelPath); got != ref[i] {
							note(j, block, i, got)
						}
					}
					for o := range ctr {
						if o != j && atomic.LoadInt64(&ctr[o].n) != before[o] {
							atomic.AddInt64(&interleaved, 1)
							break
						}
					}
				}
			}(j)
		}
		wg.Wait()
		roundsDone++
		passes += k * sc.Queue
		lookups += int64(k * sc.Queue * len(files))
		if len(misses) > 0 {
			m := misses[0]
			violate("concurrent-receivers", fmt.Sprintf("in block %d of receivers served at the same time in %d slots by the host's one resolver, a receiver in slot %d was answered %q for item %q, whose source is %q "+
				"(manifest size %d, the sender would read %d bytes there); %d wrong answer(s) recorded", m.Round+1, k, m.Receiver+1, m.Got, m.Rel, m.Want, m.Size, m.Readable, len(misses)),
				map[string]any{"wrong_answers": misses, "blocks_run": roundsDone, "receivers_served": passes, "file_items": len(files)})
			break
		}
		// a later receiver, served alone after the others returned
		for i := range files {
			if got := resolver(files[i].RelPath); got != ref[i] {
				note(-1, block, i, got)
			}
		}
		later += int64(len(files))
		if len(misses) > 0 {
			m := misses[0]
			violate("later-receiver", fmt.Sprintf("after %d block(s) of receivers served at the same time in %d slots, a receiver served alone was answered %q for item %q, whose source is %q "+
				"(manifest size %d, the sender would read %d bytes there)", block+1, k, m.Got, m.Rel, m.Want, m.Size, m.Readable),
				map[string]any{"wrong_answers": misses, "blocks_run": roundsDone, "receivers_served": passes, "file_items": len(files)})
			break
		}
	}
	overlaps := int(interleaved)

	// --- k real transfers at the same time with the shared resolver installed
	transfers, transfersOK := 0, 0
	st.mu.Lock()
	skipTransfers := st.watchdogs >= 2
	st.mu.Unlock()
	if skipTransfers && len(fired) == 0 {
		e.R.Inconcl(c.ID + " shared-resolver transfers skipped: two transfers already ran into the watchdog")
	}
	if len(fired) == 0 && !skipTransfers {
		h := c13Hist{Form: "concurrent-receivers", Uses: sc.Receivers, Transport: "mock", Streams: []int{1, 2, 4}[int(c13Hash(c)%3)], ChunkSize: 4096}
		refOf := map[string]string{}
		for i, it := range files {
			refOf[it.RelPath] = ref[i]
		}
		pristine := c13CloneManifest(held)
		want, werr := c13WantTree(pristine, pristine.Root+"/", func(rel string) string { return refOf[rel] })
		outs := make([]c13UseOut, h.Uses)
		outDir := func(j int) string { return filepath.Join(base+"-out", fmt.Sprintf("r%d", j)) }
		for j := 0; j < h.Uses && werr == nil; j++ {
			werr = os.MkdirAll(outDir(j), 0755)
		}
		if werr != nil {
			e.R.Inconcl(c.ID + " shared-resolver transfers: " + werr.Error())
		} else {
			var wg sync.WaitGroup
			for j := 0; j < h.Uses; j++ {
				wg.Add(1)
				go func(j int) {
					defer wg.Done()
					outs[j] = c13Use(nil, h, ".", held, resolver, outDir(j))
				}(j)
			}
			wg.Wait()
			for j, o := range outs {
				transfers++
				if o.Watchdog {
					st.mu.Lock()
					st.watchdogs++
					st.mu.Unlock()
					e.R.Inconcl(fmt.Sprintf("%s shared-resolver transfer %d: watchdog, did not return within 45 s", c.ID, j+1))
					continue
				}
				if !o.ok() {
					e.R.Count("shared_resolver_transfer_incomplete") // not judged by this property (C01..C03)
					continue
				}
				transfersOK++
				got, derr := vk.Digest(outDir(j))
				if derr != nil {
					e.R.Inconcl(fmt.Sprintf("%s shared-resolver transfer %d: digest: %v", c.ID, j+1, derr))
					continue
				}
				if diff := vk.DiffDigest(want, got); len(diff) > 0 {
					violate("concurrent-transfers", fmt.Sprintf("both endpoints of transfer %d of %d served at the same time returned nil but the output tree does not hold the bytes of the sources the listed files came from: %s",
						j+1, h.Uses, strings.Join(diff[:min(3, len(diff))], "; ")), map[string]any{"use": j + 1, "diff": diff})
				}
			}
		}
	}

	st.mu.Lock()
	a := st.agg[sc.Layout]
	a.Cases++
	a.Rounds += roundsDone
	a.Passes += passes
	a.Lookups += lookups
	a.LaterLookups += later
	a.Overlapped += overlaps
	a.Transfers += transfers
	a.TransfersOK += transfersOK
	if overlaps >= sc.Rounds {
		a.OverlapReached++
	}
	if otherExists {
		a.OtherRootExists++
	}
	if ordinals {
		a.OrdinalPrefixes++
	}
	if len(fired) > 0 {
		a.Failing++
	}
	a.MaxSharedPaths = max(a.MaxSharedPaths, len(c.Paths))
	a.MaxFileItems = max(a.MaxFileItems, len(files))
	if sc.Receivers == 4 {
		a.Receivers4++
	}
	for _, n := range c.Nodes {
		if n.Kind == "file" && strings.Count(n.Rel, "/") == 1 {
			a.SingleFileShared++
			break
		}
	}
	if st.sample == nil && len(fired) == 0 && sc.Receivers == 4 {
		st.sample = map[string]any{"id": c.ID, "class": c.Class, "shared_paths": c.Paths, "receivers": sc.Receivers, "observed": map[string]any{
			"file_items": len(files), "top_level_names": c13SortedKeys(tops), "blocks": roundsDone, "receivers_served_concurrently": passes, "receivers_interleaved_with_another_slot": overlaps,
			"lookups_by_concurrent_receivers": lookups, "every_answer_named_the_source": true, "real_transfers_completed": transfersOK}}
	}
	st.mu.Unlock()

	e.R.EvalN(passes)
	e.R.CountN("shared_resolver_receivers_served_concurrently", passes)
	e.R.CountN("shared_resolver_receivers_interleaved", overlaps)
	e.R.CountN("shared_resolver_lookups", int(lookups+later))
	e.R.CountN("shared_resolver_transfers_completed", transfersOK)
	e.R.Distinct(fmt.Sprintf("%s/k%d/%016x", c.Class, sc.Receivers, c13Hash(c)))
}

func c13SortedKeys(m map[string]bool) []string {
	out := make([]string, 0, len(m))
	for k := range m {
		out = append(out, k)
	}
	sort.Strings(out)
	return out
}

// c13SharedFinish writes what the sharing stage observed and its minimum
// observation requirements.
func c13SharedFinish(e *Env, st *c13SharedState) {
	tot := c13SharedAgg{}
	for _, l := range c13SharedLayouts {
		a := st.agg[l]
		tot.Cases += a.Cases
		tot.Rounds += a.Rounds
		tot.Passes += a.Passes
		tot.Lookups += a.Lookups
		tot.LaterLookups += a.LaterLookups
		tot.Overlapped += a.Overlapped
		tot.OverlapReached += a.OverlapReached
		tot.OtherRootExists += a.OtherRootExists
		tot.Transfers += a.Transfers
		tot.TransfersOK += a.TransfersOK
		tot.Failing += a.Failing
		tot.OrdinalPrefixes += a.OrdinalPrefixes
		tot.Receivers4 += a.Receivers4
		tot.SingleFileShared += a.SingleFileShared
		tot.MaxSharedPaths = max(tot.MaxSharedPaths, a.MaxSharedPaths)
		tot.MaxFileItems = max(tot.MaxFileItems, a.MaxFileItems)
	}
	e.R.SetExtra("shared_resolver_per_root_layout", st.agg)
	e.R.SetExtra("shared_resolver_totals", tot)
	e.R.SetExtra("shared_resolver_failing_by_key", st.failKeys)
	e.R.SetExtra("shared_resolver_processors", runtime.GOMAXPROCS(0))
	if st.sample != nil {
		e.R.SetExtra("shared_resolver_sample", st.sample)
	}
	vk.Logf("c13 shared resolver: %d cases, %d blocks, %d receivers served concurrently (%d interleaved with a receiver of another slot), %d + %d lookups, %d/%d real concurrent transfers completed, failing keys %v",
		tot.Cases, tot.Rounds, tot.Passes, tot.Overlapped, tot.Lookups, tot.LaterLookups, tot.TransfersOK, tot.Transfers, st.failKeys)

	if tot.Failing > 0 {
		return // a failing case stops its rounds early: the counts below say nothing then
	}
	e.R.Require(runtime.GOMAXPROCS(0) >= 2, "shared resolver: fewer than 2 processors, receivers cannot resolve at the same time")
	for _, l := range c13SharedLayouts {
		a := st.agg[l]
		e.R.Require(a.Cases >= e.Pick(6, 60), fmt.Sprintf("shared resolver, %s: only %d cases judged", l, a.Cases))
		e.R.Require(a.Overlapped >= e.Pick(3600, 36000), fmt.Sprintf("shared resolver, %s: only %d receivers during whose resolve loop the loop of another slot advanced (of %d served concurrently)", l, a.Overlapped, a.Passes))
	}
	e.R.Require(tot.OverlapReached*4 >= tot.Cases*3, fmt.Sprintf("shared resolver: only %d of %d cases reached the number of interleaved receivers they ask for", tot.OverlapReached, tot.Cases))
	e.R.Require(tot.OrdinalPrefixes >= e.Pick(6, 60), fmt.Sprintf("shared resolver: only %d cases with generated ordinal prefixes", tot.OrdinalPrefixes))
	e.R.Require(tot.Receivers4 >= e.Pick(6, 60), fmt.Sprintf("shared resolver: only %d cases with 4 receivers", tot.Receivers4))
	e.R.Require(tot.TransfersOK*10 >= tot.Transfers*9 && tot.TransfersOK >= e.Pick(40, 400), fmt.Sprintf("shared resolver: only %d of %d real concurrent transfers completed", tot.TransfersOK, tot.Transfers))
}
