//go:build verif

package main

// C13, the SPELLING of the hosted paths.
//
// The scanner (manifest.ScanPaths) and the host's resolver
// (app.buildPathResolver) each derive the top-level name of a shared path and
// the collision prefixes ("1_name", "2_name") on their own. c13.go gives them
// path lists whose elements are spelled canonically (absolute, clean) in all
// classes that have base-name collisions, and uses '.', relative paths,
// trailing slashes and dot segments only where no other path has the same
// base name. This file closes that gap: one hosted directory D = p0/<N> (with
// a sub-directory <S>) is spelled in every way a user can type it
//
//	.  ./  ./.  (in D)      ..  ../  ../.  (in D/S)      S/..  ./S/..  N/S/..
//	N/.  ./N/.  N  ./N  N/  N//  ../p0/N  .//N  ../N  absolute with trailing
//	slashes or dot segments, through a symlinked parent directory, as '.' in a
//	working directory entered through a link, as '/' '.' '//' in a chroot
//
// and is combined with 1..3 other given paths that carry the base name the
// spelled path DENOTES (p1/<N>, p2/<N>, D itself once more, '.' next to '..'
// when S is named like D), themselves spelled absolute / relative / with a
// trailing slash, in any order. Three quarters of the cases have such a
// collision, one quarter has differently named partners.
//
// The working directory (and $PWD, which os.Getwd and so filepath.Abs trust
// when it names the current directory, as after a shell `cd`) is process
// global, so the cases run in child processes (`verifharness c13spell`): a
// child materialises the tree, sets PWD, changes directory (or chroots), runs
// the real ScanPaths + buildPathResolver and the oracle of c13.go (c13Check)
// and reports the observation; the parent books it like every other case.
//
// Oracle: unchanged (every listed item resolves back to the entry it was taken
// from, size = readable bytes, (device,inode) multisets against the
// independent walk, distinct/sorted/clean rel paths, totals, rescan).
// Keys: "spell:<class>/<clause>". '.' in a working directory that was entered
// through a link makes filepath.Abs return the link, which is the recorded
// input class paths:symlink-dir-root (clause "missing" keeps that key).

import (
	"bufio"
	"bytes"
	"context"
	"encoding/json"
	"flag"
	"fmt"
	"os"
	"os/exec"
	"path/filepath"
	"regexp"
	"sort"
	"strings"
	"sync"
	"syscall"
	"time"

	vk "github.com/sheerbytes/sheerbytes/internal/verifkit"
)

func init() { childCommands["c13spell"] = c13SpellChild }

// ---------------------------------------------------------------- generator

// c13SpellTpl: T is the spelling of D with <N> = base name of D, <S> = name
// of its sub-directory, <L> = name of the link; Cwd is where the host stands:
// D, S (= D/S), P (= p0), B (= case base), L (= p9/<L> -> D), LP (= p9/<L> -> p0),
// LD (= p9/<L>/<N>), LS (= p9/<L>/<N>/<S>), R (= '/' of a chroot at the base).
type c13SpellTpl struct{ T, Cwd string }

var c13SpellTpls = map[string][]c13SpellTpl{
	"spell:dot":          {{".", "D"}, {"./", "D"}, {"./.", "D"}, {".//", "D"}, {"././", "D"}},
	"spell:dotdot":       {{"..", "S"}, {"../", "S"}, {"../.", "S"}, {"./..", "S"}, {"../<S>/..", "S"}},
	"spell:sub-dotdot":   {{"<S>/..", "D"}, {"./<S>/..", "D"}, {"<S>/../", "D"}, {"<S>/.././", "D"}, {"<N>/<S>/..", "P"}, {"{B}/p0/<N>/<S>/..", "B"}},
	"spell:trailing-dot": {{"<N>/.", "P"}, {"./<N>/.", "P"}, {"<N>/./", "P"}, {"{B}/p0/<N>/.", "B"}, {"../<N>/.", "D"}},
	"spell:relative": {{"<N>", "P"}, {"./<N>", "P"}, {"<N>/", "P"}, {"./<N>/", "P"}, {"<N>//", "P"}, {"../p0/<N>", "P"}, {".//<N>", "P"},
		{"p0/<N>", "B"}, {"./p0/<N>/", "B"}, {"../<N>", "D"}, {"../<N>/", "D"}},
	"spell:absolute": {{"{B}/p0/<N>/", "B"}, {"{B}/p0/<N>//", "B"}, {"{B}/p0/./<N>", "B"}, {"{B}/p0/../p0/<N>", "B"}, {"{B}//p0/<N>", "B"},
		{"{B}/p0/<N>/./", "B"}},
	"spell:via-symlinked-parent": {{"{B}/p9/<L>/<N>", "B"}, {"{B}/p9/<L>/<N>/", "B"}, {"<N>", "LP"}, {"./<N>/", "LP"}, {".", "LD"}, {"./", "LD"},
		{"..", "LS"}},
	"spell:symlinked-cwd": {{".", "L"}, {"./", "L"}, {"./.", "L"}},
	"spell:fs-root":       {{"/", "R"}, {".", "R"}, {"//", "R"}, {"/.", "R"}},
}

func c13SpellForm(class string, t c13SpellTpl) string {
	return strings.TrimPrefix(class, "spell:") + ": " + t.T + " @" + t.Cwd
}

// c13SpellGen builds case k of a spelled class: template k mod len, collision
// unless the round (k div len) is the fourth of four; the rest from r.
func c13SpellGen(id int, class string, k int, r *vk.Rng) c13Case {
	tpls := c13SpellTpls[class]
	if len(tpls) == 0 {
		panic("c13: unknown spelled class " + class)
	}
	t := tpls[k%len(tpls)]
	round := k / len(tpls)
	collide := round%4 != 3
	if class == "spell:fs-root" {
		collide = round%2 == 0
	}
	c := c13Case{ID: fmt.Sprintf("c13-s%05d", id), Class: class, Mode: "scanpaths", Spell: c13SpellForm(class, t), Collide: collide}
	b := &c13B{r: r, used: map[string]bool{}, pool: c13PlainPool}
	size := func() int { return c13Sizes[r.Intn(len(c13Sizes))] }

	n := b.pool[r.Intn(len(b.pool))]
	var d, s, sName, link string
	seenName := n // the base name the code under test derives for the spelled path
	if class == "spell:fs-root" {
		// D is the case base itself ('/' after the chroot)
		n, seenName = "", "root"
		x := b.rootDir(0, "")
		b.file(x+"/"+b.name(x), size())
		b.fill(x, 2)
	} else {
		d = b.rootDir(0, n)
		sName = b.nameNot(d, n)
		nested := class == "spell:dotdot" && t.T == ".." && collide && r.Intn(4) == 0
		if nested {
			sName = n // D/<N>: '.' and '..' then carry the same base name
		}
		s = b.dir(d + "/" + sName)
		b.file(s+"/"+b.name(s), size())
		b.file(d+"/"+b.name(d), size())
		b.fill(d, 2)
		if r.Bool() {
			b.fill(s, 1)
		}
		switch class {
		case "spell:symlinked-cwd":
			p9 := b.parent(9)
			link = b.nameNot(p9, n)
			seenName = link
			tgt := "{B}/" + d
			if r.Bool() {
				tgt = "../" + d
			}
			b.add(c13Node{Kind: "symlink", Rel: p9 + "/" + link, Target: tgt})
		case "spell:via-symlinked-parent":
			p9 := b.parent(9)
			link = b.name(p9)
			tgt := "{B}/p0"
			if r.Bool() {
				tgt = "../p0"
			}
			b.add(c13Node{Kind: "symlink", Rel: p9 + "/" + link, Target: tgt})
		}
		if nested {
			c.Paths = append(c.Paths, ".")
		}
	}
	switch t.Cwd {
	case "D":
		c.Cwd = d
	case "S":
		c.Cwd = s
	case "P":
		c.Cwd = "p0"
	case "B", "R":
		c.Cwd = "."
	case "L", "LP":
		c.Cwd = "p9/" + link
	case "LD":
		c.Cwd = "p9/" + link + "/" + n
	case "LS":
		c.Cwd = "p9/" + link + "/" + n + "/" + sName
	}
	spelled := strings.NewReplacer("<N>", n, "<S>", sName, "<L>", link).Replace(t.T)

	// the other given paths
	relOK := link == "" // the kernel resolves ../ against the physical directory, filepath.Abs against $PWD
	spellPartner := func(rel string, isDir bool) string {
		switch x := r.Intn(4); {
		case x == 0 || !relOK && x >= 2:
			return c13P(rel)
		case x == 1:
			if isDir {
				return c13P(rel) + "/"
			}
			return c13P(rel)
		}
		rp, err := filepath.Rel(filepath.Join("/", c.Cwd), filepath.Join("/", rel))
		if err != nil {
			return c13P(rel)
		}
		switch y := r.Intn(3); {
		case y == 0:
			return "./" + rp
		case y == 1 && isDir:
			return rp + "/"
		}
		return rp
	}
	mkPartner := func(i int, name string) string {
		if r.Intn(3) == 0 {
			return spellPartner(b.rootFile(i, name), false)
		}
		q := b.rootDir(i, name)
		b.file(q+"/"+b.name(q), 10+r.Intn(500))
		b.fill(q, 1)
		return spellPartner(q, true)
	}
	np := 1
	if r.Intn(3) == 0 {
		np = 2
	}
	others := map[string]bool{seenName: true, n: true}
	otherName := func() string {
		for {
			x := b.pool[r.Intn(len(b.pool))]
			if !others[x] {
				others[x] = true
				return x
			}
		}
	}
	for i := 1; i <= np; i++ {
		if collide {
			c.Paths = append(c.Paths, mkPartner(i, seenName))
		} else {
			c.Paths = append(c.Paths, mkPartner(i, otherName()))
		}
	}
	if collide && d != "" && class != "spell:symlinked-cwd" && r.Intn(6) == 0 {
		c.Paths = append(c.Paths, c13P(d)) // D once more, spelled canonically
	}
	if r.Intn(4) == 0 { // one more path whose base name is not shared
		name := otherName()
		if class == "spell:symlinked-cwd" && r.Bool() {
			name = n // the name of the directory the link points to: no collision for the code, which sees the link's name
		}
		c.Paths = append(c.Paths, mkPartner(np+1, name))
	}
	at := r.Intn(len(c.Paths) + 1)
	c.Paths = append(c.Paths[:at], append([]string{spelled}, c.Paths[at:]...)...)
	c.Nodes = b.nodes
	return c
}

// ---------------------------------------------------------------- child

type c13SpellIn struct {
	Work   string    `json:"work"`
	Chroot bool      `json:"chroot,omitempty"`
	Cases  []c13Case `json:"cases"`
}

type c13SpellOut struct {
	ID    string     `json:"id"`
	Start bool       `json:"start,omitempty"`
	Res   *c13Result `json:"res,omitempty"`
}

// c13SpellExec runs one spelled case in this (child) process.
func c13SpellExec(c c13Case, work string, chroot bool) c13Result {
	base := filepath.Join(work, c.ID)
	if err := c13Materialize(base, c.Nodes); err != nil {
		return c13Result{Setup: "materialize: " + err.Error()}
	}
	logical := filepath.Join(base, c.Cwd) // lexical: a link in it stays in it, as in a shell's $PWD
	os.Setenv("PWD", logical)
	if err := os.Chdir(logical); err != nil {
		return c13Result{Setup: "chdir: " + err.Error()}
	}
	if chroot {
		if err := syscall.Chroot(base); err != nil {
			return c13Result{Setup: "chroot: " + err.Error()}
		}
		os.Setenv("PWD", "/")
		if err := os.Chdir("/"); err != nil {
			return c13Result{Setup: "chdir /: " + err.Error()}
		}
		return c13Check(c, "", "/") // this process is spent
	}
	res := c13Check(c, base, logical)
	os.Setenv("PWD", work)
	os.Chdir(work)
	os.RemoveAll(base)
	return res
}

// c13SpellChild: verifharness c13spell -in cases.json -out results.jsonl
func c13SpellChild(args []string) int {
	fs := flag.NewFlagSet("c13spell", flag.ExitOnError)
	in := fs.String("in", "", "")
	out := fs.String("out", "", "")
	_ = fs.Parse(args)
	data, err := os.ReadFile(*in)
	if err != nil {
		fmt.Fprintln(os.Stderr, "c13spell:", err)
		return 3
	}
	var job c13SpellIn
	if err := json.Unmarshal(data, &job); err != nil {
		fmt.Fprintln(os.Stderr, "c13spell:", err)
		return 3
	}
	of, err := os.OpenFile(*out, os.O_CREATE|os.O_WRONLY|os.O_APPEND, 0644)
	if err != nil {
		fmt.Fprintln(os.Stderr, "c13spell:", err)
		return 3
	}
	defer of.Close()
	emit := func(o c13SpellOut) {
		line, _ := json.Marshal(o)
		of.Write(append(line, '\n'))
	}
	for _, c := range job.Cases {
		emit(c13SpellOut{ID: c.ID, Start: true})
		res := c13SpellExec(c, job.Work, job.Chroot)
		if len(res.Manifest.Items) > 60 {
			res.Manifest.Items = res.Manifest.Items[:60]
		}
		emit(c13SpellOut{ID: c.ID, Res: &res})
		if job.Chroot {
			break // one case per chroot
		}
	}
	return 0
}

// ---------------------------------------------------------------- parent

// c13RunSpelled distributes the spelled cases over child processes and books
// every observation through account. A case whose child died or did not
// answer has no verdict (inconclusive); the cases behind it get a new child.
func c13RunSpelled(e *Env, work string, cases []c13Case, account func(c13Case, string, c13Result)) {
	if len(cases) == 0 {
		return
	}
	const shards = 16
	var jobs [][]c13Case
	plain := make([][]c13Case, shards)
	chroot := map[int]bool{}
	k := 0
	for _, c := range cases {
		if c.Class == "spell:fs-root" {
			chroot[len(jobs)] = true
			jobs = append(jobs, []c13Case{c})
			continue
		}
		plain[k%shards] = append(plain[k%shards], c)
		k++
	}
	for _, p := range plain {
		if len(p) > 0 {
			jobs = append(jobs, p)
		}
	}
	vk.ParallelDo(len(jobs), shards, func(j int) {
		rest := jobs[j]
		for attempt := 0; len(rest) > 0; attempt++ {
			if attempt > 8 {
				for _, c := range rest {
					e.R.Eval()
					e.R.Inconcl(c.ID + " spelled-path child processes keep dying; case not executed")
				}
				return
			}
			rest = c13SpellJob(e, work, fmt.Sprintf("%d-%d", j, attempt), rest, chroot[j], account)
		}
	})
}

// c13SpellJob runs one child on cases and returns the cases it never started.
func c13SpellJob(e *Env, work, tag string, cases []c13Case, chroot bool, account func(c13Case, string, c13Result)) []c13Case {
	inPath := filepath.Join(work, "spell-"+tag+".in.json")
	outPath := filepath.Join(work, "spell-"+tag+".out.jsonl")
	defer os.Remove(inPath)
	defer os.Remove(outPath)
	data, _ := json.Marshal(c13SpellIn{Work: work, Chroot: chroot, Cases: cases})
	if err := os.WriteFile(inPath, data, 0644); err != nil {
		for _, c := range cases {
			e.R.Eval()
			e.R.Inconcl(c.ID + " spelled-path job file: " + err.Error())
		}
		return nil
	}
	// watchdog only: a child that does not finish yields no verdict
	ctx, cancel := context.WithTimeout(context.Background(), 20*time.Minute)
	defer cancel()
	cmd := exec.CommandContext(ctx, os.Args[0], "c13spell", "-in", inPath, "-out", outPath)
	cmd.Dir = work
	var stderr bytes.Buffer
	cmd.Stderr = &stderr
	runErr := cmd.Run()

	byID := map[string]c13Case{}
	for _, c := range cases {
		byID[c.ID] = c
	}
	started, done := map[string]bool{}, map[string]bool{}
	if f, err := os.Open(outPath); err == nil {
		sc := bufio.NewScanner(f)
		sc.Buffer(make([]byte, 1<<20), 64<<20)
		for sc.Scan() {
			var o c13SpellOut
			if json.Unmarshal(sc.Bytes(), &o) != nil {
				continue
			}
			c, ok := byID[o.ID]
			if !ok {
				continue
			}
			if o.Start {
				started[o.ID] = true
			}
			if o.Res != nil && !done[o.ID] {
				done[o.ID] = true
				e.R.Eval()
				account(c, filepath.Join(work, c.ID), *o.Res)
			}
		}
		f.Close()
	}
	var rest []c13Case
	for _, c := range cases {
		switch {
		case done[c.ID]:
		case started[c.ID] || chroot:
			tail := stderr.String()
			if len(tail) > 600 {
				tail = tail[len(tail)-600:]
			}
			e.R.Eval()
			e.R.Inconcl(fmt.Sprintf("%s spelled-path child ended without an answer for this case (%v): %s", c.ID, runErr, tail))
		default:
			rest = append(rest, c)
		}
		if done[c.ID] || started[c.ID] || chroot {
			os.RemoveAll(filepath.Join(work, c.ID))
		}
	}
	if runErr == nil && len(rest) > 0 { // exited cleanly without reaching them: do not loop
		for _, c := range rest {
			e.R.Eval()
			e.R.Inconcl(c.ID + " spelled-path child exited before this case")
		}
		return nil
	}
	return rest
}

// ---------------------------------------------------------------- evidence

type c13SpellFormAgg struct {
	Cases       int `json:"cases"`
	Collide     int `json:"cases_with_a_same_named_partner"`
	PrefixSeen  int `json:"cases_in_which_the_scanner_generated_ordinal_prefixes"`
	Items       int `json:"items_listed"`
	Lookups     int `json:"resolver_lookups"`
	FailingCase int `json:"cases_failing"`
}

type c13SpellAgg struct {
	mu    sync.Mutex
	Forms map[string]*c13SpellFormAgg
}

func c13NewSpellAgg() *c13SpellAgg { return &c13SpellAgg{Forms: map[string]*c13SpellFormAgg{}} }

var c13OrdinalTop = regexp.MustCompile(`^[0-9]+_`)

func c13SpellAccount(e *Env, sa *c13SpellAgg, c c13Case, o c13Obs) {
	prefixed := false
	for _, t := range o.Tops {
		if c13OrdinalTop.MatchString(t) {
			prefixed = true
		}
	}
	sa.mu.Lock()
	a := sa.Forms[c.Spell]
	if a == nil {
		a = &c13SpellFormAgg{}
		sa.Forms[c.Spell] = a
	}
	a.Cases++
	a.Items += o.Items
	a.Lookups += o.Lookups
	if c.Collide {
		a.Collide++
	}
	if prefixed {
		a.PrefixSeen++
	}
	if len(o.Fails) > 0 {
		a.FailingCase++
	}
	sa.mu.Unlock()
	e.R.Count("spelled_cases")
	if prefixed {
		e.R.Count("spelled_cases_with_ordinal_prefixes")
	}
}

func c13SpellFinish(e *Env, sa *c13SpellAgg) {
	sa.mu.Lock()
	defer sa.mu.Unlock()
	e.R.SetExtra("spelled_paths_by_form", sa.Forms)
	var tot c13SpellFormAgg
	for _, a := range sa.Forms {
		tot.Cases += a.Cases
		tot.Collide += a.Collide
		tot.PrefixSeen += a.PrefixSeen
		tot.Items += a.Items
		tot.Lookups += a.Lookups
		tot.FailingCase += a.FailingCase
	}
	e.R.SetExtra("spelled_paths_totals", tot)
	var missing []string
	classes := make([]string, 0, len(c13SpellTpls))
	for k := range c13SpellTpls {
		classes = append(classes, k)
	}
	sort.Strings(classes)
	for _, class := range classes {
		for _, t := range c13SpellTpls[class] {
			a := sa.Forms[c13SpellForm(class, t)]
			if a == nil || a.PrefixSeen == 0 || a.Cases == a.Collide {
				missing = append(missing, c13SpellForm(class, t))
			}
		}
	}
	vk.Logf("c13: spelled paths: %d cases over %d spellings, %d with a same-named partner, ordinal prefixes generated in %d, %d failing",
		tot.Cases, len(sa.Forms), tot.Collide, tot.PrefixSeen, tot.FailingCase)
	e.R.Require(len(missing) == 0, fmt.Sprintf("spelled paths: no completed case with a base-name collision and one without for the spelling(s) %v", missing))
	planned := 0
	for _, d := range c13Classes {
		if d.Spell {
			planned += e.Pick(d.SampleQ, d.SampleT)
		}
	}
	e.R.Require(tot.Cases*10 >= planned*9, fmt.Sprintf("spelled paths: only %d of %d cases completed", tot.Cases, planned))
	e.R.Require(tot.PrefixSeen*10 >= tot.Collide*9 && tot.Collide*2 >= planned,
		fmt.Sprintf("spelled paths: ordinal prefixes seen in %d cases, %d of %d cases have a same-named partner", tot.PrefixSeen, tot.Collide, planned))
}
